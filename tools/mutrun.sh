#!/bin/sh
# usage: mutrun.sh <patch-file> <property-id>...   (or "ALL")
# Applies the patch to a scratch copy of /repo (outside /repo and /verif), runs the
# static checks of the given properties on the copy, prints one line per property,
# and removes the copy.  Exit 0 always; output: "<prop> <exit> <n violations> <rules>"
set -u
VERIF="$(cd "$(dirname "$0")/.." && pwd)"
PATCH="$1"; shift
TMP="$(mktemp -d /tmp/icemut.XXXXXX)"
trap 'rm -rf "$TMP"' EXIT
rsync -a --exclude .git "${VERIF_REPO:-/repo}/" "$TMP/"
if ! (cd "$TMP" && git apply --whitespace=nowarn "$PATCH" 2>/dev/null || patch -p1 -s < "$PATCH" >/dev/null 2>&1); then
  echo "PATCH-DOES-NOT-APPLY $PATCH"; exit 0
fi
if [ "$1" = "ALL" ]; then
  # one load of the patched tree for all claimed properties
  OUT="$("${ICECHECK_BIN:-$VERIF/bin/icecheck}" -matrix -repo "$TMP" -verif "$VERIF" 2>&1)"
  if echo "$OUT" | grep -qE '^C[0-9]+ rc='; then echo "$OUT" | grep -E '^(C[0-9]+ rc=|INFRA)'; else echo "CHECKER-CRASH rc=2 violations=1 $(echo "$OUT" | head -3 | tr '\n' ' ')"; fi
  exit 0
fi
for P in "$@"; do
  OUT="$("$VERIF/bin/icecheck" -property "$P" -tier quick -repo "$TMP" -verif "$VERIF" -nocontrols -noevidence 2>&1)"; RC=$?
  RULES="$(echo "$OUT" | sed -n 's/^  rule=\([A-Z0-9-]*\) status=\([a-z]*\) at \([^ ]*\) in \(.*\)$/\1@\4/p' | sort -u | tr '\n' ' ')"
  N="$(echo "$OUT" | grep -c '^VIOLATION')"
  echo "$P rc=$RC violations=$N $RULES"
  if [ "$RC" = 2 ]; then echo "$OUT" | grep INFRA | head -3; fi
done
