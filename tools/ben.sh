#!/bin/bash
# usage: ben.sh <abs patch>... : run all properties on each patch, print alarms or "silent"
for p in "$@"; do
  out=$(/verif/tools/mutrun.sh $p ALL | grep -v "rc=0")
  if [ -z "$out" ]; then echo "$(basename $p): silent"; else echo "$(basename $p):"; echo "$out"; fi
done
