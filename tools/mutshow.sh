#!/bin/bash
# usage: mutshow.sh <abs patch> <prop> : apply patch to a scratch copy, run one property verbosely
set -u
P=$1; ID=$2
T=$(mktemp -d /tmp/icemut.XXXXXX)
trap 'rm -rf $T' EXIT
rsync -a --exclude .git ${VERIF_REPO:-/repo}/ $T/
(cd $T && git apply --whitespace=nowarn $P) || { echo "patch does not apply"; exit 2; }
${ICECHECK_BIN:-/verif/bin/icecheck} -property $ID -tier quick -repo $T -verif /verif -nocontrols -noevidence 2>&1 | grep -v "^  rule .* instances=" | head -${3:-40}
