#!/usr/bin/env python3
"""Regenerates the table of DESIGN.md §10.2 from /tmp/matrix_breaking.txt (written by tools/regen_expect.sh)
and the first line of each seeded change's notes.  Prints markdown to stdout."""
import re,os,sys
V=os.path.dirname(os.path.dirname(os.path.abspath(__file__)))
rows=[]
for l in open('/tmp/matrix_breaking.txt'):
    m=re.match(r'(\S+) => (.*)',l)
    if not m: continue
    path,res=m.group(1),m.group(2)
    rel=os.path.relpath(path,V)
    name=os.path.basename(os.path.dirname(rel)) if rel.startswith('seeded') else os.path.basename(rel).replace('.patch','')
    what=''
    n=os.path.join(os.path.dirname(path),'notes.md')
    if rel.startswith('seeded') and os.path.exists(n):
        t=open(n).read().strip().splitlines()
        first=next((x for x in t if x.strip() and not re.match(r'^property:\s*C\d\d\s*$',x.strip())),'')
        first=re.sub(r'^#+\s*','',first)
        first=re.sub(r'^(C\d\d|X\d|Y\d)\s*/?\s*M\d\s*(\(round \d\))?\s*[-—:]*\s*','',first)
        first=re.sub(r'^M\d\s*-\s*property broken:\s*','breaks ',first)
        if re.search(r'property broken|^breaks C\d\d|^property:',first):
            body=' '.join(open(n).read().split())
            mm=re.search(r'(?:Change|What)\b[^:]{0,60}:\s*(.{20,400})',body)
            if mm: first=mm.group(1)
        what=first[:120].replace('|','/')
    elif name.startswith('D') or name.startswith('M'):
        what='reverse patch of repair '+name.rstrip('r') if name.startswith('D') else 'hand-written: shared decompression buffer variant'
    props=sorted(set(re.findall(r'(C\d\d) rc=1',res)))
    rules=sorted(set(r.split('@')[0] for r in re.findall(r'([A-Z][A-Z0-9-]+@)',res)))
    rules=[r.rstrip('@') for r in rules]
    rows.append((name,what,', '.join(rules) if rules else '**none**',' '.join(props) if props else '—'))
rows.sort()
print('| change | what it is (first line of its notes) | reported by rule(s) | under |')
print('|---|---|---|---|')
for r in rows: print('| '+' | '.join(r)+' |')
