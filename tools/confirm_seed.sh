#!/bin/sh
# usage: confirm_seed.sh <Cxx> <k>   — confirm seeded mutant k of property Cxx in a scratch worktree
# checks: patch applies; go build; go vet; full suite passes with the patch; demo fails with it; demo passes without.
set -u
export GOFLAGS=-mod=mod GOPROXY=off GOSUMDB=off GOTOOLCHAIN=local
ID="$1"; K="$2"; SRC="${SEED_SRC:-/tmp/seed/out}/$ID"; 
W="$(mktemp -d /tmp/seedchk.XXXXXX)"; rmdir "$W"
git -C /repo worktree add -q --detach "$W" HEAD || { echo "$ID m$K worktree-failed"; exit 0; }
cleanup() { git -C /repo worktree remove --force "$W" >/dev/null 2>&1; rm -rf "$W"; }
trap cleanup EXIT
cd "$W"
R="applies=no"
if git apply "$SRC/m$K.patch" 2>/dev/null; then R="applies=yes"; else echo "$ID m$K $R"; exit 0; fi
if go build ./... >/dev/null 2>&1; then R="$R build=ok"; else R="$R build=FAIL"; fi
if go vet . >/dev/null 2>&1; then R="$R vet=ok"; else R="$R vet=FAIL"; fi
if go test -vet=off -count=1 ./... >/dev/null 2>&1; then R="$R suite=pass"; else R="$R suite=FAIL"; fi
cp "$SRC/m${K}_test.go" "zz_seed_${ID}_m${K}_test.go"
RACE=""; grep -qi "race" "$SRC/m$K.md" 2>/dev/null && grep -qi "needs .*-race\|with -race\|under -race" "$SRC/m$K.md" && RACE="-race"
if go test -vet=off -count=1 $RACE -timeout 600s -run "TestSeeded${ID}M${K}\$" . >/tmp/seedchk.$ID.$K.mut.log 2>&1; then R="$R demo_with_patch=PASS(bad)"; else R="$R demo_with_patch=fail(good)"; fi
git checkout -q -- . 
if go test -vet=off -count=1 $RACE -timeout 600s -run "TestSeeded${ID}M${K}\$" . >/tmp/seedchk.$ID.$K.head.log 2>&1; then R="$R demo_on_head=pass(good)"; else R="$R demo_on_head=FAIL(bad)"; fi
echo "$ID m$K $R race=${RACE:-no}"
