#!/bin/sh
# usage: matrix.sh <dir-with-patches-glob>...   runs every patch against ALL claimed properties (parallel)
VERIF="$(cd "$(dirname "$0")/.." && pwd)"
for p in "$@"; do echo "$p"; done | xargs -P 8 -I{} sh -c 'out=$('"$VERIF"'/tools/mutrun.sh {} ALL | grep -v "rc=0 violations=0" | tr "\n" ";"); echo "{} => ${out:-MISSED}"' | sort
