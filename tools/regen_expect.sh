#!/bin/sh
# Recomputes mutants/expect.json from the current checker: runs every breaking patch (reverse fixes, seeded) and
# every benign patch against every claimed property.  Maintenance tool; the thorough tier only READS expect.json.
VERIF="$(cd "$(dirname "$0")/.." && pwd)"
"$VERIF"/tools/matrix.sh "$VERIF"/seeded/*/patch.diff "$VERIF"/mutants/*.patch > /tmp/matrix_breaking.txt 2>&1
"$VERIF"/tools/matrix.sh "$VERIF"/mutants/benign/*.patch > /tmp/matrix_benign.txt 2>&1
python3 - "$VERIF" <<'PY'
import re,json,sys,os,glob
V=sys.argv[1]
exp={'breaking':{},'benign':[]}
for l in open('/tmp/matrix_breaking.txt'):
    m=re.match(r'(\S+) => (.*)',l)
    if not m: continue
    rel=os.path.relpath(m.group(1),V)
    props=sorted(set(re.findall(r'(C\d\d) rc=1',m.group(2))))
    tgt=os.path.basename(os.path.dirname(rel)).split('-')[0] if rel.startswith('seeded') else 'reverse of a fix commit'
    exp['breaking'][rel]={'caught_by':props,'targets':tgt}
alarms=[]
for l in open('/tmp/matrix_benign.txt'):
    m=re.match(r'(\S+) => (.*)',l)
    if not m: continue
    rel=os.path.relpath(m.group(1),V)
    exp['benign'].append(rel)
    if 'MISSED' not in m.group(2): alarms.append(l.strip())
exp['benign'].sort()
exp['comment']='Expectations of the both-ways self test (thorough tier): every breaking patch must be reported by each property in caught_by; every benign patch must leave every property silent. Patches are applied to a scratch copy of the CURRENT /repo; one that no longer applies is skipped and counted. Regenerate with tools/regen_expect.sh.'
json.dump(exp,open(V+'/mutants/expect.json','w'),indent=1,sort_keys=True)
nb=len(exp['breaking']); miss=[k for k,v in exp['breaking'].items() if not v['caught_by']]
print('breaking',nb,'missed',len(miss),miss); print('benign',len(exp['benign']),'alarms',len(alarms)); [print(a[:200]) for a in alarms]
PY
