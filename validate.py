#!/usr/bin/env python3
# validates MANIFEST.json and every evidence file against the harness schemas
import json,sys,glob
import jsonschema
m=json.load(open('/verif/MANIFEST.json')); jsonschema.validate(m,json.load(open('/root/.vp/MANIFEST.schema.json')))
ids=[l for l in (json.loads(x)['id'] for x in open('/verif/properties.jsonl'))]
claimed=[c['property_id'] for c in m['checks']]; na=[n['property_id'] for n in m.get('not_applicable',[])]
assert sorted(claimed+na)==sorted(ids), (sorted(set(ids)-set(claimed+na)), [x for x in claimed if x in na])
es=json.load(open('/root/.vp/EVIDENCE.schema.json'))
for c in m['checks']:
    try:
        e=json.load(open(c['evidence_file'])); jsonschema.validate(e,es)
        assert e['property_id']==c['property_id'] and e['level']==c['level_claimed']['category']
    except FileNotFoundError:
        print('missing evidence',c['property_id'])
print('manifest ok: claimed',len(claimed),'n/a',len(na))
