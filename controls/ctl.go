// Package ctl holds tiny positive and negative examples for the analysis
// engines of icecheck.  It is analysed (never executed) at the start of every
// check run: each Bad* construct must be reported and each Good* one must not,
// otherwise the run fails as "engine broken".  This keeps rules whose expected
// count on the real tree is zero from passing vacuously.
package ctl

import (
	"encoding/binary"
	"errors"
	"fmt"
	"hash/crc32"
	"io"
	"sort"
	"sync"
)

type box struct {
	m     sync.Mutex
	cache map[int]int
	buf   []byte
	items []int
	err   error
}

// ---- E2 lockset -----------------------------------------------------------

func (b *box) BadLockLeak(k int, r io.Reader) (int, error) {
	b.m.Lock()
	if v, ok := b.cache[k]; ok {
		b.m.Unlock()
		return v, nil
	}
	var p [1]byte
	if _, err := r.Read(p[:]); err != nil {
		return 0, err // leaks b.m
	}
	b.cache[k] = int(p[0])
	b.m.Unlock()
	return int(p[0]), nil
}

func (b *box) GoodLockDefer(k int, r io.Reader) (int, error) {
	b.m.Lock()
	defer b.m.Unlock()
	if v, ok := b.cache[k]; ok {
		return v, nil
	}
	var p [1]byte
	if _, err := r.Read(p[:]); err != nil {
		return 0, err
	}
	b.cache[k] = int(p[0])
	return int(p[0]), nil
}

func (b *box) GoodLockAllPaths(k int) int {
	b.m.Lock()
	if v, ok := b.cache[k]; ok {
		b.m.Unlock()
		return v
	}
	b.m.Unlock()
	return -1
}

func (b *box) BadCallbackUnderLock(f func(int)) {
	b.m.Lock()
	f(len(b.cache))
	b.m.Unlock()
}

// ---- E4 error flow --------------------------------------------------------

func BadErrDropped(w io.Writer, p []byte) error {
	w.Write(p)
	return nil
}

func BadErrBlank(w io.Writer, p []byte) error {
	_, _ = w.Write(p)
	return nil
}

func BadErrSwallowed(w io.Writer, p []byte) error {
	_, err := w.Write(p)
	if err != nil {
		return nil
	}
	return nil
}

func BadErrOverwritten(w io.Writer, p, q []byte) error {
	_, err := w.Write(p)
	_, err = w.Write(q)
	return err
}

func BadErrUnrelatedReturn(w io.Writer, p []byte, other error) error {
	_, err := w.Write(p)
	if err != nil {
		return other
	}
	return nil
}

func GoodErrReturned(w io.Writer, p []byte) (int, error) {
	return w.Write(p)
}

func GoodErrChecked(w io.Writer, p []byte) error {
	n, err := w.Write(p)
	if err != nil {
		return fmt.Errorf("short write after %d bytes: %w", n, err)
	}
	return nil
}

func GoodErrSentinel(r io.Reader, p []byte) (int, error) {
	n, err := r.Read(p)
	if err != nil && err != io.EOF {
		return 0, err
	}
	return n, nil
}

// tagged switch on the error: every class of outcome is handled / one is dropped
func GoodErrSwitch(r io.Reader, p []byte) (int, error) {
	n, err := r.Read(p)
	switch err {
	case nil:
		return n, nil
	case io.EOF:
		return 0, nil
	default:
		return 0, err
	}
}

func BadErrSwitch(r io.Reader, p []byte) (int, error) {
	n, err := r.Read(p)
	switch err {
	case nil:
		return n, nil
	case io.EOF:
		return 0, nil
	default:
		return n, nil
	}
}

func GoodErrLoop(r io.Reader, p []byte) (total int, err error) {
	var n int
	for err == nil {
		n, err = r.Read(p)
		total += n
	}
	if err != io.EOF {
		return total, err
	}
	return total, nil
}

func GoodErrNamedResult(w io.Writer, p []byte) (n int, err error) {
	n, err = w.Write(p)
	if err != nil {
		return
	}
	return n, nil
}

var errSticky = errors.New("sticky")

func (b *box) GoodErrStickyField(r io.Reader) int {
	if b.err != nil {
		return 0
	}
	var p [1]byte
	_, b.err = r.Read(p[:])
	return int(p[0])
}

// ---- look-ahead clamp ------------------------------------------------------

func BadLookahead(buf []byte, off int) uint64 {
	v, _ := binary.Uvarint(buf[off : off+binary.MaxVarintLen64])
	return v
}

func GoodLookahead(buf []byte, off int) uint64 {
	end := off + binary.MaxVarintLen64
	if end > len(buf) {
		end = len(buf)
	}
	v, _ := binary.Uvarint(buf[off:end])
	return v
}

// ---- constant index into a slice of variable length -------------------------

func BadConstIndex(n int) []uint64 {
	t := make([]uint64, n)
	t[0] = 1
	return t
}

func GoodConstIndexGuarded(n int) []uint64 {
	t := make([]uint64, n)
	if n > 0 {
		t[0] = 1
	}
	return t
}

func GoodConstIndexByConstruction(n int) []uint64 {
	t := make([]uint64, n+1)
	t[0] = 1
	return t
}

// ---- index of a loop over a sub-slice ------------------------------------------

func BadSubSliceIndex(xs []int, a, b int) int {
	t := 0
	for i := range xs[a:b] {
		t += xs[i]
	}
	return t
}

func GoodSubSliceIndex(xs []int, a, b int) int {
	t := 0
	run := xs[a:b]
	for i := range run {
		t += run[i]
	}
	return t
}

// ---- append-style helper whose result is dropped -------------------------------

func appendTwice(dst []int, v int) []int { return append(dst, v, v) }

func BadAppendResultDropped(xs []int) []int {
	appendTwice(xs, 1)
	return xs
}

func GoodAppendResultUsed(xs []int) []int {
	xs = appendTwice(xs, 1)
	return xs
}

// ---- length measured before a loop that appends ---------------------------------

type recBuf struct {
	data []byte
	offs []int
}

func (r *recBuf) BadStaleLen(vals [][]byte) {
	start := len(r.data)
	for _, v := range vals {
		r.offs = append(r.offs, start)
		r.data = append(r.data, v...)
	}
}

func (r *recBuf) GoodFreshLen(vals [][]byte) {
	for _, v := range vals {
		start := len(r.data)
		r.offs = append(r.offs, start)
		r.data = append(r.data, v...)
	}
}

// ---- E5 provenance ---------------------------------------------------------

type Bits struct{ w []uint64 }

func (b *Bits) Set(i uint)      { b.w[i/64] |= 1 << (i % 64) }
func (b *Bits) Has(i uint) bool { return b.w[i/64]&(1<<(i%64)) != 0 }
func NewBits(n int) *Bits       { return &Bits{w: make([]uint64, (n+63)/64)} }

type holder struct{ drops []*Bits }

func Keep(drops []*Bits) *holder { return &holder{drops: drops} }

func (h *holder) BadMutateCaller(i int) {
	normalise(h.drops[i])
}

func normalise(b *Bits) { b.Set(0) }

func GoodMutateFresh(n int) *Bits {
	b := NewBits(n)
	mark(b)
	return b
}

func mark(b *Bits) { b.Set(1) }

var shared = &box{}

func BadWriteGlobal(k, v int) { shared.cache[k] = v }

func GoodWriteLocal(k, v int) *box {
	b := &box{cache: map[int]int{}}
	b.cache[k] = v
	return b
}

// singleton guard
func BadSingleton(b *box) *box {
	if b == nil {
		b = &box{}
	}
	b.items = b.items[:0]
	return b
}

func GoodSingleton(b *box) *box {
	if b == nil || b == shared {
		b = &box{}
	}
	b.items = b.items[:0]
	return b
}

func useSingletons() {
	BadSingleton(shared)
	GoodSingleton(shared)
}

// ---- reset completeness ------------------------------------------------------

func (b *box) BadResetPartial(n int) {
	for i := 0; i < n; i++ {
		b.items[i] = 0
	}
	b.items = b.items[:0]
}

func (b *box) GoodResetFull() {
	for i := range b.items {
		b.items[i] = 0
	}
	b.items = b.items[:0]
}

// path coverage: field set on every path / only on some
func (b *box) GoodSetAllPaths(c bool) {
	if c {
		b.buf = nil
	} else {
		b.buf = b.buf[:0]
	}
}

func (b *box) BadSetSomePaths(c bool) {
	if c {
		b.buf = nil
	}
}

// ---- wire signatures ----------------------------------------------------------

func WireWriter(w io.Writer, a uint64, name []byte, vals []uint64) error {
	buf := make([]byte, binary.MaxVarintLen64)
	n := binary.PutUvarint(buf, a)
	if _, err := w.Write(buf[:n]); err != nil {
		return err
	}
	if _, err := w.Write(name); err != nil {
		return err
	}
	for _, v := range vals {
		if err := binary.Write(w, binary.BigEndian, v); err != nil {
			return err
		}
	}
	return binary.Write(w, binary.BigEndian, uint32(len(vals)))
}

func WireWriterLE(w io.Writer, v uint32) error {
	return binary.Write(w, binary.LittleEndian, v)
}

func WireReader(b []byte) (a uint64, n uint32) {
	a, k := binary.Uvarint(b)
	for i := 0; i < 2; i++ {
		_ = binary.BigEndian.Uint64(b[k+8*i:])
	}
	n = binary.BigEndian.Uint32(b[k+16:])
	return a, n
}

// SEARCH-HIT
type keyed struct {
	Key uint64
	End uint64
}

func BadSearchNoHitTest(tbl []keyed, k uint64) (uint64, bool) {
	i := sort.Search(len(tbl), func(i int) bool { return tbl[i].Key >= k })
	if i == len(tbl) {
		return 0, false
	}
	return tbl[i].End, true
}

func GoodSearchHitTest(tbl []keyed, k uint64) (uint64, bool) {
	i := sort.Search(len(tbl), func(i int) bool { return tbl[i].Key >= k })
	if i == len(tbl) || tbl[i].Key != k {
		return 0, false
	}
	return tbl[i].End, true
}

// ADVANCE-LOST
func fileChunk(chunk []uint64, next uint64, out []uint64) {
	for _, v := range chunk {
		out[next] = v
		next++
	}
}

func fileChunkAdvancing(chunk []uint64, next uint64, out []uint64) uint64 {
	for _, v := range chunk {
		out[next] = v
		next++
	}
	return next
}

func BadAdvanceLost(chunks [][]uint64, out []uint64) {
	next := uint64(0)
	for _, ch := range chunks {
		fileChunk(ch, next, out)
	}
}

func GoodAdvanceKept(chunks [][]uint64, out []uint64) {
	next := uint64(0)
	for _, ch := range chunks {
		next = fileChunkAdvancing(ch, next, out)
	}
}

// VALUE-RECORD-COMPLETE
func BadValueSkipped(vals [][]byte, enc func(uint64) (int, error), data []byte) ([]byte, error) {
	for _, v := range vals {
		if len(v) == 0 {
			continue
		}
		if _, err := enc(uint64(len(data))); err != nil {
			return nil, err
		}
		if _, err := enc(uint64(len(v))); err != nil {
			return nil, err
		}
		data = append(data, v...)
	}
	return data, nil
}

func GoodEveryValue(vals [][]byte, enc func(uint64) (int, error), data []byte) ([]byte, error) {
	for _, v := range vals {
		if _, err := enc(uint64(len(data))); err != nil {
			return nil, err
		}
		if _, err := enc(uint64(len(v))); err != nil {
			return nil, err
		}
		data = append(data, v...)
	}
	return data, nil
}

// CHUNK-START-INCLUSIVE
type chunked struct{ chunkSize uint64 }

func (c *chunked) BadChunkStartStrict(doc, chunk uint64) bool {
	return doc > chunk*c.chunkSize
}

func (c *chunked) GoodChunkStartInclusive(doc, chunk uint64) bool {
	return doc >= chunk*c.chunkSize
}

// MEMO-PRIMED
type table struct{ rows map[string][]int }

func (t *table) lookup(name string) []int { return t.rows[name] }

func BadMemoZeroSentinel(t *table, names []string) int {
	n := 0
	var last string
	var rows []int
	for _, name := range names {
		if name != last {
			rows = t.lookup(name)
			last = name
		}
		n += len(rows)
	}
	return n
}

func GoodMemoFirstRound(t *table, names []string) int {
	n := 0
	var last string
	var rows []int
	for i, name := range names {
		if i == 0 || name != last {
			rows = t.lookup(name)
			last = name
		}
		n += len(rows)
	}
	return n
}

func GoodMemoValueTest(t *table, names []string) int {
	n := 0
	var last string
	var rows []int
	for _, name := range names {
		if rows == nil || name != last {
			rows = t.lookup(name)
			last = name
		}
		n += len(rows)
	}
	return n
}

// NARROW-GUARD
type cursor struct{ at uint32 }

func (c *cursor) seek(to uint32) { c.at = to }

type Scanner struct{ c cursor }

func (s *Scanner) BadSeekNarrowed(to uint64) { s.seekTo(to) }

func (s *Scanner) seekTo(to uint64) { s.c.seek(uint32(to)) }

func (s *Scanner) GoodSeekGuarded(to uint64) {
	if to > 0xffffffff {
		s.c.at = 0xffffffff
		return
	}
	s.seekChecked(to)
}

func (s *Scanner) seekChecked(to uint64) { s.c.seek(uint32(to)) }

// LOCS-IMPLY-FREQNORM
type flagged struct {
	includeFreqNorm bool
	includeLocs     bool
}

func BadFlagsLocsWithoutFreqNorm(f *flagged, freq, norm, locs bool) {
	f.includeFreqNorm = freq || norm
	f.includeLocs = locs
}

func GoodFlagsLocsImplyFreqNorm(f *flagged, freq, norm, locs bool) {
	f.includeFreqNorm = freq || norm || locs
	f.includeLocs = locs
}

// MEMO-COMMIT
type rowCache struct {
	row  int
	data []int
}

func (c *rowCache) fetch(row int) error {
	if row < 0 {
		return errors.New("no such row")
	}
	c.data = append(c.data[:0], row)
	return nil
}

func (c *rowCache) BadCommitBeforeLoad(row int) ([]int, error) {
	if row != c.row {
		c.row = row
		if err := c.fetch(row); err != nil {
			return nil, err
		}
	}
	return c.data, nil
}

func (c *rowCache) GoodCommitAfterLoad(row int) ([]int, error) {
	if row != c.row {
		if err := c.fetch(row); err != nil {
			return nil, err
		}
		c.row = row
	}
	return c.data, nil
}

// EMPTY-MEANS-BOTH
type PostingsList struct {
	postings     *[]uint32
	normBits1Hit uint64
	docNum1Hit   uint64
}

func (p *PostingsList) BadEmptyBeforeOneHit(out *[]uint32) {
	if p.postings == nil {
		return
	}
	if p.normBits1Hit != 0 {
		*out = append(*out, uint32(p.docNum1Hit))
		return
	}
	*out = append(*out, *p.postings...)
}

func (p *PostingsList) GoodOneHitFirst(out *[]uint32) {
	if p.normBits1Hit != 0 {
		*out = append(*out, uint32(p.docNum1Hit))
		return
	}
	if p.postings == nil {
		return
	}
	*out = append(*out, *p.postings...)
}

// EMPTY-VS-NIL
type runState struct {
	prev []byte
	n    int
}

func (s *runState) step(cur []byte) {
	if s.prev == nil || !bytesEqual(s.prev, cur) {
		s.n++
	}
	s.prev = append(s.prev[:0], cur...)
}

func (s *runState) BadResetKeepsBuffer() {
	s.prev = s.prev[:0]
	s.n = 0
}

func (s *runState) GoodResetToNil() {
	s.prev = nil
	s.n = 0
}

func bytesEqual(a, b []byte) bool { return string(a) == string(b) }

// FLUSH-SITES-AGREE

// Bitmap stands in for the postings bitmap.
type Bitmap struct{ bits []uint64 }

func (b *Bitmap) Or(o *Bitmap) {
	for i := range o.bits {
		if i < len(b.bits) {
			b.bits[i] |= o.bits[i]
		}
	}
}

func (b *Bitmap) Clear() { b.bits = b.bits[:0] }

func flushTermCtl(w io.Writer, term *Bitmap) error {
	var buf [8]byte
	binary.BigEndian.PutUint64(buf[:], uint64(len(term.bits)))
	_, err := w.Write(buf[:])
	term.Clear()
	return err
}

func BadFlushSitesLastTermUntracked(w io.Writer, terms [][]uint64, seen *Bitmap) error {
	cur := &Bitmap{}
	for i, t := range terms {
		if i > 0 {
			seen.Or(cur)
			if err := flushTermCtl(w, cur); err != nil {
				return err
			}
		}
		cur.bits = append(cur.bits, t...)
	}
	return flushTermCtl(w, cur) // the last term never reaches seen
}

func GoodFlushSitesAllTracked(w io.Writer, terms [][]uint64, seen *Bitmap) error {
	cur := &Bitmap{}
	for i, t := range terms {
		if i > 0 {
			seen.Or(cur)
			if err := flushTermCtl(w, cur); err != nil {
				return err
			}
		}
		cur.bits = append(cur.bits, t...)
	}
	seen.Or(cur)
	return flushTermCtl(w, cur)
}

// SEEN-UNCONDITIONAL

type ctlField interface {
	Name() int
	Terms() int
}

type ctlDoc interface{ EachField(func(ctlField)) }

type ctlBuilder struct{ FieldDocs map[int]uint64 }

func (s *ctlBuilder) BadSeenOnlyWithTerms(d ctlDoc) {
	seen := map[int]struct{}{}
	d.EachField(func(f ctlField) {
		if f.Terms() > 0 {
			seen[f.Name()] = struct{}{}
		}
	})
	for k := range seen {
		s.FieldDocs[k]++
	}
}

func (s *ctlBuilder) GoodSeenAlways(d ctlDoc) {
	seen := map[int]struct{}{}
	d.EachField(func(f ctlField) {
		seen[f.Name()] = struct{}{}
	})
	for k := range seen {
		s.FieldDocs[k]++
	}
}

// KEY-NIL-AMBIGUOUS

// Iterator stands in for the FST iterator: Current() hands out a nil key for
// the empty key as well as when it is exhausted.
type Iterator interface {
	Current() ([]byte, uint64)
	Next() error
}

type lowTracker struct {
	keys [][]byte
	vals []uint64
	low  []byte
	idxs []int
}

func (t *lowTracker) load(itrs []Iterator) {
	for i, it := range itrs {
		t.keys[i], t.vals[i] = it.Current()
	}
}

func (t *lowTracker) BadNilKeyMeansUnset() {
	t.low = nil
	t.idxs = t.idxs[:0]
	for i, k := range t.keys {
		if k == nil && t.vals[i] == 0 {
			continue
		}
		if c := compareCtl(k, t.low); c < 0 || t.low == nil {
			t.low = k
			t.idxs = append(t.idxs[:0], i)
		} else if c == 0 {
			t.idxs = append(t.idxs, i)
		}
	}
}

func (t *lowTracker) GoodCountMeansUnset() {
	t.low = nil
	t.idxs = t.idxs[:0]
	for i, k := range t.keys {
		if k == nil && t.vals[i] == 0 {
			continue
		}
		if c := compareCtl(k, t.low); c < 0 || len(t.idxs) == 0 {
			t.low = k
			t.idxs = append(t.idxs[:0], i)
		} else if c == 0 {
			t.idxs = append(t.idxs, i)
		}
	}
}

func compareCtl(a, b []byte) int {
	for i := 0; i < len(a) && i < len(b); i++ {
		if a[i] != b[i] {
			if a[i] < b[i] {
				return -1
			}
			return 1
		}
	}
	return len(a) - len(b)
}

// CLOSE-BEFORE-SIZE

type ctlCoder struct {
	pending []byte
	final   []byte
}

func (c *ctlCoder) Close()         { c.final = append(c.final, c.pending...); c.pending = c.pending[:0] }
func (c *ctlCoder) FinalSize() int { return len(c.final) }

func BadSizeBeforeClose(enc *ctlCoder) bool {
	hasData := enc.FinalSize() > 0
	enc.Close()
	return hasData
}

func GoodSizeAfterClose(enc *ctlCoder) bool {
	enc.Close()
	return enc.FinalSize() > 0
}

// WRAPPED-WRITER-HASHED / THREADED-RESULT

type ctlHashWriter struct {
	w   io.Writer
	crc uint32
	n   int
}

func (c *ctlHashWriter) Write(b []byte) (int, error) {
	n, err := c.w.Write(b)
	c.crc = crc32.Update(c.crc, crc32.IEEETable, b[:n])
	c.n += n
	return n, err
}

// BadReadFromUnhashed lets the destination take the bytes directly: counted, not hashed.
func (c *ctlHashWriter) BadReadFromUnhashed(r io.Reader) (int64, error) {
	rf, ok := c.w.(io.ReaderFrom)
	if !ok {
		return io.Copy(c, r)
	}
	n, err := rf.ReadFrom(r)
	c.n += int(n)
	return n, err
}

type ctlHashOnly struct{ c *ctlHashWriter }

func (h ctlHashOnly) Write(b []byte) (int, error) {
	h.c.crc = crc32.Update(h.c.crc, crc32.IEEETable, b)
	return len(b), nil
}

func (c *ctlHashWriter) GoodReadFromTeed(r io.Reader) (int64, error) {
	rf, ok := c.w.(io.ReaderFrom)
	if !ok {
		return io.Copy(c, r)
	}
	n, err := rf.ReadFrom(io.TeeReader(r, ctlHashOnly{c}))
	c.n += int(n)
	return n, err
}

func BadThreadedCursorReset(vals [][]byte, curr int, data []byte) (int, []byte, error) {
	if len(vals) == 0 {
		return 0, nil, nil
	}
	for _, v := range vals {
		if len(v) > 1<<20 {
			return 0, nil, errors.New("value too long")
		}
		data = append(data, v...)
		curr += len(v)
	}
	return curr, data, nil
}

func GoodThreadedCursorKept(vals [][]byte, curr int, data []byte) (int, []byte, error) {
	if len(vals) == 0 {
		return curr, data, nil
	}
	for _, v := range vals {
		if len(v) > 1<<20 {
			return 0, nil, errors.New("value too long")
		}
		data = append(data, v...)
		curr += len(v)
	}
	return curr, data, nil
}

func threadedCallersCtl(all [][][]byte) ([]byte, []byte, error) {
	var a, b []byte
	ca, cb := 0, 0
	var err error
	for _, vals := range all {
		ca, a, err = BadThreadedCursorReset(vals, ca, a)
		if err != nil {
			return nil, nil, err
		}
		cb, b, err = GoodThreadedCursorKept(vals, cb, b)
		if err != nil {
			return nil, nil, err
		}
	}
	return a[:ca], b[:cb], nil
}
