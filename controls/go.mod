module controls

go 1.16
