#!/bin/sh
# usage: check.sh <property-id> <quick|thorough> [extra icecheck flags]
# Builds the checker if needed (offline), then analyses /repo's current working tree.
set -u
VERIF="$(cd "$(dirname "$0")" && pwd)"
export GOFLAGS=-mod=mod GOPROXY=off GOSUMDB=off GOTOOLCHAIN=local GOWORK=off
unset GOWORK_FILE 2>/dev/null || true
export VERIF_DIR="$VERIF"
BIN="$VERIF/bin/icecheck"
need=0
if [ ! -x "$BIN" ]; then need=1; else
  for f in "$VERIF"/icecheck/*.go "$VERIF"/icecheck/go.mod; do
    if [ "$f" -nt "$BIN" ]; then need=1; break; fi
  done
fi
if [ "$need" = 1 ]; then
  mkdir -p "$VERIF/bin"
  (cd "$VERIF/icecheck" && go build -o "$BIN.tmp.$$" . && mv "$BIN.tmp.$$" "$BIN") || { echo "INFRA-FAILURE: cannot build icecheck"; exit 2; }
fi
ID="$1"; TIER="${2:-quick}"; shift; [ $# -gt 0 ] && shift
exec "$BIN" -property "$ID" -tier "$TIER" -repo "${VERIF_REPO:-/repo}" -verif "$VERIF" "$@"
