// Demonstrations of the genuine defects (D1..D18, DESIGN.md §4) found in
// the pinned blugelabs/ice tree while deriving the static rules.  Triage only:
// the *checks* are the static rules of icecheck.  Copy this file into a scratch
// copy of /repo (package ice) and run `go test -run TestDefect`; every test
// fails on the pinned tree and passes once the corresponding `fix:` commit is
// present.
package ice

import (
	"bytes"
	"fmt"
	"hash/crc32"
	"io/ioutil"
	"os"
	"path/filepath"
	"strings"
	"sync"
	"testing"
	"time"

	"github.com/RoaringBitmap/roaring"
	segment "github.com/blugelabs/bluge_segment_api"
)

func zzBuild(t *testing.T, docs []segment.Document) *Segment {
	t.Helper()
	seg, _, err := New(docs, encodeNorm)
	if err != nil {
		t.Fatal(err)
	}
	return seg.(*Segment)
}

func zzDoc(id string, fields ...*FakeField) segment.Document {
	d := FakeDocument{NewFakeField("_id", id, true, false, false)}
	d = append(d, fields...)
	return &d
}

func zzMerge(t *testing.T, segs []segment.Segment, drops []*roaring.Bitmap) (*Segment, [][]uint64, []byte) {
	t.Helper()
	var buf bytes.Buffer
	m := Merge(segs, drops, 1024)
	n, err := m.WriteTo(&buf, nil)
	if err != nil {
		t.Fatal(err)
	}
	if int(n) != buf.Len() {
		t.Fatalf("WriteTo returned %d, wrote %d", n, buf.Len())
	}
	seg, err := load(segment.NewDataBytes(buf.Bytes()))
	if err != nil {
		t.Fatalf("load merged: %v", err)
	}
	return seg, m.DocumentNumbers(), buf.Bytes()
}

// D1 (C19): a failed FST read leaves the segment mutex locked.
func TestDefectD1LockLeak(t *testing.T) {
	seg := zzBuild(t, []segment.Document{zzDoc("a", NewFakeField("body", "x y", false, false, false))})
	dir := t.TempDir()
	path := filepath.Join(dir, "s.ice")
	if err := persistToFile(seg, path); err != nil {
		t.Fatal(err)
	}
	f, err := os.Open(path)
	if err != nil {
		t.Fatal(err)
	}
	data, err := segment.NewDataFile(f)
	if err != nil {
		t.Fatal(err)
	}
	fs, err := load(data)
	if err != nil {
		t.Fatal(err)
	}
	_ = f.Close() // storage starts failing
	if _, err = fs.Dictionary("body"); err == nil {
		t.Fatal("expected read error")
	}
	done := make(chan struct{})
	go func() {
		_, _ = fs.Dictionary("body")
		close(done)
	}()
	select {
	case <-done:
	case <-time.After(2 * time.Second):
		t.Fatal("second Dictionary() call blocks forever: mutex leaked on the error path")
	}
}

type zzTerm struct{ f, t string }

func (z zzTerm) Field() string { return z.f }
func (z zzTerm) Term() []byte  { return []byte(z.t) }

// D2 (C18): unknown field panics in DocsMatchingTerms.
func TestDefectD2DocsMatchingTermsUnknownField(t *testing.T) {
	seg := zzBuild(t, []segment.Document{zzDoc("a", NewFakeField("body", "x y", false, false, false))})
	defer func() {
		if r := recover(); r != nil {
			t.Fatalf("panic: %v", r)
		}
	}()
	bm, err := seg.DocsMatchingTerms([]segment.Term{zzTerm{"nofield", "x"}, zzTerm{"body", "x"}})
	if err != nil {
		t.Fatal(err)
	}
	if bm.GetCardinality() != 1 {
		t.Fatalf("got %d", bm.GetCardinality())
	}
}

// D3 (C08/C13): dictionary iterator count wrong after a 1-hit term.
func TestDefectD3DictIteratorCountAfter1Hit(t *testing.T) {
	s1 := zzBuild(t, []segment.Document{
		zzDoc("a", NewFakeField("body", "aa bb", false, false, false)),
		zzDoc("b", NewFakeField("body", "bb", false, false, false)),
		zzDoc("c", NewFakeField("body", "bb", false, false, false)),
	})
	merged, _, _ := zzMerge(t, []segment.Segment{s1}, []*roaring.Bitmap{nil})
	d, err := merged.Dictionary("body")
	if err != nil {
		t.Fatal(err)
	}
	it := d.Iterator(nil, nil, nil)
	got := map[string]uint64{}
	for {
		e, err := it.Next()
		if err != nil {
			t.Fatal(err)
		}
		if e == nil {
			break
		}
		got[e.Term()] = e.Count()
	}
	if got["aa"] != 1 || got["bb"] != 3 {
		t.Fatalf("counts %v, want aa:1 bb:3", got)
	}
}

// D4 (C06): short record at the very end of a stored block: the reader
// slices a 10-byte varint look-ahead window past the capacity of the reused
// decompression buffer (block 2 is a few bytes longer than block 1, whose
// size fixed the capacity).
func TestDefectD4ShortRecordAtBlockEnd(t *testing.T) {
	var docs []segment.Document
	for i := 0; i < 256; i++ {
		d := FakeDocument{NewFakeField("_id", fmt.Sprintf("%d", i), false, false, false)}
		if i == 0 {
			d = append(d, NewFakeField("p", "", true, false, false))
		}
		if i == 128 {
			d = append(d, NewFakeField("p", "zzzzzzzzzzzz", true, false, false))
		}
		docs = append(docs, &d)
	}
	seg := zzBuild(t, docs)
	defer func() {
		if r := recover(); r != nil {
			t.Fatalf("panic: %v", r)
		}
	}()
	for _, n := range []uint64{0, 255, 127, 128} {
		if err := seg.VisitStoredFields(n, func(string, []byte) bool { return true }); err != nil {
			t.Fatal(err)
		}
	}
}

// D5 (C04) + D6 (C03): merge where nothing survives.
func TestDefectD5D6ZeroSurvivorMerge(t *testing.T) {
	s1 := zzBuild(t, []segment.Document{
		zzDoc("a", NewFakeField("body", "aa", true, false, true)),
		zzDoc("b", NewFakeField("body", "bb", true, false, true)),
	})
	drops := roaring.New()
	drops.AddRange(0, 2)
	var buf bytes.Buffer
	m := Merge([]segment.Segment{s1}, []*roaring.Bitmap{drops}, 1024)
	if _, err := m.WriteTo(&buf, nil); err != nil {
		t.Fatal(err)
	}
	t.Run("D6_docnums", func(t *testing.T) {
		dn := m.DocumentNumbers()
		if len(dn) != 1 || len(dn[0]) != 2 || dn[0][0] != docDropped || dn[0][1] != docDropped {
			t.Fatalf("DocumentNumbers = %v, want [[dropped dropped]]", dn)
		}
	})
	t.Run("D5_load", func(t *testing.T) {
		defer func() {
			if r := recover(); r != nil {
				t.Fatalf("panic: %v", r)
			}
		}()
		seg, err := load(segment.NewDataBytes(buf.Bytes()))
		if err != nil {
			t.Fatal(err)
		}
		if seg.Count() != 0 {
			t.Fatal("count")
		}
		if err := seg.VisitStoredFields(0, func(string, []byte) bool { t.Fatal("visited"); return true }); err != nil {
			t.Fatal(err)
		}
		// and it can be merged again
		zzMerge(t, []segment.Segment{seg, s1}, []*roaring.Bitmap{nil, nil})
	})
}

// D7 (C11): re-persisting a loaded segment.
func TestDefectD7RepersistLoaded(t *testing.T) {
	s1 := zzBuild(t, []segment.Document{zzDoc("a", NewFakeField("body", "aa", true, false, true))})
	var b1 bytes.Buffer
	if _, err := s1.WriteTo(&b1, nil); err != nil {
		t.Fatal(err)
	}
	l, err := load(segment.NewDataBytes(b1.Bytes()))
	if err != nil {
		t.Fatal(err)
	}
	var b2 bytes.Buffer
	n, err := l.WriteTo(&b2, nil)
	if err != nil {
		t.Fatal(err)
	}
	if int(n) != b2.Len() {
		t.Fatalf("n=%d len=%d", n, b2.Len())
	}
	by := b2.Bytes()
	want := crc32.ChecksumIEEE(by[:len(by)-4])
	got := uint32(by[len(by)-4])<<24 | uint32(by[len(by)-3])<<16 | uint32(by[len(by)-2])<<8 | uint32(by[len(by)-1])
	if got != want {
		t.Fatalf("trailing crc %08x != crc of preceding bytes %08x", got, want)
	}
	if !bytes.Equal(b1.Bytes(), by) {
		t.Fatal("re-persisted bytes differ")
	}
}

// D8 (C16): merged SumTotalTermFrequency.
func TestDefectD8MergedSumTotalTermFreq(t *testing.T) {
	mk := func(id string) *Segment {
		return zzBuild(t, []segment.Document{
			zzDoc(id+"1", NewFakeField("body", "aa aa bb", false, false, false)),
			zzDoc(id+"2", NewFakeField("body", "aa cc", false, false, false)),
		})
	}
	s1, s2 := mk("a"), mk("b")
	// sum of freqs in body per segment = (2+1)+(1+1) = 5
	merged, _, _ := zzMerge(t, []segment.Segment{s1, s2}, []*roaring.Bitmap{nil, nil})
	cs, err := merged.CollectionStats("body")
	if err != nil {
		t.Fatal(err)
	}
	var want uint64
	d, _ := merged.dictionary("body")
	it := d.Iterator(nil, nil, nil)
	for {
		e, _ := it.Next()
		if e == nil {
			break
		}
		pl, _ := d.PostingsList([]byte(e.Term()), nil, nil)
		pi, _ := pl.Iterator(true, false, false, nil)
		for {
			p, _ := pi.Next()
			if p == nil {
				break
			}
			want += uint64(p.Frequency())
		}
	}
	if want != 10 {
		t.Fatalf("oracle broken: %d", want)
	}
	if cs.SumTotalTermFrequency() != want {
		t.Fatalf("SumTotalTermFrequency=%d want %d", cs.SumTotalTermFrequency(), want)
	}
	if cs.DocumentCount() != 4 {
		t.Fatalf("DocumentCount=%d", cs.DocumentCount())
	}
}

// D9 (C09): concurrent VisitStoredFields share a decompression buffer.
func TestDefectD9ConcurrentStoredFields(t *testing.T) {
	var docs []segment.Document
	for i := 0; i < 512; i++ {
		docs = append(docs, zzDoc(fmt.Sprintf("%d", i), NewFakeField("body", fmt.Sprintf("value-%d-%d", i, i*7919), true, false, false)))
	}
	seg := zzBuild(t, docs)
	var wg sync.WaitGroup
	var mu sync.Mutex
	bad := 0
	for g := 0; g < 8; g++ {
		wg.Add(1)
		go func(g int) {
			defer wg.Done()
			defer func() {
				if r := recover(); r != nil {
					mu.Lock()
					bad++
					mu.Unlock()
				}
			}()
			for it := 0; it < 400; it++ {
				n := (it*131 + g*67) % 512
				want := fmt.Sprintf("value-%d-%d", n, n*7919)
				_ = seg.VisitStoredFields(uint64(n), func(f string, v []byte) bool {
					if f == "body" && string(v) != want {
						mu.Lock()
						bad++
						mu.Unlock()
					}
					return true
				})
			}
		}(g)
	}
	wg.Wait()
	if bad != 0 {
		t.Fatalf("%d wrong values / panics under concurrent readers", bad)
	}
	// re-entrancy: nested visit from inside a visitor must not disturb the outer one
	var seen []string
	_ = seg.VisitStoredFields(3, func(f string, v []byte) bool {
		_ = seg.VisitStoredFields(400, func(string, []byte) bool { return true })
		seen = append(seen, f+"="+string(v))
		return true
	})
	if len(seen) != 2 || seen[0] != "_id=3" || seen[1] != fmt.Sprintf("body=value-3-%d", 3*7919) {
		t.Fatalf("nested visit disturbed the outer one: %v", seen)
	}
}

// D10 (C01): repeated field whose term locations name another field.
func TestDefectD10RepeatedFieldLocationField(t *testing.T) {
	mkAll := func() *FakeField {
		return &FakeField{N: "_all", T: []*FakeTerm{{T: "x", F: 1, L: []*FakeLocation{{F: "title", P: 1, S: 0, E: 1}}}}}
	}
	d := FakeDocument{
		NewFakeField("_id", "a", false, false, false),
		NewFakeField("title", "x", false, true, false),
		mkAll(), mkAll(),
	}
	seg := zzBuild(t, []segment.Document{&d})
	dict, err := seg.Dictionary("_all")
	if err != nil {
		t.Fatal(err)
	}
	pl, err := dict.PostingsList([]byte("x"), nil, nil)
	if err != nil {
		t.Fatal(err)
	}
	pi, err := pl.Iterator(true, true, true, nil)
	if err != nil {
		t.Fatal(err)
	}
	p, err := pi.Next()
	if err != nil || p == nil {
		t.Fatal(err, p)
	}
	if p.Frequency() != 2 || len(p.Locations()) != 2 {
		t.Fatalf("freq %d locs %d", p.Frequency(), len(p.Locations()))
	}
	for i, l := range p.Locations() {
		if l.Field() != "title" {
			t.Fatalf("location %d reports field %q, want title", i, l.Field())
		}
	}
}

// D11 (C08/C13): a postings list that was re-initialised for an unknown field
// (or an absent term) into the caller's reusable list has no segment and
// keeps the emptied bitmap of its previous use; iterator() tested the bitmap
// only for nil and dereferenced p.sb when freq/norm/locations were requested.
func TestDefectD11UnknownFieldReusedList(t *testing.T) {
	seg, err := buildTestSegmentMulti()
	if err != nil {
		t.Fatal(err)
	}
	dict, err := seg.Dictionary("desc")
	if err != nil {
		t.Fatal(err)
	}
	pl, err := dict.PostingsList([]byte("thing"), nil, nil) // general encoding: two documents
	if err != nil {
		t.Fatal(err)
	}
	if pl.Count() == 0 {
		t.Fatalf("setup: expected postings for desc:thing")
	}
	unknown, err := seg.Dictionary("no-such-field")
	if err != nil {
		t.Fatal(err)
	}
	pl2, err := unknown.PostingsList([]byte("thing"), nil, pl) // reuse the list
	if err != nil {
		t.Fatal(err)
	}
	if pl2.Count() != 0 {
		t.Fatalf("expected an empty list, got %d", pl2.Count())
	}
	itr, err := pl2.Iterator(true, true, true, nil) // nil pointer dereference before the fix
	if err != nil {
		t.Fatal(err)
	}
	if p, err := itr.Next(); err != nil || p != nil {
		t.Fatalf("expected no postings, got %v %v", p, err)
	}
}

// D12 (C08/C05/C13): found by a bug-hunting sub-agent (round 9b), confirmed and repaired.
// TestDefectD12IteratorCountOfAbsentTerm: Count() of the postings iterator of a term that does not
// occur in the segment must be 0 (the list has no postings); instead it
// dereferences a nil *PostingsList and panics.
func TestDefectD12IteratorCountOfAbsentTerm(t *testing.T) {
	doc := &FakeDocument{
		NewFakeField("_id", "a", true, false, false),
		NewFakeField("f", "x", false, false, false),
	}
	seg, _, err := New([]segment.Document{doc}, encodeNorm)
	if err != nil {
		t.Fatal(err)
	}

	for _, field := range []string{"f", "nosuchfield"} {
		dict, err := seg.Dictionary(field)
		if err != nil {
			t.Fatal(err)
		}
		pl, err := dict.PostingsList([]byte("absent"), nil, nil)
		if err != nil {
			t.Fatal(err)
		}
		if pl.Count() != 0 {
			t.Fatalf("field %q: list count %d, want 0", field, pl.Count())
		}
		itr, err := pl.Iterator(true, true, true, nil)
		if err != nil {
			t.Fatal(err)
		}
		if p, err := itr.Next(); p != nil || err != nil {
			t.Fatalf("field %q: Next = %v, %v, want nil, nil", field, p, err)
		}

		func() {
			defer func() {
				if r := recover(); r != nil {
					t.Fatalf("field %q: PostingsIterator.Count() of an absent term panicked: %v", field, r)
				}
			}()
			if n := itr.Count(); n != 0 {
				t.Fatalf("field %q: iterator count %d, want 0", field, n)
			}
		}()
	}
}

// D13 (C08): found by a bug-hunting sub-agent, confirmed and repaired.
func TestDefectD13EmptyRangeEnumeratesStart(t *testing.T) {
	doc := &FakeDocument{
		NewFakeField("_id", "a", true, false, false),
		NewFakeField("desc", "apple ball cat", true, true, false),
	}
	seg, _, err := newWithChunkMode([]segment.Document{doc}, encodeNorm, defaultChunkMode)
	if err != nil {
		t.Fatal(err)
	}
	dict, err := seg.Dictionary("desc")
	if err != nil {
		t.Fatal(err)
	}

	enumerate := func(start, end string) []string {
		var got []string
		itr := dict.Iterator(nil, []byte(start), []byte(end))
		next, err := itr.Next()
		for next != nil && err == nil {
			got = append(got, next.Term())
			next, err = itr.Next()
		}
		if err != nil {
			t.Fatalf("iterator [%q,%q): %v", start, end, err)
		}
		return got
	}

	// controls: half-open ranges behave
	if got := enumerate("ball", "cat"); len(got) != 1 || got[0] != "ball" {
		t.Fatalf("[ball,cat): got %q, want [ball]", got)
	}
	if got := enumerate("b", "b"); len(got) != 0 {
		t.Fatalf("[b,b): got %q, want nothing", got)
	}
	// the empty range whose bound is a live term
	for _, k := range []string{"apple", "ball", "cat"} {
		if got := enumerate(k, k); len(got) != 0 {
			t.Errorf("[%q,%q) is empty, but the dictionary enumerated %q", k, k, got)
		}
	}
}

// D14 (C05): found by a bug-hunting sub-agent, confirmed and repaired.
func TestDefectD14AdvanceBeyond32Bits(t *testing.T) {
	var docs []segment.Document
	for _, id := range []string{"a", "b", "c"} {
		docs = append(docs, &FakeDocument{
			NewFakeField("_id", id, true, false, false),
			NewFakeField("f", "x", false, false, false),
		})
	}
	seg, _, err := New(docs, encodeNorm)
	if err != nil {
		t.Fatal(err)
	}
	dict, err := seg.Dictionary("f")
	if err != nil {
		t.Fatal(err)
	}

	const target = uint64(1) << 32 // > every possible document number

	for _, except := range []*roaring.Bitmap{nil, roaring.BitmapOf(1)} {
		for _, withFreqNorm := range []bool{false, true} {
			pl, err := dict.PostingsList([]byte("x"), except, nil)
			if err != nil {
				t.Fatal(err)
			}
			itr, err := pl.Iterator(withFreqNorm, withFreqNorm, false, nil)
			if err != nil {
				t.Fatal(err)
			}
			p, err := itr.Advance(target)
			if err != nil {
				t.Fatal(err)
			}
			if p != nil {
				t.Errorf("except=%v freqNorm=%v: Advance(%d) returned document %d, want end (nil)",
					except, withFreqNorm, target, p.Number())
			}
			p, err = itr.Next()
			if err != nil {
				t.Fatal(err)
			}
			if p != nil {
				t.Errorf("except=%v freqNorm=%v: Next after Advance past the end returned document %d, want nil",
					except, withFreqNorm, p.Number())
			}
		}
	}
}

// D15 (C18): found by a bug-hunting sub-agent, confirmed and repaired.
type huntH3Term struct {
	field string
	term  string
}

func (t huntH3Term) Field() string { return t.field }
func (t huntH3Term) Term() []byte  { return []byte(t.term) }

func TestDefectD15EmptyFieldNameInDocsMatchingTerms(t *testing.T) {
	docs := []segment.Document{
		&FakeDocument{
			NewFakeField("_id", "a", true, false, false),
			NewFakeField("", "x", false, false, false),
		},
		&FakeDocument{
			NewFakeField("_id", "b", true, false, false),
			NewFakeField("", "y", false, false, false),
		},
	}
	sg, _, err := newWithChunkMode(docs, encodeNorm, defaultChunkMode)
	if err != nil {
		t.Fatal(err)
	}
	seg := sg.(*Segment)

	// the segment knows the field and the term: doc 0
	dict, err := seg.Dictionary("")
	if err != nil {
		t.Fatal(err)
	}
	pl, err := dict.PostingsList([]byte("x"), nil, nil)
	if err != nil {
		t.Fatal(err)
	}
	if pl.Count() != 1 {
		t.Fatalf("control: dictionary of field %q has %d docs for x, want 1", "", pl.Count())
	}

	// control: same pair, preceded by another field -> found
	bm, err := seg.DocsMatchingTerms([]segment.Term{huntH3Term{"_id", "nosuch"}, huntH3Term{"", "x"}})
	if err != nil {
		t.Fatal(err)
	}
	if got := bm.ToArray(); len(got) != 1 || got[0] != 0 {
		t.Fatalf("control: [(_id,nosuch) (\"\",x)] -> %v, want [0]", got)
	}

	// the pair first in the list -> must be the same set
	bm, err = seg.DocsMatchingTerms([]segment.Term{huntH3Term{"", "x"}})
	if err != nil {
		t.Fatal(err)
	}
	if got := bm.ToArray(); len(got) != 1 || got[0] != 0 {
		t.Errorf("[(\"\",x)] -> %v, want [0]", got)
	}
	bm, err = seg.DocsMatchingTerms([]segment.Term{huntH3Term{"", "x"}, huntH3Term{"", "y"}, huntH3Term{"_id", "nosuch"}})
	if err != nil {
		t.Fatal(err)
	}
	if got := bm.ToArray(); len(got) != 2 {
		t.Errorf("[(\"\",x) (\"\",y) (_id,nosuch)] -> %v, want [0 1]", got)
	}
}

// D16 (C19): found by a bug-hunting sub-agent, confirmed and repaired.

func TestDefectD16HalfLoadedPostingsChunk(t *testing.T) {
	// two documents so that the term "x" is not a 1-hit term; the field has
	// term vectors, so its postings carry locations
	batch := []segment.Document{
		&FakeDocument{
			NewFakeField("_id", "a", true, false, false),
			NewFakeField("body", "x", false, true, false),
		},
		&FakeDocument{
			NewFakeField("_id", "b", true, false, false),
			NewFakeField("body", "x", false, true, false),
		},
	}
	built, _, err := New(batch, encodeNorm)
	if err != nil {
		t.Fatal(err)
	}

	f, err := ioutil.TempFile("", "hunt-h4-d1")
	if err != nil {
		t.Fatal(err)
	}
	defer os.Remove(f.Name())
	defer f.Close()
	if _, err = built.WriteTo(f, nil); err != nil {
		t.Fatal(err)
	}
	data, err := segment.NewDataFile(f)
	if err != nil {
		t.Fatal(err)
	}
	seg, err := Load(data)
	if err != nil {
		t.Fatal(err)
	}

	dict, err := seg.Dictionary("body")
	if err != nil {
		t.Fatal(err)
	}
	pl, err := dict.PostingsList([]byte("x"), nil, nil)
	if err != nil {
		t.Fatal(err)
	}
	itr, err := pl.Iterator(true, true, true, nil)
	if err != nil {
		t.Fatal(err)
	}

	// the storage starts failing: everything from the location data of this
	// term onwards becomes unreadable, the freq/norm data before it stay
	// readable
	pi := itr.(*PostingsIterator)
	if pi.locReader.dataStartOffset <= pi.freqNormReader.dataStartOffset {
		t.Fatalf("unexpected layout")
	}
	if err = f.Truncate(int64(pi.locReader.dataStartOffset)); err != nil {
		t.Fatal(err)
	}

	// the call during which the storage fails must report it
	p, err := itr.Next()
	if err == nil {
		t.Fatalf("first Next: storage error not reported, posting %v", p)
	}

	// later calls must neither panic nor invent a posting from half-loaded state
	func() {
		defer func() {
			if r := recover(); r != nil {
				t.Fatalf("second Next after a reported storage error panicked: %v", r)
			}
		}()
		p, err = itr.Next()
		if err == nil && p != nil {
			t.Fatalf("second Next after a reported storage error returned posting doc=%d freq=%d although its chunk could not be loaded",
				p.Number(), p.Frequency())
		}
	}()
}

// D17 (C19): found by a bug-hunting sub-agent, confirmed and repaired.

func TestDefectD17MixedDocValueHeader(t *testing.T) {
	// 2048 documents = two doc-value chunks (1024 docs each). Documents of
	// chunk 0 carry a long term, documents of chunk 1 a short one.
	long := strings.Repeat("L", 100)
	var batch []segment.Document
	for i := 0; i < 2048; i++ {
		term := long
		if i >= 1024 {
			term = "s"
		}
		batch = append(batch, &FakeDocument{
			&FakeField{N: "_id", V: []byte(fmt.Sprintf("%04d", i)), S: true,
				T: []*FakeTerm{{T: fmt.Sprintf("%04d", i), F: 1}}},
			&FakeField{N: "body", DV: true, T: []*FakeTerm{{T: term, F: 1}}},
		})
	}
	built, _, err := New(batch, encodeNorm)
	if err != nil {
		t.Fatal(err)
	}

	f, err := ioutil.TempFile("", "hunt-h4-d2")
	if err != nil {
		t.Fatal(err)
	}
	defer os.Remove(f.Name())
	defer f.Close()
	if _, err = built.WriteTo(f, nil); err != nil {
		t.Fatal(err)
	}
	data, err := segment.NewDataFile(f)
	if err != nil {
		t.Fatal(err)
	}
	segI, err := Load(data)
	if err != nil {
		t.Fatal(err)
	}
	seg := segI.(*Segment)

	dvr, err := seg.DocumentValueReader([]string{"body"})
	if err != nil {
		t.Fatal(err)
	}
	visit := func(doc uint64) (terms []string, err error) {
		err = dvr.VisitDocumentValues(doc, func(field string, term []byte) {
			terms = append(terms, string(term))
		})
		return terms, err
	}

	// healthy storage: chunk 1 gets cached in the reader
	// (two calls: the reader settles its per-segment state on the second)
	for _, doc := range []uint64{1500, 1501} {
		terms, err := visit(doc)
		if err != nil || len(terms) != 1 || terms[0] != "s" {
			t.Fatalf("healthy read: %v %v", terms, err)
		}
	}

	// the storage starts failing inside the header of chunk 0 of this field
	// (the header starts at dvDataLoc: 2 bytes entry count, then 2 bytes per
	// document; reads look 10 bytes ahead)
	loc := seg.fieldDvReaders[seg.fieldsMap["body"]-1].dvDataLoc
	if err = f.Truncate(int64(loc) + 2 + 2*10 + 9); err != nil {
		t.Fatal(err)
	}

	// the call during which the storage fails must report an error or nothing
	terms, err := visit(5)
	if err == nil && len(terms) != 0 {
		t.Fatalf("failing read returned %v without error", terms)
	}

	// later calls must not panic; whatever they still report must be right
	for doc := uint64(1024); doc < 2048; doc++ {
		func() {
			defer func() {
				if r := recover(); r != nil {
					t.Fatalf("VisitDocumentValues(%d) after a reported storage error panicked: %v", doc, r)
				}
			}()
			terms, err := visit(doc)
			if err == nil && len(terms) != 0 && (len(terms) != 1 || terms[0] != "s") {
				t.Fatalf("VisitDocumentValues(%d) after a reported storage error returned wrong terms %q", doc, terms)
			}
		}()
	}
}

// D18 (C12, C19): found by the second bug hunt, confirmed and repaired.

func TestDefectD18TruncatedSourceReportedAsSuccess(t *testing.T) {
	docs := []segment.Document{
		&FakeDocument{
			NewFakeField("_id", "a", true, false, false),
			NewFakeField("body", "some text to store", true, true, true),
		},
		&FakeDocument{
			NewFakeField("_id", "b", true, false, false),
			NewFakeField("body", "some more text to store", true, true, true),
		},
	}
	built, _, err := New(docs, func(_ string, n int) float32 { return 1 / float32(n) })
	if err != nil {
		t.Fatal(err)
	}
	var img bytes.Buffer
	if _, err = built.WriteTo(&img, nil); err != nil {
		t.Fatal(err)
	}

	f, err := ioutil.TempFile("", "huntG3D2")
	if err != nil {
		t.Fatal(err)
	}
	defer os.Remove(f.Name())
	defer f.Close()
	if _, err = f.Write(img.Bytes()); err != nil {
		t.Fatal(err)
	}
	data, err := segment.NewDataFile(f)
	if err != nil {
		t.Fatal(err)
	}
	seg, err := Load(data)
	if err != nil {
		t.Fatal(err)
	}

	// healthy: the loaded segment re-persists byte for byte
	var again bytes.Buffer
	n, err := seg.WriteTo(&again, nil)
	if err != nil || n != int64(img.Len()) || !bytes.Equal(again.Bytes(), img.Bytes()) {
		t.Fatalf("healthy re-persist: n=%d err=%v equal=%v", n, err, bytes.Equal(again.Bytes(), img.Bytes()))
	}

	// the file loses its second half under the loaded segment
	if err = f.Truncate(int64(img.Len() / 2)); err != nil {
		t.Fatal(err)
	}
	// reads do fail now
	if err2 := seg.VisitStoredFields(0, func(string, []byte) bool { return true }); err2 == nil {
		if _, err3 := seg.Dictionary("body"); err3 == nil {
			t.Log("note: plain reads still work on the truncated file")
		}
	}

	var out bytes.Buffer
	n, err = seg.WriteTo(&out, nil)
	if err == nil {
		t.Errorf("WriteTo of a segment whose storage ends early reported success: returned n=%d, wrote %d bytes, the intact segment file has %d bytes",
			n, out.Len(), img.Len())
	}
}
