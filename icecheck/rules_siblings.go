package main

import (
	"fmt"
	"go/token"
	"go/types"
	"sort"
	"strings"

	"golang.org/x/tools/go/ssa"
)

// FLUSH-SITES-AGREE: a cross-check of sibling call sites (Engler et al.).  A
// function that collects the postings of the current term in one bitmap and
// hands that bitmap to a "finish the term" function does so at several places:
// whenever the term changes, and once more after the loop for the last term.
// Whatever else is fed from that bitmap right before one of these calls (the
// per-field document tracker that is Or-ed with the finished term, a counter
// that takes its cardinality) is part of finishing a term, so it has to happen
// before every one of them: the site that lacks it loses the last term.

// precedingRegion: the instructions that run on every way into ins without an
// intervening join: those before it in its block, then the blocks reached by
// walking up through single predecessors.
func precedingRegion(ins ssa.Instruction) []ssa.Instruction {
	var out []ssa.Instruction
	b := ins.Block()
	for _, x := range b.Instrs {
		if x == ins {
			break
		}
		out = append(out, x)
	}
	seen := map[*ssa.BasicBlock]bool{b: true}
	for len(b.Preds) == 1 && !seen[b.Preds[0]] {
		b = b.Preds[0]
		seen[b] = true
		out = append(out, b.Instrs...)
	}
	return out
}

func init() {
	register(&Rule{
		Name:   "FLUSH-SITES-AGREE",
		ZeroOK: true, // a function with a single finishing site has nothing to compare; the control keeps the matcher alive
		Doc:    "when one function hands the same postings bitmap to the same in-package function at several call sites (the term is finished whenever it changes, and once more after the loop), every other consumer that is fed from that bitmap right before one of these sites (on the straight-line way into it) is fed before each of them: a tracker or counter updated per finished term is not forgotten for the last term",
		Run: func(c *Ctx, scope string, r *Report) {
			for _, fn := range c.srcFns {
				type group struct {
					callee *ssa.Function
					val    ssa.Value
				}
				sites := map[group][]*ssa.Call{}
				var order []group
				for _, b := range fn.Blocks {
					for _, ins := range b.Instrs {
						call, ok := ins.(*ssa.Call)
						if !ok || call.Call.IsInvoke() {
							continue
						}
						g := call.Call.StaticCallee()
						if g == nil || !c.inRoot(g) || g.Blocks == nil {
							continue
						}
						for _, a := range call.Call.Args {
							if n := namedOf(a.Type()); n == nil || n.Obj().Name() != "Bitmap" || !isPointer(a.Type()) {
								continue // (roaring's bitmap; the controls package has a stand-in of the same name)
							}
							if _, isK := a.(*ssa.Const); isK {
								continue
							}
							k := group{g, a}
							if len(sites[k]) == 0 {
								order = append(order, k)
							}
							sites[k] = append(sites[k], call)
						}
					}
				}
				for _, k := range order {
					ss := sites[k]
					if len(ss) < 2 {
						continue
					}
					consumers := func(site *ssa.Call) map[string]string {
						out := map[string]string{}
						for _, ins := range precedingRegion(site) {
							ci, ok := ins.(ssa.CallInstruction)
							if !ok || ci.Common().StaticCallee() == k.callee {
								continue
							}
							cc := ci.Common()
							for ai, a := range cc.Args {
								if a != k.val {
									continue
								}
								if ai == 0 && !cc.IsInvoke() && cc.StaticCallee() != nil && cc.StaticCallee().Signature.Recv() != nil {
									continue // a method of the bitmap itself reads or edits it; it feeds nothing else
								}
								name := calleeFullName(cc)
								out[fmt.Sprintf("%s#%d", name, ai)] = c.pos(ins.Pos())
							}
						}
						return out
					}
					all := map[string]string{}
					per := make([]map[string]string, len(ss))
					for i, s := range ss {
						per[i] = consumers(s)
						for n, at := range per[i] {
							all[n] = at
						}
					}
					key := fnName(fn) + "/" + fnName(k.callee)
					var missing []string
					for i, s := range ss {
						var names []string
						for n := range all {
							if _, ok := per[i][n]; !ok {
								names = append(names, n)
							}
						}
						sort.Strings(names)
						for _, n := range names {
							missing = append(missing, fmt.Sprintf("the call of %s at %s is not preceded by %s (which precedes a sibling call, at %s)", fnName(k.callee), c.pos(s.Pos()), strings.SplitN(n, "#", 2)[0], all[n]))
						}
					}
					if len(missing) > 0 {
						r.bad(key, fnName(fn), c.pos(ss[0].Pos()), "the sites that finish a term disagree about what is fed from the term's postings first: "+missing[0], missing...)
					} else {
						r.ok(key, fnName(fn), c.pos(ss[0].Pos()), fmt.Sprintf("%d sites hand the same postings bitmap to %s; the same %d consumer(s) precede each", len(ss), fnName(k.callee), len(all)))
					}
				}
			}
		},
	})
}

func init() {
	register(&Rule{
		Name:   "SEEN-UNCONDITIONAL",
		ZeroOK: true, // a builder that counts without a per-document set has no instance; the control keeps the matcher alive
		Doc:    "the builder's per-field document count is advanced once for every key of a per-document set (`for k := range seen { FieldDocs[k]++ }`); a field is put into that set unconditionally whenever the document's field visitor is called for it - the insertion dominates every return of the visitor - so a document counts for each field it contains, also a field that yields no term",
		Run: func(c *Ctx, scope string, r *Report) {
			for _, fn := range c.srcFns {
				for _, b := range fn.Blocks {
					for _, ins := range b.Instrs {
						rg, ok := ins.(*ssa.Range)
						if !ok {
							continue
						}
						ld, ok := rg.X.(*ssa.UnOp)
						if !ok {
							continue
						}
						var cell *ssa.Alloc
						var setOwner *types.Named
						var setField *types.Var
						switch x := ld.X.(type) {
						case *ssa.Alloc:
							cell = x
						case *ssa.FieldAddr:
							// the set kept in a field of a small per-document state struct
							setOwner, setField = fieldAddrInfo(x)
							if setField == nil {
								continue
							}
						default:
							continue
						}
						// the range loop advances FieldDocs
						advances := false
						for _, lb := range fn.Blocks {
							if !(b == lb || b.Dominates(lb)) {
								continue
							}
							for _, li := range lb.Instrs {
								mu, ok := li.(*ssa.MapUpdate)
								if !ok {
									continue
								}
								if strings.HasSuffix(accessPath(mu.Map), ".FieldDocs") {
									if ex, ok := stripConv(mu.Key).(*ssa.Extract); ok {
										if nx, ok := ex.Tuple.(*ssa.Next); ok && nx.Iter == ssa.Value(rg) {
											advances = true
										}
									}
								}
							}
						}
						if !advances {
							continue
						}
						key := fnName(fn) + "/seen-set"
						// the insertions
						type ins2 struct {
							mu *ssa.MapUpdate
							fn *ssa.Function
						}
						var inserts []ins2
						scan := func(f *ssa.Function, cellIn ssa.Value) {
							for _, fb := range f.Blocks {
								for _, fi := range fb.Instrs {
									mu, ok := fi.(*ssa.MapUpdate)
									if !ok {
										continue
									}
									if l, ok := mu.Map.(*ssa.UnOp); ok && l.X == cellIn {
										inserts = append(inserts, ins2{mu, f})
									}
								}
							}
						}
						if cell == nil {
							for _, f := range c.srcFns {
								for _, fb := range f.Blocks {
									for _, fi := range fb.Instrs {
										mu, ok := fi.(*ssa.MapUpdate)
										if !ok {
											continue
										}
										if l, ok := mu.Map.(*ssa.UnOp); ok {
											if fa, ok := l.X.(*ssa.FieldAddr); ok {
												if o, fv := fieldAddrInfo(fa); fv == setField && o == setOwner {
													inserts = append(inserts, ins2{mu, f})
												}
											}
										}
									}
								}
							}
						} else {
							scan(fn, cell)
						}
						if cell != nil && cell.Referrers() != nil {
							for _, ref := range *cell.Referrers() {
								mc, ok := ref.(*ssa.MakeClosure)
								if !ok {
									continue
								}
								cf := mc.Fn.(*ssa.Function)
								for bi, bv := range mc.Bindings {
									if bv == ssa.Value(cell) && bi < len(cf.FreeVars) {
										scan(cf, cf.FreeVars[bi])
									}
								}
							}
						}
						if len(inserts) == 0 {
							r.undecided(key, fnName(fn), c.pos(rg.Pos()), "cannot find where the per-document set of fields is filled")
							continue
						}
						bad := ""
						for _, in := range inserts {
							if in.fn == fn {
								bad = "the set is filled in " + fnName(fn) + " itself, not in the document's field visitor; cannot relate the insertion to the fields visited"
								continue
							}
							for _, fb := range in.fn.Blocks {
								if _, isRet := fb.Instrs[len(fb.Instrs)-1].(*ssa.Return); isRet {
									if !(in.mu.Block() == fb || in.mu.Block().Dominates(fb)) {
										bad = "the field is put into the per-document set only on some paths through the field visitor (at " + c.pos(in.mu.Pos()) + "): a document that contains the field is not counted for it on the others"
									}
								}
							}
						}
						if bad != "" {
							r.bad(key, fnName(fn), c.pos(rg.Pos()), bad)
						} else {
							r.ok(key, fnName(fn), c.pos(rg.Pos()), fmt.Sprintf("%d insertion(s), each dominating every return of the field visitor", len(inserts)))
						}
					}
				}
			}
		},
	})

	register(&Rule{
		Name:  "RECORD-SECTIONS-RETURNED",
		Floor: 1,
		Doc:   "getDocStoredMetaAndUnCompressed hands back, whenever it reports success, the meta and the data section sliced out of the decompressed block: a successful return with a nil meta section is accepted only on the edge on which the meta length (the operand that bounds the meta slice on the regular return) is zero - a record with meta but an empty data section still has fields (with empty values) to deliver",
		Run: func(c *Ctx, scope string, r *Report) {
			fn := c.MustFn("(*Segment).getDocStoredMetaAndUnCompressed")
			// the length operand of the regular meta slice
			var leaves func(v ssa.Value, out map[ssa.Value]bool, d int)
			leaves = func(v ssa.Value, out map[ssa.Value]bool, d int) {
				v = stripConv(v)
				if bin, ok := v.(*ssa.BinOp); ok && bin.Op == token.ADD && d < 6 {
					leaves(bin.X, out, d+1)
					leaves(bin.Y, out, d+1)
					return
				}
				out[v] = true
			}
			lens := map[ssa.Value]bool{}
			type sret struct {
				b   *ssa.BasicBlock
				ret *ssa.Return
			}
			var rets []sret
			for _, b := range maySucceedReturns(fn) {
				ret := b.Instrs[len(b.Instrs)-1].(*ssa.Return)
				if len(ret.Results) < 2 {
					continue
				}
				rets = append(rets, sret{b, ret})
				if sl, ok := resolveLoad(ret.Results[0]).(*ssa.Slice); ok && sl.High != nil && sl.Low != nil {
					hi, lo := map[ssa.Value]bool{}, map[ssa.Value]bool{}
					leaves(sl.High, hi, 0)
					leaves(sl.Low, lo, 0)
					for v := range hi {
						if !lo[v] {
							lens[v] = true
						}
					}
				}
			}
			for i, sr := range rets {
				key := fmt.Sprintf("%s/success-return-%d", fnName(fn), i+1)
				meta := resolveLoad(sr.ret.Results[0])
				if !isNilConst(meta) {
					r.ok(key, fnName(fn), c.pos(retPos(sr.ret, sr.b)), "hands back a meta section")
					continue
				}
				guarded := false
				for _, tb := range fn.Blocks {
					ifi, ok := tb.Instrs[len(tb.Instrs)-1].(*ssa.If)
					if !ok {
						continue
					}
					bin, ok := ifi.Cond.(*ssa.BinOp)
					if !ok || (bin.Op != token.EQL && bin.Op != token.NEQ) {
						continue
					}
					x, y := stripConv(bin.X), stripConv(bin.Y)
					if k, isK := constInt(x); isK && k == 0 {
						x, y = y, x
					}
					if k, isK := constInt(y); !isK || k != 0 || !lens[x] {
						continue
					}
					e := tb.Succs[0]
					if bin.Op == token.NEQ {
						e = tb.Succs[1]
					}
					if len(e.Preds) == 1 && (e == sr.b || e.Dominates(sr.b)) {
						guarded = true
					}
				}
				if guarded {
					r.ok(key, fnName(fn), c.pos(retPos(sr.ret, sr.b)), "nil meta only where the meta length is zero")
				} else {
					r.bad(key, fnName(fn), c.pos(retPos(sr.ret, sr.b)), "a successful return hands back no meta section although the record's meta length was not found to be zero: the fields of that document (for instance fields whose stored values are all empty) are never delivered")
				}
			}
			if len(rets) == 0 {
				r.undecided(fnName(fn)+"/success-return", fnName(fn), c.pos(fn.Pos()), "no successful return found")
			}
		},
	})
}

// srcVarName: the source variable a receiver value stands for (a parameter, a
// local cell, a variable captured by a closure), "" if it is something else.
func srcVarName(v ssa.Value) string {
	switch x := v.(type) {
	case *ssa.Parameter:
		return x.Name()
	case *ssa.FreeVar:
		return x.Name()
	case *ssa.Alloc:
		return x.Comment
	case *ssa.UnOp:
		if x.Op == token.MUL {
			switch y := x.X.(type) {
			case *ssa.Alloc:
				return y.Comment
			case *ssa.FreeVar:
				return y.Name()
			case *ssa.FieldAddr:
				return accessPath(x)
			}
		}
	}
	return ""
}

func init() {
	register(&Rule{
		Name:   "CLOSE-BEFORE-SIZE",
		ZeroOK: true, // the control keeps the matcher alive
		Doc:    "a chunked int coder's FinalSize() is the size of what Close() has flushed: in a function that closes an encoder, every FinalSize() of that encoder - in the function itself or in a closure it creates - is taken after the Close() (the call, or the creation of the closure, is dominated by it); a size read before the Close says 0 for a term that has locations, and the term is then written as a 1-hit without them",
		Run: func(c *Ctx, scope string, r *Report) {
			isCoderMethod := func(cc *ssa.CallCommon, name string) bool {
				sc := cc.StaticCallee()
				if sc == nil || sc.Name() != name || sc.Signature.Recv() == nil || len(cc.Args) == 0 {
					return false
				}
				n := namedOf(sc.Signature.Recv().Type())
				return n != nil && (n.Obj().Name() == "chunkedIntCoder" || n.Obj().Name() == "ctlCoder")
			}
			for _, fn := range c.srcFns {
				if fn.Parent() != nil {
					continue
				}
				closes := map[string][]ssa.Instruction{}
				for _, b := range fn.Blocks {
					for _, ins := range b.Instrs {
						if ci, ok := ins.(ssa.CallInstruction); ok && isCoderMethod(ci.Common(), "Close") {
							if n := srcVarName(ci.Common().Args[0]); n != "" {
								closes[n] = append(closes[n], ins)
							}
						}
					}
				}
				if len(closes) == 0 {
					continue
				}
				type use struct {
					name string
					at   ssa.Instruction // position in fn
					pos  token.Pos
				}
				var uses []use
				for _, b := range fn.Blocks {
					for _, ins := range b.Instrs {
						if ci, ok := ins.(ssa.CallInstruction); ok && isCoderMethod(ci.Common(), "FinalSize") {
							uses = append(uses, use{srcVarName(ci.Common().Args[0]), ins, ins.Pos()})
						}
						if mc, ok := ins.(*ssa.MakeClosure); ok {
							g := mc.Fn.(*ssa.Function)
							for _, gb := range g.Blocks {
								for _, gi := range gb.Instrs {
									if ci, ok := gi.(ssa.CallInstruction); ok && isCoderMethod(ci.Common(), "FinalSize") {
										uses = append(uses, use{srcVarName(ci.Common().Args[0]), mc, gi.Pos()})
									}
								}
							}
						}
					}
				}
				n := 0
				for _, u := range uses {
					cl := closes[u.name]
					if u.name == "" || len(cl) == 0 {
						continue
					}
					n++
					key := fmt.Sprintf("%s/FinalSize-%s-%d", fnName(fn), u.name, n)
					okDom := false
					for _, ci := range cl {
						if before(ci, u.at) {
							okDom = true
						}
					}
					if okDom {
						r.ok(key, fnName(fn), c.pos(u.pos), "taken after "+u.name+".Close()")
					} else {
						r.bad(key, fnName(fn), c.pos(u.pos), "FinalSize() of "+u.name+" is taken before "+u.name+".Close() has flushed the last chunk: it does not include it (it is 0 for a term with one small chunk), so a term that has locations can be taken for one without")
					}
				}
			}
		},
	})
}

// THREADED-RESULT.  Many functions here thread an accumulator through: a
// cursor, a running count or a scratch buffer comes in as a parameter and the
// advanced value goes out as a result (`curr, data, err = encode(…, curr,
// data)`).  If one successful return hands back a value derived from the
// parameter, every successful return has to: a return that hands back the zero
// value instead (a bare `return` before the named results were set, a literal
// 0 / nil) resets the caller's accumulator, and what was collected before is
// overwritten or lost.

func derivedFromParam(v ssa.Value, p *ssa.Parameter, seen map[ssa.Value]bool, depth int) bool {
	if depth > 12 || seen[v] {
		return false
	}
	seen[v] = true
	switch x := v.(type) {
	case *ssa.Parameter:
		return x == p
	case *ssa.Convert:
		return derivedFromParam(x.X, p, seen, depth+1)
	case *ssa.ChangeType:
		return derivedFromParam(x.X, p, seen, depth+1)
	case *ssa.Phi:
		for _, e := range x.Edges {
			if derivedFromParam(e, p, seen, depth+1) {
				return true
			}
		}
	case *ssa.BinOp:
		if x.Op == token.ADD {
			return derivedFromParam(x.X, p, seen, depth+1) || derivedFromParam(x.Y, p, seen, depth+1)
		}
	case *ssa.Slice:
		return derivedFromParam(x.X, p, seen, depth+1)
	case *ssa.Call:
		if bi, ok := x.Call.Value.(*ssa.Builtin); ok && bi.Name() == "append" && len(x.Call.Args) > 0 {
			return derivedFromParam(x.Call.Args[0], p, seen, depth+1)
		}
		// handed to a callee that threads it on
		for _, a := range x.Call.Args {
			if derivedFromParam(a, p, seen, depth+1) && types.Identical(x.Type(), p.Type()) {
				return true
			}
		}
	case *ssa.Extract:
		if call, ok := x.Tuple.(*ssa.Call); ok {
			for _, a := range call.Call.Args {
				if types.Identical(x.Type(), p.Type()) && derivedFromParam(a, p, seen, depth+1) {
					return true
				}
			}
		}
	case *ssa.UnOp:
		if x.Op == token.MUL {
			// a named result / local cell: what is stored into it
			if a, ok := x.X.(*ssa.Alloc); ok && a.Referrers() != nil {
				for _, ref := range *a.Referrers() {
					if st, ok := ref.(*ssa.Store); ok && st.Addr == ssa.Value(a) && derivedFromParam(st.Val, p, seen, depth+1) {
						return true
					}
				}
			}
		}
	}
	return false
}

func isZeroValueConst(v ssa.Value) bool {
	k, ok := v.(*ssa.Const)
	if !ok {
		return false
	}
	if k.Value == nil {
		return true // nil, or the zero value of an aggregate
	}
	if i, ok := constInt(k); ok {
		return i == 0
	}
	return false
}

func init() {
	register(&Rule{
		Name:   "THREADED-RESULT",
		ZeroOK: true,
		Doc:    "an accumulator threaded through a function (a parameter of integer or slice type whose advanced value - the parameter itself, plus something, appended to, re-sliced, or passed on to a callee of the same shape - is handed back as a result on a successful return) is handed back on every successful return: no successful return carries the zero value (a literal, or a named result that was never set on that path) in that position",
		Run: func(c *Ctx, scope string, r *Report) {
			for _, fn := range c.srcFns {
				if fn.Parent() != nil || fn.Blocks == nil {
					continue
				}
				res := fn.Signature.Results()
				if res.Len() < 2 || !isErrorType(res.At(res.Len()-1).Type()) {
					continue
				}
				rets := maySucceedReturns(fn)
				if len(rets) < 2 {
					continue
				}
				for i := 0; i < res.Len()-1; i++ {
					rt := res.At(i).Type()
					switch rt.Underlying().(type) {
					case *types.Basic, *types.Slice:
					default:
						continue
					}
					if b, ok := rt.Underlying().(*types.Basic); ok && b.Info()&types.IsInteger == 0 {
						continue
					}
					for _, p := range fn.Params {
						if !types.Identical(p.Type(), rt) {
							continue
						}
						// which successful returns carry something derived from p, which a zero value
						var derived, zero []*ssa.BasicBlock
						for _, rb := range rets {
							ret := rb.Instrs[len(rb.Instrs)-1].(*ssa.Return)
							if i >= len(ret.Results) {
								continue
							}
							// a success return: the error operand is the nil constant
							if !isNilConst(resolveLoad(ret.Results[len(ret.Results)-1])) {
								continue
							}
							v := ret.Results[i]
							// a named result read at the return: the value it holds on this path
							if ld, ok := v.(*ssa.UnOp); ok && ld.Op == token.MUL {
								if a, ok := ld.X.(*ssa.Alloc); ok {
									if sv := lastStoreOnEveryPath(a, rb); sv != nil {
										v = sv
									} else if noStoreReaches(a, rb) {
										zero = append(zero, rb)
										continue
									}
								}
							}
							switch {
							case isZeroValueConst(v):
								zero = append(zero, rb)
							case derivedFromParam(v, p, map[ssa.Value]bool{}, 0):
								derived = append(derived, rb)
							}
						}
						if len(derived) == 0 {
							continue
						}
						// an accumulator: at some call site what comes back is what goes in the next time
						if !threadedAtSomeSite(c, fn, p, i) {
							continue
						}
						key := fmt.Sprintf("%s/result-%d<-%s", fnName(fn), i, p.Name())
						if len(zero) > 0 {
							ret := zero[0].Instrs[len(zero[0].Instrs)-1].(*ssa.Return)
							r.bad(key, fnName(fn), c.pos(retPos(ret, zero[0])), fmt.Sprintf("result %d threads the parameter %s through (%d successful return(s) hand back its advanced value), but this successful return hands back the zero value: the caller's accumulator is reset", i, p.Name(), len(derived)))
						} else {
							r.ok(key, fnName(fn), c.pos(fn.Pos()), fmt.Sprintf("%d successful return(s), each handing back the advanced %s", len(derived), p.Name()))
						}
					}
				}
			}
		},
	})
}

// lastStoreOnEveryPath: the value stored into cell a by a store that dominates
// block b and is not followed by another store on the way (approximated: the
// dominating store closest to b, when no other store can reach b after it).
func lastStoreOnEveryPath(a *ssa.Alloc, b *ssa.BasicBlock) ssa.Value {
	if a.Referrers() == nil {
		return nil
	}
	var best *ssa.Store
	var all []*ssa.Store
	for _, ref := range *a.Referrers() {
		if st, ok := ref.(*ssa.Store); ok && st.Addr == ssa.Value(a) {
			all = append(all, st)
			if st.Block() == b || st.Block().Dominates(b) {
				if best == nil || best.Block().Dominates(st.Block()) {
					best = st
				}
			}
		}
	}
	if best == nil {
		return nil
	}
	for _, st := range all {
		if st != best && canExecuteAfter(best, st) && (st.Block() == b || blockReaches(st.Block(), b)) {
			return nil
		}
	}
	return best.Val
}

// noStoreReaches: no store into cell a can execute before block b's return.
func noStoreReaches(a *ssa.Alloc, b *ssa.BasicBlock) bool {
	if a.Referrers() == nil {
		return true
	}
	for _, ref := range *a.Referrers() {
		if st, ok := ref.(*ssa.Store); ok && st.Addr == ssa.Value(a) {
			if st.Block() == b || blockReaches(st.Block(), b) {
				return false
			}
		}
	}
	return true
}

func init() {
	register(&Rule{
		Name:   "WRAPPED-WRITER-HASHED",
		ZeroOK: true, // today only Write touches the wrapped writer; the control keeps the matcher alive
		Doc:    "the writer wrapped by a countHashWriter is reached only through code that also feeds the CRC: every function other than Write that reads the wrapped-writer field and hands it something (a fast path such as ReadFrom / WriteString that lets the destination take the bytes directly) itself updates the crc field, calls a function that does, or constructs a value of a type one of whose methods does (a tee into the hash); otherwise bytes reach the destination unhashed and the footer CRC no longer covers them",
		Run: func(c *Ctx, scope string, r *Report) {
			for _, tname := range []string{"countHashWriter", "ctlHashWriter"} {
				var nt *types.Named
				if tn, ok := c.Root.Types.Scope().Lookup(tname).(*types.TypeName); ok {
					nt, _ = tn.Type().(*types.Named)
				}
				if nt == nil {
					continue
				}
				st, ok := nt.Underlying().(*types.Struct)
				if !ok {
					continue
				}
				// fields by role: the wrapped writer (an interface with Write) and the crc (uint32)
				wField, crcField := "", ""
				for i := 0; i < st.NumFields(); i++ {
					f := st.Field(i)
					if isWriterLike(f.Type()) {
						wField = f.Name()
					}
					if b, ok := f.Type().Underlying().(*types.Basic); ok && b.Kind() == types.Uint32 {
						crcField = f.Name()
					}
				}
				if wField == "" || crcField == "" {
					continue
				}
				isField := func(a ssa.Value, name string) bool {
					fa, ok := a.(*ssa.FieldAddr)
					if !ok {
						return false
					}
					o, f := fieldAddrInfo(fa)
					return f != nil && o != nil && o.Obj() == nt.Obj() && f.Name() == name
				}
				updaters := map[*ssa.Function]bool{}
				for _, fn := range c.srcFns {
					for _, b := range fn.Blocks {
						for _, ins := range b.Instrs {
							if s2, ok := ins.(*ssa.Store); ok && isField(s2.Addr, crcField) {
								if call, ok := s2.Val.(*ssa.Call); ok && call.Call.StaticCallee() != nil && funcFullName(call.Call.StaticCallee()) == "hash/crc32.Update" {
									updaters[fn] = true
								}
							}
						}
					}
				}
				for _, fn := range c.srcFns {
					usesW := false
					for _, b := range fn.Blocks {
						for _, ins := range b.Instrs {
							if ld, ok := ins.(*ssa.UnOp); ok && ld.Op == token.MUL && isField(ld.X, wField) && ld.Referrers() != nil {
								for _, ref := range *ld.Referrers() {
									switch u := ref.(type) {
									case *ssa.TypeAssert, *ssa.MakeInterface, *ssa.ChangeInterface:
										usesW = true
									case ssa.CallInstruction:
										if u.Common().Value == ssa.Value(ld) {
											usesW = true
										}
										for _, a := range u.Common().Args {
											if a == ssa.Value(ld) {
												usesW = true
											}
										}
									}
								}
							}
						}
					}
					if !usesW {
						continue
					}
					key := tname + "/wrapped-writer-user/" + fnName(fn)
					feeds := updaters[fn]
					how := "updates the crc itself"
					for _, b := range fn.Blocks {
						for _, ins := range b.Instrs {
							switch x := ins.(type) {
							case ssa.CallInstruction:
								if sc := x.Common().StaticCallee(); sc != nil && updaters[sc] && !(sc.Signature.Recv() != nil && namedOf(sc.Signature.Recv().Type()) != nil && namedOf(sc.Signature.Recv().Type()).Obj() == nt.Obj()) {
									feeds, how = true, "calls "+fnName(sc)
								}
							case *ssa.MakeInterface:
								if n := namedOf(x.X.Type()); n != nil && n.Obj() != nt.Obj() {
									for f := range updaters {
										if rv := f.Signature.Recv(); rv != nil && namedOf(rv.Type()) != nil && namedOf(rv.Type()).Obj() == n.Obj() {
											feeds, how = true, "tees into "+fnName(f)
										}
									}
								}
							}
						}
					}
					if feeds {
						r.ok(key, fnName(fn), c.pos(fn.Pos()), "hands bytes to the wrapped writer and "+how)
					} else {
						r.bad(key, fnName(fn), c.pos(fn.Pos()), "hands bytes to the writer wrapped by a "+tname+" without feeding the CRC (no crc32.Update of its crc field here, in a callee, or in a method of a value constructed here): bytes written this way are counted but not hashed, and the footer CRC does not cover them")
					}
				}
			}
		},
	})
}

// threadedAtSomeSite: at a call of fn the argument for p is fed (through the
// loop's phis, joins and local cells) by result i of a call of fn - the caller
// keeps handing back what it was handed.
func threadedAtSomeSite(c *Ctx, fn *ssa.Function, p *ssa.Parameter, i int) bool {
	sites := c.callsTo(fn)
	results := map[ssa.Value]bool{}
	for _, site := range sites {
		if call, ok := site.(*ssa.Call); ok {
			if ex := tupleParts(call)[i]; ex != nil {
				results[ex] = true
			}
		}
	}
	var fed func(v ssa.Value, seen map[ssa.Value]bool, d int) bool
	fed = func(v ssa.Value, seen map[ssa.Value]bool, d int) bool {
		if d > 8 || seen[v] {
			return false
		}
		seen[v] = true
		if results[v] {
			return true
		}
		switch x := v.(type) {
		case *ssa.Phi:
			for _, e := range x.Edges {
				if fed(e, seen, d+1) {
					return true
				}
			}
		case *ssa.Convert:
			return fed(x.X, seen, d+1)
		case *ssa.UnOp:
			if a, ok := x.X.(*ssa.Alloc); ok && x.Op == token.MUL && a.Referrers() != nil {
				for _, ref := range *a.Referrers() {
					if st, ok := ref.(*ssa.Store); ok && st.Addr == ssa.Value(a) && fed(st.Val, seen, d+1) {
						return true
					}
				}
			}
		}
		return false
	}
	for _, site := range sites {
		if a := argFor(site.Common(), p); a != nil && fed(a, map[ssa.Value]bool{}, 0) {
			return true
		}
	}
	return false
}
