package main

import (
	"fmt"
	"go/token"
	"go/types"
	"sort"
	"strings"

	"golang.org/x/tools/go/ssa"
)

// FLUSH-SITES-AGREE: a cross-check of sibling call sites (Engler et al.).  A
// function that collects the postings of the current term in one bitmap and
// hands that bitmap to a "finish the term" function does so at several places:
// whenever the term changes, and once more after the loop for the last term.
// Whatever else is fed from that bitmap right before one of these calls (the
// per-field document tracker that is Or-ed with the finished term, a counter
// that takes its cardinality) is part of finishing a term, so it has to happen
// before every one of them: the site that lacks it loses the last term.

// precedingRegion: the instructions that run on every way into ins without an
// intervening join: those before it in its block, then the blocks reached by
// walking up through single predecessors.
func precedingRegion(ins ssa.Instruction) []ssa.Instruction {
	var out []ssa.Instruction
	b := ins.Block()
	for _, x := range b.Instrs {
		if x == ins {
			break
		}
		out = append(out, x)
	}
	seen := map[*ssa.BasicBlock]bool{b: true}
	for len(b.Preds) == 1 && !seen[b.Preds[0]] {
		b = b.Preds[0]
		seen[b] = true
		out = append(out, b.Instrs...)
	}
	return out
}

func init() {
	register(&Rule{
		Name:   "FLUSH-SITES-AGREE",
		ZeroOK: true, // a function with a single finishing site has nothing to compare; the control keeps the matcher alive
		Doc:    "when one function hands the same postings bitmap to the same in-package function at several call sites (the term is finished whenever it changes, and once more after the loop), every other consumer that is fed from that bitmap right before one of these sites (on the straight-line way into it) is fed before each of them: a tracker or counter updated per finished term is not forgotten for the last term",
		Run: func(c *Ctx, scope string, r *Report) {
			for _, fn := range c.srcFns {
				type group struct {
					callee *ssa.Function
					val    ssa.Value
				}
				sites := map[group][]*ssa.Call{}
				var order []group
				for _, b := range fn.Blocks {
					for _, ins := range b.Instrs {
						call, ok := ins.(*ssa.Call)
						if !ok || call.Call.IsInvoke() {
							continue
						}
						g := call.Call.StaticCallee()
						if g == nil || !c.inRoot(g) || g.Blocks == nil {
							continue
						}
						for _, a := range call.Call.Args {
							if n := namedOf(a.Type()); n == nil || n.Obj().Name() != "Bitmap" || !isPointer(a.Type()) {
								continue // (roaring's bitmap; the controls package has a stand-in of the same name)
							}
							if _, isK := a.(*ssa.Const); isK {
								continue
							}
							k := group{g, a}
							if len(sites[k]) == 0 {
								order = append(order, k)
							}
							sites[k] = append(sites[k], call)
						}
					}
				}
				for _, k := range order {
					ss := sites[k]
					if len(ss) < 2 {
						continue
					}
					consumers := func(site *ssa.Call) map[string]string {
						out := map[string]string{}
						for _, ins := range precedingRegion(site) {
							ci, ok := ins.(ssa.CallInstruction)
							if !ok || ci.Common().StaticCallee() == k.callee {
								continue
							}
							cc := ci.Common()
							for ai, a := range cc.Args {
								if a != k.val {
									continue
								}
								if ai == 0 && !cc.IsInvoke() && cc.StaticCallee() != nil && cc.StaticCallee().Signature.Recv() != nil {
									continue // a method of the bitmap itself reads or edits it; it feeds nothing else
								}
								name := calleeFullName(cc)
								out[fmt.Sprintf("%s#%d", name, ai)] = c.pos(ins.Pos())
							}
						}
						return out
					}
					all := map[string]string{}
					per := make([]map[string]string, len(ss))
					for i, s := range ss {
						per[i] = consumers(s)
						for n, at := range per[i] {
							all[n] = at
						}
					}
					key := fnName(fn) + "/" + fnName(k.callee)
					var missing []string
					for i, s := range ss {
						var names []string
						for n := range all {
							if _, ok := per[i][n]; !ok {
								names = append(names, n)
							}
						}
						sort.Strings(names)
						for _, n := range names {
							missing = append(missing, fmt.Sprintf("the call of %s at %s is not preceded by %s (which precedes a sibling call, at %s)", fnName(k.callee), c.pos(s.Pos()), strings.SplitN(n, "#", 2)[0], all[n]))
						}
					}
					if len(missing) > 0 {
						r.bad(key, fnName(fn), c.pos(ss[0].Pos()), "the sites that finish a term disagree about what is fed from the term's postings first: "+missing[0], missing...)
					} else {
						r.ok(key, fnName(fn), c.pos(ss[0].Pos()), fmt.Sprintf("%d sites hand the same postings bitmap to %s; the same %d consumer(s) precede each", len(ss), fnName(k.callee), len(all)))
					}
				}
			}
		},
	})
}

func init() {
	register(&Rule{
		Name:   "SEEN-UNCONDITIONAL",
		ZeroOK: true, // a builder that counts without a per-document set has no instance; the control keeps the matcher alive
		Doc:    "the builder's per-field document count is advanced once for every key of a per-document set (`for k := range seen { FieldDocs[k]++ }`); a field is put into that set unconditionally whenever the document's field visitor is called for it - the insertion dominates every return of the visitor - so a document counts for each field it contains, also a field that yields no term",
		Run: func(c *Ctx, scope string, r *Report) {
			for _, fn := range c.srcFns {
				for _, b := range fn.Blocks {
					for _, ins := range b.Instrs {
						rg, ok := ins.(*ssa.Range)
						if !ok {
							continue
						}
						ld, ok := rg.X.(*ssa.UnOp)
						if !ok {
							continue
						}
						var cell *ssa.Alloc
						var setOwner *types.Named
						var setField *types.Var
						switch x := ld.X.(type) {
						case *ssa.Alloc:
							cell = x
						case *ssa.FieldAddr:
							// the set kept in a field of a small per-document state struct
							setOwner, setField = fieldAddrInfo(x)
							if setField == nil {
								continue
							}
						default:
							continue
						}
						// the range loop advances FieldDocs
						advances := false
						for _, lb := range fn.Blocks {
							if !(b == lb || b.Dominates(lb)) {
								continue
							}
							for _, li := range lb.Instrs {
								mu, ok := li.(*ssa.MapUpdate)
								if !ok {
									continue
								}
								if strings.HasSuffix(accessPath(mu.Map), ".FieldDocs") {
									if ex, ok := stripConv(mu.Key).(*ssa.Extract); ok {
										if nx, ok := ex.Tuple.(*ssa.Next); ok && nx.Iter == ssa.Value(rg) {
											advances = true
										}
									}
								}
							}
						}
						if !advances {
							continue
						}
						key := fnName(fn) + "/seen-set"
						// the insertions
						type ins2 struct {
							mu *ssa.MapUpdate
							fn *ssa.Function
						}
						var inserts []ins2
						scan := func(f *ssa.Function, cellIn ssa.Value) {
							for _, fb := range f.Blocks {
								for _, fi := range fb.Instrs {
									mu, ok := fi.(*ssa.MapUpdate)
									if !ok {
										continue
									}
									if l, ok := mu.Map.(*ssa.UnOp); ok && l.X == cellIn {
										inserts = append(inserts, ins2{mu, f})
									}
								}
							}
						}
						if cell == nil {
							for _, f := range c.srcFns {
								for _, fb := range f.Blocks {
									for _, fi := range fb.Instrs {
										mu, ok := fi.(*ssa.MapUpdate)
										if !ok {
											continue
										}
										if l, ok := mu.Map.(*ssa.UnOp); ok {
											if fa, ok := l.X.(*ssa.FieldAddr); ok {
												if o, fv := fieldAddrInfo(fa); fv == setField && o == setOwner {
													inserts = append(inserts, ins2{mu, f})
												}
											}
										}
									}
								}
							}
						} else {
							scan(fn, cell)
						}
						if cell != nil && cell.Referrers() != nil {
							for _, ref := range *cell.Referrers() {
								mc, ok := ref.(*ssa.MakeClosure)
								if !ok {
									continue
								}
								cf := mc.Fn.(*ssa.Function)
								for bi, bv := range mc.Bindings {
									if bv == ssa.Value(cell) && bi < len(cf.FreeVars) {
										scan(cf, cf.FreeVars[bi])
									}
								}
							}
						}
						if len(inserts) == 0 {
							r.undecided(key, fnName(fn), c.pos(rg.Pos()), "cannot find where the per-document set of fields is filled")
							continue
						}
						bad := ""
						for _, in := range inserts {
							if in.fn == fn {
								bad = "the set is filled in " + fnName(fn) + " itself, not in the document's field visitor; cannot relate the insertion to the fields visited"
								continue
							}
							for _, fb := range in.fn.Blocks {
								if _, isRet := fb.Instrs[len(fb.Instrs)-1].(*ssa.Return); isRet {
									if !(in.mu.Block() == fb || in.mu.Block().Dominates(fb)) {
										bad = "the field is put into the per-document set only on some paths through the field visitor (at " + c.pos(in.mu.Pos()) + "): a document that contains the field is not counted for it on the others"
									}
								}
							}
						}
						if bad != "" {
							r.bad(key, fnName(fn), c.pos(rg.Pos()), bad)
						} else {
							r.ok(key, fnName(fn), c.pos(rg.Pos()), fmt.Sprintf("%d insertion(s), each dominating every return of the field visitor", len(inserts)))
						}
					}
				}
			}
		},
	})

	register(&Rule{
		Name:  "RECORD-SECTIONS-RETURNED",
		Floor: 1,
		Doc:   "getDocStoredMetaAndUnCompressed hands back, whenever it reports success, the meta and the data section sliced out of the decompressed block: a successful return with a nil meta section is accepted only on the edge on which the meta length (the operand that bounds the meta slice on the regular return) is zero - a record with meta but an empty data section still has fields (with empty values) to deliver",
		Run: func(c *Ctx, scope string, r *Report) {
			fn := c.MustFn("(*Segment).getDocStoredMetaAndUnCompressed")
			// the length operand of the regular meta slice
			var leaves func(v ssa.Value, out map[ssa.Value]bool, d int)
			leaves = func(v ssa.Value, out map[ssa.Value]bool, d int) {
				v = stripConv(v)
				if bin, ok := v.(*ssa.BinOp); ok && bin.Op == token.ADD && d < 6 {
					leaves(bin.X, out, d+1)
					leaves(bin.Y, out, d+1)
					return
				}
				out[v] = true
			}
			lens := map[ssa.Value]bool{}
			type sret struct {
				b   *ssa.BasicBlock
				ret *ssa.Return
			}
			var rets []sret
			for _, b := range maySucceedReturns(fn) {
				ret := b.Instrs[len(b.Instrs)-1].(*ssa.Return)
				if len(ret.Results) < 2 {
					continue
				}
				rets = append(rets, sret{b, ret})
				if sl, ok := resolveLoad(ret.Results[0]).(*ssa.Slice); ok && sl.High != nil && sl.Low != nil {
					hi, lo := map[ssa.Value]bool{}, map[ssa.Value]bool{}
					leaves(sl.High, hi, 0)
					leaves(sl.Low, lo, 0)
					for v := range hi {
						if !lo[v] {
							lens[v] = true
						}
					}
				}
			}
			for i, sr := range rets {
				key := fmt.Sprintf("%s/success-return-%d", fnName(fn), i+1)
				meta := resolveLoad(sr.ret.Results[0])
				if !isNilConst(meta) {
					r.ok(key, fnName(fn), c.pos(retPos(sr.ret, sr.b)), "hands back a meta section")
					continue
				}
				guarded := false
				for _, tb := range fn.Blocks {
					ifi, ok := tb.Instrs[len(tb.Instrs)-1].(*ssa.If)
					if !ok {
						continue
					}
					bin, ok := ifi.Cond.(*ssa.BinOp)
					if !ok || (bin.Op != token.EQL && bin.Op != token.NEQ) {
						continue
					}
					x, y := stripConv(bin.X), stripConv(bin.Y)
					if k, isK := constInt(x); isK && k == 0 {
						x, y = y, x
					}
					if k, isK := constInt(y); !isK || k != 0 || !lens[x] {
						continue
					}
					e := tb.Succs[0]
					if bin.Op == token.NEQ {
						e = tb.Succs[1]
					}
					if len(e.Preds) == 1 && (e == sr.b || e.Dominates(sr.b)) {
						guarded = true
					}
				}
				if guarded {
					r.ok(key, fnName(fn), c.pos(retPos(sr.ret, sr.b)), "nil meta only where the meta length is zero")
				} else {
					r.bad(key, fnName(fn), c.pos(retPos(sr.ret, sr.b)), "a successful return hands back no meta section although the record's meta length was not found to be zero: the fields of that document (for instance fields whose stored values are all empty) are never delivered")
				}
			}
			if len(rets) == 0 {
				r.undecided(fnName(fn)+"/success-return", fnName(fn), c.pos(fn.Pos()), "no successful return found")
			}
		},
	})
}
