package main

// Engine controls: before /repo is analysed the same engines analyse the tiny
// package /verif/controls; every Bad* construct must be reported and every
// Good* one must not.  A failure means the checker itself is broken (exit 2).

import (
	"fmt"
	"sort"
	"strings"

	"golang.org/x/tools/go/ssa"
)

type controlResult struct {
	OK       bool     `json:"ok"`
	Checked  int      `json:"checked"`
	Failures []string `json:"failures,omitempty"`
	Cases    []string `json:"cases,omitempty"`
}

func runControls(dir string) *controlResult {
	res := &controlResult{OK: true}
	c, err := loadCtx(loadOpts{dir: dir, rootPath: "controls", config: "controls"})
	if err != nil {
		res.OK = false
		res.Failures = append(res.Failures, "cannot load the controls package: "+err.Error())
		return res
	}
	expect := func(name string, got, want bool, what string) {
		res.Checked++
		verdict := "ok"
		if got != want {
			res.OK = false
			verdict = "FAILED"
			res.Failures = append(res.Failures, fmt.Sprintf("%s: %s — expected reported=%v, got %v", name, what, want, got))
		}
		res.Cases = append(res.Cases, fmt.Sprintf("%s [%s] reported=%v %s", name, what, got, verdict))
	}
	fn := func(name string) *ssa.Function {
		f, ok := c.byName[name]
		if !ok || f.Blocks == nil {
			res.OK = false
			res.Failures = append(res.Failures, "control function missing: "+name)
			return nil
		}
		return f
	}

	// E2 lockset
	for name, want := range map[string]bool{"(*box).BadLockLeak": true, "(*box).GoodLockDefer": false, "(*box).GoodLockAllPaths": false} {
		if f := fn(name); f != nil {
			lr := lockAnalyse(f)
			expect(name, len(lr.leaks) > 0, want, "lock leaked on some return")
		}
	}
	if f := fn("(*box).BadCallbackUnderLock"); f != nil {
		lr := lockAnalyse(f)
		found := false
		for _, b := range f.Blocks {
			for _, ins := range b.Instrs {
				if ci, ok := ins.(ssa.CallInstruction); ok && len(lr.may[ins]) > 0 && mutexOp(ins) == nil {
					if cb, _ := isCallbackCall(ci.Common()); cb {
						found = true
					}
				}
			}
		}
		expect("(*box).BadCallbackUnderLock", found, true, "callback invoked while the lock is held")
	}

	// E4 error flow
	ef := newErrFlow(c, []string{"io.EOF"}, nil)
	status := map[string][]Status{}
	for _, f := range ef.analyse() {
		status[f.fnName] = append(status[f.fnName], f.status)
	}
	var efNames []string
	for n := range status {
		efNames = append(efNames, n)
	}
	sort.Strings(efNames)
	for _, n := range efNames {
		if !strings.Contains(n, "Err") {
			continue
		}
		bad := false
		for _, s := range status[n] {
			if s != Discharged {
				bad = true
			}
		}
		switch {
		case strings.Contains(n, "BadErr"):
			expect(n, bad, true, "error not accounted for")
		case strings.Contains(n, "GoodErr"):
			expect(n, bad, false, "error not accounted for")
		}
	}
	for _, must := range []string{"BadErrDropped", "BadErrBlank", "BadErrSwallowed", "BadErrOverwritten", "BadErrUnrelatedReturn", "GoodErrReturned", "GoodErrChecked", "GoodErrSentinel", "GoodErrSwitch", "BadErrSwitch", "GoodErrLoop", "GoodErrNamedResult", "(*box).GoodErrStickyField"} {
		if _, ok := status[must]; !ok {
			res.OK = false
			res.Failures = append(res.Failures, "error-flow engine found no error-returning call in "+must)
		}
	}

	// look-ahead clamp
	for name, want := range map[string]bool{"BadLookahead": true, "GoodLookahead": false} {
		f := fn(name)
		if f == nil {
			continue
		}
		unclamped := false
		seenSlice := false
		for _, b := range f.Blocks {
			for _, ins := range b.Instrs {
				sl, ok := ins.(*ssa.Slice)
				if !ok || sl.High == nil || !isByteSlice(sl.X.Type()) {
					continue
				}
				seenSlice = true
				if _, _, ok := addConst(sl.High); ok {
					unclamped = true
				} else if _, isPhi := sl.High.(*ssa.Phi); isPhi {
					if ok, _ := clampedHigh(sl.High, sl.X); !ok {
						unclamped = true
					}
				}
			}
		}
		expect(name, unclamped, want, "un-clamped look-ahead slice")
		if !seenSlice {
			res.OK = false
			res.Failures = append(res.Failures, name+": no slice expression seen")
		}
	}

	// E5 provenance
	apiSet := map[*ssa.Function]bool{}
	for _, f := range c.entries().API {
		apiSet[f] = true
	}
	for _, f := range c.entries().CTOR {
		apiSet[f] = true
	}
	h := provHooks{}
	h.param = func(f *ssa.Function, idx int) labelSet {
		if apiSet[f] {
			return lbl("Caller", "parameter of exported "+fnName(f))
		}
		return nil
	}
	h.global = func(g *ssa.Global) (labelSet, bool) { return lbl("Global:"+g.Name(), g.Name()), true }
	p := newProv(c, h)
	recvLabels := func(name, method string) labelSet {
		f := fn(name)
		out := labelSet{}
		if f == nil {
			return out
		}
		for _, b := range f.Blocks {
			for _, ins := range b.Instrs {
				if call, ok := ins.(*ssa.Call); ok {
					if sc := call.Call.StaticCallee(); sc != nil && sc.Name() == method {
						out.addAll(p.Classify(call.Call.Args[0]))
					}
				}
			}
		}
		return out
	}
	expect("normalise (via (*holder).BadMutateCaller)", recvLabels("normalise", "Set").has("Caller"), true, "mutated object can be caller-supplied")
	expect("mark (via GoodMutateFresh)", recvLabels("mark", "Set").has("Caller"), false, "mutated object can be caller-supplied")
	writesGlobal := func(name string) bool {
		f := fn(name)
		if f == nil {
			return false
		}
		for _, w := range c.writeSitesIn(f) {
			var v ssa.Value = w.base
			if v == nil {
				v = w.cont
			}
			if v == nil {
				continue
			}
			if _, ok := hasPrefixLabel(p.ClassifyAt(v, w.ins.Block()), "Global:"); ok {
				return true
			}
		}
		return false
	}
	expect("BadWriteGlobal", writesGlobal("BadWriteGlobal"), true, "write reaches package-level state")
	expect("GoodWriteLocal", writesGlobal("GoodWriteLocal"), false, "write reaches package-level state")
	expect("BadSingleton", writesGlobal("BadSingleton"), true, "write can reach the shared singleton (no diverting comparison)")
	expect("GoodSingleton", writesGlobal("GoodSingleton"), false, "write can reach the shared singleton (comparison diverts it)")

	// reset completeness helpers
	if f := fn("(*box).BadResetPartial"); f != nil {
		ok, _ := fullRangeZeroLoop(f, targetsOf(f, 0), "items")
		expect("(*box).BadResetPartial", !ok, true, "retained slice not zeroed over its whole range")
	}
	if f := fn("(*box).GoodResetFull"); f != nil {
		ok, _ := fullRangeZeroLoop(f, targetsOf(f, 0), "items")
		expect("(*box).GoodResetFull", !ok, false, "retained slice not zeroed over its whole range")
	}
	for name, want := range map[string]bool{"(*box).BadSetSomePaths": true, "(*box).GoodSetAllPaths": false} {
		f := fn(name)
		if f == nil {
			continue
		}
		ev := fieldEvents(f, targetsOf(f, 0))
		blocks := map[*ssa.BasicBlock]bool{}
		for _, e := range ev["buf"] {
			blocks[e.ins.Block()] = true
		}
		uncovered := false
		for _, b := range f.Blocks {
			if _, isRet := b.Instrs[len(b.Instrs)-1].(*ssa.Return); isRet && !coveredOnAllPaths(f, blocks, b) {
				uncovered = true
			}
		}
		expect(name, uncovered, want, "field re-established only on some paths")
	}

	// wire extraction
	w := newWireExtractor(c, "w")
	r := newWireExtractor(c, "r")
	ws := kindsOnly(transparentALT(w.signature("WireWriter")))
	rs := kindsOnly(transparentALT(r.signature("WireReader")))
	expect("WireWriter signature", ws != "UV RAW [U64] U32", false, "unexpected writer signature "+ws)
	expect("WireReader signature", rs != "UV [U64] U32", false, "unexpected reader signature "+rs)
	_ = w.signature("WireWriterLE")
	expect("WireWriterLE", len(w.problems) > 0, true, "non-big-endian byte order")
	// rules whose expected count on the real tree is zero: run them on the controls
	for _, rc := range []struct {
		rule string
		want map[string]bool
	}{
		{"EMPTY-SAFE", map[string]bool{"BadConstIndex": true, "GoodConstIndexGuarded": false, "GoodConstIndexByConstruction": false}},
		{"RANGE-INDEX-BASE", map[string]bool{"BadSubSliceIndex": true, "GoodSubSliceIndex": false}},
		{"APPEND-RESULT-USED", map[string]bool{"BadAppendResultDropped": true, "GoodAppendResultUsed": false}},
		{"STALE-LEN", map[string]bool{"(*recBuf).BadStaleLen": true}},
		{"SEARCH-HIT", map[string]bool{"BadSearchNoHitTest": true, "GoodSearchHitTest": false}},
		{"ADVANCE-LOST", map[string]bool{"BadAdvanceLost": true, "GoodAdvanceKept": false}},
		{"VALUE-RECORD-COMPLETE", map[string]bool{"BadValueSkipped": true, "GoodEveryValue": false}},
		{"CHUNK-START-INCLUSIVE", map[string]bool{"(*chunked).BadChunkStartStrict": true, "(*chunked).GoodChunkStartInclusive": false}},
		{"MEMO-PRIMED", map[string]bool{"BadMemoZeroSentinel": true, "GoodMemoFirstRound": false, "GoodMemoValueTest": false}},
		{"NARROW-GUARD", map[string]bool{"(*Scanner).seekTo": true, "(*Scanner).seekChecked": false}},
		{"EMPTY-MEANS-BOTH", map[string]bool{"(*PostingsList).BadEmptyBeforeOneHit": true, "(*PostingsList).GoodOneHitFirst": false}},
		{"EMPTY-VS-NIL", map[string]bool{"(*runState).BadResetKeepsBuffer": true}},
		{"MEMO-COMMIT", map[string]bool{"(*rowCache).BadCommitBeforeLoad": true, "(*rowCache).GoodCommitAfterLoad": false}},
		{"LOCS-IMPLY-FREQNORM", map[string]bool{"BadFlagsLocsWithoutFreqNorm": true, "GoodFlagsLocsImplyFreqNorm": false}},
		{"SEEN-UNCONDITIONAL", map[string]bool{"(*ctlBuilder).BadSeenOnlyWithTerms": true, "(*ctlBuilder).GoodSeenAlways": false}},
		{"KEY-NIL-AMBIGUOUS", map[string]bool{"(*lowTracker).BadNilKeyMeansUnset": true, "(*lowTracker).GoodCountMeansUnset": false}},
		{"CLOSE-BEFORE-SIZE", map[string]bool{"BadSizeBeforeClose": true, "GoodSizeAfterClose": false}},
		{"WRAPPED-WRITER-HASHED", map[string]bool{"(*ctlHashWriter).BadReadFromUnhashed": true, "(*ctlHashWriter).GoodReadFromTeed": false}},
		{"THREADED-RESULT", map[string]bool{"BadThreadedCursorReset": true, "GoodThreadedCursorKept": false}},
		{"FLUSH-SITES-AGREE", map[string]bool{"BadFlushSitesLastTermUntracked": true, "GoodFlushSitesAllTracked": false}},
	} {
		rule := rules[rc.rule]
		if rule == nil {
			res.OK = false
			res.Failures = append(res.Failures, "rule "+rc.rule+" is not registered")
			continue
		}
		rep := &Report{c: c, rule: rule.Name}
		rule.Run(c, "", rep)
		got := map[string]bool{}
		seen := map[string]bool{}
		for _, o := range rep.obs {
			seen[o.Func] = true
			if o.st != Discharged {
				got[o.Func] = true
			}
		}
		for name, want := range rc.want {
			if !seen[name] {
				res.OK = false
				res.Failures = append(res.Failures, rc.rule+" did not match its control "+name)
				continue
			}
			expect(name, got[name], want, rc.rule)
		}
	}
	return res
}
