package main

type controlResult struct {
	OK       bool     `json:"ok"`
	Checked  int      `json:"checked"`
	Failures []string `json:"failures,omitempty"`
	Cases    []string `json:"cases,omitempty"`
}

func runControls(dir string) *controlResult {
	return &controlResult{OK: true}
}
