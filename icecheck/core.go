package main

import (
	"fmt"
	"go/ast"
	"go/token"
	"go/types"
	"os"
	"path/filepath"
	"sort"
	"strings"

	"golang.org/x/tools/go/callgraph"
	"golang.org/x/tools/go/callgraph/cha"
	"golang.org/x/tools/go/callgraph/vta"
	"golang.org/x/tools/go/packages"
	"golang.org/x/tools/go/ssa"
	"golang.org/x/tools/go/ssa/ssautil"
)

const rootPkgPath = "github.com/blugelabs/ice/v2"

// Ctx is one loaded, type-checked and SSA-converted configuration of a Go
// module (normally /repo; the controls package uses the same structure).
type Ctx struct {
	Dir     string
	Config  string // e.g. "linux/amd64"
	Fset    *token.FileSet
	Pkgs    []*packages.Package
	Root    *packages.Package
	Info    *types.Info
	Prog    *ssa.Program
	SSA     *ssa.Package
	CG      *callgraph.Graph
	VTA     *callgraph.Graph
	UseVTA  bool
	srcFns  []*ssa.Function          // all source functions of the root package incl. closures
	byName  map[string]*ssa.Function // "(*Segment).dictionary", "persistFooter"
	declOf  map[*types.Func]*ast.FuncDecl
	fileOf  map[*ast.FuncDecl]*ast.File
	parents map[ast.Node]ast.Node // lazily built per file

	NameNotes []string // renames applied by the name normalisation (canon.go)
	LoadDir   string   // directory the packages were loaded from when it is a scratch copy of Dir

	reachCache map[string]map[*ssa.Function]bool
	cens       *census
	entr       *entrySets
}

// InfraError is an infrastructure failure (exit 2): no verdict possible.
type InfraError struct{ msg string }

func (e *InfraError) Error() string { return e.msg }

func infra(format string, a ...interface{}) error {
	return &InfraError{fmt.Sprintf(format, a...)}
}

type loadOpts struct {
	dir      string
	env      []string
	tags     string
	rootPath string
	config   string
	vta      bool
	noCanon  bool // do not alpha-rename to the reference names (used for the renamed copy itself)
}

func loadCtx(o loadOpts) (*Ctx, error) {
	env := append(os.Environ(),
		"GOFLAGS=-mod=mod", "GOPROXY=off", "GOSUMDB=off", "GOTOOLCHAIN=local", "GOWORK=off")
	env = append(env, o.env...)
	cfg := &packages.Config{
		Mode:  packages.LoadAllSyntax,
		Dir:   o.dir,
		Env:   env,
		Tests: false,
	}
	if o.tags != "" {
		cfg.BuildFlags = []string{"-tags=" + o.tags}
	}
	pkgs, err := packages.Load(cfg, "./...")
	if err != nil {
		return nil, infra("packages.Load(%s): %v", o.dir, err)
	}
	if len(pkgs) == 0 {
		return nil, infra("no packages loaded from %s", o.dir)
	}
	var nerr int
	var firstErr string
	packages.Visit(pkgs, nil, func(p *packages.Package) {
		for _, e := range p.Errors {
			nerr++
			if firstErr == "" {
				firstErr = e.Error()
			}
		}
	})
	if nerr > 0 {
		return nil, infra("%d load/type errors in %s (first: %s)", nerr, o.dir, firstErr)
	}
	c := &Ctx{Dir: o.dir, Config: o.config, Pkgs: pkgs}
	for _, p := range pkgs {
		if p.PkgPath == o.rootPath {
			c.Root = p
		}
	}
	if c.Root == nil {
		return nil, infra("root package %s not found among %d packages", o.rootPath, len(pkgs))
	}
	c.Fset = c.Root.Fset
	c.Info = c.Root.TypesInfo
	prog, _ := ssautil.AllPackages(pkgs, ssa.InstantiateGenerics)
	prog.Build()
	c.Prog = prog
	c.SSA = prog.Package(c.Root.Types)
	if c.SSA == nil {
		return nil, infra("no SSA package for %s", o.rootPath)
	}
	c.index()
	c.CG = cha.CallGraph(prog)
	if o.vta {
		c.VTA = vta.CallGraph(ssautil.AllFunctions(prog), c.CG)
	}
	c.reachCache = map[string]map[*ssa.Function]bool{}
	if !o.noCanon {
		return normaliseNames(c, o), nil
	}
	return c, nil
}

func (c *Ctx) index() {
	c.byName = map[string]*ssa.Function{}
	c.declOf = map[*types.Func]*ast.FuncDecl{}
	c.fileOf = map[*ast.FuncDecl]*ast.File{}
	for _, f := range c.Root.Syntax {
		for _, d := range f.Decls {
			if fd, ok := d.(*ast.FuncDecl); ok {
				if obj, ok := c.Info.Defs[fd.Name].(*types.Func); ok {
					c.declOf[obj] = fd
					c.fileOf[fd] = f
				}
			}
		}
	}
	var add func(fn *ssa.Function)
	seen := map[*ssa.Function]bool{}
	add = func(fn *ssa.Function) {
		if fn == nil || seen[fn] || fn.Blocks == nil {
			return
		}
		seen[fn] = true
		c.srcFns = append(c.srcFns, fn)
		for _, a := range fn.AnonFuncs {
			add(a)
		}
	}
	for _, m := range c.SSA.Members {
		switch m := m.(type) {
		case *ssa.Function:
			if m.Synthetic == "" || m.Name() == "init" {
				add(m)
			}
			c.byName[m.Name()] = m
		case *ssa.Type:
			for _, T := range []types.Type{m.Type(), types.NewPointer(m.Type())} {
				ms := c.Prog.MethodSets.MethodSet(T)
				for i := 0; i < ms.Len(); i++ {
					fn := c.Prog.MethodValue(ms.At(i))
					if fn == nil || fn.Synthetic != "" || fn.Pkg != c.SSA {
						continue
					}
					add(fn)
					c.byName[fnName(fn)] = fn
				}
			}
		}
	}
	// by file name, then offset: token.Pos values depend on the order in which the files were
	// added to the file set, and go/packages parses them concurrently
	fset := c.Prog.Fset
	sort.SliceStable(c.srcFns, func(i, j int) bool {
		pi, pj := fset.Position(c.srcFns[i].Pos()), fset.Position(c.srcFns[j].Pos())
		if pi.Filename != pj.Filename {
			return pi.Filename < pj.Filename
		}
		if pi.Offset != pj.Offset {
			return pi.Offset < pj.Offset
		}
		return c.srcFns[i].String() < c.srcFns[j].String()
	})
}

// fnName gives "(*T).m", "T.m", "f" or "f$1" for closures (relative to root package).
func fnName(fn *ssa.Function) string {
	if fn == nil {
		return "<nil>"
	}
	if fn.Parent() != nil {
		return fnName(fn.Parent()) + "$" + strings.TrimPrefix(fn.Name(), fn.Parent().Name()+"$")
	}
	if a, ok := fnAlias.Load(fn); ok {
		return a.(string)
	}
	if recv := fn.Signature.Recv(); recv != nil {
		t := recv.Type()
		if p, ok := t.(*types.Pointer); ok {
			if n, ok := p.Elem().(*types.Named); ok {
				return "(*" + n.Obj().Name() + ")." + fn.Name()
			}
		}
		if n, ok := t.(*types.Named); ok {
			return n.Obj().Name() + "." + fn.Name()
		}
	}
	return fn.Name()
}

// topFn is the outermost enclosing declared function of a closure.
func topFn(fn *ssa.Function) *ssa.Function {
	for fn.Parent() != nil {
		fn = fn.Parent()
	}
	return fn
}

// Fn resolves a named anchor; a missing anchor is an infrastructure failure
// (the rule is *about* that function; silently skipping would be vacuous).
func (c *Ctx) Fn(name string) (*ssa.Function, error) {
	if fn, ok := c.byName[name]; ok && fn.Blocks != nil {
		return fn, nil
	}
	return nil, infra("unresolved anchor: function %s not found in %s", name, c.Root.PkgPath)
}

func (c *Ctx) MustFn(name string) *ssa.Function {
	fn, err := c.Fn(name)
	if err != nil {
		panic(err)
	}
	return fn
}

func (c *Ctx) HasFn(name string) bool {
	fn, ok := c.byName[name]
	return ok && fn.Blocks != nil
}

// NamedType resolves a package-level named type anchor.
func (c *Ctx) NamedType(name string) *types.Named {
	obj := c.Root.Types.Scope().Lookup(name)
	if tn, ok := obj.(*types.TypeName); ok {
		if n, ok := tn.Type().(*types.Named); ok {
			return n
		}
	}
	panic(infra("unresolved anchor: type %s not found", name))
}

func (c *Ctx) StructOf(name string) *types.Struct {
	n := c.NamedType(name)
	st, ok := n.Underlying().(*types.Struct)
	if !ok {
		panic(infra("anchor type %s is not a struct", name))
	}
	return st
}

func (c *Ctx) Global(name string) *ssa.Global {
	if g, ok := c.SSA.Members[name].(*ssa.Global); ok {
		return g
	}
	panic(infra("unresolved anchor: package variable %s not found", name))
}

func (c *Ctx) ConstVal(name string) *types.Const {
	if k, ok := c.Root.Types.Scope().Lookup(name).(*types.Const); ok {
		return k
	}
	panic(infra("unresolved anchor: constant %s not found", name))
}

// Decl returns the AST declaration of a top-level source function.
func (c *Ctx) Decl(fn *ssa.Function) *ast.FuncDecl {
	fn = topFn(fn)
	if obj, ok := fn.Object().(*types.Func); ok {
		return c.declOf[obj]
	}
	return nil
}

func (c *Ctx) pos(p token.Pos) string {
	if !p.IsValid() {
		return "-"
	}
	pp := c.Fset.Position(p)
	rel, err := filepath.Rel(c.Dir, pp.Filename)
	if (err != nil || strings.HasPrefix(rel, "..")) && c.LoadDir != "" {
		// a file of the alpha-renamed scratch copy that needed no rewriting: same relative path
		rel, err = filepath.Rel(c.LoadDir, pp.Filename)
	}
	if err != nil || strings.HasPrefix(rel, "..") {
		rel = pp.Filename
	}
	return fmt.Sprintf("%s:%d", rel, pp.Line)
}

func (c *Ctx) inRoot(fn *ssa.Function) bool {
	return fn != nil && fn.Pkg == c.SSA
}

// graph returns the call graph used for reachability.
func (c *Ctx) graph() *callgraph.Graph {
	if c.UseVTA && c.VTA != nil {
		return c.VTA
	}
	return c.CG
}

// callees of a call instruction restricted to functions of the root package
// (static callee, or call-graph edges for dynamic calls).
func (c *Ctx) calleesIn(fn *ssa.Function, site ssa.CallInstruction) []*ssa.Function {
	if sc := site.Common().StaticCallee(); sc != nil {
		return []*ssa.Function{sc}
	}
	var out []*ssa.Function
	if n := c.graph().Nodes[fn]; n != nil {
		for _, e := range n.Out {
			if e.Site == site {
				out = append(out, e.Callee.Func)
			}
		}
	}
	return out
}

// reach computes the set of root-package functions reachable from roots.
// Edges: call-graph edges whose caller is in the root package, plus
// closure creation (a function literal is attributed to its creator: it
// may be invoked by any callee it is handed to, including dependencies).
func (c *Ctx) reach(roots []*ssa.Function) map[*ssa.Function]bool {
	seen := map[*ssa.Function]bool{}
	var work []*ssa.Function
	var push func(f *ssa.Function)
	push = func(f *ssa.Function) {
		if f != nil && !seen[f] && f.Pkg == nil && f.Synthetic != "" && f.Blocks != nil {
			// a bound-method wrapper or thunk: it stands for the method it calls
			seen[f] = true
			for _, g := range unwrapBound(f)[1:] {
				push(g)
			}
			return
		}
		if f == nil || seen[f] || !c.inRoot(f) || f.Blocks == nil {
			return
		}
		seen[f] = true
		work = append(work, f)
	}
	for _, r := range roots {
		push(r)
	}
	g := c.graph()
	for len(work) > 0 {
		f := work[len(work)-1]
		work = work[:len(work)-1]
		if n := g.Nodes[f]; n != nil {
			for _, e := range n.Out {
				push(e.Callee.Func)
			}
		}
		for _, b := range f.Blocks {
			for _, ins := range b.Instrs {
				if mc, ok := ins.(*ssa.MakeClosure); ok {
					push(mc.Fn.(*ssa.Function))
				}
				// function values referenced without call (method values, funcs as args)
				for _, op := range ins.Operands(nil) {
					if op == nil || *op == nil {
						continue
					}
					if fv, ok := (*op).(*ssa.Function); ok {
						push(fv)
					}
				}
			}
		}
	}
	return seen
}

// Entry-point sets (DESIGN §2).
type entrySets struct {
	CTOR, API                             []*ssa.Function
	READ, CTORONLY, BUILD, MERGE, PERSIST map[*ssa.Function]bool
}

func (c *Ctx) entries() *entrySets {
	if c.entr != nil {
		return c.entr
	}
	es := &entrySets{}
	c.entr = es
	ctorNames := map[string]bool{"New": true, "Load": true}
	scope := c.Root.Types.Scope()
	for _, name := range scope.Names() {
		obj := scope.Lookup(name)
		if !obj.Exported() {
			continue
		}
		switch o := obj.(type) {
		case *types.Func:
			fn := c.Prog.FuncValue(o)
			if fn == nil || fn.Blocks == nil {
				continue
			}
			if ctorNames[name] {
				es.CTOR = append(es.CTOR, fn)
			} else {
				es.API = append(es.API, fn)
			}
		case *types.TypeName:
			n, ok := o.Type().(*types.Named)
			if !ok {
				continue
			}
			for _, T := range []types.Type{n, types.NewPointer(n)} {
				ms := c.Prog.MethodSets.MethodSet(T)
				for i := 0; i < ms.Len(); i++ {
					sel := ms.At(i)
					if !sel.Obj().Exported() {
						continue
					}
					fn := c.Prog.MethodValue(sel)
					if fn == nil {
						continue
					}
					if fn.Synthetic != "" {
						// wrapper for a promoted/value method; the real body is reached through it
						continue
					}
					if fn.Pkg == c.SSA && fn.Blocks != nil {
						es.API = append(es.API, fn)
					}
				}
			}
		}
	}
	es.API = dedupFns(es.API)
	es.READ = c.reach(es.API)
	ctorReach := c.reach(es.CTOR)
	es.CTORONLY = map[*ssa.Function]bool{}
	for f := range ctorReach {
		if !es.READ[f] {
			es.CTORONLY[f] = true
		}
	}
	if f, ok := c.byName["New"]; ok {
		es.BUILD = c.reach([]*ssa.Function{f})
	}
	if f, ok := c.byName["(*Merger).WriteTo"]; ok {
		es.MERGE = c.reach([]*ssa.Function{f})
	}
	es.PERSIST = map[*ssa.Function]bool{}
	var proots []*ssa.Function
	for _, n := range []string{"(*Merger).WriteTo", "(*Segment).WriteTo", "(*interim).convert"} {
		if f, ok := c.byName[n]; ok {
			proots = append(proots, f)
		}
	}
	es.PERSIST = c.reach(proots)
	return es
}

func dedupFns(in []*ssa.Function) []*ssa.Function {
	seen := map[*ssa.Function]bool{}
	var out []*ssa.Function
	for _, f := range in {
		if !seen[f] {
			seen[f] = true
			out = append(out, f)
		}
	}
	sort.Slice(out, func(i, j int) bool { return out[i].Pos() < out[j].Pos() })
	return out
}

func sortedFnNames(m map[*ssa.Function]bool) []string {
	var out []string
	for f := range m {
		out = append(out, fnName(f))
	}
	sort.Strings(out)
	return out
}
