package main

import (
	"fmt"
	"go/constant"
	"go/token"
	"go/types"
	"sort"

	"golang.org/x/tools/go/ssa"
)

// intBits: the width of an integer type (int, uint and uintptr count as 64), 0
// for anything else.
func intBits(t types.Type) (bits int, signed bool) {
	b, ok := t.Underlying().(*types.Basic)
	if !ok || b.Info()&types.IsInteger == 0 {
		return 0, false
	}
	signed = b.Info()&types.IsUnsigned == 0
	switch b.Kind() {
	case types.Int8, types.Uint8:
		return 8, signed
	case types.Int16, types.Uint16:
		return 16, signed
	case types.Int32, types.Uint32:
		return 32, signed
	case types.Int64, types.Uint64, types.Int, types.Uint, types.Uintptr:
		return 64, signed
	}
	return 0, false
}

// maxOf: the largest value of an integer type of that width.
func maxOf(bits int, signed bool) uint64 {
	if signed {
		return 1<<(uint(bits)-1) - 1
	}
	if bits == 64 {
		return ^uint64(0)
	}
	return 1<<uint(bits) - 1
}

type boundEdge struct {
	edge  *ssa.BasicBlock
	bound uint64
}

// boundEdges: the successor blocks of tests of v against a constant, with the
// upper bound of v that holds on them.
func boundEdges(fn *ssa.Function, v ssa.Value) []boundEdge {
	var out []boundEdge
	same := func(x ssa.Value) bool {
		for {
			if x == v {
				return true
			}
			cv, ok := x.(*ssa.Convert)
			if !ok {
				return false
			}
			fb, _ := intBits(cv.X.Type())
			tb, _ := intBits(cv.Type())
			if fb == 0 || tb < fb {
				return false
			}
			x = cv.X
		}
	}
	konst := func(x ssa.Value) (uint64, bool) {
		k, ok := x.(*ssa.Const)
		if !ok || k.Value == nil || k.Value.Kind() != constant.Int {
			return 0, false
		}
		u, exact := constant.Uint64Val(k.Value)
		return u, exact
	}
	for _, b := range fn.Blocks {
		if len(b.Instrs) == 0 {
			continue
		}
		ifi, ok := b.Instrs[len(b.Instrs)-1].(*ssa.If)
		if !ok {
			continue
		}
		bo, ok := ifi.Cond.(*ssa.BinOp)
		if !ok {
			continue
		}
		x, y, op := bo.X, bo.Y, bo.Op
		if _, isK := konst(x); isK { // k <op> v  ==  v <flipped op> k
			x, y = y, x
			switch op {
			case token.LSS:
				op = token.GTR
			case token.LEQ:
				op = token.GEQ
			case token.GTR:
				op = token.LSS
			case token.GEQ:
				op = token.LEQ
			}
		}
		k, isK := konst(y)
		if !isK || !same(x) {
			continue
		}
		var edge *ssa.BasicBlock
		bound := k
		switch op {
		case token.GTR: // !(v > k): v <= k
			edge = b.Succs[1]
		case token.GEQ: // !(v >= k): v < k
			if k >= 1 {
				edge, bound = b.Succs[1], k-1
			}
		case token.LEQ:
			edge = b.Succs[0]
		case token.LSS:
			if k >= 1 {
				edge, bound = b.Succs[0], k-1
			}
		case token.EQL:
			edge = b.Succs[0]
		}
		if edge != nil && len(edge.Preds) == 1 {
			out = append(out, boundEdge{edge, bound})
		}
	}
	return out
}

// boundAt: the smallest upper bound of v that a test against a constant
// establishes on every path to block b.
func boundAt(fn *ssa.Function, v ssa.Value, b *ssa.BasicBlock) (uint64, bool) {
	best, ok := ^uint64(0), false
	for _, e := range boundEdges(fn, v) {
		if (e.edge == b || e.edge.Dominates(b)) && (!ok || e.bound < best) {
			best, ok = e.bound, true
		}
	}
	return best, ok
}

func init() {
	register(&Rule{
		Name:   "NARROW-GUARD",
		ZeroOK: true, // narrowing once behind the test and passing the narrow value on leaves fewer (or no) instances; the controls keep the matcher alive
		Doc:    "the exported API takes document numbers and similar quantities as 64-bit integers while the postings bitmaps are 32 bit: a 64-bit parameter of an exported function or method that reaches - unchanged, through any chain of static calls - a conversion to a narrower integer type passes, on every path from the API entry to that conversion, a comparison of the very same value with a constant that fits the narrower type (in the function of the conversion or at a call site up the chain). Otherwise a target of 2^32 or more wraps around and the search answers for a small number instead of the end",
		Run: func(c *Ctx, scope string, r *Report) {
			inSrc := map[*ssa.Function]bool{}
			for _, fn := range c.srcFns {
				inSrc[fn] = true
			}
			type res struct {
				fn         *ssa.Function
				pos, what  string
				unguarded  []string
				guardedVia string
			}
			found := map[string]*res{}
			type frame struct {
				fn *ssa.Function
				p  *ssa.Parameter
			}
			var walk func(fn *ssa.Function, v ssa.Value, p *ssa.Parameter, guarded string, bound uint64, chain string, seen map[frame]bool)
			walk = func(fn *ssa.Function, v ssa.Value, p *ssa.Parameter, guarded string, bound uint64, chain string, seen map[frame]bool) {
				refs := v.Referrers()
				if refs == nil {
					return
				}
				for _, ref := range *refs {
					switch x := ref.(type) {
					case *ssa.Convert:
						fb, _ := intBits(x.X.Type())
						tb, ts := intBits(x.Type())
						if fb == 0 || tb == 0 {
							continue
						}
						if tb >= fb {
							walk(fn, x, p, guarded, bound, chain, seen)
							continue
						}
						g := ""
						if guarded != "" && bound <= maxOf(tb, ts) {
							g = guarded
						}
						if bd, ok := boundAt(fn, p, x.Block()); ok && bd <= maxOf(tb, ts) {
							g = "a range test in " + fnName(fn)
						}
						ord := 0
						for _, b := range fn.Blocks {
							for _, ins := range b.Instrs {
								if cv, ok := ins.(*ssa.Convert); ok && cv.Pos() < x.Pos() && cv.X == x.X && types.Identical(cv.Type(), x.Type()) {
									ord++
								}
							}
						}
						key := fmt.Sprintf("%s/%s(%s)#%d", fnName(fn), x.Type().String(), p.Name(), ord)
						rs := found[key]
						if rs == nil {
							rs = &res{fn: fn, pos: c.pos(x.Pos()), what: x.Type().String() + "(" + p.Name() + ")"}
							found[key] = rs
						}
						if g == "" {
							rs.unguarded = append(rs.unguarded, chain)
						} else {
							rs.guardedVia = g
						}
					case *ssa.ChangeType:
						walk(fn, x, p, guarded, bound, chain, seen)
					case *ssa.Call:
						callee := x.Call.StaticCallee()
						if callee == nil || !inSrc[callee] || x.Call.IsInvoke() {
							continue
						}
						for j, a := range x.Call.Args {
							if a != v || j >= len(callee.Params) {
								continue
							}
							cp := callee.Params[j]
							fb, _ := intBits(cp.Type())
							if fb < 64 {
								continue
							}
							f := frame{callee, cp}
							if seen[f] {
								continue
							}
							seen[f] = true
							g, gb := guarded, bound
							if bd, ok := boundAt(fn, p, x.Block()); ok && (g == "" || bd < gb) {
								g, gb = "a range test in "+fnName(fn)+" before the call of "+fnName(callee), bd
							}
							walk(callee, cp, cp, g, gb, chain+" -> "+fnName(callee), seen)
							delete(seen, f)
						}
					}
				}
			}
			for _, fn := range c.srcFns {
				if fn.Parent() != nil || !token.IsExported(fn.Name()) {
					continue
				}
				if rv := fn.Signature.Recv(); rv != nil {
					if n := namedOf(rv.Type()); n == nil || !n.Obj().Exported() {
						continue
					}
				}
				for _, p := range fn.Params {
					if b, _ := intBits(p.Type()); b < 64 {
						continue
					}
					walk(fn, p, p, "", 0, fnName(fn), map[frame]bool{{fn, p}: true})
				}
			}
			keys := make([]string, 0, len(found))
			for k := range found {
				keys = append(keys, k)
			}
			sort.Strings(keys)
			for _, k := range keys {
				rs := found[k]
				if len(rs.unguarded) > 0 {
					sort.Strings(rs.unguarded)
					r.bad(k, fnName(rs.fn), rs.pos, "the 64-bit API argument is narrowed by "+rs.what+" without a range test on the way from "+rs.unguarded[0]+": a value of 2^32 or more wraps around and is treated as a small number")
				} else {
					r.ok(k, fnName(rs.fn), rs.pos, "narrowed only behind "+rs.guardedVia)
				}
			}
		},
	})
}
