package main

// C04 / C10 — wire agreement between writers and readers, and the frozen
// format table (golden) of format version 2.

import (
	"encoding/json"
	"fmt"
	"go/ast"
	"go/constant"
	"go/token"
	"go/types"
	"os"
	"path/filepath"
	"sort"
	"strings"

	"golang.org/x/tools/go/ssa"
)

// ---- region selection -------------------------------------------------------

// transparentALT inlines ALT wrappers (error-handling/optional branches) but keeps loops.
func transparentALT(items []wireItem) []wireItem {
	var out []wireItem
	for _, it := range items {
		switch it.Kind {
		case "ALT":
			out = append(out, transparentALT(it.Items)...)
		case "LOOP":
			it.Items = transparentALT(it.Items)
			out = append(out, it)
		default:
			out = append(out, it)
		}
	}
	return out
}

// sel: "all" | "tail:N" | "head:N" | "loop:K" (body of the K-th top-level loop, 1-based) | "loopunit:K" (the loop itself)
func selectRegion(items []wireItem, sel string) ([]wireItem, error) {
	items = transparentALT(items)
	var n int
	switch {
	case sel == "all":
		return items, nil
	case strings.HasPrefix(sel, "tail:"):
		fmt.Sscanf(sel, "tail:%d", &n)
		if n > len(items) {
			return nil, fmt.Errorf("signature has %d items, cannot take the last %d", len(items), n)
		}
		return items[len(items)-n:], nil
	case strings.HasPrefix(sel, "head:"):
		fmt.Sscanf(sel, "head:%d", &n)
		if n > len(items) {
			return nil, fmt.Errorf("signature has %d items, cannot take the first %d", len(items), n)
		}
		return items[:n], nil
	case strings.HasPrefix(sel, "loop:"):
		fmt.Sscanf(sel, "loop:%d", &n)
		ls := loopsOf(items)
		if n < 1 || n > len(ls) {
			return nil, fmt.Errorf("signature has %d top-level loops, cannot take loop %d", len(ls), n)
		}
		return ls[n-1], nil
	}
	return nil, fmt.Errorf("bad selector %q", sel)
}

type regionRef struct {
	fn  string
	sel string
}

type wirePair struct {
	name    string
	writers [][]regionRef // each writer alternative is a concatenation of regions
	reader  []regionRef
	reverse bool // reader parses the record tail-first
	prefix  bool // reader decodes only a prefix of the record (payload sliced later)
	note    string
}

var wirePairs = []wirePair{
	{name: "footer", writers: [][]regionRef{{{"persistFooter", "all"}}}, reader: []regionRef{{"parseFooter", "all"}}, reverse: true,
		note: "7 fixed-width big-endian fields, parsed from the end of the file"},
	{name: "field record + fields index", writers: [][]regionRef{{{"persistFields", "loop:2"}, {"persistFields", "loop:1"}}}, reader: []regionRef{{"(*Segment).loadFields", "loop:1"}},
		note: "the loader reads one index entry (U64) then the record it points to"},
	{name: "postings header", writers: [][]regionRef{{{"writePostings", "tail:4"}}}, reader: []regionRef{{"(*PostingsList).read", "all"}},
		note: "freq offset, loc offset (delta), bitmap length, bitmap bytes — the part after the postingsOffset capture"},
	{name: "int-chunk stream header", writers: [][]regionRef{{{"(*chunkedIntCoder).Write", "head:2"}}}, reader: []regionRef{{"newChunkedIntDecoder", "all"}},
		note: "chunk count, then one end offset per chunk"},
	{name: "dictionary record", writers: [][]regionRef{{{"(*interim).writeDictsField", "head:2"}}, {{"writeMergedDict", "all"}}}, reader: []regionRef{{"(*Segment).dictionary", "all"}},
		note: "uvarint length then the vellum FST bytes; builder and merger must agree with each other too"},
	{name: "doc-value index", writers: [][]regionRef{{{"(*interim).writeDicts", "loop:1"}}, {{"writeDvLocs", "loop:1"}}}, reader: []regionRef{{"(*Segment).loadDvReaders", "loop:1"}},
		note: "(start, end) uvarint pair per field"},
	{name: "stored record header", writers: [][]regionRef{{{"(*chunkedDocumentCoder).Add", "head:2"}}}, reader: []regionRef{{"(*Segment).getDocStoredOffsets", "tail:2"}}, prefix: true,
		note: "meta length, data length (meta and data bytes are sliced by those lengths)"},
	{name: "stored record header (merge copy path)", writers: [][]regionRef{{{"(*chunkedDocumentCoder).Add", "head:2"}}}, reader: []regionRef{{"(*Segment).copyStoredDocs", "loop:1/loop:1"}}, prefix: true,
		note: "the byte-copy path re-parses the same two lengths"},
	{name: "stored-chunk trailer", writers: [][]regionRef{{{"(*chunkedDocumentCoder).Write", "tail:3"}}}, reader: []regionRef{{"(*Segment).loadStoredFieldChunk", "all"}}, reverse: true,
		note: "chunk offsets, their byte length (U32), chunk count (U32); parsed tail-first"},
	{name: "doc-value chunk header", writers: [][]regionRef{{{"(*chunkedContentCoder).flushContents", "head:2"}}}, reader: []regionRef{{"(*docValueReader).loadDvChunk", "head:2"}},
		note: "doc count then delta-encoded (docNum, end offset) pairs"},
	{name: "doc-value trailer", writers: [][]regionRef{{{"(*chunkedContentCoder).Write", "tail:3"}}}, reader: []regionRef{{"(*Segment).loadFieldDocValueReader", "all"}}, reverse: true,
		note: "chunk offsets, their byte length (U64), chunk count (U64); parsed tail-first"},
}

func resolveRegion(x *wireExtractor, ref regionRef) ([]wireItem, error) {
	sig := x.signature(ref.fn)
	cur := sig
	for _, part := range strings.Split(ref.sel, "/") {
		var err error
		cur, err = selectRegion(cur, part)
		if err != nil {
			return nil, fmt.Errorf("%s %s: %v (signature: %s)", ref.fn, ref.sel, err, wireString(sig))
		}
	}
	return cur, nil
}

func concatRegions(x *wireExtractor, refs []regionRef) ([]wireItem, error) {
	var out []wireItem
	for _, r := range refs {
		it, err := resolveRegion(x, r)
		if err != nil {
			return nil, err
		}
		out = append(out, it...)
	}
	return out, nil
}

// ---- golden table -----------------------------------------------------------

type goldenTable struct {
	Comment    string            `json:"comment"`
	Constants  map[string]string `json:"constants"`
	UseSites   map[string]string `json:"use_sites"`
	Signatures map[string]string `json:"signatures"`
	Deps       map[string]string `json:"dependencies"`
	Report     map[string]string `json:"reported_not_gated"`
}

var formatConstNames = []string{
	"Version", "footerLen", "crcWidth", "verWidth", "chunkWidth", "fdvOffsetWidth", "fieldsOffsetWidth",
	"storedOffsetWidth", "numDocsWidth", "fileAddrWidth", "defaultDocumentChunkSize", "legacyChunkMode",
	"chunkModeV1", "defaultChunkMode", "maxDocsToScanSequentially", "termNotEncoded", "fieldNotUninverted",
	"fSTValEncodingMask", "fSTValEncoding1Hit", "mask31Bits", "fieldDvStartWidth", "fieldDvEndWidth",
	"fieldDvStartEndWidth", "sevenTimesNine", "lastByte", "significantBits", "_idFieldName",
}

// foldedArg returns the compile-time value of an expression, if constant.
func foldedArg(info *types.Info, e ast.Expr) (string, bool) {
	if tv, ok := info.Types[e]; ok && tv.Value != nil {
		return tv.Value.ExactString(), true
	}
	return "", false
}

// useSiteConstants: folded constant arguments at the call sites that fix the format.
func (c *Ctx) useSiteConstants() map[string]string {
	out := map[string]string{}
	type want struct {
		callee string
		arg    int
	}
	wants := []want{
		{"newChunkedDocumentCoder", 0},
		{"newChunkedIntCoder", 0},
		{"newWithChunkMode", 2},
		{"mergeSegmentBasesWriter", 3},
	}
	multi := map[string][]string{}
	defer func() {
		for k, vs := range multi {
			sort.Strings(vs)
			out[k] = strings.Join(vs, " ")
		}
	}()
	for _, f := range c.Root.Syntax {
		var encl string
		ast.Inspect(f, func(n ast.Node) bool {
			if fd, ok := n.(*ast.FuncDecl); ok {
				if obj, ok := c.Info.Defs[fd.Name].(*types.Func); ok {
					encl = declName(obj)
				}
			}
			call, ok := n.(*ast.CallExpr)
			if !ok {
				return true
			}
			var id *ast.Ident
			switch fx := ast.Unparen(call.Fun).(type) {
			case *ast.Ident:
				id = fx
			case *ast.SelectorExpr:
				id = fx.Sel
			}
			if id == nil {
				return true
			}
			fn, _ := c.Info.Uses[id].(*types.Func)
			if fn == nil || fn.Pkg() != c.Root.Types {
				return true
			}
			for _, w := range wants {
				if fn.Name() != w.callee || w.arg >= len(call.Args) {
					continue
				}
				// keyed by callee and argument only: the multiset of values over all
				// call sites, so that moving a call into a helper is not a change
				k := fmt.Sprintf("call %s(arg %d)", w.callee, w.arg)
				_ = encl
				if v, ok := foldedArg(c.Info, call.Args[w.arg]); ok {
					multi[k] = append(multi[k], v)
				} else {
					multi[k] = append(multi[k], "non-constant")
				}
			}
			return true
		})
	}
	// divisors and shifts inside the readers / encoders (constant operands of the arithmetic that defines the layout)
	for _, fnm := range []string{"(*Segment).getDocStoredOffsets", "getChunkSize", "encodeFreqHasLocs", "decodeFreqHasLocs", "fSTValEncode1Hit", "fSTValDecode1Hit", "under32Bits"} {
		fn, ok := c.byName[fnm]
		if !ok || fn.Blocks == nil {
			out[fnm+": body"] = "missing"
			continue
		}
		// straight-line codecs: the canonical expression of every result (which
		// operand is masked, shifted, or-ed with what) — independent of
		// statement order and of the operand order of commutative operators
		if len(fn.Blocks) == 1 && fnm != "(*Segment).getDocStoredOffsets" {
			if ret, ok := fn.Blocks[0].Instrs[len(fn.Blocks[0].Instrs)-1].(*ssa.Return); ok && len(ret.Results) > 0 {
				var rs []string
				for _, res := range ret.Results {
					rs = append(rs, canonExpr(res, 0))
				}
				out[fnm+": arithmetic constants"] = "returns " + strings.Join(rs, " , ")
				continue
			}
		}
		var ks []string
		scan := []*ssa.Function{fn}
		if fnm == "(*Segment).getDocStoredOffsets" {
			// the block-selecting division may sit in a small helper of the reader
			for _, sc := range staticCallees(fn) {
				if c.inRoot(sc) && sc.Blocks != nil {
					scan = append(scan, sc)
				}
			}
		}
		var scanBlocks []*ssa.BasicBlock
		for _, f := range scan {
			scanBlocks = append(scanBlocks, f.Blocks...)
		}
		for _, b := range scanBlocks {
			for _, ins := range b.Instrs {
				bin, ok := ins.(*ssa.BinOp)
				if !ok {
					continue
				}
				if fnm == "(*Segment).getDocStoredOffsets" {
					if bin.Op.String() != "/" {
						continue // only the block-selecting divisor is format; look-ahead sizes are not
					}
					if k, ok := bin.Y.(*ssa.Const); ok && k.Value != nil && k.Value.Kind() == constant.Int {
						ks = append(ks, "/"+k.Value.ExactString())
					}
					continue
				}
				for oi, op := range []ssa.Value{bin.X, bin.Y} {
					if k, ok := op.(*ssa.Const); ok && k.Value != nil && k.Value.Kind() == constant.Int {
						other := bin.Y
						if oi == 1 {
							other = bin.X
						}
						ks = append(ks, canonArith(bin.Op.String(), oi == 0)+k.Value.ExactString()+"@"+strings.Join(paramDeps(other), "+"))
					}
				}
			}
		}
		// a multiset: the order in which the tests are written, and which
		// polarity of a comparison is spelled, are not part of the format
		sort.Strings(ks)
		out[fnm+": arithmetic constants"] = strings.Join(ks, " ")
	}
	// doc-value chunk size: what the content coders are sized with and what the reader divides by,
	// folded to constants (a getChunkSize call with a constant legacy mode folds to that mode)
	{
		ws, rs := c.dvChunkSizes()
		fold := func(sites []dvChunkSite) string {
			var vs []string
			for _, s := range sites {
				if s.ok {
					vs = append(vs, fmt.Sprint(s.v))
				} else {
					vs = append(vs, "non-constant")
				}
			}
			sort.Strings(vs)
			// the number of sites is not format: one entry per distinct value
			var uniqVs []string
			for i, v := range vs {
				if i == 0 || v != vs[i-1] {
					uniqVs = append(uniqVs, v)
				}
			}
			return strings.Join(uniqVs, " ")
		}
		out["doc-value chunk size (writers)"] = fold(ws)
		out["doc-value chunk size (reader)"] = fold(rs)
	}
	// termSeparator initial value
	for _, f := range c.Root.Syntax {
		for _, d := range f.Decls {
			gd, ok := d.(*ast.GenDecl)
			if !ok {
				continue
			}
			for _, sp := range gd.Specs {
				vs, ok := sp.(*ast.ValueSpec)
				if !ok {
					continue
				}
				for i, n := range vs.Names {
					if n.Name == "termSeparator" && i < len(vs.Values) {
						if v, ok := foldedArg(c.Info, vs.Values[i]); ok {
							out["var termSeparator"] = v
						}
					}
				}
			}
		}
	}
	return out
}

// paramDeps: the names of the parameters a value is computed from.
func paramDeps(v ssa.Value) []string {
	seen := map[ssa.Value]bool{}
	set := map[string]bool{}
	var walk func(v ssa.Value)
	walk = func(v ssa.Value) {
		if seen[v] {
			return
		}
		seen[v] = true
		switch x := v.(type) {
		case *ssa.Parameter:
			set[x.Name()] = true
		case *ssa.BinOp:
			walk(x.X)
			walk(x.Y)
		case *ssa.UnOp:
			walk(x.X)
		case *ssa.Convert:
			walk(x.X)
		case *ssa.ChangeType:
			walk(x.X)
		case *ssa.Phi:
			for _, e := range x.Edges {
				walk(e)
			}
		case *ssa.Call:
			for _, a := range x.Call.Args {
				walk(a)
			}
		case *ssa.Extract:
			walk(x.Tuple)
		}
	}
	walk(v)
	var out []string
	for n := range set {
		out = append(out, n)
	}
	sort.Strings(out)
	return out
}

// canonExpr prints a straight-line expression with the operands of
// commutative operators sorted and conversions dropped.
func canonExpr(v ssa.Value, depth int) string {
	if depth > 12 {
		return "…"
	}
	switch x := v.(type) {
	case *ssa.Const:
		if x.Value == nil {
			return "nil"
		}
		return x.Value.ExactString()
	case *ssa.Parameter:
		return x.Name()
	case *ssa.Convert:
		return canonExpr(x.X, depth+1)
	case *ssa.ChangeType:
		return canonExpr(x.X, depth+1)
	case *ssa.UnOp:
		return x.Op.String() + canonExpr(x.X, depth+1)
	case *ssa.BinOp:
		switch x.Op.String() {
		case "&", "|", "^", "+", "*":
			// associative and commutative: one flat, sorted operand list
			var ops []string
			var flat func(v ssa.Value, d int)
			flat = func(v ssa.Value, d int) {
				for {
					switch cv := v.(type) {
					case *ssa.Convert:
						v = cv.X
						continue
					case *ssa.ChangeType:
						v = cv.X
						continue
					}
					break
				}
				if b2, ok := v.(*ssa.BinOp); ok && b2.Op == x.Op && d < 12 {
					flat(b2.X, d+1)
					flat(b2.Y, d+1)
					return
				}
				ops = append(ops, canonExpr(v, depth+1))
			}
			flat(x, 0)
			sort.Strings(ops)
			return "(" + strings.Join(ops, x.Op.String()) + ")"
		}
		a, b := canonExpr(x.X, depth+1), canonExpr(x.Y, depth+1)
		switch x.Op.String() {
		case "==", "!=":
			if b < a {
				a, b = b, a
			}
		case ">", ">=":
			// a > b  ==  b < a
			op := map[string]string{">": "<", ">=": "<="}[x.Op.String()]
			return "(" + b + op + a + ")"
		}
		return "(" + a + x.Op.String() + b + ")"
	case *ssa.Call:
		var as []string
		for _, a := range x.Call.Args {
			as = append(as, canonExpr(a, depth+1))
		}
		return calleeFullName(&x.Call) + "(" + strings.Join(as, ",") + ")"
	case *ssa.Extract:
		return canonExpr(x.Tuple, depth+1) + fmt.Sprintf("#%d", x.Index)
	}
	return v.Name()
}

// canonArith: a comparison with a constant is recorded by the boundary it
// draws, not by the polarity or operand order it is spelled with: x<=K, x>K,
// K>=x and K<x all become "le"; x<K, x>=K, K>x, K<=x become "lt"; == and !=
// become "eq".  Arithmetic operators are kept.
func canonArith(op string, constIsLeft bool) string {
	switch op {
	case "==", "!=":
		return "eq"
	case "<=", ">":
		if constIsLeft {
			return "lt"
		}
		return "le"
	case "<", ">=":
		if constIsLeft {
			return "le"
		}
		return "lt"
	}
	return op
}

func (c *Ctx) extractGolden() *goldenTable {
	g := &goldenTable{
		Comment:    "format version 2 of blugelabs/ice as extracted by icecheck (E8) from the pinned reference tree; compared semantically (folded constants, primitive kinds/order/loops, carried struct fields) on every run of C10",
		Constants:  map[string]string{},
		UseSites:   c.useSiteConstants(),
		Signatures: map[string]string{},
		Deps:       map[string]string{},
		Report:     map[string]string{},
	}
	for _, n := range formatConstNames {
		k, ok := c.Root.Types.Scope().Lookup(n).(*types.Const)
		if !ok {
			g.Constants[n] = "MISSING"
			continue
		}
		g.Constants[n] = k.Val().ExactString()
	}
	w := newWireExtractor(c, "w")
	r := newWireExtractor(c, "r")
	for _, n := range wireWriterFns {
		if c.HasFn(n) {
			g.Signatures["W "+n] = wireString(w.signature(n))
		} else {
			g.Signatures["W "+n] = "MISSING"
		}
	}
	for _, n := range wireReaderFns {
		if c.HasFn(n) {
			g.Signatures["R "+n] = wireString(r.signature(n))
		} else {
			g.Signatures["R "+n] = "MISSING"
		}
	}
	for _, p := range append(w.problems, r.problems...) {
		g.Signatures["PROBLEM "+p] = "byte order"
	}
	// dependency versions that define serialisations we do not analyse
	if b, err := os.ReadFile(filepath.Join(c.Dir, "go.mod")); err == nil {
		for _, line := range strings.Split(string(b), "\n") {
			f := strings.Fields(strings.TrimSpace(line))
			if len(f) >= 2 && (strings.Contains(f[0], "roaring") || strings.Contains(f[0], "vellum") || strings.Contains(f[0], "klauspost/compress")) {
				g.Deps[f[0]] = f[1]
			}
		}
	}
	if k, ok := c.Root.Types.Scope().Lookup("ZSTDCompressionLevel").(*types.Const); ok {
		g.Report["ZSTDCompressionLevel"] = k.Val().ExactString()
	}
	return g
}

func writeGoldenFile(c *Ctx, path string) error {
	g := c.extractGolden()
	b, _ := json.MarshalIndent(g, "", " ")
	if err := os.MkdirAll(filepath.Dir(path), 0o755); err != nil {
		return err
	}
	return os.WriteFile(path, append(b, '\n'), 0o644)
}

func loadGolden(vd string) (*goldenTable, error) {
	b, err := os.ReadFile(filepath.Join(vd, "golden", "format_v2.json"))
	if err != nil {
		return nil, err
	}
	var g goldenTable
	if err := json.Unmarshal(b, &g); err != nil {
		return nil, err
	}
	return &g, nil
}

// stripBraces makes optional-branch nesting transparent: whether a primitive is
// emitted inside an if/else nest is a property of control flow, not of the layout.
// normBraces keeps optional emissions ({…}: written only on some paths)
// visible but makes their nesting immaterial: {{a}} is {a}, {} is nothing,
// and the alternative separator is dropped.
func normBraces(s string) string {
	s = strings.NewReplacer("{", " { ", "}", " } ", "|", " ").Replace(s)
	toks := strings.Fields(s)
	for changed := true; changed; {
		changed = false
		var out []string
		for i := 0; i < len(toks); i++ {
			switch {
			case toks[i] == "{" && i+1 < len(toks) && toks[i+1] == "}":
				i++
				changed = true
			case toks[i] == "{" && i+1 < len(toks) && toks[i+1] == "{":
				// find the matching braces; collapse when the inner pair spans the whole outer pair
				depth, j := 0, i
				for ; j < len(toks); j++ {
					if toks[j] == "{" {
						depth++
					} else if toks[j] == "}" {
						depth--
						if depth == 0 {
							break
						}
					}
				}
				d2, k := 0, i+1
				for ; k < len(toks); k++ {
					if toks[k] == "{" {
						d2++
					} else if toks[k] == "}" {
						d2--
						if d2 == 0 {
							break
						}
					}
				}
				if j < len(toks) && k == j-1 {
					out = append(out, toks[i+1:j]...)
					i = j
					changed = true
				} else {
					out = append(out, toks[i])
				}
			default:
				out = append(out, toks[i])
			}
		}
		toks = out
	}
	return strings.Join(toks, " ")
}

// sameSignature compares two signature strings: primitive kinds, order and
// loop structure must be equal; a carried field is compared only when both
// sides name one (whether a decoded value lands in a local first or directly
// in a struct field is not part of the layout).
func sameSignature(a, b string, keepOptional bool) bool {
	tok := func(s string) []string {
		if keepOptional {
			// writers: whether a primitive is emitted on every path is part of the format
			s = normBraces(s)
		} else {
			// readers: which reads are skipped for an absent section is error/empty handling, not layout
			s = strings.NewReplacer("{", "", "}", "", "|", "").Replace(s)
		}
		s = strings.ReplaceAll(s, "[]", "<elem>") // "[]" inside a carried name is not loop structure
		// a blank inside a carried name ("len x", "const Version") does not separate items
		var sb strings.Builder
		depth := 0
		for _, ch := range s {
			switch {
			case ch == '(':
				depth++
			case ch == ')' && depth > 0:
				depth--
			case ch == ' ' && depth > 0:
				ch = '_'
			}
			sb.WriteRune(ch)
		}
		s = sb.String()
		s = strings.NewReplacer("[", " [ ", "]", " ] ").Replace(s)
		return strings.Fields(s)
	}
	ta, tb := tok(a), tok(b)
	if len(ta) != len(tb) {
		return false
	}
	split := func(t string) (string, string) {
		if i := strings.Index(t, "("); i > 0 && strings.HasSuffix(t, ")") {
			return t[:i], t[i+1 : len(t)-1]
		}
		return t, ""
	}
	for i := range ta {
		ka, ca := split(ta[i])
		kb, cb := split(tb[i])
		if ka != kb {
			return false
		}
		if ca != "" && cb != "" && ca != cb {
			// "len" of something unnamed in the reference, "len x" now: the same kind of quantity
			// (only in this direction: the reference names nothing, the current code names what it
			// measures; a reference that names a field is not satisfied by the length of something else)
			if cb == "len" && strings.HasPrefix(ca, "len_") {
				continue
			}
			// a carried field is identified by its name; the struct that holds it may change
			// (c.offsets -> c.progress.offsets)
			last := func(s string) string { return s[strings.LastIndex(s, ".")+1:] }
			if strings.Contains(ca, ".") && strings.Contains(cb, ".") && last(ca) == last(cb) && strings.HasPrefix(ca, "len_") == strings.HasPrefix(cb, "len_") {
				continue
			}
			return false
		}
	}
	return true
}

func sortedKeys(m map[string]string) []string {
	var out []string
	for k := range m {
		out = append(out, k)
	}
	sort.Strings(out)
	return out
}

func init() {
	register(&Rule{
		Name:  "WIRE-AGREE",
		Floor: 8,
		Doc:   "for each writer/reader pair of an on-disk record the writer's and the reader's sequences of wire primitives (uvarint / fixed-width big-endian / raw bytes, loop structure; tail-first parsed trailers compared reversed) are equal; where builder and merger both write a record they agree with each other; footer fields correspond by name",
		Run: func(c *Ctx, scope string, r *Report) {
			w := newWireExtractor(c, "w")
			rd := newWireExtractor(c, "r")
			for _, p := range wirePairs {
				key := p.name
				rItems, err := concatRegions(rd, p.reader)
				if err != nil {
					r.undecided(key, "", "-", "cannot extract the reader region: "+err.Error())
					continue
				}
				rs := kindsOnly(rItems)
				bad := ""
				var ws []string
				for _, alt := range p.writers {
					wItems, err := concatRegions(w, alt)
					if err != nil {
						bad = "cannot extract the writer region: " + err.Error()
						break
					}
					if p.reverse {
						wItems = reverseItems(wItems)
					}
					wk := kindsOnly(wItems)
					ws = append(ws, alt[0].fn+": "+wk)
					if p.prefix {
						if !strings.HasPrefix(wk, rs) && !strings.HasPrefix(rs, wk) {
							bad = fmt.Sprintf("writer %s emits [%s] but the reader decodes [%s]", alt[0].fn, wk, rs)
						}
					} else if wk != rs && p.reverse && strings.Contains(strings.ToLower(p.name), "footer") && kindsOnly(reverseItems(wItems)) == rs {
						// the footer is read front to back from Len-footerLen instead of field by field from
						// the end: the same layout, its placement is what the offsets check below decides
						wItems = reverseItems(wItems)
					} else if wk != rs {
						bad = fmt.Sprintf("writer %s emits [%s] but the reader decodes [%s]", alt[0].fn, wk, rs)
					}
					// footer: carried fields must correspond
					if p.name == "footer" && bad == "" {
						for i := range wItems {
							wc, rc := wItems[i].Carry, rItems[i].Carry
							if strings.HasPrefix(wc, "footer.") && strings.HasPrefix(rc, "footer.") && wc != rc {
								bad = fmt.Sprintf("footer position %d from the end: written from %s, parsed into %s", i, wc, rc)
							}
						}
					}
				}
				pos := "-"
				if len(rItems) > 0 {
					pos = c.pos(rItems[0].pos)
				}
				if bad != "" {
					r.bad(key, p.reader[0].fn, pos, bad, p.note)
				} else {
					r.ok(key, p.reader[0].fn, pos, "writer(s) and reader agree: ["+rs+"]", ws...)
				}
			}
			for _, pr := range append(w.problems, rd.problems...) {
				r.bad("byte-order/"+pr, "", "-", pr)
			}
			// parseFooter offsets: each field is read at (previous offset - its width) with a width matching its decode
			c.footerOffsets(r)
		},
	})

	register(&Rule{
		Name:  "FMT-SEQ",
		Floor: 20,
		Doc:   "the wire signature (primitive kinds, order, loop structure, carried struct fields, byte order) of every writer and reader function of the format equals the golden table extracted from the pinned reference tree: a change made symmetrically on both sides is still a change of format version 2",
		Run: func(c *Ctx, scope string, r *Report) {
			g, err := loadGolden(verifDir())
			if err != nil {
				panic(infra("golden table: %v", err))
			}
			cur := c.extractGolden()
			for _, k := range sortedKeys(g.Signatures) {
				want, got := g.Signatures[k], cur.Signatures[k]
				fn := strings.TrimSpace(k[2:])
				pos := "-"
				if f, ok := c.byName[fn]; ok {
					pos = c.pos(f.Pos())
				}
				switch {
				case got == "MISSING" || got == "" && want != "":
					r.undecided("sig/"+k, fn, pos, "function "+fn+" no longer exists or emits nothing: the format extraction cannot locate this part of the format (renamed/refactored?) — golden: "+want)
				case fn == "parseFooter" && !strings.ContainsAny(got, "[]{}") && sameSignature(reverseSig(got), want, false):
					r.ok("sig/"+k, fn, pos, "format v2 (the footer is decoded front to back: the reference order reversed; its placement is WIRE-AGREE's offsets check): "+got)
				case !sameSignature(got, want, strings.HasPrefix(k, "W ")):
					r.bad("sig/"+k, fn, pos, "wire signature differs from format v2: now ["+got+"], reference ["+want+"]")
				default:
					r.ok("sig/"+k, fn, pos, "["+got+"]")
				}
			}
			for _, k := range sortedKeys(cur.Signatures) {
				if _, ok := g.Signatures[k]; !ok {
					r.bad("sig/"+k, "", "-", "not in the golden table: "+k+" = "+cur.Signatures[k])
				}
			}
		},
	})

	register(&Rule{
		Name:  "FMT-CONST",
		Floor: 30,
		Doc:   "every constant that fixes the layout (named format constants; folded constant arguments at the call sites that choose block/chunk sizes and chunk modes; arithmetic constants of the bit-level encoders; the doc-value term separator; versions of the dependencies whose serialisations are embedded) equals the golden table of the pinned reference",
		Run: func(c *Ctx, scope string, r *Report) {
			g, err := loadGolden(verifDir())
			if err != nil {
				panic(infra("golden table: %v", err))
			}
			cur := c.extractGolden()
			cmp := func(kind string, want, got map[string]string) {
				for _, k := range sortedKeys(want) {
					key := kind + "/" + k
					switch {
					case got[k] == "MISSING" || got[k] == "missing":
						r.undecided(key, "", "-", kind+" "+k+" cannot be resolved any more (renamed?): reference value "+want[k])
					case got[k] != want[k]:
						if _, ok := got[k]; !ok {
							r.undecided(key, "", "-", kind+" "+k+" no longer exists in the tree (reference value "+want[k]+"): the site that fixed this part of the format moved; review")
						} else {
							r.bad(key, "", "-", fmt.Sprintf("%s %s is %s, format v2 reference has %s", kind, k, got[k], want[k]))
						}
					default:
						r.ok(key, "", "-", k+" = "+got[k])
					}
				}
				for _, k := range sortedKeys(got) {
					if _, ok := want[k]; !ok {
						r.bad(kind+"/"+k, "", "-", "new format-relevant site not in the golden table: "+k+" = "+got[k])
					}
				}
			}
			cmp("const", g.Constants, cur.Constants)
			cmp("use-site", g.UseSites, cur.UseSites)
			cmp("dependency", g.Deps, cur.Deps)
			for k, v := range cur.Report {
				r.note("reported, not gated: %s = %s (reference %s)", k, v, g.Report[k])
			}
		},
	})

	register(&Rule{
		Name:  "FMT-CODEC",
		Floor: 2,
		Doc:   "ZSTDCompress/ZSTDDecompress are klauspost zstd EncodeAll/DecodeAll; every compress/decompress in the package goes through them; no other compression library is imported",
		Run: func(c *Ctx, scope string, r *Report) {
			for _, spec := range []struct{ fn, method string }{{"ZSTDCompress", "EncodeAll"}, {"ZSTDDecompress", "DecodeAll"}} {
				fn := c.MustFn(spec.fn)
				ok := false
				for _, b := range fn.Blocks {
					for _, ins := range b.Instrs {
						if call, isCall := ins.(*ssa.Call); isCall {
							if sc := call.Call.StaticCallee(); sc != nil && sc.Name() == spec.method && strings.HasPrefix(funcFullName(sc), "github.com/klauspost/compress/zstd.") {
								ok = true
							}
						}
					}
				}
				if ok {
					r.ok(spec.fn+"/codec", spec.fn, c.pos(fn.Pos()), "klauspost zstd "+spec.method)
				} else {
					r.bad(spec.fn+"/codec", spec.fn, c.pos(fn.Pos()), spec.fn+" no longer uses klauspost zstd "+spec.method)
				}
			}
			// direct uses of zstd outside the two wrappers
			for _, fn := range c.srcFns {
				top := fnName(topFn(fn))
				if top == "ZSTDCompress" || top == "ZSTDDecompress" || fn.Synthetic != "" || fn.Name() == "init" || c.inOnceDo(fn) {
					continue
				}
				// a helper that only the two wrappers call is part of them
				var onlyWrappers func(f *ssa.Function, depth int) bool
				onlyWrappers = func(f *ssa.Function, depth int) bool {
					t := fnName(topFn(f))
					if t == "ZSTDCompress" || t == "ZSTDDecompress" {
						return true
					}
					sites := c.callsTo(topFn(f))
					if len(sites) == 0 || depth > 2 || c.usedAsValueOutsideOnce(topFn(f)) {
						return false
					}
					for _, site := range sites {
						if !onlyWrappers(site.Parent(), depth+1) {
							return false
						}
					}
					return true
				}
				if onlyWrappers(fn, 0) {
					continue
				}
				for _, b := range fn.Blocks {
					for _, ins := range b.Instrs {
						if ci, ok := ins.(ssa.CallInstruction); ok {
							if sc := ci.Common().StaticCallee(); sc != nil && strings.Contains(funcFullName(sc), "/compress/") {
								r.bad(fnName(fn)+"/direct-codec", fnName(fn), c.pos(ins.Pos()), "compression library used outside ZSTDCompress/ZSTDDecompress: "+funcFullName(sc))
							}
						}
					}
				}
			}
			for _, imp := range c.Root.Types.Imports() {
				p := imp.Path()
				for _, bad := range []string{"compress/", "snappy", "lz4", "/s2", "brotli", "xz"} {
					if strings.Contains(p, bad) && p != "github.com/klauspost/compress/zstd" {
						r.bad("import/"+p, "", "-", "the package imports another compression library: "+p)
					}
				}
			}
			r.ok("imports", "", "-", fmt.Sprintf("%d imports, only klauspost/compress/zstd compresses", len(c.Root.Types.Imports())))
		},
	})
}

// footerOffsets: the reads of parseFooter (directly or through a helper it
// calls) form a contiguous tail of the data: evaluated symbolically on SSA as
// data.Len() + delta, each read [start,end) has end-start equal to the width
// of its fixed-width decode, reads are adjacent from the end of the data
// backwards and cover exactly footerLen bytes.
type offVal struct {
	rel bool // relative to data.Len()
	v   int64
	ok  bool
}

func evalOff(v ssa.Value, env map[*ssa.Parameter]offVal, depth int) offVal {
	if depth > 48 {
		return offVal{}
	}
	switch x := v.(type) {
	case *ssa.Const:
		if k, ok := constInt(x); ok {
			return offVal{false, k, true}
		}
	case *ssa.Convert:
		return evalOff(x.X, env, depth+1)
	case *ssa.Parameter:
		if b, ok := env[x]; ok {
			return b
		}
	case *ssa.Call:
		if sc := x.Call.StaticCallee(); sc != nil && sc.Name() == "Len" && sc.Signature.Recv() != nil && isNamed(sc.Signature.Recv().Type(), "github.com/blugelabs/bluge_segment_api", "Data") {
			return offVal{true, 0, true}
		}
	case *ssa.Field:
		// field i of a struct of offsets computed by an in-package helper
		if call, ok := x.X.(*ssa.Call); ok {
			return evalCalleeStructField(call, x.Field, env, depth+1)
		}
	case *ssa.UnOp:
		if x.Op != token.MUL {
			break
		}
		fa, ok := x.X.(*ssa.FieldAddr)
		if !ok {
			break
		}
		al, ok := fa.X.(*ssa.Alloc)
		if !ok {
			break
		}
		// a local struct: the value stored to that field, or the struct a helper returned
		if st := structFieldStore(al, fa.Field); st != nil {
			return evalOff(st.Val, env, depth+1)
		}
		for _, ref := range *al.Referrers() {
			if st, ok := ref.(*ssa.Store); ok && st.Addr == ssa.Value(al) {
				if call, ok := st.Val.(*ssa.Call); ok {
					return evalCalleeStructField(call, fa.Field, env, depth+1)
				}
			}
		}
	case *ssa.BinOp:
		a := evalOff(x.X, env, depth+1)
		b := evalOff(x.Y, env, depth+1)
		if !a.ok || !b.ok {
			return offVal{}
		}
		switch x.Op {
		case token.ADD:
			if a.rel && b.rel {
				return offVal{}
			}
			return offVal{a.rel || b.rel, a.v + b.v, true}
		case token.SUB:
			if b.rel {
				return offVal{}
			}
			return offVal{a.rel, a.v - b.v, true}
		}
	}
	return offVal{}
}

// structFieldStore: the single store into field i of the local struct al.
func structFieldStore(al *ssa.Alloc, field int) *ssa.Store {
	var out *ssa.Store
	n := 0
	for _, ref := range *al.Referrers() {
		fa, ok := ref.(*ssa.FieldAddr)
		if !ok || fa.Field != field {
			continue
		}
		for _, r2 := range *fa.Referrers() {
			if st, ok := r2.(*ssa.Store); ok && st.Addr == ssa.Value(fa) {
				out = st
				n++
			}
		}
	}
	if n == 1 {
		return out
	}
	return nil
}

// evalCalleeStructField: field i of the struct an in-package helper returns,
// evaluated with the helper's parameters bound to the call's arguments.
func evalCalleeStructField(call *ssa.Call, field int, env map[*ssa.Parameter]offVal, depth int) offVal {
	sc := call.Call.StaticCallee()
	if sc == nil || sc.Blocks == nil || depth > 48 {
		return offVal{}
	}
	ne := map[*ssa.Parameter]offVal{}
	for i, p := range sc.Params {
		if i < len(call.Call.Args) {
			ne[p] = evalOff(call.Call.Args[i], env, depth+1)
		}
	}
	for _, b := range sc.Blocks {
		ret, ok := b.Instrs[len(b.Instrs)-1].(*ssa.Return)
		if !ok || len(ret.Results) != 1 {
			continue
		}
		ld, ok := ret.Results[0].(*ssa.UnOp)
		if !ok || ld.Op != token.MUL {
			continue
		}
		al, ok := ld.X.(*ssa.Alloc)
		if !ok {
			continue
		}
		if st := structFieldStore(al, field); st != nil {
			return evalOff(st.Val, ne, depth+1)
		}
	}
	return offVal{}
}

type footerRead struct {
	start, end, decodeW int64
	pos                 token.Pos
}

func (c *Ctx) scanFooterReads(f *ssa.Function, env map[*ssa.Parameter]offVal, depth int, reads *[]footerRead, problems *[]string) {
	for _, b := range f.Blocks {
		for _, ins := range b.Instrs {
			call, ok := ins.(*ssa.Call)
			if !ok {
				continue
			}
			if isDataRead(&call.Call) {
				s := evalOff(call.Call.Args[1], env, 0)
				e := evalOff(call.Call.Args[2], env, 0)
				if !s.ok || !e.ok || !s.rel || !e.rel {
					*problems = append(*problems, "a footer read at "+c.pos(call.Pos())+" is not located relative to data.Len()")
					continue
				}
				x := footerRead{start: s.v, end: e.v, pos: call.Pos()}
				if d := tupleParts(call)[0]; d != nil {
					for _, ref := range *d.Referrers() {
						if dc, ok := ref.(*ssa.Call); ok && dc.Call.StaticCallee() != nil {
							switch dc.Call.StaticCallee().Name() {
							case "Uint16":
								x.decodeW = 2
							case "Uint32":
								x.decodeW = 4
							case "Uint64":
								x.decodeW = 8
							}
						}
					}
				}
				if x.decodeW == 0 {
					if d := tupleParts(call)[0]; d != nil {
						x.decodeW = c.decodedWidth(d, 0)
					}
				}
				*reads = append(*reads, x)
				continue
			}
			if sc := call.Call.StaticCallee(); sc != nil && c.inRoot(sc) && sc.Blocks != nil && depth < 2 {
				ne := map[*ssa.Parameter]offVal{}
				for i, p := range sc.Params {
					if i < len(call.Call.Args) {
						if ov := evalOff(call.Call.Args[i], env, 0); ov.ok {
							ne[p] = ov
						}
					}
				}
				c.scanFooterReads(sc, ne, depth+1, reads, problems)
			}
		}
	}
}

func (c *Ctx) footerOffsets(r *Report) {
	fn := c.MustFn("parseFooter")
	key := "parseFooter/offsets"
	var reads []footerRead
	var problems []string
	c.scanFooterReads(fn, map[*ssa.Parameter]offVal{}, 0, &reads, &problems)
	if len(problems) > 0 && len(reads) == 0 {
		// not offsets computed from data.Len(): maybe a cursor that walks backwards from it
		if how, bad := c.cursorFooterProof(fn); how != "" {
			r.ok(key, "parseFooter", c.pos(fn.Pos()), how)
			return
		} else if bad != "" {
			r.bad(key, "parseFooter", c.pos(fn.Pos()), bad)
			return
		}
	}
	if len(problems) > 0 {
		r.bad(key, "parseFooter", c.pos(fn.Pos()), problems[0])
		return
	}
	if len(reads) == 0 {
		r.undecided(key, "parseFooter", c.pos(fn.Pos()), "no footer reads recognised")
		return
	}
	sort.Slice(reads, func(i, j int) bool { return reads[i].start > reads[j].start })
	var total int64
	prev := int64(0)
	for i, x := range reads {
		w := x.end - x.start
		total += w
		if x.end != prev {
			r.bad(key, "parseFooter", c.pos(x.pos), fmt.Sprintf("footer read #%d (from the end) covers [Len%+d, Len%+d) but the previous field starts at Len%+d: the fields are not adjacent", i+1, x.start, x.end, prev))
			return
		}
		if w != x.decodeW {
			r.bad(key, "parseFooter", c.pos(x.pos), fmt.Sprintf("footer read #%d (from the end) spans %d bytes but is decoded as %d bytes", i+1, w, x.decodeW))
			return
		}
		prev = x.start
	}
	fl, _ := constantInt64(c.ConstVal("footerLen"))
	if total != fl {
		r.bad(key, "parseFooter", c.pos(fn.Pos()), fmt.Sprintf("the footer reads cover %d bytes but footerLen is %d", total, fl))
		return
	}
	r.ok(key, "parseFooter", c.pos(fn.Pos()), fmt.Sprintf("%d contiguous fields from the end, widths match their decodes, total %d = footerLen", len(reads), total))
}

// reverseSig: a flat signature string with its items in the opposite order.
func reverseSig(sig string) string {
	parts := strings.Fields(sig)
	for i, j := 0, len(parts)-1; i < j; i, j = i+1, j-1 {
		parts[i], parts[j] = parts[j], parts[i]
	}
	return strings.Join(parts, " ")
}

// decodedWidth: how many leading bytes of buffer value v the function decodes
// as fixed-width fields, when v is taken apart piecewise - constant-bounded
// sub-slices that follow one another without gap, each decoded by
// binary.BigEndian.UintN, or through a bytes.Reader with binary.Read calls
// (in a loop over a layout table: the sum of the widths of the table's
// entries).  -1 when the pieces do not line up, 0 when nothing is recognised.
func (c *Ctx) decodedWidth(v ssa.Value, depth int) int64 {
	if v.Referrers() == nil || depth > 3 {
		return 0
	}
	type piece struct{ lo, w int64 }
	var pieces []piece
	for _, ref := range *v.Referrers() {
		switch x := ref.(type) {
		case *ssa.Call:
			sc := x.Call.StaticCallee()
			if sc == nil {
				continue
			}
			switch {
			case strings.Contains(funcFullName(sc), "encoding/binary") && strings.HasPrefix(sc.Name(), "Uint"):
				switch sc.Name() {
				case "Uint16":
					pieces = append(pieces, piece{0, 2})
				case "Uint32":
					pieces = append(pieces, piece{0, 4})
				case "Uint64":
					pieces = append(pieces, piece{0, 8})
				}
			case funcFullName(sc) == "bytes.NewReader":
				pieces = append(pieces, piece{0, c.readerWidth(x)})
			}
		case *ssa.Slice:
			lo := int64(0)
			if x.Low != nil {
				k, ok := constInt(x.Low)
				if !ok {
					return -1
				}
				lo = k
			}
			w := c.decodedWidth(x, depth+1)
			if w < 0 {
				return -1
			}
			if w > 0 {
				if x.High != nil {
					if hi, ok := constInt(x.High); ok && hi-lo != w {
						return -1 // the piece is not decoded in full
					}
				}
				pieces = append(pieces, piece{lo, w})
			}
		}
	}
	sort.Slice(pieces, func(i, j int) bool { return pieces[i].lo < pieces[j].lo })
	var total int64
	for _, p := range pieces {
		if p.lo != total {
			return -1
		}
		total += p.w
	}
	return total
}

// readerWidth: the bytes consumed from the bytes.Reader made by mk through
// binary.Read calls on it: the width of the pointee of each destination, a
// destination that is the element of a range over a layout table counting as
// the whole table.
func (c *Ctx) readerWidth(mk *ssa.Call) int64 {
	fn := mk.Parent()
	var total int64
	for _, b := range fn.Blocks {
		for _, ins := range b.Instrs {
			call, ok := ins.(*ssa.Call)
			if !ok {
				continue
			}
			sc := call.Call.StaticCallee()
			if sc == nil || funcFullName(sc) != "encoding/binary.Read" {
				continue
			}
			src := call.Call.Args[0]
			if mi, ok := src.(*ssa.MakeInterface); ok {
				src = mi.X
			}
			if src != ssa.Value(mk) {
				continue
			}
			w := c.destWidth(call.Call.Args[2], call.Block())
			if w <= 0 {
				return 0
			}
			total += w
		}
	}
	return total
}

// destWidth: the encoded width of a binary.Read destination: a pointer to a
// fixed-width integer, or the element of a range over the result of a
// layout-table function (sum of the widths of the pointers it lists).
func (c *Ctx) destWidth(dst ssa.Value, at *ssa.BasicBlock) int64 {
	sizeOfPtr := func(t types.Type) int64 {
		p, ok := t.Underlying().(*types.Pointer)
		if !ok {
			return 0
		}
		b, ok := p.Elem().Underlying().(*types.Basic)
		if !ok {
			return 0
		}
		switch b.Kind() {
		case types.Uint16, types.Int16:
			return 2
		case types.Uint32, types.Int32:
			return 4
		case types.Uint64, types.Int64:
			return 8
		}
		return 0
	}
	if mi, ok := dst.(*ssa.MakeInterface); ok {
		return sizeOfPtr(mi.X.Type())
	}
	// element of a ranged slice: load of &list[i]
	ld, ok := dst.(*ssa.UnOp)
	if !ok || ld.Op != token.MUL {
		return 0
	}
	ia, ok := ld.X.(*ssa.IndexAddr)
	if !ok {
		return 0
	}
	tcall, ok := ia.X.(*ssa.Call)
	if !ok {
		return 0
	}
	h := tcall.Call.StaticCallee()
	if h == nil || !c.inRoot(h) || h.Blocks == nil {
		return 0
	}
	var total int64
	for _, b := range h.Blocks {
		for _, ins := range b.Instrs {
			st, ok := ins.(*ssa.Store)
			if !ok {
				continue
			}
			if _, isElem := st.Addr.(*ssa.IndexAddr); !isElem {
				continue
			}
			mi, ok := st.Val.(*ssa.MakeInterface)
			if !ok {
				return 0
			}
			w := sizeOfPtr(mi.X.Type())
			if w == 0 {
				return 0
			}
			total += w
		}
	}
	return total
}

// cursorFooterProof: the footer is read through a cursor object whose position
// starts at data.Len() and whose one reading method first steps back by the
// width it is given and then reads exactly [pos, pos+width): successive reads
// are adjacent by construction.  What remains to be shown: nothing else moves
// the position, every width handed to the method is the width of the decode
// applied to the bytes it returns, and the decodes add up to footerLen (taken
// from the reader's wire signature, in which loops over tables are unrolled).
func (c *Ctx) cursorFooterProof(parse *ssa.Function) (how, bad string) {
	// the reading method: the one function (reachable from parse) that calls Data.Read
	var rd *ssa.Call
	for f := range c.reach([]*ssa.Function{parse}) {
		for _, b := range f.Blocks {
			for _, ins := range b.Instrs {
				if call, ok := ins.(*ssa.Call); ok && isDataRead(&call.Call) {
					if rd != nil {
						return "", ""
					}
					rd = call
				}
			}
		}
	}
	if rd == nil {
		return "", ""
	}
	h := rd.Parent()
	methodCursor := func() (*ssa.Parameter, string, bool) {
		if len(h.Params) < 2 || h.Signature.Recv() == nil {
			return nil, "", false
		}
		// Read(pos, pos+width) with pos a field of the receiver
		posLoad, ok := rd.Call.Args[1].(*ssa.UnOp)
		if !ok || posLoad.Op != token.MUL {
			return nil, "", false
		}
		posFA, ok := posLoad.X.(*ssa.FieldAddr)
		if !ok || posFA.X != ssa.Value(h.Params[0]) {
			return nil, "", false
		}
		owner, posField := fieldAddrInfo(posFA)
		if owner == nil || posField == nil {
			return nil, "", false
		}
		isPosLoad := func(v ssa.Value) bool {
			ld, ok := v.(*ssa.UnOp)
			if !ok || ld.Op != token.MUL {
				return false
			}
			fa, ok := ld.X.(*ssa.FieldAddr)
			if !ok {
				return false
			}
			_, fv := fieldAddrInfo(fa)
			return fv == posField
		}
		end, ok := rd.Call.Args[2].(*ssa.BinOp)
		if !ok || end.Op != token.ADD || !isPosLoad(end.X) {
			return nil, "the cursor's read does not end at its position plus a width", false
		}
		width, ok := end.Y.(*ssa.Parameter)
		if !ok {
			return nil, "the cursor's read does not span a width it is given", false
		}
		// the only stores to the position: the step back by that width before the read, and data.Len() at creation
		stepped := false
		for _, st := range c.census().fieldStores[fieldKey{owner.Obj(), posField.Name()}] {
			if st.fn == h {
				sub, ok := st.val.(*ssa.BinOp)
				if ok && sub.Op == token.SUB && isPosLoad(sub.X) && sub.Y == ssa.Value(width) && before(st.ins, rd) {
					stepped = true
					continue
				}
				return nil, "the cursor's reading method moves its position other than back by the width it reads (" + c.pos(st.ins.Pos()) + ")", false
			}
			if ov := evalOff(st.val, map[*ssa.Parameter]offVal{}, 0); ov.ok && ov.rel && ov.v == 0 {
				continue
			}
			return nil, "the footer cursor's position is set at " + c.pos(st.ins.Pos()) + " to something other than data.Len()", false
		}
		if !stepped {
			return nil, "the cursor's reading method does not step back by the width before it reads", false
		}
		return width, "", true
	}
	// the cursor as a closure over a local position: end := data.Len(); read := func(w int) { start := end - w;
	// Read(start, start+w); end = start }
	closureCursor := func() (*ssa.Parameter, string, bool) {
		if len(h.Params) == 0 {
			return nil, "", false
		}
		start, ok := rd.Call.Args[1].(*ssa.BinOp)
		if !ok || start.Op != token.SUB {
			return nil, "", false
		}
		posLd, ok := start.X.(*ssa.UnOp)
		if !ok || posLd.Op != token.MUL {
			return nil, "", false
		}
		fv, isFree := posLd.X.(*ssa.FreeVar)
		var posFieldVar *types.Var
		var posOwner *types.Named
		if !isFree {
			// ... or over a field of the reading method's receiver: offset := r.pos - w; Read(offset, offset+w); r.pos = offset
			fa, isFA := posLd.X.(*ssa.FieldAddr)
			if !isFA || h.Signature.Recv() == nil || fa.X != ssa.Value(h.Params[0]) {
				return nil, "", false
			}
			posOwner, posFieldVar = fieldAddrInfo(fa)
			if posFieldVar == nil || posOwner == nil {
				return nil, "", false
			}
		}
		isPosAddr := func(a ssa.Value) bool {
			if isFree {
				return a == ssa.Value(fv)
			}
			fa, ok := a.(*ssa.FieldAddr)
			if !ok {
				return false
			}
			_, f := fieldAddrInfo(fa)
			return f == posFieldVar
		}
		width, ok := start.Y.(*ssa.Parameter)
		if !ok {
			return nil, "the closure's read does not start a width it is given before its position", false
		}
		end, ok := rd.Call.Args[2].(*ssa.BinOp)
		if !ok || end.Op != token.ADD || end.X != ssa.Value(start) || end.Y != ssa.Value(width) {
			return nil, "the closure's read does not span the width it steps back by", false
		}
		// the only store to the position inside the closure: position = start
		n := 0
		for _, b := range h.Blocks {
			for _, ins := range b.Instrs {
				if st, ok := ins.(*ssa.Store); ok && isPosAddr(st.Addr) {
					n++
					if st.Val != ssa.Value(start) {
						return nil, "the closure moves its position other than back by the width it reads (" + c.pos(st.Pos()) + ")", false
					}
				}
			}
		}
		if n != 1 {
			return nil, "the closure does not step its position back exactly once per read", false
		}
		if !isFree {
			// every other store to the position field: data.Len()
			for _, st := range c.census().fieldStores[fieldKey{posOwner.Obj(), posFieldVar.Name()}] {
				if st.fn == h {
					continue
				}
				if ov := evalOff(st.val, map[*ssa.Parameter]offVal{}, 0); !(ov.ok && ov.rel && ov.v == 0) {
					return nil, "the footer cursor's position is set at " + c.pos(st.ins.Pos()) + " to something other than data.Len()", false
				}
			}
			return width, "", true
		}
		// the cell in the enclosing function: set to data.Len() and nothing else
		var cell ssa.Value
		for _, b := range h.Parent().Blocks {
			for _, ins := range b.Instrs {
				if mc, ok := ins.(*ssa.MakeClosure); ok && mc.Fn == ssa.Value(h) {
					for k, f2 := range h.FreeVars {
						if f2 == fv && k < len(mc.Bindings) {
							cell = mc.Bindings[k]
						}
					}
				}
			}
		}
		if cell == nil {
			return nil, "", false
		}
		for _, b := range h.Parent().Blocks {
			for _, ins := range b.Instrs {
				if st, ok := ins.(*ssa.Store); ok && st.Addr == cell {
					if ov := evalOff(st.Val, map[*ssa.Parameter]offVal{}, 0); !(ov.ok && ov.rel && ov.v == 0) {
						return nil, "the footer cursor's position is set at " + c.pos(st.Pos()) + " to something other than data.Len()", false
					}
				}
			}
		}
		return width, "", true
	}
	width, badWhy, okCursor := closureCursor()
	if !okCursor && badWhy == "" {
		width, badWhy, okCursor = methodCursor()
	}
	if !okCursor {
		return "", badWhy
	}
	// widths handed in agree with the decodes applied to what comes back
	var widthsOf func(p *ssa.Parameter, depth int) (map[int64]bool, bool)
	widthsOf = func(p *ssa.Parameter, depth int) (map[int64]bool, bool) {
		out := map[int64]bool{}
		if depth > 3 {
			return nil, false
		}
		sites := c.callsTo(p.Parent())
		if len(sites) == 0 {
			return nil, false
		}
		for _, site := range sites {
			a := argFor(site.Common(), p)
			switch x := a.(type) {
			case *ssa.Const:
				k, ok := constInt(x)
				if !ok {
					return nil, false
				}
				out[k] = true
			case *ssa.Parameter:
				sub, ok := widthsOf(x, depth+1)
				if !ok {
					return nil, false
				}
				for k := range sub {
					out[k] = true
				}
			case *ssa.UnOp:
				// an entry of a table of widths: every store to that field is a constant
				fa, ok := x.X.(*ssa.FieldAddr)
				if !ok || x.Op != token.MUL {
					return nil, false
				}
				o, fv := fieldAddrInfo(fa)
				if fv == nil {
					return nil, false
				}
				var tn *types.TypeName
				if o != nil {
					tn = o.Obj()
				}
				n := 0
				for _, f := range c.srcFns {
					for _, b := range f.Blocks {
						for _, ins := range b.Instrs {
							st, ok := ins.(*ssa.Store)
							if !ok {
								continue
							}
							fa2, ok := st.Addr.(*ssa.FieldAddr)
							if !ok {
								continue
							}
							if _, fv2 := fieldAddrInfo(fa2); fv2 != fv {
								continue
							}
							k, ok := constInt(st.Val)
							if !ok {
								return nil, false
							}
							out[k] = true
							n++
						}
					}
				}
				_ = tn
				if n == 0 {
					return nil, false
				}
			default:
				return nil, false
			}
		}
		return out, true
	}
	// each caller of the reading method decodes the bytes with one fixed width
	checked := 0
	for _, site := range c.callsTo(h) {
		call, ok := site.(*ssa.Call)
		if !ok {
			return "", ""
		}
		var bytesV ssa.Value
		if ex := tupleParts(call)[0]; ex != nil {
			bytesV = ex
		} else if isByteSlice(call.Type()) {
			bytesV = call // a reading method with one result (the error is kept in the cursor)
		}
		if bytesV == nil {
			return "", "the bytes of a footer read at " + c.pos(call.Pos()) + " are not decoded"
		}
		dec := c.decodedWidth(bytesV, 0)
		if dec <= 0 {
			return "", "the bytes of the footer read at " + c.pos(call.Pos()) + " are not decoded as one fixed-width field"
		}
		var ws map[int64]bool
		switch a := argFor(call.Common(), width).(type) {
		case *ssa.Const:
			k, _ := constInt(a)
			ws = map[int64]bool{k: true}
		case *ssa.Parameter:
			var ok bool
			ws, ok = widthsOf(a, 0)
			if !ok {
				return "", "cannot determine the widths handed to " + fnName(call.Parent())
			}
		default:
			return "", "cannot determine the width of the footer read at " + c.pos(call.Pos())
		}
		for k := range ws {
			if k != dec {
				return "", fmt.Sprintf("%s steps back %d bytes but decodes %d: the following fields are read from the wrong place", fnName(call.Parent()), k, dec)
			}
		}
		checked++
	}
	// total: the reader's wire signature
	x := newWireExtractor(c, "r")
	var total int64
	for _, it := range flatten(x.signature("parseFooter")) {
		switch it.Kind {
		case "U16":
			total += 2
		case "U32":
			total += 4
		case "U64":
			total += 8
		default:
			return "", "the footer reader decodes something other than fixed-width fields (" + it.Kind + ")"
		}
	}
	fl, _ := constantInt64(c.ConstVal("footerLen"))
	if total != fl {
		return "", fmt.Sprintf("the footer reads cover %d bytes but footerLen is %d", total, fl)
	}
	return fmt.Sprintf("footer read through a cursor that starts at data.Len() and steps back by exactly the width each of its %d kinds of read decodes; total %d = footerLen", checked, total), ""
}
