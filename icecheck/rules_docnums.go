package main

// C03 — old→new document number map.

import (
	"fmt"
	"go/constant"
	"go/token"
	"math"
	"strings"

	"golang.org/x/tools/go/ssa"
)

// natural loop helpers -------------------------------------------------------

// loopBody returns the blocks of the natural loop with header h (blocks that
// can reach a back-edge source without leaving through h).
func loopBody(h *ssa.BasicBlock) map[*ssa.BasicBlock]bool {
	body := map[*ssa.BasicBlock]bool{h: true}
	var work []*ssa.BasicBlock
	for _, p := range h.Preds {
		if h.Dominates(p) { // back edge p->h
			if !body[p] {
				body[p] = true
				work = append(work, p)
			}
		}
	}
	for len(work) > 0 {
		b := work[len(work)-1]
		work = work[:len(work)-1]
		for _, p := range b.Preds {
			if !body[p] {
				body[p] = true
				work = append(work, p)
			}
		}
	}
	return body
}

func isLoopHeader(h *ssa.BasicBlock) bool {
	for _, p := range h.Preds {
		if h.Dominates(p) {
			return true
		}
	}
	return false
}

// iterPaths enumerates the acyclic paths of one iteration: from entry (a
// successor of header h inside the loop) back to h.  Paths that leave the loop
// are reported with exit=true.  Inner cycles are cut.
type iterPath struct {
	blocks []*ssa.BasicBlock
	exit   bool
}

func iterPaths(h, entry *ssa.BasicBlock, body map[*ssa.BasicBlock]bool, limit int) ([]iterPath, bool) {
	var out []iterPath
	var cur []*ssa.BasicBlock
	on := map[*ssa.BasicBlock]bool{}
	overflow := false
	var dfs func(b *ssa.BasicBlock)
	dfs = func(b *ssa.BasicBlock) {
		if overflow {
			return
		}
		if b == h {
			out = append(out, iterPath{blocks: append([]*ssa.BasicBlock{}, cur...)})
			if len(out) > limit {
				overflow = true
			}
			return
		}
		if on[b] {
			return // inner cycle: cut
		}
		if !body[b] {
			out = append(out, iterPath{blocks: append(append([]*ssa.BasicBlock{}, cur...), b), exit: true})
			return
		}
		on[b] = true
		cur = append(cur, b)
		if len(b.Succs) == 0 {
			out = append(out, iterPath{blocks: append([]*ssa.BasicBlock{}, cur...), exit: true})
		}
		for _, s := range b.Succs {
			dfs(s)
		}
		cur = cur[:len(cur)-1]
		on[b] = false
	}
	dfs(entry)
	return out, !overflow
}

// resolveOnPath resolves phis of blocks on the path using the predecessor on
// the path (hdr precedes blocks[0]).
func resolveOnPath(v ssa.Value, hdr *ssa.BasicBlock, blocks []*ssa.BasicBlock) ssa.Value {
	for depth := 0; depth < 32; depth++ {
		phi, ok := v.(*ssa.Phi)
		if !ok {
			return v
		}
		idx := -1
		for i, b := range blocks {
			if b == phi.Block() {
				idx = i
			}
		}
		if idx < 0 {
			return v // phi of the header or outside the path
		}
		pred := hdr
		if idx > 0 {
			pred = blocks[idx-1]
		}
		found := false
		for i, p := range phi.Block().Preds {
			if p == pred {
				v = phi.Edges[i]
				found = true
				break
			}
		}
		if !found {
			return v
		}
	}
	return v
}

func isPlusOne(v ssa.Value, of ssa.Value) bool {
	bin, ok := v.(*ssa.BinOp)
	if !ok || bin.Op != token.ADD {
		return false
	}
	k, ok := constInt(bin.Y)
	return ok && k == 1 && bin.X == of
}

func storesIntoSlice(b *ssa.BasicBlock, slice ssa.Value) []*ssa.Store {
	var out []*ssa.Store
	for _, ins := range b.Instrs {
		st, ok := ins.(*ssa.Store)
		if !ok {
			continue
		}
		ia, ok := st.Addr.(*ssa.IndexAddr)
		if ok && ia.X == slice {
			out = append(out, st)
		}
	}
	return out
}

func isDocDroppedConst(v ssa.Value) bool {
	k, ok := v.(*ssa.Const)
	if !ok || k.Value == nil || k.Value.Kind() != constant.Int {
		return false
	}
	u, ok := constant.Uint64Val(k.Value)
	return ok && u == math.MaxInt64
}

// numDocsOf: v is a load of X.footer.numDocs; returns X.
func numDocsOf(v ssa.Value) (ssa.Value, bool) {
	ld, ok := v.(*ssa.UnOp)
	if !ok || ld.Op != token.MUL {
		return nil, false
	}
	fa, ok := ld.X.(*ssa.FieldAddr)
	if !ok {
		return nil, false
	}
	_, f := fieldAddrInfo(fa)
	if f == nil || f.Name() != "numDocs" {
		return nil, false
	}
	ld2, ok := fa.X.(*ssa.UnOp)
	if !ok {
		return nil, false
	}
	fa2, ok := ld2.X.(*ssa.FieldAddr)
	if !ok {
		return nil, false
	}
	_, f2 := fieldAddrInfo(fa2)
	if f2 == nil || f2.Name() != "footer" {
		return nil, false
	}
	return fa2.X, true
}

// isFillLoop: loop header b heads a loop that stores table[i] = c for i from 0
// step 1 while i < numDocs / len(table), where c is a phi of b that enters the
// loop with a value accepted by entryOK and advances by one per iteration.
// Returns that phi (the counter after the loop) or nil.
func isFillLoop(b *ssa.BasicBlock, table ssa.Value, entryOK func(ssa.Value) bool) *ssa.Phi {
	inner := loopBody(b)
	for ib := range inner {
		for _, st := range storesIntoSlice(ib, table) {
			idxV := st.Addr.(*ssa.IndexAddr).Index
			cnt, _ := st.Val.(*ssa.Phi)
			if cnt == nil || cnt.Block() != b || !inductionFromZero(idxV, b) {
				continue
			}
			okStep := true
			for i, pr := range b.Preds {
				if b.Dominates(pr) {
					if !isPlusOne(cnt.Edges[i], cnt) {
						okStep = false
					}
				} else if !entryOK(cnt.Edges[i]) {
					okStep = false
				}
			}
			if ifi, ok := b.Instrs[len(b.Instrs)-1].(*ssa.If); ok && okStep {
				if bin, ok := ifi.Cond.(*ssa.BinOp); ok && bin.Op == token.LSS && bin.X == idxV {
					if _, ok := numDocsOf(bin.Y); ok {
						return cnt
					}
					// or the length of the table itself (which is make([]uint64, numDocs))
					if xx, name, ok := lenOrCapOf(bin.Y); ok && name == "len" && xx == table {
						return cnt
					}
				}
			}
		}
	}
	return nil
}

// sequentialFiller: fn(table []uint64, next uint64) uint64 whose only loop is
// a fill loop over the whole of its table parameter starting at its counter
// parameter, and which returns the counter after the loop on every return.
func sequentialFiller(fn *ssa.Function) (table, counter *ssa.Parameter, ok bool) {
	if fn == nil || fn.Blocks == nil || fn.Signature.Results().Len() != 1 {
		return nil, nil, false
	}
	table, counter = paramOfType(fn, "[]uint64"), paramOfType(fn, "uint64")
	if table == nil || counter == nil {
		return nil, nil, false
	}
	var after *ssa.Phi
	for _, b := range fn.Blocks {
		if !isLoopHeader(b) {
			continue
		}
		if after != nil {
			return nil, nil, false
		}
		after = isFillLoop(b, table, func(v ssa.Value) bool { return v == ssa.Value(counter) })
		if after == nil {
			return nil, nil, false
		}
		if xx, name, ok := lenOrCapOf(b.Instrs[len(b.Instrs)-1].(*ssa.If).Cond.(*ssa.BinOp).Y); !ok || name != "len" || xx != ssa.Value(table) {
			return nil, nil, false
		}
	}
	if after == nil {
		return nil, nil, false
	}
	for _, b := range fn.Blocks {
		if ret, ok := b.Instrs[len(b.Instrs)-1].(*ssa.Return); ok {
			if resolveLoad(ret.Results[0]) != ssa.Value(after) {
				return nil, nil, false
			}
		}
	}
	return table, counter, true
}

func init() {
	register(&Rule{
		Name:  "DOCNUMS-DEFINED",
		Floor: 1,
		Doc:   "on every return of mergeToWriter whose error operand is nil the document-number map operand cannot be the nil constant (every success path defines the map, including the zero-survivor path)",
		Run: func(c *Ctx, scope string, r *Report) {
			fn := c.MustFn("mergeToWriter")
			n := 0
			for _, b := range fn.Blocks {
				ret, ok := b.Instrs[len(b.Instrs)-1].(*ssa.Return)
				if !ok {
					continue
				}
				errv := resolveLoad(ret.Results[len(ret.Results)-1])
				if !isNilConst(errv) {
					continue
				}
				n++
				key := fmt.Sprintf("mergeToWriter/success-return-%d", n)
				if w := nilEdge(resolveLoad(ret.Results[0]), map[ssa.Value]bool{}); w != "" {
					r.bad(key, fnName(fn), c.pos(retPos(ret, b)), "a successful return can carry a nil document-number map: "+w)
				} else {
					r.ok(key, fnName(fn), c.pos(retPos(ret, b)), "the returned map is defined on every incoming path")
				}
			}
			if n == 0 {
				r.undecided("mergeToWriter/success-return", fnName(fn), c.pos(fn.Pos()), "no return with a nil error found")
			}
		},
	})

	register(&Rule{
		Name:  "DOCNUMS-SHAPE",
		Floor: 2,
		Doc:   "the per-segment table is make([]uint64, seg.footer.numDocs) of the segment of the current iteration; every path through one iteration of the per-segment loop appends exactly one table, after it was filled (by the fill loop or by mergeStoredAndRemapSegment); every path through one iteration of the per-document loop stores exactly once into table[docNum]: the dropped sentinel on the drops.Contains edge (counter unchanged) or the running counter (incremented exactly once); the counter is threaded 0 → … through all segments",
		Run: func(c *Ctx, scope string, r *Report) {
			// ---- per-document loop in mergeStoredAndRemapSegment
			segFn := c.MustFn("mergeStoredAndRemapSegment")
			type segPlaceInfo struct {
				pl ctrPlace
				pi int
			}
			var segPlace *segPlaceInfo
			table := ssa.Value(segFn.Params[2])
			counterParam := ssa.Value(segFn.Params[3])
			var hdr *ssa.BasicBlock
			for _, b := range segFn.Blocks {
				if !isLoopHeader(b) {
					continue
				}
				if ifi, ok := b.Instrs[len(b.Instrs)-1].(*ssa.If); ok {
					if bin, ok := ifi.Cond.(*ssa.BinOp); ok && bin.Op == token.LSS {
						if x, ok := numDocsOf(bin.Y); ok && x == ssa.Value(segFn.Params[0]) {
							hdr = b
						}
					}
				}
			}
			key := "mergeStoredAndRemapSegment/per-doc-loop"
			if hdr == nil {
				r.undecided(key, fnName(segFn), c.pos(segFn.Pos()), "cannot find the `for docNum < seg.footer.numDocs` loop")
			} else {
				bin := hdr.Instrs[len(hdr.Instrs)-1].(*ssa.If).Cond.(*ssa.BinOp)
				docNum, _ := bin.X.(*ssa.Phi)
				var counter *ssa.Phi
				for _, ins := range hdr.Instrs {
					if phi, ok := ins.(*ssa.Phi); ok {
						for i, e := range phi.Edges {
							if e == counterParam && !hdr.Dominates(hdr.Preds[i]) {
								counter = phi
							}
						}
					}
				}
				if docNum != nil && counter == nil {
					// the running counter may be a field of a cursor struct handed in by pointer
					body := loopBody(hdr)
					for b := range body {
						for _, st := range storesIntoSlice(b, table) {
							if pl, ok := placeOfLoad(st.Val); ok {
								if prm, isParam := pl.root.(*ssa.Parameter); isParam {
									for i, q := range segFn.Params {
										if q == prm {
											segPlace = &segPlaceInfo{pl, i}
										}
									}
								}
							}
						}
					}
				}
				if docNum != nil && counter == nil && segPlace != nil {
					okIdx := false
					for i, e := range docNum.Edges {
						if hdr.Dominates(hdr.Preds[i]) {
							okIdx = isPlusOne(e, docNum)
						}
					}
					body := loopBody(hdr)
					outside := ""
					for _, b := range segFn.Blocks {
						if !body[b] && touchesPlace(b, segPlace.pl) {
							outside = c.pos(b.Instrs[0].Pos())
						}
					}
					np, bad, und := placeIterCheck(c, segFn, hdr, table, docNum, segPlace.pl, segFn.Params[1])
					at := c.pos(hdr.Instrs[0].Pos())
					switch {
					case und != "":
						r.undecided(key, fnName(segFn), at, und)
					case bad != "":
						r.bad(key, fnName(segFn), at, bad)
					case !okIdx:
						r.bad(key, fnName(segFn), at, "the document index does not advance by one per iteration")
					case outside != "":
						r.bad(key, fnName(segFn), outside, "the running counter (a field of the cursor) is modified outside the per-document loop")
					case np == 0:
						r.undecided(key, fnName(segFn), at, "no path through the loop body found")
					default:
						r.ok(key, fnName(segFn), at, fmt.Sprintf("%d paths through the per-document loop: each stores exactly once (sentinel on the drops edge / the cursor's counter %s, +1)", np, segPlace.pl.field))
					}
				} else if docNum == nil || counter == nil {
					r.undecided(key, fnName(segFn), c.pos(hdr.Instrs[0].Pos()), "cannot identify the document index / running counter of the loop")
				} else {
					// docNum: 0, +1
					okIdx := false
					for i, e := range docNum.Edges {
						if hdr.Dominates(hdr.Preds[i]) {
							okIdx = isPlusOne(resolveOnPath(e, hdr, nil), docNum) || isPlusOne(e, docNum)
						}
					}
					body := loopBody(hdr)
					paths, complete := iterPaths(hdr, hdr.Succs[0], body, 4000)
					if !complete {
						r.undecided(key, fnName(segFn), c.pos(hdr.Instrs[0].Pos()), "too many paths through the per-document loop")
					}
					npaths, bad := 0, ""
					for _, p := range paths {
						if p.exit {
							// leaving the loop from inside an iteration is only legitimate as an error
							// return: the loop must run until the document bound, or the entries of the
							// remaining documents keep their zero value
							last := p.blocks[len(p.blocks)-1]
							if ret, ok := last.Instrs[len(last.Instrs)-1].(*ssa.Return); !ok || len(ret.Results) == 0 || isNilConst(resolveLoad(ret.Results[len(ret.Results)-1])) {
								if len(p.blocks) >= 2 || !ok {
									bad = "the per-document loop can be left before every document of the segment was handled (exit through " + blockList(p.blocks) + "): the table entries of the remaining documents keep the value 0, which is a valid document number"
								}
							}
							continue
						}
						npaths++
						var stores []*ssa.Store
						for _, b := range p.blocks {
							for _, st := range storesIntoSlice(b, table) {
								if st.Addr.(*ssa.IndexAddr).Index == ssa.Value(docNum) {
									stores = append(stores, st)
								} else {
									bad = "store into the table at an index other than the document number at " + c.pos(st.Pos())
								}
							}
						}
						// counter value flowing back to the header on this path
						var back ssa.Value
						last := p.blocks[len(p.blocks)-1]
						for i, pr := range hdr.Preds {
							if pr == last {
								back = resolveOnPath(counter.Edges[i], hdr, p.blocks)
							}
						}
						if len(stores) != 1 {
							bad = fmt.Sprintf("a path through the loop body stores %d times into table[docNum] (blocks %s)", len(stores), blockList(p.blocks))
							continue
						}
						v := stores[0].Val
						switch {
						case isDocDroppedConst(v):
							if back != ssa.Value(counter) {
								bad = "the dropped-document path changes the running counter"
							}
							if !pathTakesContainsTrue(p.blocks, segFn.Params[1], docNum) {
								bad = "the dropped sentinel is stored on a path that is not the drops.Contains(docNum) edge"
							}
						case v == ssa.Value(counter):
							if !isPlusOne(back, counter) {
								bad = "a surviving document does not advance the running counter by exactly one (" + fmt.Sprint(back) + ")"
							}
							if pathTakesContainsTrue(p.blocks, segFn.Params[1], docNum) {
								bad = "a document found in the drops bitmap is given a new number"
							}
						default:
							bad = "table[docNum] is assigned " + v.String() + ", neither the dropped sentinel nor the running counter"
						}
					}
					// loop exit returns the counter
					retOK := false
					for _, b := range segFn.Blocks {
						if ret, ok := b.Instrs[len(b.Instrs)-1].(*ssa.Return); ok && isNilConst(ret.Results[1]) {
							retOK = ret.Results[0] == ssa.Value(counter)
						}
					}
					switch {
					case bad != "":
						r.bad(key, fnName(segFn), c.pos(hdr.Instrs[0].Pos()), bad)
					case !okIdx:
						r.bad(key, fnName(segFn), c.pos(hdr.Instrs[0].Pos()), "the document index does not advance by one per iteration")
					case !retOK:
						r.bad(key, fnName(segFn), c.pos(hdr.Instrs[0].Pos()), "the function does not return the running counter on success")
					case npaths == 0:
						r.undecided(key, fnName(segFn), c.pos(hdr.Instrs[0].Pos()), "no path through the loop body found")
					default:
						r.ok(key, fnName(segFn), c.pos(hdr.Instrs[0].Pos()), fmt.Sprintf("%d paths through the per-document loop: each stores exactly once (sentinel on the drops edge / counter, +1)", npaths))
					}
				}
			}

			// ---- per-segment loop in mergeStoredAndRemap
			fn := c.MustFn("mergeStoredAndRemap")
			key = "mergeStoredAndRemap/per-segment-loop"
			var segHdr *ssa.BasicBlock
			var tableMk *ssa.MakeSlice
			for _, b := range fn.Blocks {
				for _, ins := range b.Instrs {
					if mk, ok := ins.(*ssa.MakeSlice); ok {
						if x, ok := numDocsOf(mk.Len); ok {
							// x must be the range element of segments
							if ld, ok := x.(*ssa.UnOp); ok {
								if ia, ok := ld.X.(*ssa.IndexAddr); ok && ia.X == ssa.Value(fn.Params[0]) {
									tableMk = mk
								}
							}
						}
					}
				}
			}
			if tableMk == nil {
				r.bad(key, fnName(fn), c.pos(fn.Pos()), "no per-segment table make([]uint64, seg.footer.numDocs) of the ranged segment found")
				return
			}
			for b := tableMk.Block(); b != nil; b = b.Idom() {
				if isLoopHeader(b) && loopBody(b)[tableMk.Block()] {
					segHdr = b
					break
				}
			}
			if segHdr == nil {
				r.undecided(key, fnName(fn), c.pos(tableMk.Pos()), "the table is not allocated inside a loop")
				return
			}
			// the loop ranges over all of `segments`
			rangesAll := false
			if ifi, ok := segHdr.Instrs[len(segHdr.Instrs)-1].(*ssa.If); ok {
				if bin, ok := ifi.Cond.(*ssa.BinOp); ok && bin.Op == token.LSS {
					if x, name, ok := lenOrCapOf(bin.Y); ok && name == "len" && x == ssa.Value(fn.Params[0]) {
						rangesAll = true
					}
				}
			}
			body := loopBody(segHdr)
			// result cell (named result newDocNums)
			appendsIn := func(b *ssa.BasicBlock) int {
				n := 0
				for _, ins := range b.Instrs {
					call, ok := ins.(*ssa.Call)
					if !ok {
						continue
					}
					if bi, ok := call.Call.Value.(*ssa.Builtin); ok && bi.Name() == "append" {
						vals := varargValues(call.Call.Args[1])
						if len(vals) == 1 && vals[0] == ssa.Value(tableMk) {
							n++
						}
					}
				}
				return n
			}
			// fillers
			fillCall := map[*ssa.BasicBlock]bool{}
			fillLoop := map[*ssa.BasicBlock]bool{}
			offsetFill := map[*ssa.BasicBlock]bool{}
			fillerCalls := map[*ssa.Call]bool{}
			var counter *ssa.Phi
			for _, ins := range segHdr.Instrs {
				if phi, ok := ins.(*ssa.Phi); ok && strings.Contains(phi.Comment, "newDocNum") {
					counter = phi
				}
			}
			threadOK := counter != nil
			threadWhy := "running counter phi not found in the per-segment loop header"
			// place form: the counter is a field of a cursor struct that lives across the loop
			var fnPlace *ctrPlace
			if counter == nil && segPlace != nil {
				var root ssa.Value
				same := true
				for b := range body {
					for _, ins := range b.Instrs {
						if call, ok := ins.(*ssa.Call); ok && call.Call.StaticCallee() == segFn && segPlace.pi < len(call.Call.Args) {
							a := call.Call.Args[segPlace.pi]
							if root != nil && root != a {
								same = false
							}
							root = a
						}
					}
				}
				if al, ok := root.(*ssa.Alloc); ok && same && !body[al.Block()] {
					fnPlace = &ctrPlace{root, segPlace.pl.field}
					threadOK, threadWhy = true, ""
					for _, b := range fn.Blocks {
						for _, ins := range b.Instrs {
							switch x := ins.(type) {
							case *ssa.Store:
								if x.Addr == root {
									threadOK, threadWhy = false, "the cursor is overwritten as a whole at "+c.pos(x.Pos())+": the initial value of its counter is not visible"
								}
								if !fnPlace.isAddr(x.Addr) {
									continue
								}
								if !body[b] {
									if k, ok := constInt(x.Val); !ok || k != 0 {
										threadOK, threadWhy = false, "the running counter does not start at 0"
									}
									continue
								}
								inFill := false
								for h := b; h != nil; h = h.Idom() {
									if h != segHdr && isLoopHeader(h) && loopBody(h)[b] && placeFillLoop(c, fn, h, tableMk, *fnPlace, false) {
										inFill = true
									}
								}
								if !inFill {
									threadOK, threadWhy = false, "the running counter is modified at "+c.pos(x.Pos())+", outside a fill of this segment's table"
								}
							case *ssa.Call:
								callee := x.Call.StaticCallee()
								pi := -1
								for j, a := range x.Call.Args {
									if a == root {
										pi = j
									}
								}
								if pi < 0 || callee == segFn {
									continue
								}
								if callee == nil || callee.Blocks == nil {
									threadOK, threadWhy = false, "the cursor is handed to a call that cannot be followed at "+c.pos(x.Pos())
									continue
								}
								if body[b] {
									if tp := placeFiller(c, callee, pi, fnPlace.field); tp != nil && argFor(&x.Call, tp) == ssa.Value(tableMk) {
										fillCall[b] = true
										continue
									}
								}
								eff := c.placeEffect(callee, pi, fnPlace.field, 1)
								if !eff.known {
									threadOK, threadWhy = false, fnName(callee)+": "+eff.why
									continue
								}
								for _, set := range []map[int]bool{eff.ok, eff.err} {
									for d := range set {
										if d != 0 {
											threadOK, threadWhy = false, fnName(callee)+" advances the running counter outside a fill of this segment's table"
										}
									}
								}
							case *ssa.MakeClosure:
								for _, bv := range x.Bindings {
									if bv == root {
										threadOK, threadWhy = false, "the cursor is captured by a closure at "+c.pos(x.Pos())
									}
								}
							}
						}
					}
				}
			}
			for b := range body {
				for _, ins := range b.Instrs {
					if call, ok := ins.(*ssa.Call); ok && call.Call.StaticCallee() != nil && call.Call.StaticCallee() != segFn {
						// the fill loop extracted into a helper: filler(table, counter) counter'
						if tp, cp, ok := offsetFiller(call.Call.StaticCallee()); ok && argFor(&call.Call, tp) == ssa.Value(tableMk) && offsetFillerSegOK(&call.Call, tableMk) {
							// fills table[i] = counter + i over the whole table and hands back counter + len(table)
							fillCall[b] = true
							fillerCalls[call] = true
							if counter != nil && argFor(&call.Call, cp) != ssa.Value(counter) {
								threadOK, threadWhy = false, fnName(call.Call.StaticCallee())+" is not given the running counter"
							}
						}
						if tp, cp, ok := sequentialFiller(call.Call.StaticCallee()); ok && argFor(&call.Call, tp) == ssa.Value(tableMk) {
							fillCall[b] = true
							fillerCalls[call] = true
							if counter != nil && argFor(&call.Call, cp) != ssa.Value(counter) {
								threadOK, threadWhy = false, fnName(call.Call.StaticCallee())+" is not given the running counter"
							}
						}
					}
					if call, ok := ins.(*ssa.Call); ok && call.Call.StaticCallee() == segFn && call.Call.Args[2] == ssa.Value(tableMk) {
						fillCall[b] = true
						if counter != nil && call.Call.Args[3] != ssa.Value(counter) {
							threadOK, threadWhy = false, "mergeStoredAndRemapSegment is not given the running counter"
						}
					}
				}
				if b != segHdr && isLoopHeader(b) && fnPlace != nil {
					if placeFillLoop(c, fn, b, tableMk, *fnPlace, false) {
						fillLoop[b] = true
					}
				} else if b != segHdr && isLoopHeader(b) {
					// inner fill loop: stores table[i] = counter', i from 0 step 1 while i < numDocs
					if isFillLoop(b, tableMk, func(v ssa.Value) bool { return counter == nil || v == ssa.Value(counter) }) != nil {
						fillLoop[b] = true
					}
					// or table[i] = counter + i over the whole table (the counter itself is advanced
					// by whatever is handed it afterwards and returns the next number)
					if counter != nil && isOffsetFillLoop(b, tableMk, counter) {
						fillLoop[b] = true
						offsetFill[b] = true
					}
				}
			}
			// counter threading: edges of the header phi
			if counter != nil {
				for i, e := range counter.Edges {
					pr := segHdr.Preds[i]
					if !segHdr.Dominates(pr) {
						if k, ok := constInt(e); !ok || k != 0 {
							threadOK, threadWhy = false, "the running counter does not start at 0"
						}
						continue
					}
					var checkBack func(e ssa.Value, from *ssa.BasicBlock, depth int)
					checkBack = func(e ssa.Value, from *ssa.BasicBlock, depth int) {
						if e == ssa.Value(counter) {
							// unchanged: only where the segment contributes nothing (the all-dropped fast path)
							if !allDroppedGuardDominates(from) {
								threadOK, threadWhy = false, "the counter reaching the next segment is unchanged on a path that is not the all-documents-dropped shortcut"
							}
							return
						}
						switch x := e.(type) {
						case *ssa.Phi:
							if !fillLoop[x.Block()] {
								// the join of the two ways of filling the table (if/else instead of `continue`)
								if depth < 4 && !isLoopHeader(x.Block()) && body[x.Block()] {
									for j, pe := range x.Edges {
										checkBack(pe, x.Block().Preds[j], depth+1)
									}
									return
								}
								threadOK, threadWhy = false, "the counter reaching the next segment does not come from the fill loop"
							}
						case *ssa.Extract:
							call, ok := x.Tuple.(*ssa.Call)
							if ok && fillerCalls[call] && x.Index == 0 {
								break // the next number handed back by a filler of this segment's table
							}
							if ok && len(offsetFill) > 0 && call.Call.StaticCallee() != nil && call.Call.StaticCallee() != segFn && x.Index == 0 {
								// the table was filled as counter+i; the next number comes back from the function
								// that numbers the copied documents from the counter on
								cp := paramOfType(call.Call.StaticCallee(), "uint64")
								if cp == nil || argFor(&call.Call, cp) != ssa.Value(counter) {
									threadOK, threadWhy = false, fnName(call.Call.StaticCallee())+" is not given the running counter"
								} else if why := returnsAdvanced(call.Call.StaticCallee(), cp); why != "" {
									threadOK, threadWhy = false, why
								}
								break
							}
							if !ok || call.Call.StaticCallee() != segFn || x.Index != 0 {
								threadOK, threadWhy = false, "the counter reaching the next segment is not the result of mergeStoredAndRemapSegment"
							}
						case *ssa.Call:
							if !fillerCalls[x] {
								threadOK, threadWhy = false, "the counter reaching the next segment is the result of "+x.String()+", not of a fill of this segment's table"
							}
						default:
							threadOK, threadWhy = false, "the counter reaching the next segment is "+e.String()
						}
					}
					checkBack(e, pr, 0)
				}
			}
			paths, complete := iterPaths(segHdr, segHdr.Succs[0], body, 4000)
			bad := ""
			np := 0
			for _, p := range paths {
				if p.exit {
					continue
				}
				np++
				n, filledBefore := 0, false
				seenFill := false
				for _, b := range p.blocks {
					if fillCall[b] || fillLoop[b] {
						seenFill = true
					}
					if a := appendsIn(b); a > 0 {
						n += a
						filledBefore = seenFill
					}
					if a := allDroppedAppendsIn(c, fn, b); a > 0 {
						// a table in which every document is marked dropped, built by a helper: right exactly
						// when the drops bitmap of the segment names all its documents
						n += a
						filledBefore = pathTakesAllDroppedEdge(p.blocks)
						if !filledBefore {
							bad = "an all-dropped table is appended for a segment on a path that is not guarded by drops.GetCardinality() == seg.footer.numDocs (blocks " + blockList(p.blocks) + ")"
						}
					}
				}
				if bad != "" && n == 1 && !filledBefore {
					continue
				}
				if n != 1 {
					bad = fmt.Sprintf("a path through one segment iteration appends the table %d times (blocks %s)", n, blockList(p.blocks))
				} else if !filledBefore {
					bad = "a path appends the per-segment table without filling it first (neither the fill loop nor mergeStoredAndRemapSegment on that path; blocks " + blockList(p.blocks) + ")"
				}
			}
			switch {
			case !complete:
				r.undecided(key, fnName(fn), c.pos(tableMk.Pos()), "too many paths through the per-segment loop")
			case bad != "":
				r.bad(key, fnName(fn), c.pos(tableMk.Pos()), bad)
			case !rangesAll:
				r.bad(key, fnName(fn), c.pos(tableMk.Pos()), "the per-segment loop does not range over all input segments")
			case !threadOK:
				r.bad(key, fnName(fn), c.pos(tableMk.Pos()), threadWhy)
			case np == 0:
				r.undecided(key, fnName(fn), c.pos(tableMk.Pos()), "no path through the loop found")
			default:
				r.ok(key, fnName(fn), c.pos(tableMk.Pos()), fmt.Sprintf("%d paths per segment iteration: each fills then appends exactly one table of length seg.footer.numDocs; counter threaded from 0", np))
			}
			// zero-survivor branch of mergeToWriter: one all-dropped table per segment
			mw := c.MustFn("mergeToWriter")
			key = "mergeToWriter/zero-survivor-tables"
			found := false
			// the tables may be built in mergeToWriter itself or in a helper whose result becomes the returned map
			cands := []*ssa.Function{mw}
			for _, b := range mw.Blocks {
				if ret, ok := b.Instrs[len(b.Instrs)-1].(*ssa.Return); ok {
					var walk func(v ssa.Value, d int)
					walk = func(v ssa.Value, d int) {
						if d > 4 {
							return
						}
						switch x := v.(type) {
						case *ssa.Phi:
							for _, e := range x.Edges {
								walk(e, d+1)
							}
						case *ssa.Extract:
							walk(x.Tuple, d+1)
						case *ssa.Call:
							if sc := x.Call.StaticCallee(); sc != nil && c.inRoot(sc) && fnName(sc) != "mergeStoredAndRemap" {
								cands = append(cands, sc)
							}
						}
					}
					walk(resolveLoad(ret.Results[0]), 0)
				}
			}
			var blocks []*ssa.BasicBlock
			for _, f := range cands {
				blocks = append(blocks, f.Blocks...)
			}
			for _, b := range blocks {
				for _, ins := range b.Instrs {
					if call, ok := ins.(*ssa.Call); ok && isAllDroppedMaker(c, call.Call.StaticCallee()) && len(call.Call.Args) == 1 {
						if _, ok := numDocsOf(stripConv(call.Call.Args[0])); ok {
							found = true
						}
					}
					mk, ok := ins.(*ssa.MakeSlice)
					if !ok {
						continue
					}
					if _, ok := numDocsOf(mk.Len); !ok {
						continue
					}
					// all stores into it are the sentinel
					all := true
					nst := 0
					for _, ref := range *mk.Referrers() {
						if ia, ok := ref.(*ssa.IndexAddr); ok {
							for _, r2 := range *ia.Referrers() {
								if st, ok := r2.(*ssa.Store); ok {
									nst++
									if !isDocDroppedConst(st.Val) {
										all = false
									}
								}
							}
						}
					}
					if all && nst > 0 {
						found = true
					}
				}
			}
			if found {
				r.ok(key, fnName(mw), c.pos(mw.Pos()), "the zero-survivor branch builds all-dropped tables of length seg.footer.numDocs")
			} else {
				r.bad(key, fnName(mw), c.pos(mw.Pos()), "no all-dropped per-segment table is built when nothing survives")
			}
		},
	})

	register(&Rule{
		Name:  "DOCNUMS-PUBLISHED",
		Floor: 3,
		Doc:   "Merger.WriteTo stores result 0 of merge into the field DocumentNumbers returns; merge passes every input segment and the caller's drops unchanged and in order to mergeSegmentBasesWriter; the dropped sentinel folds to math.MaxInt64; computeNewDocCount is numDocs minus drops cardinality summed over all segments and is what the footer records",
		Run: func(c *Ctx, scope string, r *Report) {
			wt := c.MustFn("(*Merger).WriteTo")
			dn := c.MustFn("(*Merger).DocumentNumbers")
			merge := c.MustFn("merge")
			// field returned by DocumentNumbers
			field := ""
			for _, b := range dn.Blocks {
				if ret, ok := b.Instrs[len(b.Instrs)-1].(*ssa.Return); ok && len(ret.Results) == 1 {
					if ld, ok := ret.Results[0].(*ssa.UnOp); ok {
						if fa, ok := ld.X.(*ssa.FieldAddr); ok && fa.X == ssa.Value(dn.Params[0]) {
							_, f := fieldAddrInfo(fa)
							field = f.Name()
						}
					}
				}
			}
			key := "(*Merger).WriteTo/publishes"
			pub := false
			for _, site := range c.callsTo(merge) {
				call, ok := site.(*ssa.Call)
				if !ok || call.Parent() != wt {
					continue
				}
				if p0 := tupleParts(call)[0]; p0 != nil {
					for _, st := range storesToFieldOf(wt, wt.Params[0], field) {
						if st.Val == ssa.Value(p0) {
							pub = true
						}
					}
				}
				// args: m.segments, m.drops
				a0, a1 := accessPath(call.Call.Args[0]), accessPath(call.Call.Args[1])
				if a0 != "*m.segments" || a1 != "*m.drops" {
					pub = false
				}
			}
			if pub && field != "" {
				r.ok(key, fnName(wt), c.pos(wt.Pos()), "merge(m.segments, m.drops) result 0 is stored to m."+field+", which DocumentNumbers returns")
			} else {
				r.bad(key, fnName(wt), c.pos(wt.Pos()), "the map computed by merge is not stored into the field DocumentNumbers() returns (or merge is not given m.segments/m.drops)")
			}
			// Merge constructor keeps the caller's slices
			mg := c.MustFn("Merge")
			key = "Merge/keeps-inputs"
			okIn := 0
			mt := c.NamedType("Merger").Obj()
			for _, f := range []struct {
				name string
				idx  int
			}{{"segments", 0}, {"drops", 1}} {
				want := paramOfType(mg, map[string]string{"segments": segSliceType, "drops": dropsSliceType}[f.name])
				if want == nil {
					want = mg.Params[f.idx]
				}
				for _, st := range c.census().fieldStores[fieldKey{mt, f.name}] {
					if st.fn == mg && st.val == ssa.Value(want) {
						okIn++
					}
				}
			}
			if okIn == 2 {
				r.ok(key, "Merge", c.pos(mg.Pos()), "Merger.segments/drops are the caller's slices")
			} else {
				r.bad(key, "Merge", c.pos(mg.Pos()), "Merge does not keep the caller's segments/drops as given")
			}
			// merge(): all segments, same drops
			key = "merge/passes-all"
			msw := c.MustFn("mergeSegmentBasesWriter")
			okPass := false
			for _, site := range c.callsTo(msw) {
				if site.Parent() != merge {
					continue
				}
				var segsParam *ssa.Parameter
				for _, p := range merge.Params {
					if strings.HasPrefix(p.Type().String(), "[]") && strings.HasSuffix(p.Type().String(), ".Segment") {
						segsParam = p
					}
				}
				segArg := argOfType(site.Common(), segSliceType)
				var lenOf ssa.Value = segsParam
				// the conversion loop may sit in a helper that is handed the input segments
				if hc, isCall := segArg.(*ssa.Call); isCall && segsParam != nil {
					if h := hc.Call.StaticCallee(); h != nil && c.inRoot(h) && h.Blocks != nil && h.Signature.Results().Len() == 1 {
						for i, a := range hc.Call.Args {
							if a == ssa.Value(segsParam) && i < len(h.Params) {
								lenOf = h.Params[i]
							}
						}
						var res ssa.Value
						same := true
						for _, hb := range h.Blocks {
							if ret, isRet := hb.Instrs[len(hb.Instrs)-1].(*ssa.Return); isRet && hb != h.Recover {
								if res != nil && ret.Results[0] != res {
									same = false
								}
								res = ret.Results[0]
							}
						}
						if same && res != nil {
							segArg = res
						}
					}
				}
				mk, ok := segArg.(*ssa.MakeSlice)
				if !ok {
					// built by append in a loop over all inputs: make([]*Segment, 0, len(segments)), one
					// append of the type-asserted element per iteration, the loop left early only with an error
					if segsParam != nil && appendedOnePerInput(segArg, lenOf) {
						if dp := paramOfType(merge, dropsSliceType); dp != nil && argOfType(site.Common(), dropsSliceType) == ssa.Value(dp) {
							okPass = true
						}
					}
					continue
				}
				x, name, ok := lenOrCapOf(mk.Len)
				if !ok || name != "len" || segsParam == nil || x != lenOf {
					continue
				}
				if dp := paramOfType(merge, dropsSliceType); dp == nil || argOfType(site.Common(), dropsSliceType) != ssa.Value(dp) {
					continue
				}
				// every index assigned in the range loop: store bases[i] with i the range index over segments
				assigned := false
				for _, ref := range *mk.Referrers() {
					if ia, ok := ref.(*ssa.IndexAddr); ok {
						for _, r2 := range *ia.Referrers() {
							if _, ok := r2.(*ssa.Store); ok {
								assigned = true
							}
						}
					}
				}
				okPass = assigned
			}
			if okPass {
				r.ok(key, "merge", c.pos(merge.Pos()), "one *Segment per input segment, caller's drops passed unchanged")
			} else {
				r.bad(key, "merge", c.pos(merge.Pos()), "merge does not pass one entry per input segment and the unchanged drops to mergeSegmentBasesWriter: DocumentNumbers() would not align with the inputs")
			}
			// sentinel
			key = "docDropped/value"
			k := c.ConstVal("docDropped")
			if v, ok := constantInt64(k); ok && v == math.MaxInt64 {
				r.ok(key, "", "-", "docDropped == math.MaxInt64")
			} else {
				r.bad(key, "", "-", "docDropped is no longer math.MaxInt64 (public contract with Bluge)")
			}
			// computeNewDocCount feeds footer.numDocs
			mw := c.MustFn("mergeToWriter")
			cnd := c.MustFn("computeNewDocCount")
			key = "mergeToWriter/numDocs"
			okCount := false
			ft := c.NamedType("footer").Obj()
			for _, st := range c.census().fieldStores[fieldKey{ft, "numDocs"}] {
				if st.fn != mw {
					continue
				}
				if call, ok := st.val.(*ssa.Call); ok && call.Call.StaticCallee() == cnd && paramOfType(mw, segSliceType) != nil && paramOfType(mw, dropsSliceType) != nil && argOfType(&call.Call, segSliceType) == ssa.Value(paramOfType(mw, segSliceType)) && argOfType(&call.Call, dropsSliceType) == ssa.Value(paramOfType(mw, dropsSliceType)) {
					okCount = true
				}
			}
			if okCount {
				r.ok(key, fnName(mw), c.pos(mw.Pos()), "footer.numDocs = computeNewDocCount(segments, drops)")
			} else {
				r.bad(key, fnName(mw), c.pos(mw.Pos()), "the merged footer's numDocs is not computeNewDocCount(segments, drops)")
			}
		},
	})

	register(&Rule{
		Name:  "BLOCK-CURSOR",
		Floor: 1,
		Doc:   "the byte-copy path parses every stored-field block from its start: the in-block cursor that is compared with len(uncompressed) starts at the constant 0 for each block (it is not carried over from the previous block)",
		Run: func(c *Ctx, scope string, r *Report) {
			fn := c.MustFn("(*Segment).copyStoredDocs")
			key := fnName(fn) + "/in-block-cursor"
			found := false
			// the per-record loop is in copyStoredDocs or in a helper it hands each block to
			var blocks []*ssa.BasicBlock
			blocks = append(blocks, fn.Blocks...)
			for _, sc := range staticCallees(fn) {
				if c.inRoot(sc) && sc.Blocks != nil {
					blocks = append(blocks, sc.Blocks...)
				}
			}
			for _, h := range blocks {
				if !isLoopHeader(h) {
					continue
				}
				ifi, ok := h.Instrs[len(h.Instrs)-1].(*ssa.If)
				if !ok {
					continue
				}
				bin, ok := ifi.Cond.(*ssa.BinOp)
				if !ok || bin.Op != token.LSS {
					continue
				}
				if x, name, ok := lenOrCapOf(bin.Y); !ok || name != "len" || !isByteSlice(x.Type()) {
					continue
				}
				phi, ok := bin.X.(*ssa.Phi)
				if !ok || phi.Block() != h {
					continue
				}
				found = true
				bad := ""
				for i, e := range phi.Edges {
					if h.Dominates(h.Preds[i]) {
						continue // back edge
					}
					if k, isK := constInt(e); !isK || k != 0 {
						bad = "the in-block cursor enters the per-record loop with " + exprSig(e, 0) + " instead of 0: records of the next block are parsed from the previous block's end offset"
					}
				}
				if bad != "" {
					r.bad(key, fnName(fn), c.pos(phi.Pos()), bad)
				} else {
					r.ok(key, fnName(fn), c.pos(phi.Pos()), "cursor starts at 0 for every block")
				}
			}
			if !found {
				r.undecided(key, fnName(fn), c.pos(fn.Pos()), "no `for cursor < len(block)` loop found")
			}
			// the same for every block-wise reader: a cursor that is the low bound of a window into
			// a block decompressed per iteration of an outer loop starts at 0 for each block
			for _, f := range c.fnsCalling("ZSTDDecompress") {
				for _, dc := range callsOf(f, "ZSTDDecompress") {
					var outer *ssa.BasicBlock
					for b := dc.Block(); b != nil; b = b.Idom() {
						if isLoopHeader(b) && loopBody(b)[dc.Block()] {
							outer = b
							break
						}
					}
					if outer == nil {
						continue
					}
					obody := loopBody(outer)
					for b := range obody {
						for _, ins := range b.Instrs {
							sl, ok := ins.(*ssa.Slice)
							if !ok || sl.Low == nil || !isByteSlice(sl.X.Type()) {
								continue
							}
							phi, ok := sl.Low.(*ssa.Phi)
							if !ok || !isLoopHeader(phi.Block()) || phi.Block() == outer || !obody[phi.Block()] {
								continue
							}
							k2 := fnName(f) + "/window-cursor"
							bad := ""
							for i, e := range phi.Edges {
								if phi.Block().Dominates(phi.Block().Preds[i]) {
									continue
								}
								if k, isK := constInt(e); !isK || k != 0 {
									bad = "the cursor that is the low bound of the window " + exprSig(sl, 0) + " enters the per-entry loop with " + exprSig(e, 0) + " instead of 0: entries of the next block are cut from the previous block's end offset"
								}
							}
							if bad != "" {
								r.bad(k2, fnName(f), c.pos(sl.Pos()), bad)
							} else {
								r.ok(k2, fnName(f), c.pos(sl.Pos()), "the window cursor starts at 0 for every block")
							}
						}
					}
				}
			}
		},
	})

	register(&Rule{
		Name:  "STORED-OFFSET-SOURCE",
		Floor: 2,
		Doc:   "every entry of a stored-field offsets index (docStoredOffsets / docNumOffsets) is the chunked document coder's Size() taken immediately before the Add of that document on the same coder (builder, merge re-encode path and merge byte-copy path agree)",
		Run: func(c *Ctx, scope string, r *Report) {
			add := c.MustFn("(*chunkedDocumentCoder).Add")
			size := c.MustFn("(*chunkedDocumentCoder).Size")
			for _, site := range c.callsTo(add) {
				fn := site.Parent()
				key := fnName(fn) + "/Add"
				coder := site.Common().Args[0]
				// a store slice[docNum] = coder.Size() in the same block before the Add, with docNum the Add's docNum argument
				ok := false
				why := "no offsets[docNum] = coder.Size() precedes this Add"
				b := site.Block()
				for _, ins := range b.Instrs[:instrIndex(site)] {
					st, isSt := ins.(*ssa.Store)
					if !isSt {
						continue
					}
					ia, isIA := st.Addr.(*ssa.IndexAddr)
					if !isIA {
						continue
					}
					call, isCall := st.Val.(*ssa.Call)
					if !isCall || call.Call.StaticCallee() != size {
						continue
					}
					// the same coder: the same value, or two loads of the same place (a field of a cursor struct)
					samePlace := func(a, b ssa.Value) bool {
						if stripConv(a) == stripConv(b) {
							return true
						}
						pa, pb := placeOf(a), placeOf(b)
						if pa == "" || pa != pb {
							return false
						}
						// no store to that place between the two loads (same block)
						ia, oka := stripConv(a).(ssa.Instruction)
						ib, okb := stripConv(b).(ssa.Instruction)
						if !oka || !okb || ia.Block() != ib.Block() {
							return false
						}
						lo, hi := instrIndex(ia), instrIndex(ib)
						if lo > hi {
							lo, hi = hi, lo
						}
						for _, mid := range ia.Block().Instrs[lo:hi] {
							if st, isSt := mid.(*ssa.Store); isSt && "*"+accessPath(st.Addr) == pa {
								return false
							}
						}
						return true
					}
					if !samePlace(call.Call.Args[0], coder) {
						why = "the offset is taken from a different coder than the one the document is added to"
						continue
					}
					if !samePlace(ia.Index, site.Common().Args[1]) {
						why = "the offset is recorded under a different document number than the one added"
						continue
					}
					ok = true
				}
				// or: Add itself hands back the in-block offset of the record it appended - taken
				// from the block buffer before anything that can start a new block - and that
				// result is what is recorded under the document number
				if !ok {
					if call, isCall := site.(*ssa.Call); isCall {
						if res := tupleParts(call)[0]; res != nil && res.Type().String() == "uint64" {
							stored := false
							for _, ref := range *res.Referrers() {
								if st, isSt := ref.(*ssa.Store); isSt && st.Val == ssa.Value(res) {
									if ia, isIA := st.Addr.(*ssa.IndexAddr); isIA && stripConv(ia.Index) == stripConv(site.Common().Args[1]) {
										stored = true
									}
								}
							}
							if !stored {
								why = "the offset Add returns is not recorded under the document number that was added"
							} else if w := addReturnsOffsetBeforeNewBlock(c, add); w != "" {
								why = w
							} else {
								r.ok(key, fnName(fn), c.pos(site.Pos()), "offsets[docNum] = the in-block offset coder.Add(docNum, …) returns, taken before a new block can start")
								continue
							}
						}
					}
				}
				if ok {
					r.ok(key, fnName(fn), c.pos(site.Pos()), "offsets[docNum] = coder.Size() immediately before coder.Add(docNum, …)")
				} else {
					r.bad(key, fnName(fn), c.pos(site.Pos()), why)
				}
			}
		},
	})
}

// addReturnsOffsetBeforeNewBlock: the uint64 that Add returns on success is
// computed from the length of the coder's block buffer by an instruction that
// runs before every call (newLine, flush …) that can reset that buffer; ""
// when so, else why not.
func addReturnsOffsetBeforeNewBlock(c *Ctx, add *ssa.Function) string {
	resets := func(f *ssa.Function) bool {
		for g := range c.reach([]*ssa.Function{f}) {
			for _, call := range callsOfFull(g, "bytes.(*Buffer).Reset") {
				if exprSig(call.Call.Args[0], 0) == ".buf" {
					return true
				}
			}
		}
		return false
	}
	for _, rb := range maySucceedReturns(add) {
		ret := rb.Instrs[len(rb.Instrs)-1].(*ssa.Return)
		v := stripConv(resolveLoad(ret.Results[0]))
		// the buffer-length reading(s) the value is computed from
		var lens []*ssa.Call
		var walk func(x ssa.Value, d int)
		walk = func(x ssa.Value, d int) {
			if d > 6 {
				return
			}
			switch y := stripConv(x).(type) {
			case *ssa.BinOp:
				walk(y.X, d+1)
				walk(y.Y, d+1)
			case *ssa.Call:
				if sc := y.Call.StaticCallee(); sc != nil && funcFullName(sc) == "bytes.(*Buffer).Len" {
					lens = append(lens, y)
				}
			case *ssa.Phi:
				for _, e := range y.Edges {
					walk(e, d+1)
				}
			}
		}
		walk(v, 0)
		if len(lens) == 0 {
			return "what Add returns is not computed from the length of its block buffer"
		}
		for _, ln := range lens {
			for _, b := range add.Blocks {
				for _, ins := range b.Instrs {
					call, ok := ins.(*ssa.Call)
					if !ok || call.Call.StaticCallee() == nil || !c.inRoot(call.Call.StaticCallee()) {
						continue
					}
					if resets(call.Call.StaticCallee()) && canExecuteAfter(call, ln) {
						return "Add computes the offset it returns from the block buffer at " + c.pos(ln.Pos()) + ", after " + fnName(call.Call.StaticCallee()) + " (which starts a new block when this one is full and empties the buffer): the last record of every full block gets a wrong offset"
					}
				}
			}
		}
	}
	return ""
}

// inductionFromZero: v takes the values 0,1,2,… over the iterations of the loop
// with header h: a phi (0, +1), or phi+1 of a rangeindex phi (-1, +1).
func inductionFromZero(v ssa.Value, h *ssa.BasicBlock) bool {
	check := func(phi *ssa.Phi, init int64, next ssa.Value) bool {
		if phi.Block() != h {
			return false
		}
		for i, pr := range h.Preds {
			if h.Dominates(pr) {
				if phi.Edges[i] != next && !isPlusOne(phi.Edges[i], phi) {
					return false
				}
			} else if k, ok := constInt(phi.Edges[i]); !ok || k != init {
				return false
			}
		}
		return true
	}
	switch x := v.(type) {
	case *ssa.Phi:
		return check(x, 0, nil)
	case *ssa.BinOp:
		if phi, ok := x.X.(*ssa.Phi); ok && isPlusOne(x, phi) {
			return check(phi, -1, x)
		}
	}
	return false
}

func blockList(bs []*ssa.BasicBlock) string {
	var s []string
	for _, b := range bs {
		s = append(s, fmt.Sprint(b.Index))
	}
	return strings.Join(s, "→")
}

// nilEdge: description of how v can be the nil constant, or "".
func nilEdge(v ssa.Value, seen map[ssa.Value]bool) string {
	if seen[v] {
		return ""
	}
	seen[v] = true
	switch x := v.(type) {
	case *ssa.Const:
		if x.IsNil() {
			return "nil constant"
		}
	case *ssa.Phi:
		for i, e := range x.Edges {
			if w := nilEdge(e, seen); w != "" {
				return fmt.Sprintf("%s via block %d (%s)", w, x.Block().Preds[i].Index, x.Block().Preds[i].Comment)
			}
		}
	}
	return ""
}

// pathTakesContainsTrue: the path crosses the true edge of an If whose
// condition is drops.Contains(uint32(docNum)).
func pathTakesContainsTrue(blocks []*ssa.BasicBlock, drops *ssa.Parameter, docNum ssa.Value) bool {
	for i, b := range blocks {
		ifi, ok := b.Instrs[len(b.Instrs)-1].(*ssa.If)
		if !ok || i+1 >= len(blocks) {
			continue
		}
		call, ok := ifi.Cond.(*ssa.Call)
		if !ok || call.Call.StaticCallee() == nil || call.Call.StaticCallee().Name() != "Contains" {
			continue
		}
		if call.Call.Args[0] != ssa.Value(drops) || stripConv(call.Call.Args[1]) != docNum {
			continue
		}
		if blocks[i+1] == b.Succs[0] {
			return true
		}
	}
	return false
}

// isOffsetFillLoop: loop header b heads a loop over the whole table that
// stores table[i] = base + i with i the index counting from zero.
func isOffsetFillLoop(b *ssa.BasicBlock, table ssa.Value, base ssa.Value) bool {
	for ib := range loopBody(b) {
		for _, st := range storesIntoSlice(ib, table) {
			idxV := st.Addr.(*ssa.IndexAddr).Index
			if !inductionFromZero(idxV, b) {
				continue
			}
			bin, ok := st.Val.(*ssa.BinOp)
			if !ok || bin.Op != token.ADD {
				continue
			}
			x, y := bin.X, bin.Y
			if stripConv(x) == idxV {
				x, y = y, x
			}
			if x != base || stripConv(y) != idxV {
				continue
			}
			if ifi, ok := b.Instrs[len(b.Instrs)-1].(*ssa.If); ok {
				if c, ok := ifi.Cond.(*ssa.BinOp); ok && c.Op == token.LSS && c.X == idxV {
					if _, ok := numDocsOf(c.Y); ok {
						return true
					}
					if xx, name, ok := lenOrCapOf(c.Y); ok && name == "len" && xx == table {
						return true
					}
				}
			}
		}
	}
	return false
}

// returnsAdvanced: on every return of fn that may report success the first
// result is its counter parameter, possibly advanced (p, p+1 in a loop, …) -
// never a constant or an unrelated value.  "" when so.
func returnsAdvanced(fn *ssa.Function, p *ssa.Parameter) string {
	var derived func(v ssa.Value, seen map[ssa.Value]bool) bool
	derived = func(v ssa.Value, seen map[ssa.Value]bool) bool {
		if seen[v] {
			return true
		}
		seen[v] = true
		switch x := stripConv(v).(type) {
		case *ssa.Parameter:
			return x == p
		case *ssa.Phi:
			for _, e := range x.Edges {
				if !derived(e, seen) {
					return false
				}
			}
			return true
		case *ssa.BinOp:
			return x.Op == token.ADD && (derived(x.X, seen) || derived(x.Y, seen))
		}
		return false
	}
	for _, rb := range maySucceedReturns(fn) {
		ret := rb.Instrs[len(rb.Instrs)-1].(*ssa.Return)
		if !derived(resolveLoad(ret.Results[0]), map[ssa.Value]bool{}) {
			return fnName(fn) + " returns " + exprSig(resolveLoad(ret.Results[0]), 0) + " as the next document number on a successful path, not the number it was given (advanced by what it copied): the numbering of the following segments restarts"
		}
	}
	return ""
}

// isAllDroppedMaker: fn(n) returns make([]uint64, n) whose every element a
// whole-range loop sets to the dropped sentinel.
func isAllDroppedMaker(c *Ctx, fn *ssa.Function) bool {
	if fn == nil || !c.inRoot(fn) || fn.Blocks == nil || len(fn.Params) != 1 || fn.Signature.Results().Len() != 1 {
		return false
	}
	var mk *ssa.MakeSlice
	for _, b := range fn.Blocks {
		for _, ins := range b.Instrs {
			if m, ok := ins.(*ssa.MakeSlice); ok {
				if mk != nil || stripConv(m.Len) != ssa.Value(fn.Params[0]) {
					return false
				}
				mk = m
			}
		}
	}
	if mk == nil || mk.Referrers() == nil {
		return false
	}
	nst := 0
	loopOK := false
	for _, ref := range *mk.Referrers() {
		ia, ok := ref.(*ssa.IndexAddr)
		if !ok || ia.Referrers() == nil {
			continue
		}
		for _, r2 := range *ia.Referrers() {
			st, ok := r2.(*ssa.Store)
			if !ok {
				continue
			}
			nst++
			if !isDocDroppedConst(st.Val) {
				return false
			}
			for h := st.Block(); h != nil; h = h.Idom() {
				if !isLoopHeader(h) || !loopBody(h)[st.Block()] || !inductionFromZero(ia.Index, h) {
					continue
				}
				if ifi, ok := h.Instrs[len(h.Instrs)-1].(*ssa.If); ok {
					if bin, ok := ifi.Cond.(*ssa.BinOp); ok && bin.Op == token.LSS && bin.X == ia.Index {
						if xx, name, ok := lenOrCapOf(bin.Y); ok && name == "len" && xx == ssa.Value(mk) {
							loopOK = true
						}
						if stripConv(bin.Y) == ssa.Value(fn.Params[0]) {
							loopOK = true
						}
					}
				}
			}
		}
	}
	if nst == 0 || !loopOK {
		return false
	}
	for _, b := range fn.Blocks {
		if ret, ok := b.Instrs[len(b.Instrs)-1].(*ssa.Return); ok {
			if len(ret.Results) != 1 || resolveLoad(ret.Results[0]) != ssa.Value(mk) {
				return false
			}
		}
	}
	return true
}

// allDroppedAppendsIn: appends, in block b of fn, of the result of an
// all-dropped maker called with the document count of the ranged segment.
func allDroppedAppendsIn(c *Ctx, fn *ssa.Function, b *ssa.BasicBlock) int {
	n := 0
	for _, ins := range b.Instrs {
		call, ok := ins.(*ssa.Call)
		if !ok {
			continue
		}
		bi, ok := call.Call.Value.(*ssa.Builtin)
		if !ok || bi.Name() != "append" || len(call.Call.Args) != 2 {
			continue
		}
		vals := varargValues(call.Call.Args[1])
		if len(vals) != 1 {
			continue
		}
		mc, ok := vals[0].(*ssa.Call)
		if !ok || !isAllDroppedMaker(c, mc.Call.StaticCallee()) || len(mc.Call.Args) != 1 {
			continue
		}
		if _, ok := numDocsOf(stripConv(mc.Call.Args[0])); ok {
			n++
		}
	}
	return n
}

// allDroppedGuard: the If tests drops.GetCardinality() == seg.footer.numDocs; returns the edge on which it holds.
func allDroppedGuard(b *ssa.BasicBlock) *ssa.BasicBlock {
	ifi, ok := b.Instrs[len(b.Instrs)-1].(*ssa.If)
	if !ok {
		return nil
	}
	bin, ok := ifi.Cond.(*ssa.BinOp)
	if !ok || (bin.Op != token.EQL && bin.Op != token.NEQ) {
		return nil
	}
	x, y := stripConv(bin.X), stripConv(bin.Y)
	if _, ok := numDocsOf(x); ok {
		x, y = y, x
	}
	if _, ok := numDocsOf(y); !ok {
		return nil
	}
	call, ok := x.(*ssa.Call)
	if !ok || call.Call.StaticCallee() == nil || call.Call.StaticCallee().Name() != "GetCardinality" {
		return nil
	}
	if bin.Op == token.EQL {
		return b.Succs[0]
	}
	return b.Succs[1]
}

func pathTakesAllDroppedEdge(blocks []*ssa.BasicBlock) bool {
	for i, b := range blocks {
		if e := allDroppedGuard(b); e != nil && i+1 < len(blocks) && blocks[i+1] == e {
			return true
		}
	}
	return false
}

func allDroppedGuardDominates(b *ssa.BasicBlock) bool {
	if b == nil {
		return false
	}
	for _, tb := range b.Parent().Blocks {
		if e := allDroppedGuard(tb); e != nil && len(e.Preds) == 1 && (e == b || e.Dominates(b)) {
			return true
		}
	}
	return false
}

// offsetFiller: fn(table []uint64, first uint64, …) (uint64, error) fills
// table[i] = first + i for every i (a loop over the whole table that every
// successful return passes) and hands back first + len(table); the only other
// successful return hands back first itself and lies behind a test that the
// receiver segment has no documents (then the table, which the caller sizes by
// that count, is empty).
func offsetFiller(fn *ssa.Function) (table, counter *ssa.Parameter, ok bool) {
	if fn == nil || fn.Blocks == nil || fn.Signature.Results().Len() != 2 {
		return nil, nil, false
	}
	counter = paramOfType(fn, "uint64")
	if counter == nil {
		return nil, nil, false
	}
	for _, tp := range paramsOfType(fn, "[]uint64") {
		var loop *ssa.BasicBlock
		for _, b := range fn.Blocks {
			if isLoopHeader(b) && isOffsetFillLoop(b, tp, counter) {
				if xx, name, ok := lenOrCapOf(b.Instrs[len(b.Instrs)-1].(*ssa.If).Cond.(*ssa.BinOp).Y); ok && name == "len" && xx == ssa.Value(tp) {
					loop = b
				}
			}
		}
		if loop == nil {
			continue
		}
		good := true
		n := 0
		for _, rb := range maySucceedReturns(fn) {
			ret := rb.Instrs[len(rb.Instrs)-1].(*ssa.Return)
			v := stripConv(resolveLoad(ret.Results[0]))
			if loop.Dominates(rb) {
				// first + len(table)
				bin, isBin := v.(*ssa.BinOp)
				if !isBin || bin.Op != token.ADD {
					good = false
					continue
				}
				a, l := bin.X, bin.Y
				if a != ssa.Value(counter) {
					a, l = l, a
				}
				xx, name, isLen := lenOrCapOf(l)
				if a != ssa.Value(counter) || !isLen || name != "len" || xx != ssa.Value(tp) {
					good = false
				}
				n++
				continue
			}
			// before the fill: only the "no documents" exit, which hands back the counter unchanged
			if v != ssa.Value(counter) || !noDocsGuardDominates(fn, rb) {
				good = false
			}
		}
		if good && n > 0 {
			return tp, counter, true
		}
	}
	return nil, nil, false
}

// noDocsGuardDominates: rb lies behind the edge of a test of the receiver's
// footer.numDocs on which it is zero (`numDocs <= 0`, `numDocs == 0`).
func noDocsGuardDominates(fn *ssa.Function, rb *ssa.BasicBlock) bool {
	if len(fn.Params) == 0 {
		return false
	}
	for _, tb := range fn.Blocks {
		ifi, ok := tb.Instrs[len(tb.Instrs)-1].(*ssa.If)
		if !ok {
			continue
		}
		bin, ok := ifi.Cond.(*ssa.BinOp)
		if !ok {
			continue
		}
		if x, isND := numDocsOf(bin.X); !isND || x != ssa.Value(fn.Params[0]) {
			continue
		}
		if k, isK := constInt(bin.Y); !isK || k != 0 {
			continue
		}
		var e *ssa.BasicBlock
		switch bin.Op {
		case token.LEQ, token.EQL:
			e = tb.Succs[0]
		case token.GTR, token.NEQ:
			e = tb.Succs[1]
		}
		if e != nil && len(e.Preds) == 1 && (e == rb || e.Dominates(rb)) {
			return true
		}
	}
	return false
}

// offsetFillerSegOK: when the filler has a no-documents exit that relies on the
// table being sized by its receiver's document count, the receiver is the
// segment whose count sized this table.
func offsetFillerSegOK(cc *ssa.CallCommon, tableMk *ssa.MakeSlice) bool {
	x, ok := numDocsOf(tableMk.Len)
	if !ok || len(cc.Args) == 0 {
		return false
	}
	return cc.Args[0] == x || accessPath(cc.Args[0]) == accessPath(x)
}

// appendedOnePerInput: v is the slice built as make(T, 0, len(src)) and grown
// by exactly one append per iteration of a loop that ranges over all of src,
// the appended value being (a type assertion of) the ranged element; the loop
// is left early only by returning a non-nil error.
func appendedOnePerInput(v ssa.Value, src ssa.Value) bool {
	var appends []*ssa.Call
	var mk *ssa.MakeSlice
	seen := map[ssa.Value]bool{}
	var walk func(x ssa.Value) bool
	walk = func(x ssa.Value) bool {
		if seen[x] {
			return true
		}
		seen[x] = true
		switch y := x.(type) {
		case *ssa.Phi:
			for _, e := range y.Edges {
				if !walk(e) {
					return false
				}
			}
			return true
		case *ssa.Call:
			bi, ok := y.Call.Value.(*ssa.Builtin)
			if !ok || bi.Name() != "append" {
				return false
			}
			appends = append(appends, y)
			return walk(y.Call.Args[0])
		case *ssa.MakeSlice:
			if mk != nil && mk != y {
				return false
			}
			mk = y
			return true
		}
		return false
	}
	if !walk(v) || mk == nil || len(appends) != 1 {
		return false
	}
	if k, ok := constInt(mk.Len); !ok || k != 0 {
		return false
	}
	if x, name, ok := lenOrCapOf(mk.Cap); !ok || name != "len" || x != src {
		return false
	}
	ap := appends[0]
	// the loop that holds the append ranges over src
	var hdr *ssa.BasicBlock
	for h := ap.Block(); h != nil; h = h.Idom() {
		if isLoopHeader(h) && loopBody(h)[ap.Block()] {
			hdr = h
			break
		}
	}
	if hdr == nil {
		return false
	}
	ifi, ok := hdr.Instrs[len(hdr.Instrs)-1].(*ssa.If)
	if !ok {
		return false
	}
	bin, ok := ifi.Cond.(*ssa.BinOp)
	if !ok || bin.Op != token.LSS || !inductionFromZero(bin.X, hdr) {
		return false
	}
	if x, name, ok := lenOrCapOf(bin.Y); !ok || name != "len" || x != src {
		return false
	}
	// what is appended: the ranged element, possibly type-asserted
	vals := varargValues(ap.Call.Args[1])
	if len(vals) != 1 {
		return false
	}
	el := vals[0]
	if ex, ok := el.(*ssa.Extract); ok {
		el = ex.Tuple
	}
	if ta, ok := el.(*ssa.TypeAssert); ok {
		el = ta.X
	}
	ld, ok := el.(*ssa.UnOp)
	if !ok || ld.Op != token.MUL {
		return false
	}
	ia, ok := ld.X.(*ssa.IndexAddr)
	if !ok || ia.X != src || ia.Index != bin.X {
		return false
	}
	// every path through one iteration appends once, or leaves with an error
	body := loopBody(hdr)
	paths, complete := iterPaths(hdr, hdr.Succs[0], body, 500)
	if !complete {
		return false
	}
	for _, p := range paths {
		if p.exit {
			last := p.blocks[len(p.blocks)-1]
			if _, isPanic := last.Instrs[len(last.Instrs)-1].(*ssa.Panic); isPanic {
				continue
			}
			ret, ok := last.Instrs[len(last.Instrs)-1].(*ssa.Return)
			if !ok || len(ret.Results) == 0 || isNilConst(resolveLoad(ret.Results[len(ret.Results)-1])) {
				return false
			}
			continue
		}
		n := 0
		for _, b := range p.blocks {
			if b == ap.Block() {
				n++
			}
		}
		if n != 1 {
			return false
		}
	}
	return true
}
