package main

// C14 — MAP-ORDER: bodies of `range` over a map must be order-insensitive.

import (
	"fmt"
	"go/token"
	"go/types"
	"strings"

	"golang.org/x/tools/go/ssa"
)

// calls inside a map-range body that are commutative / idempotent w.r.t.
// iteration order, with the reason.
var mapOrderCallAllow = map[string]string{
	"github.com/RoaringBitmap/roaring.(*Bitmap).Add": "set insertion is commutative",
	rootPkgPath + ".(*interim).getOrDefineField":     "idempotent here: under the input contract every field named by a location was defined in convert()'s first pass, so no id is assigned in map order",
	rootPkgPath + ".(*docValueReader).size":          "pure",
	rootPkgPath + ".(*tokenFreq).Frequency":          "pure",
	"builtin.len":                                    "pure",
	"builtin.cap":                                    "pure",
	"builtin.delete":                                 "deleting while ranging is order-insensitive",
	"builtin.append":                                 "checked separately (keyed destination or collect-then-sort)",
	"math.Float32bits":                               "pure",
}

func derivedFrom(v ssa.Value, roots map[ssa.Value]bool, seen map[ssa.Value]bool) bool {
	if roots[v] {
		return true
	}
	if seen[v] {
		return false
	}
	seen[v] = true
	switch x := v.(type) {
	case *ssa.Convert:
		return derivedFrom(x.X, roots, seen)
	case *ssa.ChangeType:
		return derivedFrom(x.X, roots, seen)
	case *ssa.BinOp:
		return derivedFrom(x.X, roots, seen) || derivedFrom(x.Y, roots, seen)
	case *ssa.Lookup:
		return derivedFrom(x.Index, roots, seen)
	case *ssa.Extract:
		return derivedFrom(x.Tuple, roots, seen)
	case *ssa.UnOp:
		return derivedFrom(x.X, roots, seen)
	case *ssa.IndexAddr:
		return derivedFrom(x.Index, roots, seen)
	case *ssa.FieldAddr:
		return derivedFrom(x.X, roots, seen)
	}
	return false
}

func init() {
	register(&Rule{
		Name:  "MAP-ORDER",
		Floor: 4,
		Doc:   "every `range` over a map in the package has an order-insensitive body: it only deletes, accumulates commutatively, writes to destinations keyed by (a value derived from) the range key, collects into a slice that is sorted afterwards, or calls functions listed as commutative/idempotent with the reason; anything else is undecided",
		Run: func(c *Ctx, scope string, r *Report) {
			for _, fn := range c.srcFns {
				for _, b := range fn.Blocks {
					for _, ins := range b.Instrs {
						rg, ok := ins.(*ssa.Range)
						if !ok {
							continue
						}
						if _, isMap := rg.X.Type().Underlying().(*types.Map); !isMap {
							continue
						}
						what := strings.TrimPrefix(accessPath(rg.X), "*")
						if len(what) > 1 && what[0] == 't' && what[1] >= '0' && what[1] <= '9' {
							what = "map:" + rg.X.Type().String() // SSA register names are not stable keys
						}
						key := fnName(fn) + "/range-" + what
						// the loop header holds the Next
						var hdr *ssa.BasicBlock
						var next *ssa.Next
						for _, ref := range *rg.Referrers() {
							if nx, ok := ref.(*ssa.Next); ok {
								hdr, next = nx.Block(), nx
							}
						}
						if hdr == nil {
							r.undecided(key, fnName(fn), c.pos(rg.Pos()), "range without Next")
							continue
						}
						roots := map[ssa.Value]bool{}
						for _, ref := range *next.Referrers() {
							if ex, ok := ref.(*ssa.Extract); ok && ex.Index > 0 {
								roots[ex] = true
							}
						}
						body := loopBody(hdr)
						var problems []string
						var notes []string
						for bb := range body {
							for _, bi := range bb.Instrs {
								if w := c.mapOrderInstr(fn, hdr, body, bi, roots, rg.X); w != "" {
									if strings.HasPrefix(w, "ok:") {
										notes = append(notes, strings.TrimPrefix(w, "ok:"))
									} else {
										problems = append(problems, w+" at "+c.pos(bi.Pos()))
									}
								}
							}
						}
						if len(problems) > 0 {
							r.undecided(key, fnName(fn), c.pos(rg.Pos()), "the body of this map range may depend on iteration order: "+problems[0], problems...)
						} else {
							r.ok(key, fnName(fn), c.pos(rg.Pos()), "order-insensitive body ("+strings.Join(uniq(notes), "; ")+")")
						}
					}
				}
			}
		},
	})
}

// mapOrderInstr returns "" (neutral), "ok:<kind>" or a problem description.
func (c *Ctx) mapOrderInstr(fn *ssa.Function, hdr *ssa.BasicBlock, body map[*ssa.BasicBlock]bool, ins ssa.Instruction, roots map[ssa.Value]bool, ranged ssa.Value) string {
	switch x := ins.(type) {
	case *ssa.MapUpdate:
		if derivedFrom(x.Key, roots, map[ssa.Value]bool{}) {
			return "ok:map write keyed by the range key"
		}
		return "map update with a key not derived from the range key"
	case *ssa.Store:
		switch a := x.Addr.(type) {
		case *ssa.IndexAddr:
			if derivedFrom(a.Index, roots, map[ssa.Value]bool{}) {
				return "ok:element write keyed by the range key"
			}
			// varargs array for append/calls
			if al, ok := a.X.(*ssa.Alloc); ok && al.Comment == "varargs" {
				return ""
			}
			return "element store with an index not derived from the range key"
		case *ssa.Alloc:
			if a.Comment == "varargs" {
				return ""
			}
			// local accumulator cell
			if bin, ok := x.Val.(*ssa.BinOp); ok && (bin.Op == token.ADD || bin.Op == token.OR || bin.Op == token.AND) {
				return "ok:commutative accumulation"
			}
			return "store to a local variable that is not a commutative accumulation"
		case *ssa.FieldAddr:
			if _, isLocal := rootParam(a).(*ssa.Alloc); isLocal {
				return "" // building a local composite literal
			}
			if bin, ok := x.Val.(*ssa.BinOp); ok && (bin.Op == token.ADD || bin.Op == token.OR) {
				return "ok:commutative accumulation"
			}
			return "field store inside a map range"
		}
		return "store inside a map range"
	case *ssa.Phi:
		// loop-carried value: must be a commutative accumulation or an append that is sorted later
		if x.Block() != hdr {
			return ""
		}
		for i, e := range x.Edges {
			if !body[hdr.Preds[i]] || hdr.Preds[i] == hdr && false {
				continue
			}
			if !hdr.Dominates(hdr.Preds[i]) {
				continue
			}
			switch v := e.(type) {
			case *ssa.BinOp:
				if v.Op == token.ADD || v.Op == token.OR || v.Op == token.AND {
					return "ok:commutative accumulation"
				}
				return "loop-carried value updated non-commutatively"
			case *ssa.Call:
				if bi, ok := v.Call.Value.(*ssa.Builtin); ok && bi.Name() == "append" {
					if sortedAfter(x, body) {
						return "ok:collect-then-sort"
					}
					return "values are appended in map order and not sorted afterwards"
				}
			case *ssa.Phi:
				// inner merge of the same accumulator
				continue
			}
		}
		return ""
	case ssa.CallInstruction:
		cc := x.Common()
		name := calleeFullName(cc)
		if why, ok := mapOrderCallAllow[name]; ok {
			if name == "builtin.append" {
				return ""
			}
			return "ok:" + strings.SplitN(name, ".", 2)[0] + " call listed (" + why + ")"
		}
		if cc.IsInvoke() {
			return "interface call " + cc.Method.Name() + " inside a map range"
		}
		if sc := cc.StaticCallee(); sc != nil && c.inRoot(sc) && orderNeutralCallee(c, sc, 0) {
			return "ok:in-package helper " + fnName(sc) + " has no effect outside its own locals and result (only listed calls)"
		}
		return "call of " + name + " inside a map range (not listed as commutative/idempotent)"
	case *ssa.Send, *ssa.Go, *ssa.Defer, *ssa.Panic:
		return fmt.Sprintf("%T inside a map range", ins)
	case *ssa.Return:
		return "return from inside a map range (first match in map order)"
	}
	return ""
}

// sortedAfter: the collected slice (phi) is passed — possibly re-sliced — to
// sort.Strings / sort.Slice / sort.Sort outside the loop.
func sortedAfter(phi *ssa.Phi, body map[*ssa.BasicBlock]bool) bool {
	seen := map[ssa.Value]bool{}
	var walk func(v ssa.Value) bool
	walk = func(v ssa.Value) bool {
		if seen[v] || v.Referrers() == nil {
			return false
		}
		seen[v] = true
		for _, ref := range *v.Referrers() {
			switch x := ref.(type) {
			case *ssa.Slice:
				if walk(x) {
					return true
				}
			case *ssa.Phi:
				if walk(x) {
					return true
				}
			case *ssa.Call:
				if sc := x.Call.StaticCallee(); sc != nil && sc.Pkg != nil && sc.Pkg.Pkg.Path() == "sort" && !body[x.Block()] {
					return true
				}
				if bi, ok := x.Call.Value.(*ssa.Builtin); ok && bi.Name() == "append" {
					if walk(x) {
						return true
					}
				}
			case *ssa.MakeInterface:
				if walk(x) {
					return true
				}
			}
		}
		return false
	}
	return walk(phi)
}

// orderNeutralCallee: an in-package helper called from a map-range body that
// cannot make the outcome depend on iteration order by itself: it stores only
// into its own locals (including the backing arrays append hands back through
// its result), updates no map, and calls only listed functions or helpers of
// the same kind.  What the caller does with its result is checked in the caller.
func orderNeutralCallee(c *Ctx, fn *ssa.Function, depth int) bool {
	if fn.Blocks == nil || depth > 2 {
		return false
	}
	for _, b := range fn.Blocks {
		for _, ins := range b.Instrs {
			switch x := ins.(type) {
			case *ssa.MapUpdate, *ssa.Send, *ssa.Go, *ssa.Defer, *ssa.Panic:
				return false
			case *ssa.Store:
				switch a := x.Addr.(type) {
				case *ssa.Alloc:
				case *ssa.IndexAddr:
					if al, ok := a.X.(*ssa.Alloc); !ok || al.Comment != "varargs" {
						return false
					}
				case *ssa.FieldAddr:
					if _, isLocal := rootParam(a).(*ssa.Alloc); !isLocal {
						return false
					}
				default:
					return false
				}
			case ssa.CallInstruction:
				cc := x.Common()
				if _, ok := mapOrderCallAllow[calleeFullName(cc)]; ok {
					continue
				}
				if cc.IsInvoke() {
					return false
				}
				sc := cc.StaticCallee()
				if sc == nil || !c.inRoot(sc) || sc == fn || !orderNeutralCallee(c, sc, depth+1) {
					return false
				}
			}
		}
	}
	return true
}
