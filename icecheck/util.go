package main

import (
	"go/constant"
	"go/token"
	"go/types"

	"golang.org/x/tools/go/ssa"
)

// resolveLoad follows a load of a local variable cell (Alloc) back to the
// value stored by the closest preceding Store in the same block (functions
// with defer spill their named results; go/ssa then emits store…rundefers…
// load…return in one block).  Returns v unchanged when it is not such a load.
func resolveLoad(v ssa.Value) ssa.Value {
	for depth := 0; depth < 8; depth++ {
		u, ok := v.(*ssa.UnOp)
		if !ok || u.Op != token.MUL {
			return v
		}
		a, ok := u.X.(*ssa.Alloc)
		if !ok {
			return v
		}
		b := u.Block()
		idx := -1
		for i, ins := range b.Instrs {
			if ins == ssa.Instruction(u) {
				idx = i
				break
			}
		}
		var found ssa.Value
		blk := b
		for blk != nil && found == nil {
			start := len(blk.Instrs) - 1
			if blk == b {
				start = idx - 1
			}
			for i := start; i >= 0; i-- {
				if st, ok := blk.Instrs[i].(*ssa.Store); ok && st.Addr == ssa.Value(a) {
					found = st.Val
					break
				}
			}
			if found == nil {
				if len(blk.Preds) == 1 {
					blk = blk.Preds[0]
				} else {
					blk = nil
				}
			}
		}
		if found == nil {
			return v
		}
		v = found
	}
	return v
}

func isNilConst(v ssa.Value) bool {
	k, ok := v.(*ssa.Const)
	return ok && k.IsNil()
}

// condFact: an atomic condition (comparison, flag load, call) known to be true
// or false.
type condFact struct {
	cond  ssa.Value
	truth bool
}

// condFacts decomposes "cond is <truth>" into atomic facts, looking through !x
// and through the value form of short-circuit operators (go/ssa lowers `a || b`
// outside an if - e.g. in a case of a tagless switch - to a phi of bools fed by
// constant edges from the blocks that decided early).
func condFacts(cond ssa.Value, truth bool, depth int) []condFact {
	if depth > 6 {
		return nil
	}
	switch x := cond.(type) {
	case *ssa.UnOp:
		if x.Op == token.NOT {
			return condFacts(x.X, !truth, depth+1)
		}
	case *ssa.Phi:
		if b, ok := x.Type().Underlying().(*types.Basic); !ok || b.Kind() != types.Bool {
			break
		}
		// a || b ...: constant true edges + one value; a && b ...: constant false edges + one value
		var early []int
		var last ssa.Value
		kind := -1 // the constant on the early edges
		okShape := true
		for k, e := range x.Edges {
			if c, isC := e.(*ssa.Const); isC && c.Value != nil {
				v := 0
				if c.Value.String() == "true" {
					v = 1
				}
				if kind == -1 {
					kind = v
				} else if kind != v {
					okShape = false
				}
				early = append(early, k)
			} else if last == nil {
				last = e
			} else {
				okShape = false
			}
		}
		if !okShape || last == nil || kind == -1 {
			break
		}
		// `||` (early edges true) decomposes when false; `&&` (early edges false) when true
		if (kind == 1) == truth {
			return nil
		}
		var out []condFact
		for _, k := range early {
			p := x.Block().Preds[k]
			ifi, ok := p.Instrs[len(p.Instrs)-1].(*ssa.If)
			want := 1 // && leaves by the false edge
			if kind == 1 {
				want = 0 // || leaves by the true edge
			}
			if !ok || len(p.Succs) != 2 || p.Succs[want] != x.Block() || p.Succs[1-want] == x.Block() {
				return nil
			}
			// the early edge is the one taken when the operand decided: true for ||, false for &&
			out = append(out, condFacts(ifi.Cond, truth, depth+1)...)
		}
		return append(out, condFacts(last, truth, depth+1)...)
	}
	return []condFact{{cond, truth}}
}

// edgeFacts: the atomic facts that hold on entry to every successor of an If
// block that has no other predecessor.
func edgeFacts(fn *ssa.Function, visit func(edge *ssa.BasicBlock, f condFact)) {
	for _, b := range fn.Blocks {
		if len(b.Instrs) == 0 {
			continue
		}
		ifi, ok := b.Instrs[len(b.Instrs)-1].(*ssa.If)
		if !ok {
			continue
		}
		for si, s := range b.Succs {
			if len(s.Preds) != 1 {
				continue
			}
			for _, f := range condFacts(ifi.Cond, si == 0, 0) {
				visit(s, f)
			}
		}
	}
}

// nilTestEdges returns, for value v, the blocks entered exactly when v is
// known non-nil / known nil (successors of `if v != nil` / `if v == nil`
// that have a single predecessor; also through !, and the value form of || and &&).
func nilTestEdges(v ssa.Value) (nonNil, isNil []*ssa.BasicBlock) {
	refs := v.Referrers()
	if refs == nil {
		return
	}
	var fn *ssa.Function
	tests := map[ssa.Value]token.Token{}
	for _, ref := range *refs {
		bin, ok := ref.(*ssa.BinOp)
		if !ok || (bin.Op != token.NEQ && bin.Op != token.EQL) {
			continue
		}
		var other ssa.Value
		if bin.X == v {
			other = bin.Y
		} else {
			other = bin.X
		}
		if !isNilConst(other) {
			continue
		}
		tests[bin] = bin.Op
		fn = bin.Parent()
	}
	if fn == nil {
		return
	}
	edgeFacts(fn, func(edge *ssa.BasicBlock, f condFact) {
		op, ok := tests[f.cond]
		if !ok {
			return
		}
		// v != nil holds iff (op is != and true) or (op is == and false)
		if (op == token.NEQ) == f.truth {
			nonNil = append(nonNil, edge)
		} else {
			isNil = append(isNil, edge)
		}
	})
	return
}

func knownNonNilAt(v ssa.Value, b *ssa.BasicBlock) bool {
	nn, _ := nilTestEdges(v)
	for _, e := range nn {
		if e.Dominates(b) {
			return true
		}
	}
	// the same place tested through another load of it, or inside a predicate helper
	if p := placeOf(v); p != "" {
		if in, ok := v.(ssa.Instruction); ok {
			return pathKnown(in.Parent(), p, true, b)
		}
		if prm, ok := v.(*ssa.Parameter); ok {
			return pathKnown(prm.Parent(), p, true, b)
		}
	}
	return false
}

// placeOf: the access path of a value that is a load of a field / local cell, or
// a parameter; "" otherwise.
func placeOf(v ssa.Value) string {
	switch x := stripConv(v).(type) {
	case *ssa.UnOp:
		if x.Op == token.MUL {
			switch x.X.(type) {
			case *ssa.FieldAddr:
				return accessPath(x)
			}
		}
	case *ssa.Parameter:
		return accessPath(x)
	}
	return ""
}

func knownNilAt(v ssa.Value, b *ssa.BasicBlock) bool {
	_, n := nilTestEdges(v)
	for _, e := range n {
		if e.Dominates(b) {
			return true
		}
	}
	return false
}

// stripConv removes value-preserving wrappers.
func stripConv(v ssa.Value) ssa.Value {
	for {
		switch x := v.(type) {
		case *ssa.Convert:
			v = x.X
		case *ssa.ChangeType:
			v = x.X
		default:
			return v
		}
	}
}

func instrIndex(ins ssa.Instruction) int {
	for i, x := range ins.Block().Instrs {
		if x == ins {
			return i
		}
	}
	return -1
}

// staticCalleeName returns pkgpath.Name or pkgpath.(recv).Name of a static callee.
func calleeFullName(cc *ssa.CallCommon) string {
	if cc.IsInvoke() {
		return "invoke " + cc.Value.Type().String() + "." + cc.Method.Name()
	}
	if sc := cc.StaticCallee(); sc != nil {
		return funcFullName(sc)
	}
	if b, ok := cc.Value.(*ssa.Builtin); ok {
		return "builtin." + b.Name()
	}
	return "dynamic"
}

func funcFullName(fn *ssa.Function) string {
	if fn.Pkg == nil {
		if o := fn.Object(); o != nil && o.Pkg() != nil {
			return o.Pkg().Path() + "." + fnName(fn)
		}
		return fnName(fn)
	}
	return fn.Pkg.Pkg.Path() + "." + fnName(fn)
}

func namedOf(t types.Type) *types.Named {
	if p, ok := t.(*types.Pointer); ok {
		t = p.Elem()
	}
	n, _ := t.(*types.Named)
	return n
}

func isNamed(t types.Type, pkgPath, name string) bool {
	n := namedOf(t)
	if n == nil || n.Obj().Pkg() == nil {
		return false
	}
	return n.Obj().Pkg().Path() == pkgPath && n.Obj().Name() == name
}

// fieldOf returns the struct type name and field name addressed by a FieldAddr/Field.
func fieldAddrInfo(fa *ssa.FieldAddr) (owner *types.Named, field *types.Var) {
	pt, ok := fa.X.Type().Underlying().(*types.Pointer)
	if !ok {
		return nil, nil
	}
	st, ok := pt.Elem().Underlying().(*types.Struct)
	if !ok {
		return nil, nil
	}
	owner, _ = pt.Elem().(*types.Named)
	return owner, st.Field(fa.Field)
}

// reachableWithout reports whether `to` is reachable from `from` by a path of
// length >= 1 that never enters block `avoid`.
func reachableWithout(from, to, avoid *ssa.BasicBlock) bool {
	seen := map[*ssa.BasicBlock]bool{}
	var work []*ssa.BasicBlock
	for _, s := range from.Succs {
		work = append(work, s)
	}
	for len(work) > 0 {
		b := work[len(work)-1]
		work = work[:len(work)-1]
		if b == avoid || seen[b] {
			continue
		}
		seen[b] = true
		if b == to {
			return true
		}
		work = append(work, b.Succs...)
	}
	return false
}

func constantInt64(k *types.Const) (int64, bool) {
	v := constant.ToInt(k.Val())
	if v.Kind() != constant.Int {
		return 0, false
	}
	return constant.Int64Val(v)
}

// paramsOfType returns the parameters of fn whose type prints as typ (the
// receiver included).  Rules identify a parameter by its type or name, never
// by its position, so that reordering a signature is not reported.
func paramsOfType(fn *ssa.Function, typ string) []*ssa.Parameter {
	var out []*ssa.Parameter
	for _, p := range fn.Params {
		if p.Type().String() == typ {
			out = append(out, p)
		}
	}
	return out
}

// paramOfType: the unique parameter of that type, or nil.
func paramOfType(fn *ssa.Function, typ string) *ssa.Parameter {
	ps := paramsOfType(fn, typ)
	if len(ps) == 1 {
		return ps[0]
	}
	return nil
}

// paramNamed: the parameter with that source name, or nil.
func paramNamed(fn *ssa.Function, name string) *ssa.Parameter {
	for _, p := range fn.Params {
		if p.Name() == name {
			return p
		}
	}
	return nil
}

// argFor: the argument a static call passes for callee parameter p.
func argFor(cc *ssa.CallCommon, p *ssa.Parameter) ssa.Value {
	sc := cc.StaticCallee()
	if sc == nil || p == nil {
		return nil
	}
	for i, q := range sc.Params {
		if q == p && i < len(cc.Args) {
			return cc.Args[i]
		}
	}
	return nil
}

// argOfType: the unique argument of a static call whose callee parameter has type typ.
func argOfType(cc *ssa.CallCommon, typ string) ssa.Value {
	sc := cc.StaticCallee()
	if sc == nil {
		return nil
	}
	return argFor(cc, paramOfType(sc, typ))
}

const roaringBitmapPtr = "*github.com/RoaringBitmap/roaring.Bitmap"

// argNamed: the argument a static call passes for the callee parameter with
// that source name (nil when there is none).
func argNamed(cc *ssa.CallCommon, name string) ssa.Value {
	sc := cc.StaticCallee()
	if sc == nil {
		return nil
	}
	return argFor(cc, paramNamed(sc, name))
}

// chunkSizeArgs: (mode, cardinality, document count) arguments of a call of
// getChunkSize, by parameter name, by position when the names changed.
func chunkSizeArgs(cc *ssa.CallCommon) (mode, card, docs ssa.Value) {
	mode, card, docs = argNamed(cc, "chunkMode"), argNamed(cc, "cardinality"), argNamed(cc, "maxDocs")
	if mode == nil || card == nil || docs == nil {
		return cc.Args[0], cc.Args[1], cc.Args[2]
	}
	return
}

// fnsCalling: the source functions of the root package (closures included)
// that contain a static call of the named in-package function, in srcFns
// order.  Rules anchor on "the function that contains construct X" rather than
// on a function name wherever the construct identifies the site, so that
// extracting or renaming a helper is not reported.
func (c *Ctx) fnsCalling(callee string) []*ssa.Function {
	var out []*ssa.Function
	for _, fn := range c.srcFns {
		if len(callsOf(fn, callee)) > 0 {
			out = append(out, fn)
		}
	}
	return out
}

// staticCallees: the distinct functions fn calls statically, in order of first call.
func staticCallees(fn *ssa.Function) []*ssa.Function {
	var out []*ssa.Function
	seen := map[*ssa.Function]bool{}
	for _, b := range fn.Blocks {
		for _, ins := range b.Instrs {
			if ci, ok := ins.(ssa.CallInstruction); ok {
				if sc := ci.Common().StaticCallee(); sc != nil && !seen[sc] {
					seen[sc] = true
					out = append(out, sc)
				}
			}
		}
	}
	return out
}

const segSliceType = "[]*" + rootPkgPath + ".Segment"
const dropsSliceType = "[]" + roaringBitmapPtr

// forwardFieldLoad: v is a load of field f of an object allocated in the same
// function (a struct literal that is filled in as the function proceeds) and
// exactly one store to that field precedes it: the stored value.  Otherwise v.
func forwardFieldLoad(v ssa.Value) ssa.Value {
	for depth := 0; depth < 4; depth++ {
		ld, ok := v.(*ssa.UnOp)
		if !ok || ld.Op != token.MUL {
			return v
		}
		fa, ok := ld.X.(*ssa.FieldAddr)
		if !ok {
			return v
		}
		al, ok := fa.X.(*ssa.Alloc)
		if !ok {
			return v
		}
		var st *ssa.Store
		n := 0
		for _, ref := range *al.Referrers() {
			fa2, ok := ref.(*ssa.FieldAddr)
			if !ok || fa2.Field != fa.Field {
				continue
			}
			for _, r2 := range *fa2.Referrers() {
				if s, ok := r2.(*ssa.Store); ok && s.Addr == ssa.Value(fa2) {
					st = s
					n++
				}
			}
		}
		if n != 1 || !(st.Block() == ld.Block() && instrIndex(st) < instrIndex(ld) || st.Block() != ld.Block() && st.Block().Dominates(ld.Block())) {
			return v
		}
		v = st.Val
	}
	return v
}

// sitesRunning: the calls in fn that run the named in-package function - a
// direct call of it, or a call of a helper every successful return of which
// is dominated by such a call (to the given depth).
func (c *Ctx) sitesRunning(fn *ssa.Function, callee string, depth int) []*ssa.Call {
	var out []*ssa.Call
	for _, b := range fn.Blocks {
		for _, ins := range b.Instrs {
			call, ok := ins.(*ssa.Call)
			if !ok {
				continue
			}
			sc := call.Call.StaticCallee()
			if sc == nil || !c.inRoot(sc) {
				continue
			}
			if fnName(sc) == callee {
				out = append(out, call)
				continue
			}
			if depth <= 0 || sc.Blocks == nil || sc == fn {
				continue
			}
			inner := c.sitesRunning(sc, callee, depth-1)
			if len(inner) == 0 {
				continue
			}
			all := true
			for _, rb := range maySucceedReturns(sc) {
				dom := false
				for _, ic := range inner {
					if ic.Block() == rb || ic.Block().Dominates(rb) {
						dom = true
					}
				}
				if !dom {
					all = false
				}
			}
			if all && len(maySucceedReturns(sc)) > 0 {
				out = append(out, call)
			}
		}
	}
	return out
}

// maySucceedReturns: the returning blocks of fn whose error result (if any)
// is not known to be non-nil there.
func maySucceedReturns(fn *ssa.Function) []*ssa.BasicBlock {
	var out []*ssa.BasicBlock
	for _, b := range fn.Blocks {
		ret, ok := b.Instrs[len(b.Instrs)-1].(*ssa.Return)
		if !ok || b == fn.Recover {
			continue
		}
		if n := len(ret.Results); n > 0 && isErrorType(ret.Results[n-1].Type()) {
			ev := resolveLoad(ret.Results[n-1])
			if !isNilConst(ev) && (knownNonNilAt(ev, b) || nonNilErrorValue(ev)) {
				continue
			}
		}
		out = append(out, b)
	}
	return out
}
