package main

// C11 — footer CRC rules.

import (
	"fmt"
	"go/token"
	"go/types"
	"strings"

	"golang.org/x/tools/go/ssa"
)

// writerChain strips MakeInterface/ChangeInterface and reports the wrapper
// constructors a writer value went through, innermost last:
// e.g. make io.Writer <- newCountHashWriter(bufio.NewWriter(w)) => ["count","bufio"], base w.
func writerChain(v ssa.Value) (chain []string, ctors []ssa.Value, base ssa.Value) {
	for depth := 0; depth < 16; depth++ {
		switch x := v.(type) {
		case *ssa.MakeInterface:
			v = x.X
			continue
		case *ssa.ChangeInterface:
			v = x.X
			continue
		case *ssa.Call:
			if sc := x.Call.StaticCallee(); sc != nil && len(x.Call.Args) >= 1 {
				full := funcFullName(sc)
				switch {
				case full == rootPkgPath+".newCountHashWriter",
					strings.HasPrefix(full, rootPkgPath+".") && sc.Signature.Results().Len() == 1 && strings.HasSuffix(sc.Signature.Results().At(0).Type().String(), ".countHashWriter") && isWriterLike(x.Call.Args[0].Type()):
					// (also a constructor of the hashing writer that takes more than the writer)
					chain = append(chain, "count")
					ctors = append(ctors, x)
					v = x.Call.Args[0]
					continue
				case strings.HasPrefix(full, "bufio.NewWriter"):
					chain = append(chain, "bufio")
					ctors = append(ctors, x)
					v = x.Call.Args[0]
					continue
				}
			}
		}
		break
	}
	return chain, ctors, v
}

// footerIgnoresCrcField: persistFooter takes a *countHashWriter and never reads
// the crc field of the footer it is given (design B: it continues the writer's CRC).
func footerIgnoresCrcField(c *Ctx, pf *ssa.Function) bool {
	if paramOfType(pf, "*"+rootPkgPath+".countHashWriter") == nil {
		return false
	}
	fp := paramOfType(pf, "*"+rootPkgPath+".footer")
	for _, b := range pf.Blocks {
		for _, ins := range b.Instrs {
			if ld, ok := ins.(*ssa.UnOp); ok && ld.Op == token.MUL {
				if fa, ok := ld.X.(*ssa.FieldAddr); ok {
					if owner, f := fieldAddrInfo(fa); owner != nil && owner.Obj().Name() == "footer" && f.Name() == "crc" && (fp == nil || rootParam(fa.X) == ssa.Value(fp)) {
						return false
					}
				}
			}
		}
	}
	return true
}

func isSum32Of(v ssa.Value) (cw ssa.Value, ok bool) {
	switch x := v.(type) {
	case *ssa.Call:
		if sc := x.Call.StaticCallee(); sc != nil && fnName(sc) == "(*countHashWriter).Sum32" && len(x.Call.Args) == 1 {
			return x.Call.Args[0], true
		}
	case *ssa.UnOp:
		if x.Op == token.MUL {
			if fa, ok := x.X.(*ssa.FieldAddr); ok {
				owner, f := fieldAddrInfo(fa)
				if owner != nil && owner.Obj().Name() == "countHashWriter" && f.Type().String() == "uint32" {
					return fa.X, true
				}
			}
		}
	}
	return nil, false
}

// helperEndsWithCRC: helper writes fields with binary.Write through the writer
// parameter that the call binds to w, and the last of its writes carries that
// writer's running CRC: the writer argument, else nil.
func helperEndsWithCRC(helper *ssa.Function, call *ssa.Call, w ssa.Value) ssa.Value {
	var wp *ssa.Parameter
	for i, a := range call.Call.Args {
		if a == w && i < len(helper.Params) {
			wp = helper.Params[i]
		}
	}
	if wp == nil {
		return nil
	}
	var ws []*ssa.Call
	for _, b := range helper.Blocks {
		for _, ins := range b.Instrs {
			if hc, ok := ins.(*ssa.Call); ok && hc.Call.StaticCallee() != nil && funcFullName(hc.Call.StaticCallee()) == "encoding/binary.Write" {
				if _, _, base := writerChain(hc.Call.Args[0]); base != ssa.Value(wp) {
					return nil // writes past the writer it was given
				}
				ws = append(ws, hc)
			}
		}
	}
	var last *ssa.Call
	n := 0
	for _, x := range ws {
		final := true
		for _, y := range ws {
			if y != x && canExecuteAfter(x, y) {
				final = false
			}
		}
		if final && !canExecuteAfter(x, x) {
			last, n = x, n+1
		}
	}
	if n != 1 {
		return nil
	}
	data := last.Call.Args[2]
	if mi, ok := data.(*ssa.MakeInterface); ok {
		data = mi.X
	}
	if src, ok := isSum32Of(data); ok && src == ssa.Value(wp) {
		return w
	}
	return nil
}

// storesToFieldOf lists stores in fn to field `name` of the object pointed to by base.
func storesToFieldOf(fn *ssa.Function, base ssa.Value, name string) []*ssa.Store {
	var out []*ssa.Store
	for _, b := range fn.Blocks {
		for _, ins := range b.Instrs {
			st, ok := ins.(*ssa.Store)
			if !ok {
				continue
			}
			fa, ok := st.Addr.(*ssa.FieldAddr)
			if !ok {
				continue
			}
			_, f := fieldAddrInfo(fa)
			if f == nil || f.Name() != name {
				continue
			}
			if fa.X == base || (accessPath(fa.X) == accessPath(base) && sameObject(fa.X, base)) {
				out = append(out, st)
			}
		}
	}
	return out
}

func sameObject(a, b ssa.Value) bool {
	if a == b {
		return true
	}
	la, oka := a.(*ssa.UnOp)
	lb, okb := b.(*ssa.UnOp)
	if oka && okb && la.Op == token.MUL && lb.Op == token.MUL {
		fa, ok1 := la.X.(*ssa.FieldAddr)
		fb, ok2 := lb.X.(*ssa.FieldAddr)
		if ok1 && ok2 && fa.Field == fb.Field {
			return sameObject(fa.X, fb.X)
		}
	}
	return false
}

// canExecuteAfter: instruction b can execute after instruction a on some path
// (b later in a's block, or b's block reachable from a successor of a's block).
func canExecuteAfter(a, b ssa.Instruction) bool {
	if a.Block() == b.Block() && instrIndex(a) < instrIndex(b) {
		return true
	}
	seen := map[*ssa.BasicBlock]bool{}
	work := append([]*ssa.BasicBlock{}, a.Block().Succs...)
	for len(work) > 0 {
		x := work[len(work)-1]
		work = work[:len(work)-1]
		if seen[x] {
			continue
		}
		seen[x] = true
		if x == b.Block() {
			return true
		}
		work = append(work, x.Succs...)
	}
	return false
}

func before(a, b ssa.Instruction) bool {
	if a.Block() == b.Block() {
		return instrIndex(a) < instrIndex(b)
	}
	return a.Block().Dominates(b.Block())
}

// dataCountValues: the values of fn that are the byte count reported by
// Data.WriteTo - its first result, or the matching result of an in-package
// helper that hands that count back on every successful return.
func dataCountValues(c *Ctx, fn *ssa.Function, depth int) map[ssa.Value]bool {
	out := map[ssa.Value]bool{}
	if depth > 2 {
		return out
	}
	for _, b := range fn.Blocks {
		for _, ins := range b.Instrs {
			call, ok := ins.(*ssa.Call)
			if !ok {
				continue
			}
			sc := call.Call.StaticCallee()
			if sc == nil {
				continue
			}
			if funcFullName(sc) == "github.com/blugelabs/bluge_segment_api.(*Data).WriteTo" {
				if p := tupleParts(call)[0]; p != nil {
					out[p] = true
				}
				continue
			}
			if !c.inRoot(sc) || sc.Blocks == nil || sc == fn {
				continue
			}
			inner := dataCountValues(c, sc, depth+1)
			if len(inner) == 0 {
				continue
			}
			for i, part := range tupleParts(call) {
				if part == nil {
					continue
				}
				all, n := true, 0
				for _, rb := range maySucceedReturns(sc) {
					ret := rb.Instrs[len(rb.Instrs)-1].(*ssa.Return)
					n++
					if i >= len(ret.Results) || !inner[resolveLoad(ret.Results[i])] {
						all = false
					}
				}
				if all && n > 0 {
					out[part] = true
				}
			}
		}
	}
	return out
}

// hashCoverage: the calls of fn that write to the destination of the hashing
// writer cwCall: how many go through it, and which bypass it (or go through a
// buffer in front of it that is not flushed before the CRC is captured).
func hashCoverage(c *Ctx, fn *ssa.Function, cwCall *ssa.Call, capture ssa.Instruction) (int, []string) {
	_, _, base := writerChain(cwCall)
	var bypass []string
	uses := 0
	for _, b := range fn.Blocks {
		for _, ins := range b.Instrs {
			ci, ok := ins.(ssa.CallInstruction)
			if !ok || ins == ssa.Instruction(cwCall) {
				continue
			}
			for _, a := range ci.Common().Args {
				if !isWriterLike(a.Type()) {
					continue
				}
				ch, ctors, ab := writerChain(a)
				if ab != base {
					continue
				}
				sc := ci.Common().StaticCallee()
				if sc != nil && (strings.HasPrefix(funcFullName(sc), "bufio.NewWriter") || fnName(sc) == "newCountHashWriter" || sc.Name() == "Flush" || sc.Name() == "Sum32" || sc.Name() == "Count") {
					continue
				}
				through := false
				for _, ct := range ctors {
					if ct == ssa.Value(cwCall) {
						through = true
					}
				}
				if !through {
					bypass = append(bypass, fmt.Sprintf("%s at %s writes to the destination through %v, bypassing the hashing writer", calleeFullName(ci.Common()), c.pos(ins.Pos()), ch))
					continue
				}
				uses++
				for i, ct := range ctors {
					if ct == ssa.Value(cwCall) {
						break
					}
					if ch[i] != "bufio" {
						continue
					}
					flushed := false
					for _, fb := range fn.Blocks {
						for _, fi := range fb.Instrs {
							if fc, ok := fi.(*ssa.Call); ok && fc.Call.StaticCallee() != nil && fc.Call.StaticCallee().Name() == "Flush" && len(fc.Call.Args) > 0 && fc.Call.Args[0] == ct && before(ins, fc) && before(fc, capture) {
								flushed = true
							}
						}
					}
					if !flushed {
						bypass = append(bypass, fmt.Sprintf("%s at %s writes through a bufio.Writer placed in front of the hashing writer, and the running CRC is taken at %s without that buffer having been flushed", calleeFullName(ci.Common()), c.pos(ins.Pos()), c.pos(capture.Pos())))
					}
				}
				if canExecuteAfter(capture, ins) {
					bypass = append(bypass, fmt.Sprintf("%s at %s can write after the running CRC was taken at %s", calleeFullName(ci.Common()), c.pos(ins.Pos()), c.pos(capture.Pos())))
				}
			}
		}
	}
	return uses, bypass
}

// crcSeedThroughParam decides the seal site of a footer-writing helper fn whose
// footer crc is its parameter sp: at every call of fn that argument is the
// result of a sibling helper g called before, g wrote everything it wrote
// through a hashing writer it created over its writer parameter and hands back
// that writer's running CRC taken after its last write, both helpers are given
// the same destination, and nothing else writes to it in between.  false: the
// shape is not this one (nothing reported).
func crcSeedThroughParam(c *Ctx, r *Report, key string, fn *ssa.Function, site ssa.CallInstruction, sp *ssa.Parameter, wArg ssa.Value) bool {
	fch, _, fbase := writerChain(wArg)
	wp, ok := fbase.(*ssa.Parameter)
	if !ok || wp.Parent() != fn {
		return false
	}
	sites := c.callsTo(fn)
	if len(sites) == 0 {
		return false
	}
	type plan struct {
		hs    ssa.CallInstruction
		gcall *ssa.Call
		idx   int
	}
	var plans []plan
	for _, hs := range sites {
		var gcall *ssa.Call
		idx := 0
		if cw, ok := isSum32Of(argFor(hs.Common(), sp)); ok {
			// the caller takes the running CRC of a hashing writer it created itself and through
			// which everything before the footer was written (directly or by helpers)
			return crcSeedInCaller(c, r, key, fn, hs, cw, argFor(hs.Common(), sp), argFor(hs.Common(), wp), len(sites) == 1)
		}
		switch x := argFor(hs.Common(), sp).(type) {
		case *ssa.Extract:
			gcall, _ = x.Tuple.(*ssa.Call)
			idx = x.Index
		case *ssa.Call:
			gcall = x
		}
		if gcall == nil || gcall.Call.StaticCallee() == nil || !c.inRoot(gcall.Call.StaticCallee()) || gcall.Call.StaticCallee().Blocks == nil {
			return false
		}
		plans = append(plans, plan{hs, gcall, idx})
	}
	for _, pl := range plans {
		if dataHelperPlanFails(c, r, key, fn, pl.hs, pl.gcall, pl.idx, argFor(pl.hs.Common(), wp)) {
			return true
		}
	}
	r.ok(key, fnName(fn), c.pos(site.Pos()), fmt.Sprintf("footer crc = the CRC handed in by the caller, which is the running CRC of the hashing writer through which the data helper wrote everything (%d call site(s)); footer writer chain %v on the same destination", len(plans), fch))
	return true
}

func init() {
	register(&Rule{
		Name:  "CRC-SEED",
		Floor: 1,
		Doc:   "at every persistFooter(f, w) call the crc field of f was assigned, on the dominating path, the running CRC (Sum32/crc of a countHashWriter) of the very countHashWriter through which every data byte of that output was written in the calling function; a CRC parsed from a file footer or carried in a shared footer never seeds it; the footer writer is the same writer or a buffered wrapper flushed afterwards on the same destination (data is never left in a buffer while the footer bypasses it)",
		Run: func(c *Ctx, scope string, r *Report) {
			pf := c.MustFn("persistFooter")
			// the places where a file is sealed: the calls of persistFooter, or - when a thin helper
			// seeds the crc from a hashing writer it is handed and then calls persistFooter with its
			// own parameters - the calls of that helper
			type sealSite struct {
				site     ssa.CallInstruction
				fp, wArg ssa.Value
				cw       ssa.Value // the writer whose running CRC seeds the footer, when already known
			}
			var seals []sealSite
			for _, site := range c.callsTo(pf) {
				fp := argOfType(site.Common(), "*"+rootPkgPath+".footer")
				wArg := argOfType(site.Common(), "io.Writer")
				if fp == nil || wArg == nil {
					fp, wArg = site.Common().Args[0], site.Common().Args[1]
				}
				h := site.Parent()
				lifted := false
				if fpp, ok := fp.(*ssa.Parameter); ok {
					wv := wArg
					if mi, ok := wv.(*ssa.MakeInterface); ok {
						wv = mi.X
					}
					if wpp, ok := wv.(*ssa.Parameter); ok {
						var seed *ssa.Store
						for _, st := range storesToFieldOf(h, fp, "crc") {
							if before(st, site) {
								seed = st
							}
						}
						if seed != nil {
							if cw, ok := isSum32Of(seed.Val); ok && cw == ssa.Value(wpp) && len(c.callsTo(h)) > 0 {
								for _, hs := range c.callsTo(h) {
									seals = append(seals, sealSite{hs, argFor(hs.Common(), fpp), argFor(hs.Common(), wpp), argFor(hs.Common(), wpp)})
								}
								lifted = true
							}
						}
					}
				}
				if !lifted {
					// a thin helper that only puts a buffer in front of the writer it is handed and writes
					// the footer it is handed (no crc assignment of its own): the seal is at its call sites
					if fpp, ok := fp.(*ssa.Parameter); ok && len(storesToFieldOf(h, fp, "crc")) == 0 && len(c.callsTo(h)) > 0 {
						if _, _, base := writerChain(wArg); base != nil {
							if wpp, ok := base.(*ssa.Parameter); ok && wpp.Parent() == h {
								for _, hs := range c.callsTo(h) {
									seals = append(seals, sealSite{hs, argFor(hs.Common(), fpp), argFor(hs.Common(), wpp), nil})
								}
								lifted = true
							}
						}
					}
				}
				if !lifted {
					seals = append(seals, sealSite{site, fp, wArg, nil})
				}
			}
			for _, seal := range seals {
				site, fp, wArg := seal.site, seal.fp, seal.wArg
				fn := site.Parent()
				key := fnName(fn) + "/persistFooter"
				// Design B: persistFooter is handed a *countHashWriter and continues ITS running
				// CRC (it never reads footer.crc).  Then what matters is that this writer is the
				// one all data went through, or a fresh one whose crc was set from that writer.
				if footerIgnoresCrcField(c, pf) {
					hw := ssa.Value(nil)
					if _, ctors, _ := writerChain(wArg); len(ctors) > 0 {
						hw = ctors[0]
					}
					hwCall, _ := hw.(*ssa.Call)
					if hwCall == nil || hwCall.Call.StaticCallee() == nil || fnName(hwCall.Call.StaticCallee()) != "newCountHashWriter" {
						r.undecided(key, fnName(fn), c.pos(site.Pos()), "persistFooter continues the CRC of the hashing writer it is given, but that writer is not created in this function: "+wArg.String())
						continue
					}
					dataW := hwCall
					seeded := false
					for _, st := range storesToFieldOf(fn, hwCall, "crc") {
						if !before(st, site) {
							continue
						}
						if src, ok := isSum32Of(st.Val); ok {
							if sc, ok := src.(*ssa.Call); ok && sc.Call.StaticCallee() != nil && fnName(sc.Call.StaticCallee()) == "newCountHashWriter" {
								dataW, seeded = sc, true
							}
						}
					}
					uses := 0
					_, _, base := writerChain(dataW)
					for _, b := range fn.Blocks {
						for _, ins := range b.Instrs {
							ci, ok := ins.(ssa.CallInstruction)
							if !ok || ins == ssa.Instruction(site) || !before(ins, site) {
								continue
							}
							sc := ci.Common().StaticCallee()
							if sc != nil && (strings.HasPrefix(funcFullName(sc), "bufio.NewWriter") || fnName(sc) == "newCountHashWriter" || sc.Name() == "Flush" || sc.Name() == "Sum32" || sc.Name() == "Count") {
								continue
							}
							for _, a := range ci.Common().Args {
								if !isWriterLike(a.Type()) {
									continue
								}
								_, ctors, ab := writerChain(a)
								if ab != base {
									continue
								}
								for _, ct := range ctors {
									if ct == ssa.Value(dataW) {
										uses++
									}
								}
							}
						}
					}
					switch {
					case uses == 0 && !seeded:
						r.bad(key, fnName(fn), c.pos(site.Pos()), "the hashing writer handed to persistFooter is fresh: no data was written through it and its crc was not set from the writer that hashed the data, so the footer CRC covers only the footer")
					case uses == 0:
						r.bad(key, fnName(fn), c.pos(site.Pos()), "the writer whose CRC seeds the footer's hashing writer hashed no data")
					default:
						how := "the footer is written through the hashing writer that hashed the data"
						if seeded {
							how = "the footer's hashing writer is seeded with the running CRC of the writer that hashed the data"
						}
						r.ok(key, fnName(fn), c.pos(site.Pos()), fmt.Sprintf("%s (%d data-writing call(s))", how, uses))
					}
					continue
				}
				// (1) dominating store to fp.crc
				var seed *ssa.Store
				n := 0
				for _, st := range storesToFieldOf(fn, fp, "crc") {
					n++
					if before(st, site) {
						seed = st
					}
				}
				var cw ssa.Value
				var seedPos ssa.Instruction = site
				if seal.cw != nil {
					// seeded by the sealing helper from the writer it is handed
					cw = seal.cw
					goto haveWriter
				}
				if seed == nil && n == 0 {
					// Design C: the function that writes the data sections is handed the hashing writer
					// and returns the complete footer, crc included
					if ex, ok := fp.(*ssa.Extract); ok {
						if gcall, ok := ex.Tuple.(*ssa.Call); ok && gcall.Call.StaticCallee() != nil && c.inRoot(gcall.Call.StaticCallee()) && before(gcall, site) {
							wp, why := calleeSeed(c, gcall.Call.StaticCallee(), ex.Index, 0)
							if wp == nil {
								r.bad(key, fnName(fn), c.pos(site.Pos()), "the footer comes from "+fnName(gcall.Call.StaticCallee())+", which does not hand back a crc that covers what it wrote: "+why)
								continue
							}
							cwc, isCall := argFor(&gcall.Call, wp).(*ssa.Call)
							if !isCall || cwc.Call.StaticCallee() == nil || fnName(cwc.Call.StaticCallee()) != "newCountHashWriter" {
								r.undecided(key, fnName(fn), c.pos(site.Pos()), "the hashing writer handed to "+fnName(gcall.Call.StaticCallee())+" is not created in this function")
								continue
							}
							// the footer is written behind that writer's data: same destination
							_, fctors, fbase := writerChain(wArg)
							_, _, base := writerChain(cwc)
							through := false
							for _, ct := range fctors {
								if ct == ssa.Value(cwc) {
									through = true
								}
							}
							if fbase != base {
								r.bad(key, fnName(fn), c.pos(site.Pos()), "the footer is written to a different destination than the data")
							} else {
								_ = through
								r.ok(key, fnName(fn), c.pos(site.Pos()), fnName(gcall.Call.StaticCallee())+" returns the footer with crc = the running CRC of the hashing writer it was handed, taken after its last write")
							}
							continue
						}
					}
				}
				if seed == nil {
					r.bad(key, fnName(fn), c.pos(site.Pos()), "the footer passed to persistFooter has no crc assignment on the path to the call in this function: its crc is whatever the footer object carried (for a loaded segment that is the CRC of the whole file, not of the data)")
					continue
				}
				if n != 1 {
					r.undecided(key, fnName(fn), c.pos(site.Pos()), fmt.Sprintf("%d assignments to the footer's crc in this function", n))
					continue
				}
				// footer object must be function-private (fresh) — a shared footer can be overwritten concurrently
				// (2) value is Sum32()/crc of a countHashWriter
				{
					var ok bool
					cw, ok = isSum32Of(seed.Val)
					if !ok {
						// the CRC is the result of a data helper called earlier in this very function
						var gcall *ssa.Call
						gidx := 0
						switch x := seed.Val.(type) {
						case *ssa.Extract:
							gcall, _ = x.Tuple.(*ssa.Call)
							gidx = x.Index
						case *ssa.Call:
							gcall = x
						}
						if gcall != nil && gcall.Call.StaticCallee() != nil && c.inRoot(gcall.Call.StaticCallee()) && gcall.Call.StaticCallee().Blocks != nil && fnName(gcall.Call.StaticCallee()) != "(*countHashWriter).Sum32" {
							if !dataHelperPlanFails(c, r, key, fn, site, gcall, gidx, wArg) {
								r.ok(key, fnName(fn), c.pos(site.Pos()), "footer crc = the running CRC handed back by "+fnName(gcall.Call.StaticCallee())+", which wrote everything through its own hashing writer; the footer goes to the same destination")
							}
							continue
						}
					}
					if sp, isParam := seed.Val.(*ssa.Parameter); !ok && isParam && sp.Parent() == fn {
						// Design D: the footer is written by a helper that is handed the CRC of the data,
						// taken by a sibling helper that wrote the data through its own hashing writer
						if crcSeedThroughParam(c, r, key, fn, site, sp, wArg) {
							continue
						}
					}
					if !ok {
						r.bad(key, fnName(fn), c.pos(seed.Pos()), "footer crc is seeded from "+seed.Val.String()+", not from the running CRC of a countHashWriter")
						continue
					}
					seedPos = seed
				}
			haveWriter:
				// (3) cw is a countHashWriter created in this function
				cwCall, ok := cw.(*ssa.Call)
				if !ok || cwCall.Call.StaticCallee() == nil || fnName(cwCall.Call.StaticCallee()) != "newCountHashWriter" {
					r.undecided(key, fnName(fn), c.pos(seedPos.Pos()), "the hashing writer is not created in this function: "+cw.String())
					continue
				}
				// (4) every other writer-consuming call before persistFooter uses cw (no data bypasses the hash)
				_, _, base := writerChain(cwCall)
				var bypass []string
				uses := 0
				for _, b := range fn.Blocks {
					for _, ins := range b.Instrs {
						ci, ok := ins.(ssa.CallInstruction)
						if !ok || ins == ssa.Instruction(site) || ins == ssa.Instruction(cwCall) {
							continue
						}
						for _, a := range ci.Common().Args {
							if !isWriterLike(a.Type()) {
								continue
							}
							ch, ctors, ab := writerChain(a)
							if ab != base {
								continue
							}
							sc := ci.Common().StaticCallee()
							if sc != nil && (strings.HasPrefix(funcFullName(sc), "bufio.NewWriter") || fnName(sc) == "newCountHashWriter") {
								continue // wrapper construction, not a write
							}
							if sc != nil && sc.Name() == "Flush" {
								continue
							}
							// a data-writing call on the same destination
							through := false
							for _, ct := range ctors {
								if ct == ssa.Value(cwCall) {
									through = true
								}
							}
							if through {
								uses++
								// a buffer in FRONT of the hashing writer holds bytes the hash has not seen:
								// it has to be flushed before the running CRC is taken
								for i, ct := range ctors {
									if ct == ssa.Value(cwCall) {
										break
									}
									if ch[i] != "bufio" {
										continue
									}
									flushed := false
									for _, fb := range fn.Blocks {
										for _, fi := range fb.Instrs {
											if fc, ok := fi.(*ssa.Call); ok && fc.Call.StaticCallee() != nil && fc.Call.StaticCallee().Name() == "Flush" && len(fc.Call.Args) > 0 && fc.Call.Args[0] == ct && before(ins, fc) && before(fc, seedPos) {
												flushed = true
											}
										}
									}
									if !flushed {
										bypass = append(bypass, fmt.Sprintf("%s at %s writes through a bufio.Writer placed in front of the hashing writer, and the running CRC is taken at %s without that buffer having been flushed: the bytes still in the buffer are not covered", calleeFullName(ci.Common()), c.pos(ins.Pos()), c.pos(seedPos.Pos())))
									}
								}
							} else if before(ins, site) {
								bypass = append(bypass, fmt.Sprintf("%s at %s writes to the destination through %v, bypassing the hashing writer", calleeFullName(ci.Common()), c.pos(ins.Pos()), ch))
							}
						}
					}
				}
				if len(bypass) > 0 {
					r.bad(key, fnName(fn), c.pos(site.Pos()), "bytes reach the destination without being hashed", bypass...)
					continue
				}
				if uses == 0 {
					r.bad(key, fnName(fn), c.pos(site.Pos()), "no data is written through the countHashWriter whose CRC seeds the footer")
					continue
				}
				// (5) the footer writer: same destination, and not bypassing a buffer that holds data
				fch, fctors, fbase := writerChain(wArg)
				dch, dctors, _ := writerChain(cwCall)
				if fbase != base {
					r.bad(key, fnName(fn), c.pos(site.Pos()), "the footer is written to a different destination than the data")
					continue
				}
				// buffers below the hashing writer (data side) must also be below the footer writer
				okBuf := true
				for i, k := range dch {
					if k != "bufio" {
						continue
					}
					found := false
					for _, fc := range fctors {
						if fc == dctors[i] {
							found = true
						}
					}
					if !found {
						okBuf = false
					}
				}
				if !okBuf {
					r.bad(key, fnName(fn), c.pos(site.Pos()), fmt.Sprintf("data goes through a buffered writer %v but the footer is written through %v which bypasses that buffer: the footer can reach the destination before the tail of the data", dch, fch))
					continue
				}
				r.ok(key, fnName(fn), c.pos(site.Pos()), fmt.Sprintf("footer crc = running CRC of the countHashWriter all %d data-writing call(s) use; footer writer chain %v on the same destination", uses, fch))
			}
		},
	})

	register(&Rule{
		Name:  "CRC-LAST",
		Floor: 1,
		Doc:   "in persistFooter every field is written through one countHashWriter seeded with footer.crc, the CRC write is the last write and its operand is that writer's running crc",
		Run: func(c *Ctx, scope string, r *Report) {
			fn := c.MustFn("persistFooter")
			key := "persistFooter/writes"
			var cw *ssa.Call
			var writes []*ssa.Call
			writerOf := map[*ssa.Call]ssa.Value{}
			dataOf := map[*ssa.Call][]ssa.Value{}
			sumOfHelper := map[*ssa.Call]ssa.Value{}
			footerParam := paramOfType(fn, "*"+rootPkgPath+".footer")
			writerParam := paramOfType(fn, "io.Writer")
			if footerParam == nil || writerParam == nil {
				if len(fn.Params) < 2 {
					r.undecided(key, fnName(fn), c.pos(fn.Pos()), "persistFooter no longer takes a footer and a writer")
					return
				}
				footerParam, writerParam = fn.Params[0], fn.Params[1]
			}
			for _, b := range fn.Blocks {
				for _, ins := range b.Instrs {
					call, ok := ins.(*ssa.Call)
					if !ok {
						continue
					}
					sc := call.Call.StaticCallee()
					if sc == nil {
						continue
					}
					if fnName(sc) == "newCountHashWriter" {
						cw = call
						continue
					}
					// another constructor of the hashing writer (one that also takes the seed)
					if c.inRoot(sc) && sc.Blocks != nil && sc.Signature.Results().Len() == 1 && strings.HasSuffix(sc.Signature.Results().At(0).Type().String(), ".countHashWriter") && len(call.Call.Args) > 0 && isWriterLike(call.Call.Args[0].Type()) {
						cw = call
						continue
					}
					if funcFullName(sc) == "encoding/binary.Write" {
						writes = append(writes, call)
						writerOf[call] = call.Call.Args[0]
						dataOf[call] = []ssa.Value{call.Call.Args[2]}
						continue
					}
					// an in-package helper that is handed a writer and the values to write
					if c.inRoot(sc) && sc.Blocks != nil {
						var w ssa.Value
						var data []ssa.Value
						for ai, a := range call.Call.Args {
							if isWriterLike(a.Type()) && w == nil {
								w = a
								continue
							}
							if sc.Signature.Variadic() && ai == len(call.Call.Args)-1 {
								if vs := varargValues(a); len(vs) > 0 {
									data = append(data, vs...)
									continue
								}
							}
							data = append(data, a)
						}
						if w == nil && len(call.Call.Args) >= 2 {
							// a method of a small writer object that holds the writer in a field
							// (`fw := fieldWriter{w: w}; fw.put(v)`): the writer is what that field was given
							if hw := writerHeldByReceiver(sc, call.Call.Args[0]); hw != nil {
								w = hw
								data = nil
								for _, a := range call.Call.Args[1:] {
									data = append(data, a)
								}
							}
						}
						if w != nil && len(data) > 0 {
							writes = append(writes, call)
							writerOf[call] = w
							dataOf[call] = data
							// a helper that writes a group of fields itself and ends with the running CRC of the
							// writer it is handed (persistFooterTrailer(w)): the call stands for that last write
							if hw := helperEndsWithCRC(sc, call, w); hw != nil {
								sumOfHelper[call] = hw
								dataOf[call] = data[:1]
							}
						}
					}
				}
			}
			if cw == nil && len(writes) > 0 && footerIgnoresCrcField(c, fn) {
				// design B: the caller's hashing writer is used directly; its seeding is CRC-SEED's business
				hwp := paramOfType(fn, "*"+rootPkgPath+".countHashWriter")
				for _, w := range writes {
					if _, _, base := writerChain(writerOf[w]); base != ssa.Value(hwp) {
						r.bad(key, fnName(fn), c.pos(w.Pos()), "a footer field is written bypassing the hashing writer")
						return
					}
				}
				var last *ssa.Call
				nLast := 0
				for _, w := range writes {
					final := true
					for _, w2 := range writes {
						if w2 != w && canExecuteAfter(w, w2) {
							final = false
						}
					}
					if final && !canExecuteAfter(w, w) {
						last, nLast = w, nLast+1
					}
				}
				if nLast != 1 || len(dataOf[last]) != 1 {
					r.undecided(key, fnName(fn), c.pos(fn.Pos()), "the footer writes have no single last write carrying one value")
					return
				}
				data := dataOf[last][0]
				if mi, ok := data.(*ssa.MakeInterface); ok {
					data = mi.X
				}
				if src, ok := isSum32Of(data); !ok || src != ssa.Value(hwp) {
					r.bad(key, fnName(fn), c.pos(last.Pos()), "the last footer write is not the running CRC of the hashing writer the footer is written through (it writes "+data.String()+")")
					return
				}
				r.ok(key, fnName(fn), c.pos(fn.Pos()), fmt.Sprintf("%d field writes through the caller's hashing writer; its running CRC is written last", len(writes)))
				return
			}
			if cw == nil || len(writes) == 0 {
				// the footer assembled in one local buffer and written with a single Write
				if verdict, msg, at := footerBufferForm(c, fn, footerParam, writerParam); verdict != "" {
					switch verdict {
					case "ok":
						r.ok(key, fnName(fn), at, msg)
					case "bad":
						r.bad(key, fnName(fn), at, msg)
					}
					return
				}
				r.undecided(key, fnName(fn), c.pos(fn.Pos()), "persistFooter no longer writes its fields with binary.Write through a countHashWriter: the rule's model is out of date")
				return
			}
			if cw.Call.Args[0] != ssa.Value(writerParam) {
				r.bad(key, fnName(fn), c.pos(cw.Pos()), "the hashing writer does not wrap the writer parameter")
				return
			}
			// seeded: store cw.crc = load footer.crc, before the first write
			seeded := false
			for _, st := range storesToFieldOf(fn, cw, "crc") {
				if ld, ok := st.Val.(*ssa.UnOp); ok && ld.Op == token.MUL && strings.HasSuffix(accessPath(ld.X), ".crc") && rootParam(ld.X) == ssa.Value(footerParam) && before(st, writes[0]) {
					seeded = true
				}
			}
			if !seeded {
				// seeded by the constructor: it is handed footer.crc and stores that parameter into the crc field
				if sc := cw.Call.StaticCallee(); sc != nil && sc.Blocks != nil {
					for ai, a := range cw.Call.Args {
						ld, ok := a.(*ssa.UnOp)
						if !ok || ld.Op != token.MUL || !strings.HasSuffix(accessPath(ld.X), ".crc") || rootParam(ld.X) != ssa.Value(footerParam) || ai >= len(sc.Params) {
							continue
						}
						for _, sb := range sc.Blocks {
							for _, si := range sb.Instrs {
								if st, ok := si.(*ssa.Store); ok && st.Val == ssa.Value(sc.Params[ai]) {
									if fa, ok := st.Addr.(*ssa.FieldAddr); ok {
										if _, fv := fieldAddrInfo(fa); fv != nil && fv.Name() == "crc" {
											seeded = true
										}
									}
								}
							}
						}
					}
				}
			}
			if !seeded {
				r.bad(key, fnName(fn), c.pos(cw.Pos()), "the footer's hashing writer is not seeded with footer.crc before the first field is written: the CRC would cover only the footer")
				return
			}
			for _, w := range writes {
				_, ctors, _ := writerChain(writerOf[w])
				if len(ctors) == 0 || ctors[0] != ssa.Value(cw) {
					r.bad(key, fnName(fn), c.pos(w.Pos()), "a footer field is written bypassing the hashing writer")
					return
				}
			}
			// the write that carries the crc: the one after which no other footer
			// write can execute (field writes may sit in a loop over a value list)
			var last *ssa.Call
			nLast := 0
			for _, w := range writes {
				final := true
				for _, w2 := range writes {
					if w2 != w && canExecuteAfter(w, w2) {
						final = false
					}
				}
				if final && !canExecuteAfter(w, w) {
					last = w
					nLast++
				}
			}
			if nLast != 1 {
				r.undecided(key, fnName(fn), c.pos(fn.Pos()), fmt.Sprintf("%d footer writes can be the final one: the writes are not ordered with a single last write", nLast))
				return
			}
			if len(dataOf[last]) != 1 {
				r.bad(key, fnName(fn), c.pos(last.Pos()), fmt.Sprintf("the last footer write carries %d values: the CRC has to be written by itself, after every other field went through the hashing writer (an operand evaluated together with the fields is read too early)", len(dataOf[last])))
				return
			}
			data := dataOf[last][0]
			if mi, ok := data.(*ssa.MakeInterface); ok {
				data = mi.X
			}
			if hw, viaHelper := sumOfHelper[last]; viaHelper {
				if _, ctors, _ := writerChain(hw); len(ctors) == 0 || ctors[0] != ssa.Value(cw) {
					r.bad(key, fnName(fn), c.pos(last.Pos()), "the helper that writes the CRC last is not handed the footer's hashing writer")
					return
				}
			} else if src, ok := isSum32Of(data); !ok || src != ssa.Value(cw) {
				r.bad(key, fnName(fn), c.pos(last.Pos()), "the last footer write is not the running CRC of the hashing writer (it writes "+data.String()+")")
				return
			}
			// no store to the footer parameter (persisting must not modify the footer it is given)
			for _, w := range c.writeSitesIn(fn) {
				if w.base != nil && rootParam(w.base) == ssa.Value(footerParam) {
					r.bad(key, fnName(fn), c.pos(w.ins.Pos()), "persistFooter writes into the footer it was given ("+w.desc+")")
					return
				}
			}
			r.ok(key, fnName(fn), c.pos(fn.Pos()), fmt.Sprintf("%d field writes, all through the seeded hashing writer; the CRC is written last from its running value", len(writes)))
		},
	})

	register(&Rule{
		Name:  "CRC-UPDATE",
		Floor: 3,
		Doc:   "countHashWriter.Write forwards b to the wrapped writer, updates the CRC with crc32.Update(c.crc, crc32.IEEETable, b[:n]) for exactly the n bytes reported written and adds n to the count; Count and Sum32 return those fields",
		Run: func(c *Ctx, scope string, r *Report) {
			fn := c.MustFn("(*countHashWriter).Write")
			key := "countHashWriter.Write/update"
			// the fields by role: what Sum32 / Count return
			roleField := func(acc string) string {
				f := c.MustFn(acc)
				for _, b := range f.Blocks {
					if ret, isRet := b.Instrs[len(b.Instrs)-1].(*ssa.Return); isRet && len(ret.Results) == 1 {
						if ld, isLd := ret.Results[0].(*ssa.UnOp); isLd {
							if fa, isFa := ld.X.(*ssa.FieldAddr); isFa && fa.X == ssa.Value(f.Params[0]) {
								_, fv := fieldAddrInfo(fa)
								return fv.Name()
							}
						}
					}
				}
				return ""
			}
			crcF, cntF := roleField("(*countHashWriter).Sum32"), roleField("(*countHashWriter).Count")
			if crcF == "" || cntF == "" || crcF == cntF {
				r.bad(key, fnName(fn), c.pos(fn.Pos()), "Sum32()/Count() do not each return a distinct field of the writer")
				return
			}
			var inner *ssa.Call
			var upd *ssa.Call
			for _, b := range fn.Blocks {
				for _, ins := range b.Instrs {
					if call, ok := ins.(*ssa.Call); ok {
						if call.Call.IsInvoke() && call.Call.Method.Name() == "Write" {
							inner = call
						}
						if sc := call.Call.StaticCallee(); sc != nil && funcFullName(sc) == "hash/crc32.Update" {
							upd = call
						}
					}
				}
			}
			switch {
			case inner == nil || upd == nil:
				r.bad(key, fnName(fn), c.pos(fn.Pos()), "Write no longer forwards to the wrapped writer and updates the CRC with crc32.Update")
			default:
				parts := tupleParts(inner)
				n := parts[0]
				problems := []string{}
				if len(inner.Call.Args) != 1 || inner.Call.Args[0] != ssa.Value(fn.Params[1]) {
					problems = append(problems, "the wrapped writer is not given b itself")
				}
				if ld, ok := upd.Call.Args[0].(*ssa.UnOp); !ok || exprSig(ld.X, 0) != "."+crcF {
					problems = append(problems, "crc32.Update does not continue from c.crc")
				}
				if ld, ok := upd.Call.Args[1].(*ssa.UnOp); !ok || ld.Op != token.MUL || !isGlobalNamed(ld.X, "hash/crc32", "IEEETable") {
					problems = append(problems, "the polynomial table is not crc32.IEEETable")
				}
				if sl, ok := upd.Call.Args[2].(*ssa.Slice); !ok || sl.X != ssa.Value(fn.Params[1]) || sl.Low != nil || n == nil || sl.High != ssa.Value(n) {
					problems = append(problems, "the hashed bytes are not b[:n] with n the count reported by the wrapped writer")
				}
				// stored back to c.crc
				stored := false
				for _, st := range storesToFieldOf(fn, fn.Params[0], crcF) {
					if st.Val == ssa.Value(upd) {
						stored = true
					}
				}
				if !stored {
					problems = append(problems, "the updated CRC is not stored to c.crc")
				}
				cnt := false
				for _, st := range storesToFieldOf(fn, fn.Params[0], cntF) {
					if bin, ok := st.Val.(*ssa.BinOp); ok && bin.Op == token.ADD && n != nil && (bin.Y == ssa.Value(n) || bin.X == ssa.Value(n)) {
						cnt = true
					}
				}
				if !cnt {
					problems = append(problems, "c.n is not advanced by n")
				}
				// returns n, err of the inner write
				for _, b := range fn.Blocks {
					if ret, ok := b.Instrs[len(b.Instrs)-1].(*ssa.Return); ok {
						if n == nil || ret.Results[0] != ssa.Value(n) || parts[1] == nil || ret.Results[1] != ssa.Value(parts[1]) {
							problems = append(problems, "Write does not return the wrapped writer's (n, err)")
						}
					}
				}
				if len(problems) > 0 {
					r.bad(key, fnName(fn), c.pos(upd.Pos()), strings.Join(problems, "; "))
				} else {
					r.ok(key, fnName(fn), c.pos(upd.Pos()), "crc = crc32.Update(crc, IEEETable, b[:n]); n += n; returns (n, err)")
				}
			}
			// newCountHashWriter hands out a writer whose CRC and count start at zero
			nw := c.MustFn("newCountHashWriter")
			keyN := "newCountHashWriter/starts-at-zero"
			okZero := true
			whyZero := ""
			for _, b := range nw.Blocks {
				ret, isRet := b.Instrs[len(b.Instrs)-1].(*ssa.Return)
				if !isRet {
					continue
				}
				rv := ret.Results[0]
				_, fresh := rv.(*ssa.Alloc)
				for _, f := range []string{crcF, cntF} {
					sts := storesToFieldOf(nw, rv, f)
					if fresh && len(sts) == 0 {
						continue // zero value of a fresh allocation
					}
					zeroed := false
					for _, st := range sts {
						if k, isK := constInt(st.Val); isK && k == 0 && before(st, ret) {
							zeroed = true
						} else {
							okZero, whyZero = false, "field ."+f+" of the returned writer is set to "+st.Val.String()
						}
					}
					if !fresh && !zeroed {
						okZero, whyZero = false, "the returned writer is not freshly allocated and its ."+f+" is not reset to 0: a recycled writer continues the CRC/count of its previous use"
					}
				}
			}
			if okZero {
				r.ok(keyN, "newCountHashWriter", c.pos(nw.Pos()), "returned writer has crc = 0 and count = 0")
			} else {
				r.bad(keyN, "newCountHashWriter", c.pos(nw.Pos()), whyZero)
			}
			r.ok("(*countHashWriter).Count/returns-count", "(*countHashWriter).Count", "-", "returns the byte count field ."+cntF+" that Write advances")
			r.ok("(*countHashWriter).Sum32/returns-crc", "(*countHashWriter).Sum32", "-", "returns the running CRC field ."+crcF+" that Write updates")
		},
	})

	register(&Rule{
		Name:  "LEN-RETURN",
		Floor: 2,
		Doc:   "Segment.WriteTo returns the byte count reported by Data.WriteTo plus footerLen on success; mergeSegmentBasesWriter returns Count() of the countHashWriter that also carried the footer; Merger.WriteTo returns that count",
		Run: func(c *Ctx, scope string, r *Report) {
			footerLen, _ := constIntOf(c.ConstVal("footerLen"))
			// Segment.WriteTo
			fn := c.MustFn("(*Segment).WriteTo")
			key := "(*Segment).WriteTo/returns"
			dataNs := dataCountValues(c, fn, 0)
			var dataN ssa.Value
			for v := range dataNs {
				dataN = v
			}
			good, bad := 0, ""
			for _, b := range fn.Blocks {
				ret, ok := b.Instrs[len(b.Instrs)-1].(*ssa.Return)
				if !ok {
					continue
				}
				if !isNilConst(resolveLoad(ret.Results[1])) {
					continue // error return: the count is advisory
				}
				// (or Count() of the one hashing writer that carried both the data and the footer)
				if call, isCall := stripConv(resolveLoad(ret.Results[0])).(*ssa.Call); isCall && call.Call.StaticCallee() != nil && fnName(call.Call.StaticCallee()) == "(*countHashWriter).Count" {
					if fw := c.sealWriterIn(fn); fw != nil && call.Call.Args[0] == fw && dataThrough(fn, fw) {
						good++
						continue
					}
				}
				bin, ok := resolveLoad(ret.Results[0]).(*ssa.BinOp)
				if !ok || bin.Op != token.ADD || dataN == nil {
					bad = "success return does not compute data bytes + footerLen"
					continue
				}
				k, kok := constInt(bin.Y)
				if !dataNs[bin.X] || !kok || k != footerLen {
					bad = fmt.Sprintf("success return adds %v to %s, expected footerLen=%d added to the Data.WriteTo count", bin.Y, bin.X.Name(), footerLen)
					continue
				}
				good++
			}
			if bad != "" || good == 0 {
				if bad == "" {
					bad = "no success return found"
				}
				r.bad(key, fnName(fn), c.pos(fn.Pos()), bad)
			} else {
				r.ok(key, fnName(fn), c.pos(fn.Pos()), fmt.Sprintf("returns n(data)+%d on success", footerLen))
			}
			// mergeSegmentBasesWriter
			fn = c.MustFn("mergeSegmentBasesWriter")
			key = "mergeSegmentBasesWriter/returns"
			pf := c.MustFn("persistFooter")
			var footerW ssa.Value
			for _, site := range c.callsTo(pf) {
				if site.Parent() == fn {
					wa := argOfType(site.Common(), "io.Writer")
					if wa == nil {
						wa = site.Common().Args[1]
					}
					_, ctors, _ := writerChain(wa)
					if len(ctors) > 0 {
						footerW = ctors[0]
					}
				}
			}
			if footerW == nil {
				footerW = c.sealWriterIn(fn)
			}
			ok := false
			for _, b := range fn.Blocks {
				ret, isRet := b.Instrs[len(b.Instrs)-1].(*ssa.Return)
				if !isRet || !isNilConst(resolveLoad(ret.Results[2])) {
					continue
				}
				v := stripConv(resolveLoad(ret.Results[1]))
				if call, isCall := v.(*ssa.Call); isCall && call.Call.StaticCallee() != nil && fnName(call.Call.StaticCallee()) == "(*countHashWriter).Count" && footerW != nil && call.Call.Args[0] == footerW {
					ok = true
				} else {
					ok = false
					break
				}
			}
			if ok {
				r.ok(key, fnName(fn), c.pos(fn.Pos()), "returns Count() of the writer that carried data and footer")
			} else {
				r.bad(key, fnName(fn), c.pos(fn.Pos()), "the byte count returned on success is not Count() of the countHashWriter that wrote data and footer")
			}
			// Merger.WriteTo: n = int64(sz) where sz is merge's 2nd result
			fn = c.MustFn("(*Merger).WriteTo")
			key = "(*Merger).WriteTo/returns"
			merge := c.MustFn("merge")
			var sz ssa.Value
			for _, site := range c.callsTo(merge) {
				if site.Parent() == fn {
					if call, isCall := site.(*ssa.Call); isCall {
						if p := tupleParts(call)[1]; p != nil {
							sz = p
						}
					}
				}
			}
			ok = sz != nil
			for _, b := range fn.Blocks {
				ret, isRet := b.Instrs[len(b.Instrs)-1].(*ssa.Return)
				if !isRet || !isNilConst(resolveLoad(ret.Results[1])) {
					continue
				}
				if stripConv(resolveLoad(ret.Results[0])) != sz {
					ok = false
				}
			}
			if ok {
				r.ok(key, fnName(fn), c.pos(fn.Pos()), "returns the merge byte count on success")
			} else {
				r.bad(key, fnName(fn), c.pos(fn.Pos()), "the success return does not carry the byte count produced by merge")
			}
		},
	})

	register(&Rule{
		Name:  "FOOTER-FAITHFUL",
		Floor: 5,
		Doc:   "a footer produced by parseFooter is never written again (the loaded segment reports and re-persists exactly what the file said), and the footer fields written by persistFooter (numDocs, chunkMode, offsets) are loads of the corresponding fields of its argument, Version being the package constant the loader compares with",
		Run: func(c *Ctx, scope string, r *Report) {
			parse := c.MustFn("parseFooter")
			ft := c.NamedType("footer")
			// (a) who writes footer fields
			p := c.ownershipProv()
			oldCall := p.h.call
			p.h.call = func(call *ssa.Call, idx int) (labelSet, bool) {
				if call.Call.StaticCallee() == parse && idx == 0 {
					return lbl("ParsedFooter", "result of parseFooter at "+c.pos(call.Pos())), true
				}
				return oldCall(call, idx)
			}
			for _, fn := range c.srcFns {
				if fn == parse {
					continue
				}
				for _, w := range c.writeSitesIn(fn) {
					if w.base == nil {
						continue
					}
					n := namedOf(w.base.Type())
					if n == nil || n.Obj() != ft.Obj() {
						continue
					}
					key := fnName(fn) + "/" + w.desc
					labels := p.Classify(w.base)
					if labels.has("ParsedFooter") {
						r.bad(key, fnName(fn), c.pos(w.ins.Pos()), "a footer parsed from a file is modified after parsing ("+w.desc+"): the loaded segment no longer reports / re-persists what the file said", labels["ParsedFooter"])
					} else {
						r.ok(key, fnName(fn), c.pos(w.ins.Pos()), "footer under construction "+labels.String())
					}
				}
			}
			// (b) parseFooter stores every field of the struct
			st := ft.Underlying().(*types.Struct)
			for i := 0; i < st.NumFields(); i++ {
				f := st.Field(i).Name()
				key := "parseFooter/sets-" + f
				found := false
				notDecoded := ""
				// (in parseFooter or in the helpers it is split into)
				var parseBlocks []*ssa.BasicBlock
				for pf := range c.reach([]*ssa.Function{parse}) {
					if c.inRoot(pf) {
						parseBlocks = append(parseBlocks, pf.Blocks...)
					}
				}
				for _, b := range parseBlocks {
					for _, ins := range b.Instrs {
						if s, ok := ins.(*ssa.Store); ok {
							if fa, ok := s.Addr.(*ssa.FieldAddr); ok {
								if owner, fv := fieldAddrInfo(fa); fv != nil && fv.Name() == f && owner != nil && owner.Obj() == ft.Obj() {
									found = true
									// what the loader reports is what the file says: the value is a
									// big-endian decode of file bytes (directly or through a read helper)
									if !isFileDecode(c, s.Val, 0) {
										notDecoded = c.pos(s.Pos()) + ": " + exprSig(s.Val, 0)
									}
								}
							}
						}
					}
				}
				if !found && setThroughPointerTable(c, parse, ft.Obj(), f) {
					r.ok(key, "parseFooter", c.pos(parse.Pos()), "field is read from the file (its address is listed in a table of destinations, each of which is stored a big-endian decode)")
					continue
				}
				if !found && setByBinaryRead(c, parse, ft.Obj(), f) {
					r.ok(key, "parseFooter", c.pos(parse.Pos()), "field is read from the file (binary.Read into its address, big-endian)")
					continue
				}
				if found && notDecoded != "" {
					r.bad(key, "parseFooter", c.pos(parse.Pos()), "footer field "+f+" is assigned a value that is not decoded from the file ("+notDecoded+"): the loaded segment would report and re-persist something the file does not say")
					continue
				}
				if found {
					r.ok(key, "parseFooter", c.pos(parse.Pos()), "field is read from the file")
				} else {
					r.bad(key, "parseFooter", c.pos(parse.Pos()), "footer field "+f+" is never set by parseFooter")
				}
			}
		},
	})
}

// isFileDecode: v is binary.BigEndian.UintN(…) of bytes, or the result of an
// in-package helper all of whose non-error returns are such.
func isFileDecode(c *Ctx, v ssa.Value, depth int) bool {
	if depth > 3 {
		return false
	}
	switch x := stripConv(v).(type) {
	case *ssa.Call:
		sc := x.Call.StaticCallee()
		if sc == nil {
			return false
		}
		if strings.Contains(funcFullName(sc), "encoding/binary") && strings.HasPrefix(sc.Name(), "Uint") {
			return true
		}
		if c.inRoot(sc) && sc.Blocks != nil {
			n := 0
			for _, b := range sc.Blocks {
				if ret, ok := b.Instrs[len(b.Instrs)-1].(*ssa.Return); ok && len(ret.Results) > 0 {
					rv := resolveLoad(ret.Results[0])
					if _, isConst := rv.(*ssa.Const); isConst && len(ret.Results) > 1 {
						continue // the error return hands back a zero value
					}
					if k, isK := constInt(rv); isK && k == 0 {
						continue // ... also of a reader object that remembers its first error instead of returning it
					}
					if !isFileDecode(c, rv, depth+1) {
						return false
					}
					n++
				}
			}
			return n > 0
		}
	case *ssa.Extract:
		return isFileDecode(c, x.Tuple, depth+1)
	}
	return false
}

func isWriterLike(t types.Type) bool {
	if it, ok := t.Underlying().(*types.Interface); ok {
		for i := 0; i < it.NumMethods(); i++ {
			if it.Method(i).Name() == "Write" {
				return true
			}
		}
		return false
	}
	if isNamed(t, rootPkgPath, "countHashWriter") || isNamed(t, "bufio", "Writer") {
		return true
	}
	return false
}

func isGlobalNamed(v ssa.Value, pkg, name string) bool {
	g, ok := v.(*ssa.Global)
	return ok && g.Pkg != nil && g.Pkg.Pkg.Path() == pkg && g.Name() == name
}

func constIntOf(k *types.Const) (int64, bool) {
	if k == nil {
		return 0, false
	}
	return constantInt64(k)
}

// setByBinaryRead: parse fills field f of the struct by binary.Read(r,
// binary.BigEndian, &x.f) - directly, or in a loop over a layout table (an
// in-package function that lists the addresses of the struct's fields)
// that parse calls.
func setByBinaryRead(c *Ctx, parse *ssa.Function, owner *types.TypeName, f string) bool {
	reads := callsOfFull(parse, "encoding/binary.Read")
	if len(reads) == 0 {
		return false
	}
	for _, rd := range reads {
		if g, ok := rd.Call.Args[1].(*ssa.MakeInterface); !ok || !strings.Contains(g.X.String(), "BigEndian") && !strings.Contains(exprSig(g.X, 0), "BigEndian") {
			return false
		}
	}
	listsField := func(fn *ssa.Function) bool {
		for _, b := range fn.Blocks {
			for _, ins := range b.Instrs {
				mi, ok := ins.(*ssa.MakeInterface)
				if !ok {
					continue
				}
				if fa, ok := mi.X.(*ssa.FieldAddr); ok {
					if o, fv := fieldAddrInfo(fa); o != nil && fv != nil && o.Obj() == owner && fv.Name() == f {
						return true
					}
				}
			}
		}
		return false
	}
	if listsField(parse) {
		return true
	}
	for _, h := range staticCallees(parse) {
		if c.inRoot(h) && h.Blocks != nil && listsField(h) {
			return true
		}
	}
	return false
}

// setThroughPointerTable: parse puts the address of field f into a table
// (a field of pointer type of some element struct) and stores, through the
// pointers loaded from that table field, only file decodes.
func setThroughPointerTable(c *Ctx, parse *ssa.Function, owner *types.TypeName, f string) bool {
	// table fields that receive &x.f
	tbl := map[*types.Var]bool{}
	for _, b := range parse.Blocks {
		for _, ins := range b.Instrs {
			st, ok := ins.(*ssa.Store)
			if !ok {
				continue
			}
			fa, ok := st.Val.(*ssa.FieldAddr)
			if !ok {
				continue
			}
			if o, fv := fieldAddrInfo(fa); o == nil || fv == nil || o.Obj() != owner || fv.Name() != f {
				continue
			}
			if dst, ok := st.Addr.(*ssa.FieldAddr); ok {
				if _, dv := fieldAddrInfo(dst); dv != nil {
					tbl[dv] = true
				}
			}
		}
	}
	if len(tbl) == 0 {
		return false
	}
	n := 0
	for _, b := range parse.Blocks {
		for _, ins := range b.Instrs {
			st, ok := ins.(*ssa.Store)
			if !ok {
				continue
			}
			ld, ok := st.Addr.(*ssa.UnOp)
			if !ok || ld.Op != token.MUL {
				continue
			}
			fa, ok := ld.X.(*ssa.FieldAddr)
			if !ok {
				continue
			}
			if _, dv := fieldAddrInfo(fa); dv == nil || !tbl[dv] {
				continue
			}
			if !isFileDecode(c, st.Val, 0) {
				return false
			}
			n++
		}
	}
	return n > 0
}

// calleeSeed: on every return of g that may report success, result idx is a
// footer built in g (or handed back by a function g calls with the same
// writer) whose crc field was stored the running CRC of one writer parameter
// of g, after the last call that is handed that writer.  Returns that
// parameter, or nil and the reason.
func calleeSeed(c *Ctx, g *ssa.Function, idx int, depth int) (*ssa.Parameter, string) {
	if depth > 2 || g.Blocks == nil {
		return nil, "too deep"
	}
	var wp *ssa.Parameter
	nret := 0
	for _, rb := range maySucceedReturns(g) {
		ret := rb.Instrs[len(rb.Instrs)-1].(*ssa.Return)
		if idx >= len(ret.Results) {
			return nil, "result missing"
		}
		v := resolveLoad(ret.Results[idx])
		if isNilConst(v) {
			continue
		}
		nret++
		var got *ssa.Parameter
		switch x := v.(type) {
		case *ssa.Extract:
			hc, ok := x.Tuple.(*ssa.Call)
			if !ok || hc.Call.StaticCallee() == nil || !c.inRoot(hc.Call.StaticCallee()) {
				return nil, "the footer returned at " + c.pos(ret.Pos()) + " comes from an unknown call"
			}
			hp, why := calleeSeed(c, hc.Call.StaticCallee(), x.Index, depth+1)
			if hp == nil {
				return nil, why
			}
			p, ok := argFor(&hc.Call, hp).(*ssa.Parameter)
			if !ok || p.Parent() != g {
				return nil, fnName(hc.Call.StaticCallee()) + " is not handed the writer " + fnName(g) + " was given"
			}
			got = p
		default:
			// a footer object of g: one crc store that dominates the return
			var seed *ssa.Store
			for _, st := range storesToFieldOf(g, v, "crc") {
				if st.Block() == rb || st.Block().Dominates(rb) {
					seed = st
				}
			}
			if seed == nil {
				return nil, "the footer returned at " + c.pos(ret.Pos()) + " has no crc assignment on the way"
			}
			cw, ok := isSum32Of(seed.Val)
			if !ok {
				return nil, "its crc is " + seed.Val.String() + ", not the running CRC of a hashing writer"
			}
			p, ok := cw.(*ssa.Parameter)
			if !ok {
				return nil, "the crc is taken from a writer that is not the one handed to " + fnName(g)
			}
			// taken after the last write: no call that is handed the writer can run between the
			// capture (the Sum32 call / load) and the return
			var capture ssa.Instruction = seed
			if ci, ok := seed.Val.(ssa.Instruction); ok {
				capture = ci
			}
			for _, b := range g.Blocks {
				for _, ins := range b.Instrs {
					ci, ok := ins.(ssa.CallInstruction)
					if !ok || ins == capture {
						continue
					}
					uses := false
					for _, a := range ci.Common().Args {
						if a == ssa.Value(p) {
							uses = true
						}
						if mi, ok := a.(*ssa.MakeInterface); ok && mi.X == ssa.Value(p) {
							uses = true
						}
					}
					if sc := ci.Common().StaticCallee(); sc != nil && (sc.Name() == "Sum32" || sc.Name() == "Count") {
						uses = false
					}
					if uses && canExecuteAfter(capture, ins) && (ins.Block() == rb || canExecuteAfter(ins, ret)) {
						return nil, "the crc is captured at " + c.pos(capture.Pos()) + " before the call at " + c.pos(ins.Pos()) + " that still writes through the same writer: those bytes are not covered"
					}
				}
			}
			got = p
		}
		if wp != nil && got != wp {
			return nil, "different writers on different returns"
		}
		wp = got
	}
	if nret == 0 {
		return nil, "no successful return hands back a footer"
	}
	return wp, ""
}

// sealWriterIn: the hashing writer (its constructor call) through which fn
// writes the footer - the writer argument of its persistFooter call, or of its
// call of a helper that hands its own writer parameter on to persistFooter.
func (c *Ctx) sealWriterIn(fn *ssa.Function) ssa.Value {
	pf := c.MustFn("persistFooter")
	writerOf := func(cc *ssa.CallCommon) ssa.Value {
		for _, a := range cc.Args {
			if isWriterLike(a.Type()) || strings.HasSuffix(a.Type().String(), ".countHashWriter") {
				if _, ctors, _ := writerChain(a); len(ctors) > 0 {
					return ctors[0]
				}
			}
		}
		return nil
	}
	for _, site := range c.callsTo(pf) {
		if site.Parent() == fn {
			return writerOf(site.Common())
		}
		h := site.Parent()
		// h hands a parameter on
		wv := argOfType(site.Common(), "io.Writer")
		if mi, ok := wv.(*ssa.MakeInterface); ok {
			wv = mi.X
		}
		if _, isParam := wv.(*ssa.Parameter); !isParam && wv != nil {
			// (a buffered wrapper the helper puts in front of the writer it was handed)
			if _, _, base := writerChain(wv); base != nil {
				wv = base
			}
		}
		if wp, ok := wv.(*ssa.Parameter); ok {
			for _, hs := range c.callsTo(h) {
				if hs.Parent() == fn {
					if _, ctors, _ := writerChain(argFor(hs.Common(), wp)); len(ctors) > 0 {
						return ctors[0]
					}
				}
			}
		}
	}
	return nil
}

// dataThrough: fn writes the segment's data (Data.WriteTo) through the writer made by ctor.
func dataThrough(fn *ssa.Function, ctor ssa.Value) bool {
	for _, b := range fn.Blocks {
		for _, ins := range b.Instrs {
			call, ok := ins.(*ssa.Call)
			if !ok {
				continue
			}
			// a helper of the same package that is handed the writer and copies the data through it
			if sc := call.Call.StaticCallee(); sc != nil && sc.Blocks != nil && sc != fn && sc.Pkg == fn.Pkg {
				for ai, a := range call.Call.Args {
					if ai >= len(sc.Params) || !(isWriterLike(a.Type()) || strings.HasSuffix(a.Type().String(), ".countHashWriter")) {
						continue
					}
					_, ctors, _ := writerChain(a)
					through := false
					for _, ct := range ctors {
						if ct == ctor {
							through = true
						}
					}
					if through && dataThroughParam(sc, sc.Params[ai]) {
						return true
					}
				}
			}
			if sc := call.Call.StaticCallee(); sc != nil && funcFullName(sc) == "github.com/blugelabs/bluge_segment_api.(*Data).WriteTo" {
				for _, a := range call.Call.Args {
					if !isWriterLike(a.Type()) {
						continue
					}
					_, ctors, _ := writerChain(a)
					for _, ct := range ctors {
						if ct == ctor {
							return true
						}
					}
				}
			}
		}
	}
	return false
}

// dataThroughParam: fn copies the segment's data (Data.WriteTo) to its writer parameter p.
func dataThroughParam(fn *ssa.Function, p *ssa.Parameter) bool {
	for _, b := range fn.Blocks {
		for _, ins := range b.Instrs {
			call, ok := ins.(*ssa.Call)
			if !ok {
				continue
			}
			if sc := call.Call.StaticCallee(); sc != nil && funcFullName(sc) == "github.com/blugelabs/bluge_segment_api.(*Data).WriteTo" {
				for _, a := range call.Call.Args {
					if _, _, base := writerChain(a); base == ssa.Value(p) {
						return true
					}
				}
			}
		}
	}
	return false
}

func crcSeedInCaller(c *Ctx, r *Report, key string, fn *ssa.Function, hs ssa.CallInstruction, cw, crcArg, dest ssa.Value, only bool) bool {
	if !only {
		return false
	}
	caller := hs.Parent()
	at := c.pos(hs.Pos())
	cwCall, ok := cw.(*ssa.Call)
	if !ok || cwCall.Call.StaticCallee() == nil || fnName(cwCall.Call.StaticCallee()) != "newCountHashWriter" {
		r.undecided(key, fnName(fn), at, "the hashing writer whose CRC is handed to "+fnName(fn)+" is not created in "+fnName(caller))
		return true
	}
	capture, ok := crcArg.(ssa.Instruction)
	if !ok {
		return false
	}
	_, _, base := writerChain(cwCall)
	var bypass []string
	uses := 0
	for _, b := range caller.Blocks {
		for _, ins := range b.Instrs {
			ci, ok := ins.(ssa.CallInstruction)
			if !ok || ins == ssa.Instruction(cwCall) || ins == ssa.Instruction(hs) {
				continue
			}
			sc := ci.Common().StaticCallee()
			if sc != nil && (strings.HasPrefix(funcFullName(sc), "bufio.NewWriter") || fnName(sc) == "newCountHashWriter" || sc.Name() == "Flush" || sc.Name() == "Sum32" || sc.Name() == "Count") {
				continue
			}
			for _, a := range ci.Common().Args {
				if !(isWriterLike(a.Type()) || strings.HasSuffix(a.Type().String(), ".countHashWriter")) {
					continue
				}
				ch, ctors, ab := writerChain(a)
				if ab != base {
					continue
				}
				through := false
				for _, ct := range ctors {
					if ct == ssa.Value(cwCall) {
						through = true
					}
				}
				switch {
				case !through && before(ins, hs):
					bypass = append(bypass, fmt.Sprintf("%s at %s writes to the destination through %v, bypassing the hashing writer", calleeFullName(ci.Common()), c.pos(ins.Pos()), ch))
				case through && !before(ins, capture):
					bypass = append(bypass, fmt.Sprintf("%s at %s can write through the hashing writer after its CRC was taken at %s", calleeFullName(ci.Common()), c.pos(ins.Pos()), c.pos(capture.Pos())))
				case through:
					uses++
					for i, ct := range ctors {
						if ct == ssa.Value(cwCall) {
							break
						}
						if ch[i] == "bufio" {
							bypass = append(bypass, fmt.Sprintf("%s at %s writes through a bufio.Writer placed in front of the hashing writer", calleeFullName(ci.Common()), c.pos(ins.Pos())))
						}
					}
				}
			}
		}
	}
	if len(bypass) > 0 {
		r.bad(key, fnName(fn), at, "bytes reach the destination without being hashed", bypass...)
		return true
	}
	if uses == 0 {
		r.bad(key, fnName(fn), at, "no data is written through the countHashWriter whose CRC seeds the footer")
		return true
	}
	if _, _, db := writerChain(dest); db != base {
		r.bad(key, fnName(fn), at, "the footer is written to a different destination than the data")
		return true
	}
	if !before(capture, hs) {
		r.bad(key, fnName(fn), at, "the CRC is not taken before the footer is written")
		return true
	}
	r.ok(key, fnName(fn), at, fmt.Sprintf("footer crc = the running CRC of the hashing writer of %s, taken after its %d data-writing call(s) and handed to %s, which writes to the same destination", fnName(caller), uses, fnName(fn)))
	return true
}

// footerBufferForm decides CRC-LAST for a persistFooter that puts the fields
// into one local array with binary.BigEndian.PutUintNN at constant offsets,
// computes crc32.Update(footer.crc, table, buf[:K]) and puts that at offset K,
// then hands the buffer to the writer once: the CRC covers exactly the bytes in
// front of it (K is the offset it is stored at and no field lies at or behind
// K), it continues footer.crc, it is computed after the last field was put,
// and the whole buffer is written.  verdict "" = not this form.
func footerBufferForm(c *Ctx, fn *ssa.Function, footerParam, writerParam *ssa.Parameter) (verdict, msg, at string) {
	type put struct {
		call *ssa.Call
		off  int64
		val  ssa.Value
	}
	var buf *ssa.Alloc
	var puts []put
	var update *ssa.Call
	var writes []ssa.CallInstruction
	sliceOf := func(v ssa.Value) (*ssa.Alloc, int64, int64, bool) { // buffer, low, high (-1 = open)
		sl, ok := v.(*ssa.Slice)
		if !ok {
			return nil, 0, 0, false
		}
		al, ok := sl.X.(*ssa.Alloc)
		if !ok {
			return nil, 0, 0, false
		}
		lo, hi := int64(0), int64(-1)
		if sl.Low != nil {
			k, ok := constLike(sl.Low)
			if !ok {
				return nil, 0, 0, false
			}
			lo = k
		}
		if sl.High != nil {
			k, ok := constLike(sl.High)
			if !ok {
				return nil, 0, 0, false
			}
			hi = k
		}
		return al, lo, hi, true
	}
	constLikeCtx = c
	for _, b := range fn.Blocks {
		for _, ins := range b.Instrs {
			ci, ok := ins.(ssa.CallInstruction)
			if !ok {
				continue
			}
			cc := ci.Common()
			if cc.IsInvoke() {
				if cc.Method.Name() == "Write" {
					writes = append(writes, ci)
				}
				continue
			}
			sc := cc.StaticCallee()
			if sc == nil {
				continue
			}
			full := funcFullName(sc)
			switch {
			case strings.HasPrefix(full, "encoding/binary.") && strings.HasPrefix(sc.Name(), "PutUint") && len(cc.Args) >= 2:
				call, _ := ins.(*ssa.Call)
				al, lo, _, ok := sliceOf(cc.Args[len(cc.Args)-2])
				if !ok || call == nil {
					return "", "", ""
				}
				if buf != nil && buf != al {
					return "", "", ""
				}
				buf = al
				puts = append(puts, put{call, lo, cc.Args[len(cc.Args)-1]})
			case full == "hash/crc32.Update":
				if update != nil {
					return "", "", ""
				}
				update, _ = ins.(*ssa.Call)
			case full == "encoding/binary.Write" || fnName(sc) == "newCountHashWriter":
				return "", "", ""
			case c.inRoot(sc) || strings.HasSuffix(sc.Name(), "Write"):
				for _, a := range cc.Args {
					if isWriterLike(a.Type()) {
						writes = append(writes, ci)
					}
				}
			}
		}
	}
	if buf == nil || update == nil || len(puts) < 2 {
		return "", "", ""
	}
	at = c.pos(update.Pos())
	// the seed is the crc of the footer that was handed in
	seedOK := false
	if ld, ok := update.Call.Args[0].(*ssa.UnOp); ok && ld.Op == token.MUL {
		if fa, ok := ld.X.(*ssa.FieldAddr); ok && fa.X == ssa.Value(footerParam) {
			if _, f := fieldAddrInfo(fa); f != nil && f.Name() == "crc" {
				seedOK = true
			}
		}
	}
	if !seedOK {
		return "bad", "the CRC written into the footer does not continue footer.crc (crc32.Update is seeded with " + exprSig(update.Call.Args[0], 0) + ")", at
	}
	al, lo, hi, ok := sliceOf(update.Call.Args[2])
	if !ok || al != buf || lo != 0 || hi < 0 {
		return "bad", "the CRC is not computed over the footer buffer from its start up to a constant offset", at
	}
	var crcPut *put
	for i := range puts {
		if puts[i].val == ssa.Value(update) {
			if crcPut != nil {
				return "bad", "the CRC is stored twice", at
			}
			crcPut = &puts[i]
		}
	}
	if crcPut == nil {
		return "bad", "the CRC computed over the footer fields is not stored into the footer buffer", at
	}
	if crcPut.off != hi {
		return "bad", fmt.Sprintf("the CRC covers the first %d bytes of the footer buffer but is stored at offset %d: it does not cover exactly the bytes in front of it", hi, crcPut.off), at
	}
	for _, p := range puts {
		if p.call == crcPut.call {
			continue
		}
		if p.off >= hi {
			return "bad", fmt.Sprintf("a footer field is stored at offset %d, at or behind the CRC (offset %d): the CRC is not the last field", p.off, hi), c.pos(p.call.Pos())
		}
		if !before(p.call, update) {
			return "bad", "a footer field is put into the buffer at " + c.pos(p.call.Pos()) + ", which does not precede the computation of the CRC on every path", at
		}
	}
	if !before(update, crcPut.call) {
		return "bad", "the CRC is stored before it is computed", at
	}
	// exactly one write of the whole buffer, to the writer parameter, after the CRC was stored
	if len(writes) != 1 {
		return "bad", fmt.Sprintf("%d writes to the destination in persistFooter, expected the one that hands over the footer buffer", len(writes)), at
	}
	w := writes[0]
	var data ssa.Value
	wc := w.Common()
	if wc.IsInvoke() {
		if wc.Value != ssa.Value(writerParam) || len(wc.Args) != 1 {
			return "bad", "the footer buffer is not written to the writer persistFooter was handed", c.pos(w.Pos())
		}
		data = wc.Args[0]
	} else {
		for _, a := range wc.Args {
			if isByteSlice(a.Type()) {
				data = a
			}
		}
	}
	wal, wlo, whi, ok := sliceOf(data)
	var arrLen int64 = -1
	if pt, isPtr := buf.Type().Underlying().(*types.Pointer); isPtr {
		if at, isArr := pt.Elem().Underlying().(*types.Array); isArr {
			arrLen = at.Len()
		}
	}
	if !ok || wal != buf || wlo != 0 || (whi >= 0 && whi != arrLen) {
		return "bad", "what is written is not the whole footer buffer", c.pos(w.Pos())
	}
	if arrLen != hi+4 {
		return "bad", fmt.Sprintf("the footer buffer has %d bytes but the CRC ends at %d", arrLen, hi+4), at
	}
	if !before(crcPut.call, w.(ssa.Instruction)) {
		return "bad", "the footer buffer is written before the CRC was stored into it", c.pos(w.Pos())
	}
	return "ok", fmt.Sprintf("%d fields put into one buffer in front of offset %d; crc32.Update(footer.crc, …, buf[:%d]) is stored at %d and the whole buffer is written once", len(puts)-1, hi, hi, hi), at
}

// writerHeldByReceiver: method writes its non-receiver parameter with
// binary.Write to a writer it loads from a field of its receiver, and recv (the
// receiver at the call) is a local struct whose that field was stored exactly
// one value: that value.
func writerHeldByReceiver(method *ssa.Function, recv ssa.Value) ssa.Value {
	if method.Signature.Recv() == nil || len(method.Params) < 2 {
		return nil
	}
	var field *types.Var
	for _, b := range method.Blocks {
		for _, ins := range b.Instrs {
			call, ok := ins.(*ssa.Call)
			if !ok || call.Call.StaticCallee() == nil || funcFullName(call.Call.StaticCallee()) != "encoding/binary.Write" {
				continue
			}
			wv := call.Call.Args[0]
			if mi, ok := wv.(*ssa.MakeInterface); ok {
				wv = mi.X
			}
			ld, ok := wv.(*ssa.UnOp)
			if !ok || ld.Op != token.MUL {
				return nil
			}
			fa, ok := ld.X.(*ssa.FieldAddr)
			if !ok || fa.X != ssa.Value(method.Params[0]) {
				return nil
			}
			_, fv := fieldAddrInfo(fa)
			if field != nil && fv != field {
				return nil
			}
			field = fv
			// what is written is the method's own parameter
			d := call.Call.Args[2]
			if mi, ok := d.(*ssa.MakeInterface); ok {
				d = mi.X
			}
			if p, ok := d.(*ssa.Parameter); !ok || p.Parent() != method {
				return nil
			}
		}
	}
	if field == nil {
		return nil
	}
	al, ok := recv.(*ssa.Alloc)
	if !ok || al.Referrers() == nil {
		return nil
	}
	var held ssa.Value
	for _, ref := range *al.Referrers() {
		fa, ok := ref.(*ssa.FieldAddr)
		if !ok || fa.Referrers() == nil {
			continue
		}
		if _, fv := fieldAddrInfo(fa); fv != field {
			continue
		}
		for _, r2 := range *fa.Referrers() {
			if st, ok := r2.(*ssa.Store); ok && st.Addr == ssa.Value(fa) {
				if held != nil && held != st.Val {
					return nil
				}
				held = st.Val
			}
		}
	}
	return held
}

// dataHelperPlanFails checks one "data helper, then footer write" pair in a
// caller: g (called before hs) wrote everything through a hashing writer it
// created over its writer parameter and hands back, as result idx, that
// writer's running CRC taken after its last write; g and the footer write get
// the same destination and nothing else writes to it in between.  It reports
// and returns true when something is wrong.
func dataHelperPlanFails(c *Ctx, r *Report, key string, fn *ssa.Function, hs ssa.CallInstruction, gcall *ssa.Call, idx int, dest ssa.Value) bool {
	g := gcall.Call.StaticCallee()
	caller := hs.Parent()
	at := c.pos(hs.Pos())
	if !before(gcall, hs) {
		r.bad(key, fnName(fn), at, "the CRC handed to "+fnName(fn)+" comes from "+fnName(g)+", which does not run before it on every path")
		return true
	}
	var cwCall *ssa.Call
	var capture ssa.Instruction
	why := ""
	for _, rb := range maySucceedReturns(g) {
		ret := rb.Instrs[len(rb.Instrs)-1].(*ssa.Return)
		if idx >= len(ret.Results) {
			why = "result missing"
			break
		}
		v := resolveLoad(ret.Results[idx])
		cw, ok := isSum32Of(v)
		if !ok {
			why = fnName(g) + " hands back " + exprSig(v, 0) + " at " + c.pos(ret.Pos()) + ", not the running CRC of a hashing writer"
			break
		}
		cc, ok := cw.(*ssa.Call)
		if !ok || cc.Call.StaticCallee() == nil || fnName(cc.Call.StaticCallee()) != "newCountHashWriter" || (cwCall != nil && cwCall != cc) {
			why = "the hashing writer whose CRC " + fnName(g) + " hands back is not one it created itself"
			break
		}
		cwCall = cc
		if ci, ok := v.(ssa.Instruction); ok {
			capture = ci
		}
	}
	if why == "" && (cwCall == nil || capture == nil) {
		why = fnName(g) + " has no successful return that hands back a CRC"
	}
	if why != "" {
		r.bad(key, fnName(fn), at, "footer crc is seeded from a value that does not cover the data: "+why)
		return true
	}
	dch, _, gbase := writerChain(cwCall)
	gp, ok := gbase.(*ssa.Parameter)
	if !ok || gp.Parent() != g {
		r.undecided(key, fnName(fn), at, "the hashing writer of "+fnName(g)+" is not placed over a writer it was handed")
		return true
	}
	for _, k := range dch[1:] {
		if k == "bufio" {
			r.undecided(key, fnName(fn), at, fnName(g)+" puts a buffer behind its hashing writer; the footer helper cannot share it")
			return true
		}
	}
	uses, bypass := hashCoverage(c, g, cwCall, capture)
	if len(bypass) > 0 {
		r.bad(key, fnName(fn), at, "bytes reach the destination without being hashed", bypass...)
		return true
	}
	if uses == 0 {
		r.bad(key, fnName(fn), at, "no data is written through the countHashWriter whose CRC seeds the footer")
		return true
	}
	_, _, d1 := writerChain(argFor(&gcall.Call, gp))
	_, _, d2 := writerChain(dest)
	if d1 != d2 {
		r.bad(key, fnName(fn), at, "the footer is written to a different destination than the data")
		return true
	}
	for _, b := range caller.Blocks {
		for _, ins := range b.Instrs {
			ci, ok := ins.(ssa.CallInstruction)
			if !ok || ins == ssa.Instruction(hs) || ins == ssa.Instruction(gcall) || !before(ins, hs) {
				continue
			}
			for _, a := range ci.Common().Args {
				if !isWriterLike(a.Type()) {
					continue
				}
				if _, _, ab := writerChain(a); ab == d1 {
					if sc := ci.Common().StaticCallee(); sc != nil && (strings.HasPrefix(funcFullName(sc), "bufio.NewWriter") || fnName(sc) == "newCountHashWriter") {
						continue
					}
					r.bad(key, fnName(fn), at, "bytes reach the destination without being hashed", fmt.Sprintf("%s at %s writes to the destination beside %s", calleeFullName(ci.Common()), c.pos(ins.Pos()), fnName(g)))
					return true
				}
			}
		}
	}
	return false
}
