package main

// E1 (store census) + E5 (provenance classes): a field-based,
// context-insensitive, interprocedural backward classifier over SSA.
//
// classify(v) = join of the labels of everything that can define v.
// Labels are strings; a rule supplies hooks that introduce its labels
// ("Caller", "SegmentData", "FREQ", …).  "Unknown" is introduced whenever a
// definition cannot be resolved; rules treat it as the worst class.

import (
	"fmt"
	"go/constant"
	"go/token"
	"go/types"
	"sort"
	"strings"

	"golang.org/x/tools/go/ssa"
)

type labelSet map[string]string // label -> witness (where it came from)

func (l labelSet) has(s string) bool { _, ok := l[s]; return ok }
func (l labelSet) names() []string {
	var out []string
	for k := range l {
		out = append(out, k)
	}
	sort.Strings(out)
	return out
}
func (l labelSet) String() string { return "{" + strings.Join(l.names(), ",") + "}" }
func (l labelSet) addAll(o labelSet) {
	for k, v := range o {
		if _, ok := l[k]; !ok {
			l[k] = v
		}
	}
}
func (l labelSet) equalKeys(o labelSet) bool {
	if len(l) != len(o) {
		return false
	}
	for k := range l {
		if _, ok := o[k]; !ok {
			return false
		}
	}
	return true
}

type fieldKey struct {
	owner *types.TypeName
	field string
}

type storeSite struct {
	fn   *ssa.Function
	ins  ssa.Instruction
	val  ssa.Value // stored value
	base ssa.Value // struct pointer
	elem bool      // store into an element of the container held by the field
}

type census struct {
	fieldStores  map[fieldKey][]storeSite        // direct stores T.f = v
	elemStores   map[fieldKey][]storeSite        // T.f[i] = v, T.f[k] = v (map)
	wholeStores  map[*types.TypeName][]storeSite // *p = T{...}
	globalStores map[*ssa.Global][]storeSite
	allocStores  map[*ssa.Alloc][]storeSite
	closures     map[*ssa.Function][]*ssa.MakeClosure
}

func (c *Ctx) buildCensus() *census {
	cs := &census{
		fieldStores: map[fieldKey][]storeSite{}, elemStores: map[fieldKey][]storeSite{},
		wholeStores: map[*types.TypeName][]storeSite{}, globalStores: map[*ssa.Global][]storeSite{},
		allocStores: map[*ssa.Alloc][]storeSite{}, closures: map[*ssa.Function][]*ssa.MakeClosure{},
	}
	fieldOfLoad := func(v ssa.Value) (fieldKey, ssa.Value, bool) {
		// v is a load *(&base.f) possibly sliced
		for {
			if sl, ok := v.(*ssa.Slice); ok {
				v = sl.X
				continue
			}
			break
		}
		ld, ok := v.(*ssa.UnOp)
		if !ok || ld.Op != token.MUL {
			return fieldKey{}, nil, false
		}
		fa, ok := ld.X.(*ssa.FieldAddr)
		if !ok {
			return fieldKey{}, nil, false
		}
		owner, f := fieldAddrInfo(fa)
		if owner == nil {
			return fieldKey{}, nil, false
		}
		return fieldKey{owner.Obj(), f.Name()}, fa.X, true
	}
	for _, fn := range c.srcFns {
		for _, b := range fn.Blocks {
			for _, ins := range b.Instrs {
				switch x := ins.(type) {
				case *ssa.MakeClosure:
					cs.closures[x.Fn.(*ssa.Function)] = append(cs.closures[x.Fn.(*ssa.Function)], x)
				case *ssa.Store:
					switch a := x.Addr.(type) {
					case *ssa.FieldAddr:
						owner, f := fieldAddrInfo(a)
						if owner != nil {
							k := fieldKey{owner.Obj(), f.Name()}
							cs.fieldStores[k] = append(cs.fieldStores[k], storeSite{fn: fn, ins: x, val: x.Val, base: a.X})
						}
					case *ssa.IndexAddr:
						if k, base, ok := fieldOfLoad(a.X); ok {
							cs.elemStores[k] = append(cs.elemStores[k], storeSite{fn: fn, ins: x, val: x.Val, base: base, elem: true})
						}
					case *ssa.Global:
						cs.globalStores[a] = append(cs.globalStores[a], storeSite{fn: fn, ins: x, val: x.Val})
					case *ssa.Alloc:
						cs.allocStores[a] = append(cs.allocStores[a], storeSite{fn: fn, ins: x, val: x.Val})
					}
					// whole-struct store through a pointer
					if pt, ok := x.Addr.Type().Underlying().(*types.Pointer); ok {
						if n, ok := pt.Elem().(*types.Named); ok {
							if _, isStruct := n.Underlying().(*types.Struct); isStruct {
								if _, isAlloc := x.Addr.(*ssa.Alloc); !isAlloc || true {
									cs.wholeStores[n.Obj()] = append(cs.wholeStores[n.Obj()], storeSite{fn: fn, ins: x, val: x.Val, base: x.Addr})
								}
							}
						}
					}
				case *ssa.MapUpdate:
					if k, base, ok := fieldOfLoad(x.Map); ok {
						cs.elemStores[k] = append(cs.elemStores[k], storeSite{fn: fn, ins: x, val: x.Value, base: base, elem: true})
					}
				}
			}
		}
	}
	return cs
}

type provHooks struct {
	// each hook returns (labels, handled); handled=true stops default processing
	call   func(call *ssa.Call, idx int) (labelSet, bool)
	param  func(fn *ssa.Function, idx int) labelSet // extra labels for a parameter (e.g. Caller for API functions)
	field  func(k fieldKey) (labelSet, bool)
	global func(g *ssa.Global) (labelSet, bool)
	value  func(v ssa.Value) (labelSet, bool) // first look at any value
}

type prov struct {
	c     *Ctx
	cs    *census
	h     provHooks
	prev  map[string]labelSet
	cur   map[string]labelSet
	inpro map[string]bool
	depth int
	elems bool
}

func newProv(c *Ctx, h provHooks) *prov {
	return &prov{c: c, cs: c.census(), h: h, prev: map[string]labelSet{}}
}

func (c *Ctx) census() *census {
	if c.cens == nil {
		c.cens = c.buildCensus()
	}
	return c.cens
}

func lbl(name, witness string) labelSet { return labelSet{name: witness} }

// Classify runs the fixpoint for one query (the memo is shared across queries).
func (p *prov) Classify(v ssa.Value) labelSet { return p.fix(func() labelSet { return p.val(v) }) }

// Elems classifies the elements of container v.
func (p *prov) Elems(v ssa.Value) labelSet { return p.fix(func() labelSet { return p.elem(v) }) }

func (p *prov) fix(f func() labelSet) labelSet {
	var res labelSet
	for iter := 0; iter < 12; iter++ {
		p.cur = map[string]labelSet{}
		p.inpro = map[string]bool{}
		res = f()
		stable := true
		for k, v := range p.cur {
			if pv, ok := p.prev[k]; !ok || !pv.equalKeys(v) {
				stable = false
			}
		}
		for k, v := range p.cur {
			p.prev[k] = v
		}
		if stable {
			break
		}
	}
	return res
}

func vkey(kind string, v ssa.Value) string {
	fn := "<pkg>"
	if v.Parent() != nil {
		fn = fnName(v.Parent())
	}
	return fmt.Sprintf("%s|%s|%s|%p", kind, fn, v.Name(), v)
}

func (p *prov) memo(key string, compute func() labelSet) labelSet {
	if r, ok := p.cur[key]; ok {
		return r
	}
	if p.inpro[key] {
		if r, ok := p.prev[key]; ok {
			return r
		}
		return labelSet{}
	}
	p.inpro[key] = true
	r := compute()
	delete(p.inpro, key)
	p.cur[key] = r
	return r
}

func (p *prov) where(v ssa.Value) string {
	if v == nil {
		return "-"
	}
	pos := v.Pos()
	s := v.Name()
	if v.Parent() != nil {
		s = fnName(v.Parent()) + ":" + s
	}
	return s + "@" + p.c.pos(pos)
}

func (p *prov) unknown(v ssa.Value, why string) labelSet {
	return lbl("Unknown", fmt.Sprintf("%s (%s: %T %s)", why, p.where(v), v, v.String()))
}

// val: labels of value v itself (for containers: of the container object).
func (p *prov) val(v ssa.Value) labelSet {
	return p.memo(vkey("v", v), func() labelSet { return p.val0(v) })
}

func (p *prov) val0(v ssa.Value) labelSet {
	if p.h.value != nil {
		if l, ok := p.h.value(v); ok {
			return l
		}
	}
	out := labelSet{}
	switch x := v.(type) {
	case *ssa.Const:
		if x.IsNil() {
			return out
		}
		return lbl("Const", p.where(v))
	case *ssa.Alloc, *ssa.MakeMap, *ssa.MakeSlice, *ssa.MakeChan, *ssa.MakeClosure:
		return lbl("Fresh", p.where(v))
	case *ssa.Phi:
		for i, e := range x.Edges {
			out.addAll(p.refineEdge(e, x.Block().Preds[i], x.Block(), p.refineAt(e, x.Block().Preds[i], p.val(e))))
		}
		return out
	case *ssa.Extract:
		if call, ok := x.Tuple.(*ssa.Call); ok {
			return p.callResult(call, x.Index)
		}
		if nx, ok := x.Tuple.(*ssa.Next); ok {
			// range over map/string: (ok, key, value)
			if x.Index == 2 {
				if rg, ok := nx.Iter.(*ssa.Range); ok {
					return p.elem(rg.X)
				}
			}
			return lbl("Computed", p.where(v))
		}
		if ta, ok := x.Tuple.(*ssa.TypeAssert); ok {
			if x.Index == 0 {
				return p.val(ta)
			}
			return lbl("Computed", p.where(v))
		}
		if lk, ok := x.Tuple.(*ssa.Lookup); ok {
			if x.Index == 0 {
				return p.elem(lk.X)
			}
			return lbl("Computed", p.where(v))
		}
		if uo, ok := x.Tuple.(*ssa.UnOp); ok && uo.Op == token.ARROW {
			return p.unknown(v, "channel receive")
		}
		return p.unknown(v, "extract of unsupported tuple")
	case *ssa.Call:
		return p.callResult(x, 0)
	case *ssa.UnOp:
		if x.Op == token.MUL {
			return p.load(x)
		}
		return lbl("Computed", p.where(v))
	case *ssa.Lookup:
		return p.elem(x.X)
	case *ssa.Index:
		return p.elem(x.X)
	case *ssa.Field:
		// field of a struct value: approximate by field stores of the type
		if n, ok := x.X.Type().(*types.Named); ok {
			if st, ok := n.Underlying().(*types.Struct); ok {
				return p.fieldLoad(fieldKey{n.Obj(), st.Field(x.Field).Name()}, v)
			}
		}
		return p.val(x.X)
	case *ssa.FieldAddr:
		return p.val(x.X) // pointer into the base object
	case *ssa.IndexAddr:
		return p.val(x.X)
	case *ssa.Slice:
		return p.val(x.X)
	case *ssa.ChangeType:
		return p.val(x.X)
	case *ssa.Convert:
		return p.val(x.X)
	case *ssa.ChangeInterface:
		return p.val(x.X)
	case *ssa.MakeInterface:
		return p.val(x.X)
	case *ssa.TypeAssert:
		return p.val(x.X)
	case *ssa.SliceToArrayPointer:
		return p.val(x.X)
	case *ssa.Parameter:
		return p.param(x)
	case *ssa.FreeVar:
		return p.freeVar(x, false)
	case *ssa.Global:
		// the address of a package-level variable: memory of that variable
		if p.h.global != nil {
			if l, ok := p.h.global(x); ok {
				return l
			}
		}
		return lbl("Global:"+x.Name(), p.where(v))
	case *ssa.Function:
		return lbl("Func", p.where(v))
	case *ssa.BinOp:
		return lbl("Computed", p.where(v))
	case *ssa.Builtin:
		return lbl("Func", p.where(v))
	}
	return p.unknown(v, "unsupported value kind")
}

// reachLabels: memory reached through an object that is package-level or
// shared through a segment is itself package-level / shared (the field-based
// abstraction forgets the base object, so its sharing labels are re-attached).
func (p *prov) reachLabels(base ssa.Value) labelSet {
	out := labelSet{}
	for k, w := range p.val(base) {
		if strings.HasPrefix(k, "Global:") || k == "SharedSegment" {
			out[k] = w
		}
	}
	return out
}

// load: *addr
func (p *prov) load(x *ssa.UnOp) labelSet {
	out := labelSet{}
	switch a := x.X.(type) {
	case *ssa.Alloc:
		for _, st := range p.cs.allocStores[a] {
			out.addAll(p.val(st.val))
		}
		// cells captured by closures and stored through free variables
		out.addAll(p.closureStores(a))
		if len(out) == 0 {
			return labelSet{} // zero value
		}
		return out
	case *ssa.FieldAddr:
		owner, f := fieldAddrInfo(a)
		if owner == nil {
			// a field of an anonymous struct (a local table of steps / columns): what the same
			// function stores into that field of a value of the identical type
			fn := x.Parent()
			found := false
			if fn != nil {
				for _, b := range fn.Blocks {
					for _, ins := range b.Instrs {
						st, ok := ins.(*ssa.Store)
						if !ok {
							continue
						}
						fa2, ok := st.Addr.(*ssa.FieldAddr)
						if !ok || fa2.Field != a.Field || !types.Identical(fa2.X.Type(), a.X.Type()) {
							continue
						}
						found = true
						out.addAll(p.val(st.Val))
					}
				}
			}
			if !found {
				return p.unknown(x, "field of unnamed struct")
			}
			return out
		}
		out.addAll(p.fieldLoad(fieldKey{owner.Obj(), f.Name()}, x))
		out.addAll(p.reachLabels(a.X))
		return out
	case *ssa.IndexAddr:
		return p.elem(a.X)
	case *ssa.Global:
		if p.h.global != nil {
			if l, ok := p.h.global(a); ok {
				return l
			}
		}
		for _, st := range p.cs.globalStores[a] {
			out.addAll(p.val(st.val))
		}
		out.addAll(lbl("Global:"+a.Name(), p.where(x)))
		return out
	case *ssa.FreeVar:
		return p.freeVar(a, true)
	case *ssa.Parameter:
		// *ptrParam: the pointee supplied by the callers
		for _, arg := range p.argsFor(a) {
			if al, ok := arg.(*ssa.Alloc); ok {
				for _, st := range p.cs.allocStores[al] {
					out.addAll(p.val(st.val))
				}
				continue
			}
			out.addAll(p.unknown(x, "load through pointer parameter"))
		}
		return out
	case *ssa.Phi, *ssa.Call, *ssa.UnOp, *ssa.Extract:
		return p.unknown(x, "load through computed pointer")
	}
	return p.unknown(x, "unsupported load")
}

func (p *prov) closureStores(a *ssa.Alloc) labelSet {
	out := labelSet{}
	if a.Referrers() == nil {
		return out
	}
	for _, ref := range *a.Referrers() {
		mc, ok := ref.(*ssa.MakeClosure)
		if !ok {
			continue
		}
		fn := mc.Fn.(*ssa.Function)
		for i, b := range mc.Bindings {
			if b != ssa.Value(a) {
				continue
			}
			fv := fn.FreeVars[i]
			out.addAll(p.freeVarStores(fn, fv))
		}
	}
	return out
}

func (p *prov) freeVarStores(fn *ssa.Function, fv *ssa.FreeVar) labelSet {
	out := labelSet{}
	if fv.Referrers() == nil {
		return out
	}
	for _, ref := range *fv.Referrers() {
		switch r := ref.(type) {
		case *ssa.Store:
			if r.Addr == ssa.Value(fv) {
				out.addAll(p.val(r.Val))
			}
		case *ssa.MakeClosure:
			inner := r.Fn.(*ssa.Function)
			for i, b := range r.Bindings {
				if b == ssa.Value(fv) {
					out.addAll(p.freeVarStores(inner, inner.FreeVars[i]))
				}
			}
		}
	}
	return out
}

// freeVar: value (or pointee when deref) of a closure's captured variable.
func (p *prov) freeVar(fv *ssa.FreeVar, deref bool) labelSet {
	out := labelSet{}
	fn := fv.Parent()
	idx := -1
	for i, f := range fn.FreeVars {
		if f == fv {
			idx = i
		}
	}
	mcs := p.cs.closures[fn]
	if len(mcs) == 0 || idx < 0 {
		return p.unknown(fv, "free variable without a visible closure creation")
	}
	for _, mc := range mcs {
		b := mc.Bindings[idx]
		if !deref {
			out.addAll(p.val(b))
			continue
		}
		switch bb := b.(type) {
		case *ssa.Alloc:
			for _, st := range p.cs.allocStores[bb] {
				out.addAll(p.val(st.val))
			}
			out.addAll(p.closureStores(bb))
		case *ssa.FreeVar:
			out.addAll(p.freeVar(bb, true))
		default:
			out.addAll(p.unknown(fv, "free variable bound to a computed pointer"))
		}
	}
	return out
}

func (p *prov) fieldLoad(k fieldKey, at ssa.Value) labelSet {
	return p.memo("f|"+k.owner.Name()+"."+k.field, func() labelSet {
		if p.h.field != nil {
			if l, ok := p.h.field(k); ok {
				return l
			}
		}
		out := labelSet{}
		for _, st := range p.cs.fieldStores[k] {
			out.addAll(p.val(st.val))
		}
		// whole-struct stores: *p = T{...}; the stored struct value's field
		for _, st := range p.cs.wholeStores[k.owner] {
			out.addAll(p.structValueField(st.val, k))
		}
		// exported field of an exported type can be set by callers
		if k.owner.Exported() && token.IsExported(k.field) {
			out.addAll(lbl("Caller", "exported field "+k.owner.Name()+"."+k.field))
		}
		return out
	})
}

// structValueField: labels of field k of a struct *value* (composite literal
// value, load of another struct, zero).
func (p *prov) structValueField(v ssa.Value, k fieldKey) labelSet {
	switch x := v.(type) {
	case *ssa.Const:
		return labelSet{}
	case *ssa.UnOp:
		if x.Op == token.MUL {
			// load of a whole struct: its field comes from wherever that struct's field is stored
			if a, ok := x.X.(*ssa.Alloc); ok {
				// composite literal built in a local cell: field stores on that alloc are in the census already
				_ = a
				return labelSet{}
			}
			return labelSet{} // copies share the census of the same type: already joined
		}
	}
	return labelSet{}
}

// elem: labels of the elements held by container v.
func (p *prov) elem(v ssa.Value) labelSet {
	return p.memo(vkey("e", v), func() labelSet { return p.elem0(v) })
}

func (p *prov) elem0(v ssa.Value) labelSet {
	out := labelSet{}
	// element stores visible through referrers of this very value
	addRefStores := func(c ssa.Value) {
		refs := c.Referrers()
		if refs == nil {
			return
		}
		for _, ref := range *refs {
			switch r := ref.(type) {
			case *ssa.IndexAddr:
				if r.X != c || r.Referrers() == nil {
					continue
				}
				for _, r2 := range *r.Referrers() {
					if st, ok := r2.(*ssa.Store); ok && st.Addr == ssa.Value(r) {
						out.addAll(p.val(st.Val))
					}
				}
			case *ssa.MapUpdate:
				if r.Map == c {
					out.addAll(p.val(r.Value))
				}
			case *ssa.Call:
				// copy(dst=c, src)
				if b, ok := r.Call.Value.(*ssa.Builtin); ok && b.Name() == "copy" && r.Call.Args[0] == c {
					out.addAll(p.elem(r.Call.Args[1]))
				}
			}
		}
	}
	switch x := v.(type) {
	case *ssa.Const:
		return out
	case *ssa.MakeSlice, *ssa.MakeMap:
		addRefStores(v)
		return out
	case *ssa.Alloc:
		// new [N]T array
		addRefStores(v)
		return out
	case *ssa.Slice:
		out.addAll(p.elem(x.X))
		addRefStores(v)
		return out
	case *ssa.Phi:
		for _, e := range x.Edges {
			out.addAll(p.elem(e))
		}
		addRefStores(v)
		return out
	case *ssa.ChangeType:
		return p.elem(x.X)
	case *ssa.Convert:
		return p.elem(x.X)
	case *ssa.Call:
		if b, ok := x.Call.Value.(*ssa.Builtin); ok && b.Name() == "append" {
			out.addAll(p.elem(x.Call.Args[0]))
			if len(x.Call.Args) > 1 {
				// variadic: second arg is a slice of the appended values
				out.addAll(p.elem(x.Call.Args[1]))
			}
			addRefStores(v)
			return out
		}
		if sc := x.Call.StaticCallee(); sc != nil && p.c.inRoot(sc) {
			for _, b := range sc.Blocks {
				if ret, ok := b.Instrs[len(b.Instrs)-1].(*ssa.Return); ok && len(ret.Results) > 0 {
					out.addAll(p.elem(resolveLoad(ret.Results[0])))
				}
			}
			addRefStores(v)
			return out
		}
		if p.h.call != nil {
			if l, ok := p.h.call(x, -1); ok { // idx -1: asking about elements
				return l
			}
		}
		return p.unknown(v, "elements of the result of an external call")
	case *ssa.Extract:
		if call, ok := x.Tuple.(*ssa.Call); ok {
			if sc := call.Call.StaticCallee(); sc != nil && p.c.inRoot(sc) {
				for _, b := range sc.Blocks {
					if ret, ok := b.Instrs[len(b.Instrs)-1].(*ssa.Return); ok && len(ret.Results) > x.Index {
						out.addAll(p.elem(resolveLoad(ret.Results[x.Index])))
					}
				}
				addRefStores(v)
				return out
			}
		}
		return p.unknown(v, "elements of an extracted external result")
	case *ssa.UnOp:
		if x.Op != token.MUL {
			return p.unknown(v, "elements of computed value")
		}
		switch a := x.X.(type) {
		case *ssa.FieldAddr:
			owner, f := fieldAddrInfo(a)
			if owner == nil {
				return p.unknown(v, "elements of field of unnamed struct")
			}
			k := fieldKey{owner.Obj(), f.Name()}
			out.addAll(p.reachLabels(a.X))
			out.addAll(p.memo("fe|"+k.owner.Name()+"."+k.field, func() labelSet {
				if p.h.field != nil {
					if l, ok := p.h.field(k); ok {
						return l
					}
				}
				o := labelSet{}
				for _, st := range p.cs.fieldStores[k] {
					o.addAll(p.elem(st.val))
				}
				for _, st := range p.cs.elemStores[k] {
					o.addAll(p.val(st.val))
				}
				if k.owner.Exported() && token.IsExported(k.field) {
					o.addAll(lbl("Caller", "exported field "+k.owner.Name()+"."+k.field))
				}
				return o
			}))
			addRefStores(v)
			return out
		case *ssa.Alloc:
			for _, st := range p.cs.allocStores[a] {
				out.addAll(p.elem(st.val))
			}
			// loads of the same cell elsewhere may be used to store elements
			if a.Referrers() != nil {
				for _, ref := range *a.Referrers() {
					if ld, ok := ref.(*ssa.UnOp); ok && ld.Op == token.MUL {
						addRefStores(ld)
					}
				}
			}
			return out
		case *ssa.IndexAddr:
			// element of a container of containers: flatten
			return p.elem(a.X)
		case *ssa.Global:
			for _, st := range p.cs.globalStores[a] {
				out.addAll(p.elem(st.val))
			}
			return out
		case *ssa.FreeVar:
			fn := a.Parent()
			for i, f := range fn.FreeVars {
				if f != a {
					continue
				}
				for _, mc := range p.cs.closures[fn] {
					if al, ok := mc.Bindings[i].(*ssa.Alloc); ok {
						for _, st := range p.cs.allocStores[al] {
							out.addAll(p.elem(st.val))
						}
					} else {
						out.addAll(p.unknown(v, "captured container bound to computed pointer"))
					}
				}
			}
			return out
		}
		return p.unknown(v, "elements of unsupported load")
	case *ssa.Lookup:
		return p.elem(x.X) // flatten nested containers
	case *ssa.Parameter:
		for _, arg := range p.argsFor(x) {
			out.addAll(p.elem(arg))
		}
		if p.h.param != nil {
			idx := paramIndex(x)
			if l := p.h.param(x.Parent(), idx); l != nil {
				out.addAll(l)
			}
		}
		addRefStores(v)
		return out
	case *ssa.FreeVar:
		fn := x.Parent()
		for i, f := range fn.FreeVars {
			if f == x {
				for _, mc := range p.cs.closures[fn] {
					out.addAll(p.elem(mc.Bindings[i]))
				}
			}
		}
		return out
	}
	return p.unknown(v, "elements of unsupported container")
}

func paramIndex(x *ssa.Parameter) int {
	for i, q := range x.Parent().Params {
		if q == x {
			return i
		}
	}
	return -1
}

// argsFor: the actual arguments bound to parameter x at every call site found
// in the root package (static calls, call-graph edges for dynamic calls).
func (p *prov) argsFor(x *ssa.Parameter) []ssa.Value {
	vals, _ := p.argsAndSites(x)
	return vals
}

func (p *prov) argsAndSites(x *ssa.Parameter) ([]ssa.Value, []ssa.CallInstruction) {
	fn := x.Parent()
	idx := paramIndex(x)
	var out []ssa.Value
	var sites []ssa.CallInstruction
	seen := map[ssa.Instruction]bool{}
	add := func(site ssa.CallInstruction) {
		if seen[site] {
			return
		}
		seen[site] = true
		n0 := len(out)
		defer func() {
			for len(sites) < len(out) {
				sites = append(sites, site)
			}
			_ = n0
		}()
		cc := site.Common()
		args := cc.Args
		if cc.IsInvoke() {
			// receiver is cc.Value, args follow
			if idx == 0 {
				out = append(out, cc.Value)
				return
			}
			if idx-1 < len(args) {
				out = append(out, args[idx-1])
			}
			return
		}
		if len(fn.FreeVars) > 0 || fn.Signature.Recv() == nil || len(args) == len(fn.Params) {
			if idx < len(args) {
				out = append(out, args[idx])
			}
			return
		}
		// bound method value call: receiver captured
		if idx > 0 && idx-1 < len(args) {
			out = append(out, args[idx-1])
		}
	}
	for _, site := range p.c.callsTo(fn) {
		add(site)
	}
	if n := p.c.graph().Nodes[fn]; n != nil {
		for _, e := range n.In {
			if e.Site != nil && p.c.inRoot(e.Caller.Func) {
				add(e.Site)
			}
		}
	}
	return out, sites
}

// ClassifyAt classifies v as seen by an instruction in block b: labels of
// package-level singletons are dropped when b is dominated by an edge on
// which v was compared unequal to that singleton.
func (p *prov) ClassifyAt(v ssa.Value, b *ssa.BasicBlock) labelSet {
	return p.refineAt(v, b, p.Classify(v))
}

// refineEdge: the value flows along the CFG edge from->to; if `from` ends in a
// branch on (v == *G) and `to` is reached only on the not-equal outcome of that
// branch, the singleton label is dropped.
// predicateExcludes: fn is a small in-package predicate `func(p *T) bool` whose
// result is definitely false whenever p == *G for a package-level G (e.g.
// `return pl != nil && pl != emptyPostingsList`).  Returns the parameter index
// and the globals excluded by a true result.
type predicateKey struct {
	fn     *ssa.Function
	result bool
}

var predicateCache = map[predicateKey]map[int][]*ssa.Global{}

// predicateExcludes(fn, result): the globals a parameter cannot be when fn
// returns `result` (true: `pl != nil && pl != emptyX`; false: `pl == nil || pl == emptyX`).
func predicateExcludes(fn *ssa.Function, result bool) map[int][]*ssa.Global {
	if r, ok := predicateCache[predicateKey{fn, result}]; ok {
		return r
	}
	out := map[int][]*ssa.Global{}
	predicateCache[predicateKey{fn, result}] = out
	mustReturn := triFalse // assuming p == *G
	if !result {
		mustReturn = triTrue
	}
	if fn == nil || fn.Blocks == nil || len(fn.Blocks) > 12 || fn.Signature.Results().Len() != 1 || !isBoolType(fn.Signature.Results().At(0).Type()) {
		return out
	}
	type cmp struct {
		pi int
		g  *ssa.Global
	}
	var cmps []cmp
	isCmp := func(v ssa.Value, pi int, g *ssa.Global) (neg bool, ok bool) {
		bin, isBin := v.(*ssa.BinOp)
		if !isBin || (bin.Op != token.EQL && bin.Op != token.NEQ) {
			return false, false
		}
		a, b := bin.X, bin.Y
		if a != ssa.Value(fn.Params[pi]) {
			a, b = b, a
		}
		if a != ssa.Value(fn.Params[pi]) {
			return false, false
		}
		ld, isLd := b.(*ssa.UnOp)
		if !isLd || ld.Op != token.MUL || ld.X != ssa.Value(g) {
			return false, false
		}
		return bin.Op == token.NEQ, true
	}
	for _, b := range fn.Blocks {
		for _, ins := range b.Instrs {
			bin, ok := ins.(*ssa.BinOp)
			if !ok || (bin.Op != token.EQL && bin.Op != token.NEQ) {
				continue
			}
			for pi, prm := range fn.Params {
				for _, side := range []ssa.Value{bin.X, bin.Y} {
					if ld, ok := side.(*ssa.UnOp); ok && ld.Op == token.MUL {
						if g, ok := ld.X.(*ssa.Global); ok && (bin.X == ssa.Value(prm) || bin.Y == ssa.Value(prm)) {
							cmps = append(cmps, cmp{pi, g})
						}
					}
				}
			}
		}
	}
	for _, cm := range cmps {
		// assume p == *G; every reachable return must return the opposite of `result`
		var eval func(v ssa.Value, path []*ssa.BasicBlock) tri
		eval = func(v ssa.Value, path []*ssa.BasicBlock) tri {
			if neg, ok := isCmp(v, cm.pi, cm.g); ok {
				if neg {
					return triFalse
				}
				return triTrue
			}
			switch x := v.(type) {
			case *ssa.Const:
				if x.Value != nil && x.Value.Kind() == constant.Bool {
					if constant.BoolVal(x.Value) {
						return triTrue
					}
					return triFalse
				}
			case *ssa.UnOp:
				if x.Op == token.NOT {
					return triNot(eval(x.X, path))
				}
			case *ssa.Phi:
				for i := len(path) - 1; i > 0; i-- {
					if path[i] == x.Block() {
						for k, pr := range x.Block().Preds {
							if pr == path[i-1] {
								return eval(x.Edges[k], path[:i])
							}
						}
					}
				}
			}
			return triUnknown
		}
		okAll, nret := true, 0
		var walk func(b *ssa.BasicBlock, path []*ssa.BasicBlock)
		walk = func(b *ssa.BasicBlock, path []*ssa.BasicBlock) {
			if len(path) > 24 || !okAll {
				okAll = okAll && len(path) <= 24
				return
			}
			path = append(path, b)
			switch last := b.Instrs[len(b.Instrs)-1].(type) {
			case *ssa.Return:
				nret++
				if eval(last.Results[0], path) != mustReturn {
					okAll = false
				}
			case *ssa.If:
				switch eval(last.Cond, path) {
				case triTrue:
					walk(b.Succs[0], path)
				case triFalse:
					walk(b.Succs[1], path)
				default:
					walk(b.Succs[0], path)
					walk(b.Succs[1], path)
				}
			default:
				for _, s := range b.Succs {
					walk(s, path)
				}
			}
		}
		walk(fn.Blocks[0], nil)
		if okAll && nret > 0 {
			dup := false
			for _, g := range out[cm.pi] {
				if g == cm.g {
					dup = true
				}
			}
			if !dup {
				out[cm.pi] = append(out[cm.pi], cm.g)
			}
		}
	}
	return out
}

// predicateEdge: cond is (possibly negated) a call of such a predicate on v;
// returns the globals v cannot be on the edge from -> to.
func predicateEdge(cond ssa.Value, v ssa.Value, trueEdge bool) []*ssa.Global {
	neg := false
	for {
		u, ok := cond.(*ssa.UnOp)
		if !ok || u.Op != token.NOT {
			break
		}
		neg = !neg
		cond = u.X
	}
	call, ok := cond.(*ssa.Call)
	if !ok || call.Call.StaticCallee() == nil {
		return nil
	}
	ex := predicateExcludes(call.Call.StaticCallee(), trueEdge != neg)
	var out []*ssa.Global
	for pi, gs := range ex {
		if pi < len(call.Call.Args) && call.Call.Args[pi] == v {
			out = append(out, gs...)
		}
	}
	return out
}

func (p *prov) refineEdge(v ssa.Value, from, to *ssa.BasicBlock, l labelSet) labelSet {
	if len(l) == 0 || len(from.Instrs) == 0 {
		return l
	}
	ifi, ok := from.Instrs[len(from.Instrs)-1].(*ssa.If)
	if !ok {
		return l
	}
	if from.Succs[0] != from.Succs[1] {
		if gs := predicateEdge(ifi.Cond, v, to == from.Succs[0]); len(gs) > 0 {
			out := labelSet{}
			for k, w := range l {
				keep := true
				for _, g := range gs {
					if k == "Global:"+g.Name() {
						keep = false
					}
				}
				if keep {
					out[k] = w
				}
			}
			return out
		}
	}
	bin, ok := ifi.Cond.(*ssa.BinOp)
	if !ok || (bin.Op != token.EQL && bin.Op != token.NEQ) {
		return l
	}
	other := bin.Y
	if bin.X != v {
		if bin.Y != v {
			return l
		}
		other = bin.X
	}
	ld, ok := other.(*ssa.UnOp)
	if !ok || ld.Op != token.MUL {
		return l
	}
	g, ok := ld.X.(*ssa.Global)
	if !ok {
		return l
	}
	ne, eq := from.Succs[0], from.Succs[1]
	if bin.Op == token.EQL {
		ne, eq = eq, ne
	}
	if to != ne || to == eq {
		return l
	}
	out := labelSet{}
	for k, w := range l {
		if k != "Global:"+g.Name() {
			out[k] = w
		}
	}
	return out
}

func (p *prov) refineAt(v ssa.Value, b *ssa.BasicBlock, l labelSet) labelSet {
	if b == nil || v.Referrers() == nil || len(l) == 0 {
		return l
	}
	var drop []string
	for _, ref := range *v.Referrers() {
		if call, isCall := ref.(*ssa.Call); isCall && call.Referrers() != nil {
			// v handed to a predicate helper whose true result excludes a global
			var conds []struct {
				val ssa.Value
			}
			conds = append(conds, struct{ val ssa.Value }{call})
			for _, r2 := range *call.Referrers() {
				if u, ok := r2.(*ssa.UnOp); ok && u.Op == token.NOT {
					conds = append(conds, struct{ val ssa.Value }{u})
				}
			}
			for _, cd := range conds {
				if cd.val.Referrers() == nil {
					continue
				}
				for _, r3 := range *cd.val.Referrers() {
					ifi, ok := r3.(*ssa.If)
					if !ok {
						continue
					}
					for si, succ := range ifi.Block().Succs {
						gs := predicateEdge(ifi.Cond, v, si == 0)
						if len(gs) > 0 && len(succ.Preds) == 1 && succ.Dominates(b) {
							for _, g := range gs {
								drop = append(drop, "Global:"+g.Name())
							}
						}
					}
				}
			}
			continue
		}
		bin, ok := ref.(*ssa.BinOp)
		if !ok || (bin.Op != token.EQL && bin.Op != token.NEQ) {
			continue
		}
		other := bin.Y
		if bin.X != v {
			other = bin.X
		}
		ld, ok := other.(*ssa.UnOp)
		if !ok || ld.Op != token.MUL {
			continue
		}
		g, ok := ld.X.(*ssa.Global)
		if !ok {
			continue
		}
		for _, r2 := range *bin.Referrers() {
			ifi, ok := r2.(*ssa.If)
			if !ok {
				continue
			}
			ne := ifi.Block().Succs[0]
			if bin.Op == token.EQL {
				ne = ifi.Block().Succs[1]
			}
			if len(ne.Preds) == 1 && ne.Dominates(b) {
				drop = append(drop, "Global:"+g.Name())
			}
		}
	}
	if len(drop) == 0 {
		return l
	}
	out := labelSet{}
	for k, w := range l {
		keep := true
		for _, d := range drop {
			if k == d {
				keep = false
			}
		}
		if keep {
			out[k] = w
		}
	}
	return out
}

func (p *prov) param(x *ssa.Parameter) labelSet {
	out := labelSet{}
	fn := x.Parent()
	idx := paramIndex(x)
	if p.h.param != nil {
		if l := p.h.param(fn, idx); l != nil {
			out.addAll(l)
		}
	}
	args, sites := p.argsAndSites(x)
	for i, a := range args {
		out.addAll(p.refineAt(a, sites[i].Block(), p.val(a)))
	}
	if len(args) == 0 && len(out) == 0 {
		// never called inside the package and not marked by the hook
		out.addAll(lbl("Uncalled", p.where(x)))
	}
	return out
}

// callResult: labels of result idx of a call.
func (p *prov) callResult(call *ssa.Call, idx int) labelSet {
	if p.h.call != nil {
		if l, ok := p.h.call(call, idx); ok {
			return l
		}
	}
	out := labelSet{}
	if b, ok := call.Call.Value.(*ssa.Builtin); ok {
		switch b.Name() {
		case "append":
			// the result may be the first argument's backing array or a fresh one
			out.addAll(p.val(call.Call.Args[0]))
			out.addAll(lbl("Fresh", p.where(call)))
			return out
		case "len", "cap", "copy", "min", "max":
			return lbl("Computed", p.where(call))
		case "new", "make":
			return lbl("Fresh", p.where(call))
		}
		return lbl("Computed", p.where(call))
	}
	callees := p.c.calleesIn(call.Parent(), call)
	if len(callees) == 0 {
		return p.unknown(call, "call with no resolvable callee")
	}
	for _, sc := range callees {
		if !p.c.inRoot(sc) || sc.Blocks == nil {
			out.addAll(p.unknown(call, "result of external function "+funcFullName(sc)))
			continue
		}
		for _, b := range sc.Blocks {
			ret, ok := b.Instrs[len(b.Instrs)-1].(*ssa.Return)
			if !ok || idx >= len(ret.Results) {
				continue
			}
			rv := resolveLoad(ret.Results[idx])
			out.addAll(p.refineAt(rv, b, p.val(rv)))
		}
	}
	return out
}
