package main

import (
	"fmt"
	"go/token"
	"go/types"

	"golang.org/x/tools/go/ssa"
)

// BLOCK-CLOSE-BY-COUNT.  The reader of the stored section finds a document's
// block by dividing the document number by the block size (BLOCK-SELECT), so
// the writer may close a block - append to the coder's table of block offsets -
// only as a function of the number of documents added and the block size.  A
// block closed for any other reason (bytes buffered, a timer, a caller's wish)
// shifts every later document of that group into a block the reader does not
// look in.  The rule finds every append to the offsets table of the document
// coder, lifts it through the coder's own methods, and requires each branch
// that decides whether the append is reached to compare counters only: its
// condition is computed from integer fields of the coder, parameters and
// constants - no call result (buf.Len(), len(...)), no non-integer field.
// Tests of an error against nil are not decisions about the block boundary
// and are skipped.  Not decided: that the counters mean what the reader
// assumes (a byte counter kept in an integer field would pass).
func init() {
	register(&Rule{
		Name:  "BLOCK-CLOSE-BY-COUNT",
		Floor: 1,
		Doc:   "every branch deciding whether the stored-document coder closes a block (appends to its table of block offsets), in the appending function and in the coder's methods that reach it, tests counters only - integer fields of the coder, parameters and constants, no call result such as the number of bytes buffered - because the reader locates a document's block as docNum / block size",
		Run: func(c *Ctx, scope string, r *Report) {
			// the coder and the struct types of this package it is composed of (state grouped into a sub-struct)
			family := map[*types.TypeName]bool{}
			for _, fn := range c.srcFns {
				if fn.Signature.Recv() == nil {
					continue
				}
				n := namedOf(fn.Signature.Recv().Type())
				if n == nil || n.Obj().Name() != "chunkedDocumentCoder" || family[n.Obj()] {
					continue
				}
				family[n.Obj()] = true
				if st, ok := n.Underlying().(*types.Struct); ok {
					for i := 0; i < st.NumFields(); i++ {
						if fnm := namedOf(st.Field(i).Type()); fnm != nil && fnm.Obj().Pkg() == n.Obj().Pkg() {
							if _, ok := fnm.Underlying().(*types.Struct); ok {
								family[fnm.Obj()] = true
							}
						}
					}
				}
			}
			isCoder := func(t types.Type) bool {
				n := namedOf(t)
				return n != nil && family[n.Obj()]
			}
			recvIsCoder := func(fn *ssa.Function) bool {
				return fn.Signature.Recv() != nil && isCoder(fn.Signature.Recv().Type())
			}
			// sites: instructions after which a block is closed
			type site struct {
				fn  *ssa.Function
				at  ssa.Instruction
				why string
			}
			var work []site
			closers := map[*ssa.Function]bool{}
			for _, fn := range c.srcFns {
				for _, b := range fn.Blocks {
					for _, ins := range b.Instrs {
						st, ok := ins.(*ssa.Store)
						if !ok {
							continue
						}
						fa, ok := st.Addr.(*ssa.FieldAddr)
						if !ok || !isCoder(fa.X.Type()) {
							continue
						}
						sf := fieldOfAddr(fa)
						if sf == nil {
							continue
						}
						if _, isSlice := sf.Type().Underlying().(*types.Slice); !isSlice {
							continue
						}
						call, ok := st.Val.(*ssa.Call)
						if !ok {
							continue
						}
						if bi, ok := call.Call.Value.(*ssa.Builtin); !ok || bi.Name() != "append" {
							continue
						}
						// the table of block offsets: a []uint64 field
						if el, ok := sf.Type().Underlying().(*types.Slice).Elem().Underlying().(*types.Basic); !ok || el.Kind() != types.Uint64 {
							continue
						}
						// an append that re-slices the field itself to length 0 first is a reset, not a close
						work = append(work, site{fn, ins, "appends to " + sf.Name()})
						closers[fn] = true
					}
				}
			}
			seen := map[ssa.Instruction]bool{}
			n := 0
			for len(work) > 0 {
				s := work[0]
				work = work[1:]
				if seen[s.at] {
					continue
				}
				seen[s.at] = true
				// constructors establish the first entry of the table: not a block boundary
				if !recvIsCoder(s.fn) {
					continue
				}
				for _, iff := range decidingBranches(s.fn, s.at.Block()) {
					if isErrNilCond(iff.Cond) {
						continue
					}
					n++
					key := fmt.Sprintf("%s/block-close-branch-%d", fnName(s.fn), n)
					if what := nonCounterOperand(iff.Cond, map[ssa.Value]bool{}, isCoder); what != "" {
						r.bad(key, fnName(s.fn), c.pos(condPos(iff)), "whether the document coder closes a block here ("+s.why+") depends on "+what+", not only on the number of documents added and the block size; the reader locates a document's block as docNum / block size, so a block closed early puts every later document of the group into a block the reader does not look in")
					} else {
						r.ok(key, fnName(s.fn), c.pos(condPos(iff)), "block closed as a function of counters only ("+s.why+")")
					}
				}
				// lift to the coder's methods that call this one
				for _, g := range c.srcFns {
					if !recvIsCoder(g) {
						continue
					}
					for _, b := range g.Blocks {
						for _, ins := range b.Instrs {
							if ci, ok := ins.(ssa.CallInstruction); ok && ci.Common().StaticCallee() == s.fn {
								work = append(work, site{g, ins, "calls " + fnName(s.fn) + ", which " + s.why})
							}
						}
					}
				}
			}
			if len(closers) == 0 {
				r.undecided("block-close/anchor", "", "", "no append to a []uint64 table field of chunkedDocumentCoder found: the construct that closes a block of stored documents is not recognised")
			}
		},
	})
}

func fieldOfAddr(fa *ssa.FieldAddr) *types.Var {
	t := fa.X.Type()
	if p, ok := t.Underlying().(*types.Pointer); ok {
		t = p.Elem()
	}
	st, ok := t.Underlying().(*types.Struct)
	if !ok || fa.Field >= st.NumFields() {
		return nil
	}
	return st.Field(fa.Field)
}

func condPos(iff *ssa.If) token.Pos {
	if p := iff.Cond.Pos(); p.IsValid() {
		return p
	}
	if bo, ok := iff.Cond.(*ssa.BinOp); ok {
		if p := bo.X.Pos(); p.IsValid() {
			return p
		}
	}
	return iff.Pos()
}

// decidingBranches: the If instructions of fn exactly one of whose successors can reach target.
func decidingBranches(fn *ssa.Function, target *ssa.BasicBlock) []*ssa.If {
	reach := map[*ssa.BasicBlock]bool{}
	var back func(b *ssa.BasicBlock)
	back = func(b *ssa.BasicBlock) {
		if reach[b] {
			return
		}
		reach[b] = true
		for _, p := range b.Preds {
			back(p)
		}
	}
	back(target)
	var out []*ssa.If
	for _, b := range fn.Blocks {
		if len(b.Instrs) == 0 || len(b.Succs) != 2 || b == target {
			continue
		}
		iff, ok := b.Instrs[len(b.Instrs)-1].(*ssa.If)
		if !ok {
			continue
		}
		if reach[b.Succs[0]] != reach[b.Succs[1]] {
			out = append(out, iff)
		}
	}
	return out
}

func isErrNilCond(v ssa.Value) bool {
	bo, ok := v.(*ssa.BinOp)
	if !ok || (bo.Op != token.EQL && bo.Op != token.NEQ) {
		return false
	}
	return isErrorType(bo.X.Type()) || isErrorType(bo.Y.Type())
}

// nonCounterOperand: "" when v is computed from integer fields of the coder, parameters and constants only.
func nonCounterOperand(v ssa.Value, seen map[ssa.Value]bool, isCoder func(types.Type) bool) string {
	if seen[v] {
		return ""
	}
	seen[v] = true
	isInt := func(t types.Type) bool {
		b, ok := t.Underlying().(*types.Basic)
		return ok && b.Info()&types.IsInteger != 0
	}
	switch x := v.(type) {
	case *ssa.Const, *ssa.Parameter:
		return ""
	case *ssa.BinOp:
		if s := nonCounterOperand(x.X, seen, isCoder); s != "" {
			return s
		}
		return nonCounterOperand(x.Y, seen, isCoder)
	case *ssa.UnOp:
		if x.Op == token.MUL {
			if fa, ok := x.X.(*ssa.FieldAddr); ok {
				sf := fieldOfAddr(fa)
				if sf != nil && isInt(sf.Type()) {
					return ""
				}
				if sf != nil {
					return "the field " + sf.Name() + " (not a counter)"
				}
			}
			if g, ok := x.X.(*ssa.Global); ok && isInt(x.Type()) {
				_ = g
				return ""
			}
			return "a value loaded from " + x.X.String()
		}
		return nonCounterOperand(x.X, seen, isCoder)
	case *ssa.Convert:
		return nonCounterOperand(x.X, seen, isCoder)
	case *ssa.ChangeType:
		return nonCounterOperand(x.X, seen, isCoder)
	case *ssa.Phi:
		for _, e := range x.Edges {
			if s := nonCounterOperand(e, seen, isCoder); s != "" {
				return s
			}
		}
		return ""
	case *ssa.Call:
		name := "a call"
		if sc := x.Call.StaticCallee(); sc != nil {
			// a predicate or accessor of the coder family: what it returns, with what it is given
			if len(sc.Blocks) > 0 && sc.Signature.Recv() != nil && isCoder(sc.Signature.Recv().Type()) && sc.Signature.Results().Len() == 1 {
				for _, a := range x.Call.Args[1:] {
					if s := nonCounterOperand(a, seen, isCoder); s != "" {
						return s
					}
				}
				for _, b := range sc.Blocks {
					if ret, ok := b.Instrs[len(b.Instrs)-1].(*ssa.Return); ok && len(ret.Results) == 1 {
						if s := nonCounterOperand(ret.Results[0], seen, isCoder); s != "" {
							return s
						}
					}
				}
				return ""
			}
			name = fnName(sc) + "()"
		} else if bi, ok := x.Call.Value.(*ssa.Builtin); ok {
			name = bi.Name() + "(...)"
		}
		return "the result of " + name
	case *ssa.Extract:
		return nonCounterOperand(x.Tuple, seen, isCoder)
	}
	return "a value of kind " + fmt.Sprintf("%T", v)
}
