package main

func thorough(vd string, c *Ctx, p *Property, res *propResult, ev *Evidence) {
}

func writeGolden(c *Ctx, path string) error { return writeGoldenFile(c, path) }
