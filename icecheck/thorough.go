package main

// Thorough tier: more build configurations, VTA call-graph cross-check, the
// both-ways self test on the mutant corpus, and cross-reference runs of the
// generic pre-built tools (non-gating).

import (
	"context"
	"encoding/json"
	"fmt"
	"os"
	"os/exec"
	"path/filepath"
	"sort"
	"strings"
	"sync"
	"time"
)

func writeGolden(c *Ctx, path string) error { return writeGoldenFile(c, path) }

type configResult struct {
	Config      string   `json:"config"`
	Obligations int      `json:"obligations"`
	Discharged  int      `json:"discharged"`
	Differences []string `json:"differences_from_default,omitempty"`
	Error       string   `json:"error,omitempty"`
}

func statusMap(res *propResult) map[string]string {
	m := map[string]string{}
	for _, o := range res.all {
		m[o.Key] = o.Status
	}
	return m
}

func thorough(vd string, c *Ctx, p *Property, res *propResult, ev *Evidence) {
	base := statusMap(res)

	// 1. other build configurations (cover what the build covers)
	configs := []struct {
		name string
		env  []string
		tags string
	}{
		{"linux/386", []string{"GOARCH=386"}, ""},
		{"windows/amd64", []string{"GOOS=windows"}, ""},
		{"darwin/arm64", []string{"GOOS=darwin", "GOARCH=arm64"}, ""},
		{"linux/amd64 -tags verif", nil, "verif"},
	}
	var cfgResults []configResult
	for _, cf := range configs {
		cr := configResult{Config: cf.name}
		c2, err := loadCtx(loadOpts{dir: c.Dir, rootPath: rootPkgPath, config: cf.name, env: cf.env, tags: cf.tags})
		if err != nil {
			cr.Error = err.Error()
			res.extraViolations = append(res.extraViolations, "configuration "+cf.name+" cannot be analysed: "+err.Error())
			cfgResults = append(cfgResults, cr)
			continue
		}
		r2 := evalProperty(c2, p)
		cr.Obligations = len(r2.all)
		m2 := statusMap(r2)
		for _, o := range r2.all {
			if o.st == Discharged {
				cr.Discharged++
			}
			if base[o.Key] != o.Status {
				cr.Differences = append(cr.Differences, fmt.Sprintf("%s: %s here, %q in the default configuration", o.Key, o.Status, base[o.Key]))
				if o.st != Discharged {
					o.Msg = "[" + cf.name + "] " + o.Msg
					res.all = append(res.all, o)
				}
			}
		}
		for k := range base {
			if _, ok := m2[k]; !ok {
				cr.Differences = append(cr.Differences, k+": obligation absent in this configuration")
			}
		}
		res.extraViolations = append(res.extraViolations, prefixAll("["+cf.name+"] ", r2.extraViolations)...)
		cfgResults = append(cfgResults, cr)
		c2 = nil
	}
	ev.Coverage["configurations"] = cfgResults

	// 2. VTA call graph cross-check (reachability-scoped rules may change)
	if c.VTA != nil {
		c.UseVTA = true
		c.entr = nil
		r3 := evalProperty(c, p)
		c.UseVTA = false
		c.entr = nil
		m3 := statusMap(r3)
		var diffs []string
		for k, s := range base {
			if s3, ok := m3[k]; ok && s3 != s {
				diffs = append(diffs, fmt.Sprintf("%s: CHA %s, VTA %s", k, s, s3))
			}
		}
		for _, o := range r3.all {
			if _, ok := base[o.Key]; !ok && o.st != Discharged {
				diffs = append(diffs, fmt.Sprintf("%s: only with the VTA graph: %s", o.Key, o.Status))
			}
		}
		sort.Strings(diffs)
		ev.Coverage["vta_crosscheck"] = map[string]interface{}{"obligations": len(r3.all), "disagreements": diffs}
		for _, d := range diffs {
			res.extraViolations = append(res.extraViolations, "undecided: CHA and VTA call graphs disagree on "+d)
		}
	}

	// 3. both-ways self test on the mutant corpus
	baseClean := len(res.extraViolations) == 0
	for _, o := range res.all {
		if o.st != Discharged {
			baseClean = false
		}
	}
	st := selfTest(vd, c.Dir, p.ID)
	ev.Coverage["selftest"] = st
	if baseClean {
		// the tree itself is clean for this property: a mismatch is a defect of the checker
		if len(st.Mismatches) > 0 {
			for _, m := range st.Mismatches {
				fmt.Println("SELFTEST-MISMATCH:", m)
			}
			panic(infra("the both-ways self test of the checker failed for %d patch(es): the checker is broken, no verdict", len(st.Mismatches)))
		}
	}

	// 4. cross-reference: generic tools (non-gating)
	ev.Coverage["cross_reference"] = crossReference(c.Dir)
}

func prefixAll(p string, in []string) []string {
	var out []string
	for _, s := range in {
		out = append(out, p+s)
	}
	return out
}

type expectFile struct {
	Breaking map[string]struct {
		CaughtBy []string `json:"caught_by"`
		Targets  string   `json:"targets"`
	} `json:"breaking"`
	Benign []string `json:"benign"`
}

type selfTestResult struct {
	BreakingRun    int      `json:"breaking_run"`
	BreakingCaught int      `json:"breaking_caught"`
	BenignRun      int      `json:"benign_run"`
	BenignSilent   int      `json:"benign_silent"`
	Skipped        []string `json:"skipped_patch_does_not_apply,omitempty"`
	Mismatches     []string `json:"mismatches,omitempty"`
	KnownMisses    []string `json:"breaking_patches_no_rule_catches,omitempty"`
	Samples        []string `json:"samples,omitempty"`
	WallS          float64  `json:"wall_s"`
	Explanation    string   `json:"explanation"`
}

// selfTest applies every patch of the corpus that concerns property id to a
// scratch copy of the current tree (outside /repo and /verif, removed
// afterwards) and runs the quick check of that property on the copy in a
// separate process.
func selfTest(vd, repo, id string) *selfTestResult {
	start := time.Now()
	st := &selfTestResult{}
	b, err := os.ReadFile(filepath.Join(vd, "mutants", "expect.json"))
	if err != nil {
		st.Mismatches = append(st.Mismatches, "cannot read mutants/expect.json: "+err.Error())
		return st
	}
	var ex expectFile
	if err := json.Unmarshal(b, &ex); err != nil {
		st.Mismatches = append(st.Mismatches, "mutants/expect.json: "+err.Error())
		return st
	}
	st.Explanation = fmt.Sprintf("the corpus holds %d breaking patches (reverse patches of the ten repairs and independently produced, confirmed seeded defects) and %d benign refactorings; every breaking patch the expectation file lists for this property must be reported by it, every benign patch must leave it silent; patches are applied to a scratch copy of the current tree", len(ex.Breaking), len(ex.Benign))
	type job struct {
		patch     string
		wantCatch bool
	}
	var jobs []job
	var names []string
	for n := range ex.Breaking {
		names = append(names, n)
	}
	sort.Strings(names)
	for _, n := range names {
		e := ex.Breaking[n]
		if len(e.CaughtBy) == 0 {
			if strings.Contains(n, id) {
				st.KnownMisses = append(st.KnownMisses, n)
			}
			continue
		}
		for _, pid := range e.CaughtBy {
			if pid == id {
				jobs = append(jobs, job{n, true})
			}
		}
	}
	for _, n := range ex.Benign {
		jobs = append(jobs, job{n, false})
	}
	exe, _ := os.Executable()
	var mu sync.Mutex
	var wg sync.WaitGroup
	sem := make(chan struct{}, 14)
	for _, j := range jobs {
		wg.Add(1)
		sem <- struct{}{}
		go func(j job) {
			defer wg.Done()
			defer func() { <-sem }()
			rc, applied, out := runOnPatched(exe, vd, repo, filepath.Join(vd, j.patch), id)
			mu.Lock()
			defer mu.Unlock()
			if !applied {
				st.Skipped = append(st.Skipped, j.patch)
				return
			}
			if j.wantCatch {
				st.BreakingRun++
				if rc == 1 {
					st.BreakingCaught++
					if len(st.Samples) < 6 {
						st.Samples = append(st.Samples, j.patch+" -> reported: "+firstViolation(out))
					}
				} else {
					st.Mismatches = append(st.Mismatches, fmt.Sprintf("%s should be reported by %s but the check exited %d", j.patch, id, rc))
				}
			} else {
				st.BenignRun++
				if rc == 0 {
					st.BenignSilent++
				} else {
					st.Mismatches = append(st.Mismatches, fmt.Sprintf("benign %s raised an alarm in %s (exit %d): %s", j.patch, id, rc, firstViolation(out)))
				}
			}
		}(j)
	}
	wg.Wait()
	sort.Strings(st.Skipped)
	sort.Strings(st.Mismatches)
	sort.Strings(st.Samples)
	st.WallS = time.Since(start).Seconds()
	return st
}

func firstViolation(out string) string {
	lines := strings.Split(out, "\n")
	for i, l := range lines {
		if strings.HasPrefix(l, "VIOLATION") && i+1 < len(lines) {
			return strings.TrimSpace(lines[i+1])
		}
	}
	for _, l := range lines {
		if strings.HasPrefix(l, "INFRA") {
			return l
		}
	}
	return ""
}

func runOnPatched(exe, vd, repo, patch, id string) (rc int, applied bool, out string) {
	tmp, err := os.MkdirTemp("", "icemut")
	if err != nil {
		return 2, false, err.Error()
	}
	defer os.RemoveAll(tmp)
	if o, err := exec.Command("rsync", "-a", "--exclude", ".git", repo+"/", tmp+"/").CombinedOutput(); err != nil {
		return 2, false, string(o)
	}
	ap := exec.Command("git", "apply", "--whitespace=nowarn", patch)
	ap.Dir = tmp
	if err := ap.Run(); err != nil {
		return 0, false, ""
	}
	ctx, cancel := context.WithTimeout(context.Background(), 5*time.Minute)
	defer cancel()
	cmd := exec.CommandContext(ctx, exe, "-property", id, "-tier", "quick", "-repo", tmp, "-verif", vd, "-nocontrols", "-noevidence")
	o, err := cmd.CombinedOutput()
	rc = 0
	if ee, ok := err.(*exec.ExitError); ok {
		rc = ee.ExitCode()
	} else if err != nil {
		rc = 2
	}
	return rc, true, string(o)
}

type xref struct {
	Tool    string `json:"tool"`
	Cmd     string `json:"cmd"`
	Exit    int    `json:"exit"`
	Reports int    `json:"report_lines"`
	Head    string `json:"first_lines,omitempty"`
	Note    string `json:"note"`
}

func crossReference(repo string) []xref {
	var out []xref
	run := func(tool, note string, args ...string) {
		if _, err := exec.LookPath(args[0]); err != nil {
			out = append(out, xref{Tool: tool, Cmd: strings.Join(args, " "), Exit: -1, Note: "tool not found"})
			return
		}
		ctx, cancel := context.WithTimeout(context.Background(), 4*time.Minute)
		defer cancel()
		cmd := exec.CommandContext(ctx, args[0], args[1:]...)
		cmd.Dir = repo
		cmd.Env = append(os.Environ(), "GOFLAGS=-mod=mod", "GOPROXY=off", "GOSUMDB=off", "GOTOOLCHAIN=local", "GOWORK=off")
		o, err := cmd.CombinedOutput()
		rc := 0
		if ee, ok := err.(*exec.ExitError); ok {
			rc = ee.ExitCode()
		} else if err != nil {
			rc = -2
		}
		lines := strings.Split(strings.TrimSpace(string(o)), "\n")
		n := 0
		for _, l := range lines {
			if strings.TrimSpace(l) != "" && !strings.HasPrefix(l, "#") {
				n++
			}
		}
		head := strings.Join(lines[:minInt(len(lines), 6)], " | ")
		if len(head) > 600 {
			head = head[:600]
		}
		out = append(out, xref{Tool: tool, Cmd: strings.Join(args, " "), Exit: rc, Reports: n, Head: head, Note: note})
	}
	run("go vet", "generic; cross-reference only, not a verdict on any property", "go", "vet", "./...")
	run("staticcheck", "generic; cross-reference only", "staticcheck", "./...")
	run("errcheck", "generic dropped-error lint; the repository-specific rule is ERR-FLOW", "errcheck", "-blank", "./...")
	return out
}

func minInt(a, b int) int {
	if a < b {
		return a
	}
	return b
}
