package main

// C04 — presence of every section the loader parses, adjacency assumptions,
// and the in-memory image of a built segment.

import (
	"fmt"
	"go/constant"
	"go/token"
	"go/types"
	"strings"

	"golang.org/x/tools/go/ssa"
)

// loaderGuard inspects the start of a loader: which early `return nil` exits
// precede its first Data.Read, and on what footer conditions.
type loaderGuardInfo struct {
	numDocsZero   bool // returns early whenever footer.numDocs == 0
	numDocsAndOff bool // returns early when numDocs == 0 && <offset field> == 0
	desc          string
}

func (c *Ctx) loaderGuard(fn *ssa.Function) loaderGuardInfo {
	var g loaderGuardInfo
	// blocks reachable from entry before any Data.Read
	firstReadBlocks := map[*ssa.BasicBlock]bool{}
	for _, b := range fn.Blocks {
		for _, ins := range b.Instrs {
			if call, ok := ins.(*ssa.Call); ok && isDataRead(&call.Call) {
				firstReadBlocks[b] = true
			}
		}
	}
	mentions := func(v ssa.Value, field string) bool {
		ld, ok := v.(*ssa.UnOp)
		return ok && ld.Op == token.MUL && strings.HasSuffix(accessPath(ld.X), ".footer."+field)
	}
	isZero := func(v ssa.Value) bool { k, ok := constUint(v); return ok && k == 0 }
	// walk the chain of condition blocks from entry
	type cond struct {
		field string
		eq    bool
	}
	var walk func(b *ssa.BasicBlock, trail []cond, depth int)
	walk = func(b *ssa.BasicBlock, trail []cond, depth int) {
		if depth > 6 || firstReadBlocks[b] {
			return
		}
		if ret, ok := b.Instrs[len(b.Instrs)-1].(*ssa.Return); ok {
			if isNilConst(ret.Results[len(ret.Results)-1]) {
				// early success return: which conditions hold?
				nd, off := false, false
				for _, t := range trail {
					if t.field == "numDocs" && t.eq {
						nd = true
					}
					if strings.HasSuffix(t.field, "Offset") && t.eq {
						off = true
					}
				}
				// the same through a predicate of the footer (hasNoStoredSection()) or any other spelling
				// that path facts see
				for _, f := range edgePathFacts(fn) {
					if f.nonzero || !(f.edge == b || f.edge.Dominates(b)) {
						continue
					}
					if strings.HasSuffix(f.path, ".numDocs") {
						nd = true
					}
					if strings.HasSuffix(f.path, "Offset") {
						off = true
					}
				}
				if nd && !off {
					g.numDocsZero = true
				}
				if nd && off {
					g.numDocsAndOff = true
				}
			}
			return
		}
		ifi, ok := b.Instrs[len(b.Instrs)-1].(*ssa.If)
		if !ok {
			for _, s := range b.Succs {
				walk(s, trail, depth+1)
			}
			return
		}
		// a predicate helper of the segment (`if !s.hasDocValues() { return nil }`): when it is
		// false whenever footer.numDocs == 0, its false edge is taken for every empty segment
		{
			cv, neg := ifi.Cond, false
			for {
				u, ok := cv.(*ssa.UnOp)
				if !ok || u.Op != token.NOT {
					break
				}
				neg = !neg
				cv = u.X
			}
			if pc, ok := cv.(*ssa.Call); ok && pc.Call.StaticCallee() != nil && c.inRoot(pc.Call.StaticCallee()) {
				if predicateFalseWhenFieldZero(pc.Call.StaticCallee(), "numDocs") {
					falseSucc, trueSucc := b.Succs[1], b.Succs[0]
					if neg {
						falseSucc, trueSucc = trueSucc, falseSucc
					}
					walk(falseSucc, append(append([]cond{}, trail...), cond{"numDocs", true}), depth+1)
					walk(trueSucc, append(append([]cond{}, trail...), cond{"numDocs", false}), depth+1)
					return
				}
			}
		}
		bin, ok := ifi.Cond.(*ssa.BinOp)
		if !ok || (bin.Op != token.EQL && bin.Op != token.NEQ) {
			// a predicate call or a compound condition: both ways, what holds is read from the
			// path facts at the return
			walk(b.Succs[0], trail, depth+1)
			walk(b.Succs[1], trail, depth+1)
			return
		}
		field := ""
		for _, f := range []string{"numDocs", "storedIndexOffset", "docValueOffset", "fieldsIndexOffset"} {
			if mentions(bin.X, f) && isZero(bin.Y) {
				field = f
			}
		}
		if field == "" {
			// another test (e.g. docValueOffset == fieldNotUninverted): follow both edges without a fact
			walk(b.Succs[0], trail, depth+1)
			walk(b.Succs[1], trail, depth+1)
			return
		}
		eqSucc, neSucc := b.Succs[0], b.Succs[1]
		if bin.Op == token.NEQ {
			eqSucc, neSucc = neSucc, eqSucc
		}
		walk(eqSucc, append(append([]cond{}, trail...), cond{field, true}), depth+1)
		walk(neSucc, append(append([]cond{}, trail...), cond{field, false}), depth+1)
	}
	walk(fn.Blocks[0], nil, 0)
	switch {
	case g.numDocsZero:
		g.desc = "returns before reading when footer.numDocs == 0"
	case g.numDocsAndOff:
		g.desc = "returns before reading when footer.numDocs == 0 and the section offset is 0"
	default:
		g.desc = "parses the section unconditionally"
	}
	return g
}

// callsIn: call instructions in fn whose static callee is one of names.
func callsInFn(fn *ssa.Function, names map[string]bool) []*ssa.Call {
	var out []*ssa.Call
	for _, b := range fn.Blocks {
		for _, ins := range b.Instrs {
			if call, ok := ins.(*ssa.Call); ok {
				if sc := call.Call.StaticCallee(); sc != nil && names[fnName(sc)] {
					out = append(out, call)
				}
			}
		}
	}
	return out
}

func successReturns(fn *ssa.Function) []*ssa.BasicBlock {
	var out []*ssa.BasicBlock
	for _, b := range fn.Blocks {
		if ret, ok := b.Instrs[len(b.Instrs)-1].(*ssa.Return); ok {
			if isNilConst(resolveLoad(ret.Results[len(ret.Results)-1])) {
				out = append(out, b)
			}
		}
	}
	return out
}

func init() {
	register(&Rule{
		Name:  "SECTION-PRESENT",
		Floor: 6,
		Doc:   "load() parses the fields section, the stored-chunk trailer and the doc-value index; for each, either every successful path of both data-section writers (builder convert, merger mergeToWriter) passes through the emitter of that section, or the loader skips the section under a footer condition (numDocs == 0, offset == 0) and the writer's skipping path is exactly the branch on which the document count is 0 (and leaves that offset 0)",
		Run: func(c *Ctx, scope string, r *Report) {
			type section struct {
				name     string
				loader   string
				emitters map[string]map[string]bool // writer -> emitter callees
			}
			sections := []section{
				{"fields", "(*Segment).loadFields", map[string]map[string]bool{
					"(*interim).convert": {"persistFields": true}, "mergeToWriter": {"persistFields": true}}},
				{"stored", "(*Segment).loadStoredFieldChunk", map[string]map[string]bool{
					"(*interim).convert": {"(*interim).writeStoredFields": true}, "mergeToWriter": {"mergeStoredAndRemap": true}}},
				{"docvalues", "(*Segment).loadDvReaders", map[string]map[string]bool{
					"(*interim).convert": {"(*interim).writeDicts": true}, "mergeToWriter": {"persistMergedRest": true}}},
			}
			// load() must call all three loaders on its success path
			ld := c.MustFn("load")
			for _, s := range sections {
				key := "load/" + s.name
				calls := callsInFn(ld, map[string]bool{s.loader: true})
				ok := len(calls) > 0
				for _, rb := range successReturns(ld) {
					dom := false
					for _, call := range calls {
						if call.Block() == rb || call.Block().Dominates(rb) {
							dom = true
						}
					}
					if !dom {
						ok = false
					}
				}
				if !ok && len(calls) == 0 && runsThroughStepTable(c, ld, c.MustFn(s.loader)) {
					r.ok(key, "load", c.pos(ld.Pos()), "load() runs "+s.loader+" as one entry of a table of steps that it walks completely unless a step fails")
					continue
				}
				if ok {
					r.ok(key, "load", c.pos(ld.Pos()), "load() always runs "+s.loader)
				} else {
					r.bad(key, "load", c.pos(ld.Pos()), "load() can succeed without running "+s.loader)
				}
			}
			for _, s := range sections {
				g := c.loaderGuard(c.MustFn(s.loader))
				for writer, ems := range s.emitters {
					wf := c.MustFn(writer)
					key := writer + "/" + s.name
					calls := callsInFn(wf, ems)
					if len(calls) == 0 {
						// the tail of the writer split off: `return s.writeSections()` - the sections are
						// written where the helper writes them, and the writer succeeds only through it
						if h := tailHelper(c, wf); h != nil && len(callsInFn(h, ems)) > 0 {
							wf = h
							calls = callsInFn(wf, ems)
						}
					}
					if len(calls) == 0 {
						r.undecided(key, writer, c.pos(wf.Pos()), "the emitter of the "+s.name+" section is no longer called here: "+strings.Join(keys(ems), ","))
						continue
					}
					var skipping []*ssa.BasicBlock
					for _, rb := range successReturns(wf) {
						dom := false
						for _, call := range calls {
							if call.Block() == rb || call.Block().Dominates(rb) {
								dom = true
							}
						}
						if !dom {
							skipping = append(skipping, rb)
						}
					}
					if len(skipping) == 0 {
						r.ok(key, writer, c.pos(calls[0].Pos()), "every successful path writes the "+s.name+" section; loader "+g.desc)
						continue
					}
					if !g.numDocsZero && !g.numDocsAndOff {
						r.bad(key, writer, c.pos(calls[0].Pos()), "a successful path of "+writer+" skips the "+s.name+" section but "+s.loader+" "+g.desc+": such a file cannot be loaded")
						continue
					}
					// the skip must be the numDocs == 0 branch
					okSkip, why := c.skipIsZeroDocs(wf, calls[0])
					if !okSkip {
						r.bad(key, writer, c.pos(calls[0].Pos()), "the "+s.name+" section is skipped on a path that is not the zero-document branch: "+why)
						continue
					}
					if g.numDocsAndOff {
						if ok2, why2 := c.offsetZeroWhenSkipped(wf, s.name); !ok2 {
							r.bad(key, writer, c.pos(calls[0].Pos()), "the loader skips only when the section offset is 0, but "+why2)
							continue
						}
					}
					r.ok(key, writer, c.pos(calls[0].Pos()), "the "+s.name+" section is skipped only on the zero-document branch; loader "+g.desc)
				}
			}
		},
	})

	register(&Rule{
		Name:  "ADJACENCY",
		Floor: 3,
		Doc:   "layout assumptions the loader makes implicitly: persistFields is the last writer-reaching call of both data-section writers (the fields index immediately precedes the footer); nothing is written between chunkedDocumentCoder.Write() and the capture of the stored index offset (the trailer immediately precedes the stored index)",
		Run: func(c *Ctx, scope string, r *Report) {
			pf := c.MustFn("persistFields")
			for _, site := range c.callsTo(pf) {
				fn := site.Parent()
				key := fnName(fn) + "/fields-last"
				wArg := site.Common().Args[3]
				bad := ""
				for _, b := range fn.Blocks {
					for _, ins := range b.Instrs {
						ci, ok := ins.(ssa.CallInstruction)
						if !ok || ins == ssa.Instruction(site) {
							continue
						}
						// after the persistFields call?
						after := (b == site.Block() && instrIndex(ins) > instrIndex(site)) || (b != site.Block() && site.Block().Dominates(b))
						if !after {
							continue
						}
						for _, a := range ci.Common().Args {
							if sameWriterValue(a, wArg) {
								if sc := ci.Common().StaticCallee(); sc != nil && (sc.Name() == "Count" || sc.Name() == "Sum32") {
									continue
								}
								bad = calleeFullName(ci.Common()) + " at " + c.pos(ins.Pos()) + " uses the writer after the fields section"
							}
						}
					}
				}
				if bad != "" {
					r.bad(key, fnName(fn), c.pos(site.Pos()), "the fields index must immediately precede the footer, but "+bad)
				} else {
					r.ok(key, fnName(fn), c.pos(site.Pos()), "persistFields is the last write of the data section")
				}
			}
			cw := c.MustFn("(*chunkedDocumentCoder).Write")
			for _, site := range c.callsTo(cw) {
				fn := site.Parent()
				if fn.Pkg != c.SSA || strings.HasPrefix(fnName(fn), "(*chunkedDocumentCoder)") {
					continue
				}
				key := fnName(fn) + "/trailer-adjacent"
				// next Count() call on a countHashWriter reachable after site; no writer-taking call in between
				ok, why := trailerAdjacent(c, fn, site)
				if ok {
					r.ok(key, fnName(fn), c.pos(site.Pos()), "the stored index offset is captured right after the chunk trailer is written")
				} else {
					r.bad(key, fnName(fn), c.pos(site.Pos()), why)
				}
			}
		},
	})

	register(&Rule{
		Name:  "MEM-IMAGE",
		Floor: 1,
		Doc:   "the in-memory segment returned by the builder keeps the very bytes written through the hashing writer: initSegmentBase gets Bytes() of the buffer that the builder's countHashWriter wraps, and Segment.WriteTo emits exactly that data followed by the footer (LEN-RETURN, WIRE-AGREE footer)",
		Run: func(c *Ctx, scope string, r *Report) {
			nw := c.MustFn("newWithChunkMode")
			isb := c.MustFn("initSegmentBase")
			key := "newWithChunkMode/bytes"
			var bufAlloc ssa.Value
			for _, site := range c.callsTo(isb) {
				if site.Parent() != nw {
					continue
				}
				if call, ok := site.Common().Args[0].(*ssa.Call); ok {
					if sc := call.Call.StaticCallee(); sc != nil && funcFullName(sc) == "bytes.(*Buffer).Bytes" {
						bufAlloc = call.Call.Args[0]
					}
				}
			}
			if bufAlloc == nil {
				r.bad(key, "newWithChunkMode", c.pos(nw.Pos()), "initSegmentBase is not given Bytes() of a buffer")
				return
			}
			// s.w = newCountHashWriter(&br)
			wrapped := false
			it := c.NamedType("interim").Obj()
			for _, st := range c.census().fieldStores[fieldKey{it, "w"}] {
				if st.fn != nw {
					continue
				}
				_, _, base := writerChain(st.val)
				if base == bufAlloc {
					wrapped = true
				}
			}
			if wrapped {
				r.ok(key, "newWithChunkMode", c.pos(nw.Pos()), "segment bytes = Bytes() of the buffer wrapped by the builder's countHashWriter")
			} else {
				r.bad(key, "newWithChunkMode", c.pos(nw.Pos()), "the bytes kept by the segment are not those of the buffer the sections were written through")
			}
			// every section writer of the builder writes through s.w: convert passes s.w to persistFields and the coders
			cv := c.MustFn("(*interim).convert")
			key = "(*interim).convert/writer"
			n, bad := 0, ""
			cvBlocks := append([]*ssa.BasicBlock{}, cv.Blocks...)
			if h := tailHelper(c, cv); h != nil {
				cvBlocks = append(cvBlocks, h.Blocks...) // the section writers may sit in the split-off tail
			}
			for _, b := range cvBlocks {
				for _, ins := range b.Instrs {
					ci, ok := ins.(ssa.CallInstruction)
					if !ok {
						continue
					}
					for _, a := range ci.Common().Args {
						if isNamed(a.Type(), rootPkgPath, "countHashWriter") {
							n++
							if !strings.HasSuffix(accessPath(a), "s.w") {
								bad = "a section writer is given " + accessPath(a) + " instead of s.w at " + c.pos(ins.Pos())
							}
						}
					}
				}
			}
			if bad != "" || n == 0 {
				if bad == "" {
					bad = "convert passes the hashing writer to no section writer"
				}
				r.bad(key, fnName(cv), c.pos(cv.Pos()), bad)
			} else {
				r.ok(key, fnName(cv), c.pos(cv.Pos()), fmt.Sprintf("%d section-writer call(s) receive s.w", n))
			}
		},
	})
}

func sameWriterValue(a, w ssa.Value) bool {
	if a == w {
		return true
	}
	_, _, ab := writerChain(a)
	_, _, wb := writerChain(w)
	if ab == wb {
		return true
	}
	return accessPath(a) == accessPath(w) && strings.Contains(accessPath(a), ".")
}

// skipIsZeroDocs: the emitter call is control-dependent on `X > 0` (true edge)
// where X is the document count of the segment being written.
func (c *Ctx) skipIsZeroDocs(fn *ssa.Function, emitter *ssa.Call) (bool, string) {
	for b := emitter.Block(); b != nil; b = b.Idom() {
		idom := b.Idom()
		if idom == nil {
			break
		}
		ifi, ok := idom.Instrs[len(idom.Instrs)-1].(*ssa.If)
		if !ok || (idom.Succs[0] != b && idom.Succs[1] != b) || len(b.Preds) != 1 {
			continue
		}
		bin, ok := ifi.Cond.(*ssa.BinOp)
		if !ok {
			continue
		}
		// `X > 0` / `X != 0` on the true edge, or `X == 0` / `X <= 0` on the false edge
		nonZero, isCmp := cmpZeroAtom(bin, func(ssa.Value) bool { return true })
		if !isCmp {
			if idom.Succs[0] == b {
				return false, "the guarding condition is " + bin.String()
			}
			continue // fall-through edge of an unrelated test (an error check)
		}
		if (nonZero && idom.Succs[0] != b) || (!nonZero && idom.Succs[1] != b) {
			return false, "the emitter runs on the zero-document edge of " + bin.String()
		}
		x := forwardFieldLoad(bin.X)
		// merger: X is the value stored to footer.numDocs
		ft := c.NamedType("footer").Obj()
		for _, st := range c.census().fieldStores[fieldKey{ft, "numDocs"}] {
			if st.fn == fn && st.val == x {
				return true, ""
			}
		}
		// builder: X = len(s.results), and newWithChunkMode records uint64(len(results)) with s.results = results
		if y, name, ok := lenOrCapOf(x); ok && name == "len" && strings.HasSuffix(accessPath(y), "s.results") {
			return true, ""
		}
		return false, "the guarding condition tests " + x.String() + ", which is not the document count recorded in the footer"
	}
	// the guard spelled through a predicate (noSurvivors(n)) or as a case of a tagless switch:
	// the value recorded as the footer's document count is known non-zero at the emitter
	ft := c.NamedType("footer").Obj()
	for _, st := range c.census().fieldStores[fieldKey{ft, "numDocs"}] {
		if st.fn != fn {
			continue
		}
		if pathKnown(fn, accessPath(stripConv(st.val)), true, emitter.Block()) {
			return true, ""
		}
	}
	return false, "the emitter is not under a document-count guard"
}

// offsetZeroWhenSkipped: the footer literal's section offset is the constant 0
// on every path that does not come from the emitter.
func (c *Ctx) offsetZeroWhenSkipped(fn *ssa.Function, section string) (bool, string) {
	field := map[string]string{"stored": "storedIndexOffset", "docvalues": "docValueOffset", "fields": "fieldsIndexOffset"}[section]
	ft := c.NamedType("footer").Obj()
	for _, st := range c.census().fieldStores[fieldKey{ft, field}] {
		if st.fn != fn {
			continue
		}
		v := st.val
		phi, ok := v.(*ssa.Phi)
		if !ok {
			// a footer allocated in this function and filled in as the sections are
			// written: where the single store of this field does not execute, the
			// field keeps the zero it was allocated with
			if s, isStore := st.ins.(*ssa.Store); isStore {
				if fa, isFa := s.Addr.(*ssa.FieldAddr); isFa {
					if al, isAlloc := fa.X.(*ssa.Alloc); isAlloc && al.Parent() == fn {
						n := 0
						for _, st2 := range c.census().fieldStores[fieldKey{ft, field}] {
							if st2.fn == fn {
								n++
							}
						}
						if _, isConst := v.(*ssa.Const); n == 1 && !isConst {
							return true, ""
						}
					}
				}
			}
			return false, "footer." + field + " is not a merge of the written offset and 0"
		}
		zero := false
		for _, e := range phi.Edges {
			if k, ok := constInt(e); ok && k == 0 {
				zero = true
			} else if _, isK := e.(*ssa.Const); isK {
				return false, "footer." + field + " is a non-zero constant when the section is skipped"
			}
		}
		if zero {
			return true, ""
		}
		return false, "footer." + field + " is never 0"
	}
	return false, "no store to footer." + field + " in " + fnName(fn)
}

// trailerAdjacent: after docChunkCoder.Write() the next use of the output
// writer is Count() whose value becomes the stored index offset.
func trailerAdjacent(c *Ctx, fn *ssa.Function, site ssa.CallInstruction) (bool, string) {
	return countIsNextWriterUse(c, site.Block(), instrIndex(site)+1, 0)
}

// usesWriter: fn (or an in-package callee, two levels) calls something with a
// writer-like argument or receiver.
func usesWriter(c *Ctx, fn *ssa.Function, depth int) bool {
	for _, b := range fn.Blocks {
		for _, ins := range b.Instrs {
			ci, ok := ins.(ssa.CallInstruction)
			if !ok {
				continue
			}
			for _, a := range ci.Common().Args {
				if isWriterLike(a.Type()) {
					return true
				}
			}
			if ci.Common().IsInvoke() && isWriterLike(ci.Common().Value.Type()) {
				return true
			}
			if sc := ci.Common().StaticCallee(); sc != nil && c.inRoot(sc) && sc.Blocks != nil && depth < 2 && sc != fn && usesWriter(c, sc, depth+1) {
				return true
			}
		}
	}
	return false
}

// countIsNextWriterUse: following the nil-error successor chain from
// instruction start of block b, the next use of an output writer is Count() —
// directly, or as the first writer use of an in-package helper the writer is
// handed to (the index writing extracted into a function).
func countIsNextWriterUse(c *Ctx, b *ssa.BasicBlock, start int, depth int) (bool, string) {
	for steps := 0; steps < 12 && b != nil; steps++ {
		for _, ins := range b.Instrs[start:] {
			ci, ok := ins.(ssa.CallInstruction)
			if !ok {
				continue
			}
			sc := ci.Common().StaticCallee()
			if sc != nil && fnName(sc) == "(*countHashWriter).Count" {
				return true, ""
			}
			// a method of the object that holds the writer (s.w) may use it without being handed it
			if sc != nil && c.inRoot(sc) && sc.Blocks != nil && depth < 2 && usesWriter(c, sc, 0) {
				hasWriterArg := false
				for _, a := range ci.Common().Args {
					if isWriterLike(a.Type()) {
						hasWriterArg = true
					}
				}
				if !hasWriterArg {
					if ok, _ := countIsNextWriterUse(c, sc.Blocks[0], 0, depth+1); ok {
						return true, ""
					}
					return false, calleeFullName(ci.Common()) + " at " + c.pos(ins.Pos()) + " uses the output writer between the chunk trailer and the capture of the stored index offset"
				}
			}
			for _, a := range ci.Common().Args {
				if isWriterLike(a.Type()) {
					if sc != nil && c.inRoot(sc) && sc.Blocks != nil && depth < 2 {
						if ok, _ := countIsNextWriterUse(c, sc.Blocks[0], 0, depth+1); ok {
							return true, ""
						}
					}
					return false, calleeFullName(ci.Common()) + " at " + c.pos(ins.Pos()) + " writes between the chunk trailer and the capture of the stored index offset"
				}
			}
		}
		// choose the successor on which the Write error is nil
		next := (*ssa.BasicBlock)(nil)
		if ifi, ok := b.Instrs[len(b.Instrs)-1].(*ssa.If); ok {
			_ = ifi
			// the error branch returns; follow the branch that does not end in Return immediately
			for _, s := range b.Succs {
				if _, isRet := s.Instrs[len(s.Instrs)-1].(*ssa.Return); !isRet || len(s.Instrs) > 12 {
					next = s
				}
			}
			if next == nil {
				next = b.Succs[1]
			}
		} else if len(b.Succs) == 1 {
			next = b.Succs[0]
		}
		b = next
		start = 0
	}
	return false, "no capture of the writer's Count() follows the chunk trailer"
}

// predicateFalseWhenFieldZero: fn is a small bool predicate whose result is
// false on every path whenever footer.<field> == 0.
func predicateFalseWhenFieldZero(fn *ssa.Function, field string) bool {
	if fn == nil || fn.Blocks == nil || len(fn.Blocks) > 12 || fn.Signature.Results().Len() != 1 || !isBoolType(fn.Signature.Results().At(0).Type()) {
		return false
	}
	isAtom := func(v ssa.Value) (neg, ok bool) {
		bin, isBin := v.(*ssa.BinOp)
		if !isBin || (bin.Op != token.EQL && bin.Op != token.NEQ) {
			return false, false
		}
		ld, isLd := bin.X.(*ssa.UnOp)
		if !isLd || ld.Op != token.MUL || !strings.HasSuffix(accessPath(ld.X), ".footer."+field) {
			return false, false
		}
		if k, isK := constUint(bin.Y); !isK || k != 0 {
			return false, false
		}
		return bin.Op == token.NEQ, true
	}
	var eval func(v ssa.Value, path []*ssa.BasicBlock) tri
	eval = func(v ssa.Value, path []*ssa.BasicBlock) tri {
		if neg, ok := isAtom(v); ok {
			if neg {
				return triFalse
			}
			return triTrue
		}
		switch x := v.(type) {
		case *ssa.Const:
			if x.Value != nil && x.Value.Kind() == constant.Bool {
				if constant.BoolVal(x.Value) {
					return triTrue
				}
				return triFalse
			}
		case *ssa.UnOp:
			if x.Op == token.NOT {
				return triNot(eval(x.X, path))
			}
		case *ssa.Phi:
			for i := len(path) - 1; i > 0; i-- {
				if path[i] == x.Block() {
					for k, pr := range x.Block().Preds {
						if pr == path[i-1] {
							return eval(x.Edges[k], path[:i])
						}
					}
				}
			}
		}
		return triUnknown
	}
	okAll, nret, seenAtom := true, 0, false
	for _, b := range fn.Blocks {
		for _, ins := range b.Instrs {
			if v, ok := ins.(ssa.Value); ok {
				if _, isA := isAtom(v); isA {
					seenAtom = true
				}
			}
		}
	}
	if !seenAtom {
		return false
	}
	var walk func(b *ssa.BasicBlock, path []*ssa.BasicBlock)
	walk = func(b *ssa.BasicBlock, path []*ssa.BasicBlock) {
		if len(path) > 24 || !okAll {
			okAll = okAll && len(path) <= 24
			return
		}
		path = append(path, b)
		switch last := b.Instrs[len(b.Instrs)-1].(type) {
		case *ssa.Return:
			nret++
			if eval(last.Results[0], path) != triFalse {
				okAll = false
			}
		case *ssa.If:
			switch eval(last.Cond, path) {
			case triTrue:
				walk(b.Succs[0], path)
			case triFalse:
				walk(b.Succs[1], path)
			default:
				walk(b.Succs[0], path)
				walk(b.Succs[1], path)
			}
		default:
			for _, s := range b.Succs {
				walk(s, path)
			}
		}
	}
	walk(fn.Blocks[0], nil)
	return okAll && nret > 0
}

// relOff evaluates v as anchor + constant, where isAnchor recognises the anchor value.
// constLike: a constant, or a load of a package-level variable that is only
// ever assigned one constant (in its initialiser), seen through conversions.
var constLikeCtx *Ctx

func constLike(v ssa.Value) (int64, bool) {
	v = stripConv(v)
	if k, ok := constInt(v); ok {
		return k, true
	}
	if ld, ok := v.(*ssa.UnOp); ok && ld.Op == token.MUL && constLikeCtx != nil {
		if g, ok := ld.X.(*ssa.Global); ok {
			sts := constLikeCtx.census().globalStores[g]
			if len(sts) == 1 {
				if k, ok := constInt(sts[0].val); ok {
					return k, true
				}
				// sizeOfX = int(reflect.TypeOf(x).Size()): the size of x's static type
				if of := reflectSizeOperand(stripConv(sts[0].val)); of != nil {
					if mi, ok := of.(*ssa.MakeInterface); ok && constLikeCtx.Root.TypesSizes != nil {
						return constLikeCtx.Root.TypesSizes.Sizeof(mi.X.Type()), true
					}
				}
				// ... or the same through a small helper: sizeOfX = sizeOf(x), func sizeOf(v interface{}) int { return int(reflect.TypeOf(v).Size()) }
				if call, ok := stripConv(sts[0].val).(*ssa.Call); ok && !call.Call.IsInvoke() && len(call.Call.Args) == 1 {
					if h := call.Call.StaticCallee(); h != nil && h.Blocks != nil && len(h.Params) == 1 && constLikeCtx.inRoot(h) {
						all, n := true, 0
						for _, b := range h.Blocks {
							if ret, ok := b.Instrs[len(b.Instrs)-1].(*ssa.Return); ok {
								n++
								if len(ret.Results) != 1 || reflectSizeOperand(stripConv(ret.Results[0])) != ssa.Value(h.Params[0]) {
									all = false
								}
							}
						}
						if mi, ok := call.Call.Args[0].(*ssa.MakeInterface); ok && all && n > 0 && constLikeCtx.Root.TypesSizes != nil {
							return constLikeCtx.Root.TypesSizes.Sizeof(mi.X.Type()), true
						}
					}
				}
			}
		}
	}
	return 0, false
}

// reflectSizeOperand: v is reflect.TypeOf(x).Size(); returns x.
func reflectSizeOperand(v ssa.Value) ssa.Value {
	call, ok := v.(*ssa.Call)
	if !ok || !call.Call.IsInvoke() || call.Call.Method.Name() != "Size" {
		return nil
	}
	tc, ok := call.Call.Value.(*ssa.Call)
	if !ok || tc.Call.StaticCallee() == nil || funcFullName(tc.Call.StaticCallee()) != "reflect.TypeOf" || len(tc.Call.Args) != 1 {
		return nil
	}
	return tc.Call.Args[0]
}

func relOff(v ssa.Value, isAnchor func(ssa.Value) bool, depth int) (int64, bool) {
	if depth > 24 {
		return 0, false
	}
	if isAnchor(v) {
		return 0, true
	}
	switch x := v.(type) {
	case *ssa.Convert:
		return relOff(x.X, isAnchor, depth+1)
	case *ssa.BinOp:
		switch x.Op {
		case token.ADD:
			if k, ok := constLike(x.Y); ok {
				if a, ok := relOff(x.X, isAnchor, depth+1); ok {
					return a + k, true
				}
			}
			if k, ok := constLike(x.X); ok {
				if a, ok := relOff(x.Y, isAnchor, depth+1); ok {
					return a + k, true
				}
			}
		case token.SUB:
			if k, ok := constLike(x.Y); ok {
				if a, ok := relOff(x.X, isAnchor, depth+1); ok {
					return a - k, true
				}
			}
		}
	case *ssa.Phi:
		// `pos -= 4` chains in straight-line code produce no phi; a phi means a loop: give up
	}
	return 0, false
}

// flowsTo: does value v reach (through conversions, arithmetic-free copies and
// parameters of in-package callees) a use accepted by sink?
func flowsTo(c *Ctx, v ssa.Value, sink func(user ssa.Instruction, v ssa.Value) bool, depth int, seen map[ssa.Value]bool) bool {
	if depth > 6 || seen[v] || v.Referrers() == nil {
		return false
	}
	seen[v] = true
	for _, ref := range *v.Referrers() {
		if sink(ref, v) {
			return true
		}
		switch x := ref.(type) {
		case *ssa.Convert:
			if flowsTo(c, x, sink, depth+1, seen) {
				return true
			}
		case *ssa.ChangeType:
			if flowsTo(c, x, sink, depth+1, seen) {
				return true
			}
		case ssa.CallInstruction:
			sc := x.Common().StaticCallee()
			if sc == nil || !c.inRoot(sc) || sc.Blocks == nil {
				continue
			}
			for i, a := range x.Common().Args {
				if a == v && i < len(sc.Params) && flowsTo(c, sc.Params[i], sink, depth+1, seen) {
					return true
				}
			}
		case *ssa.Return:
			// handed back to the callers: the matching result at every call site
			for i, res := range x.Results {
				if res != v {
					continue
				}
				for _, site := range c.callsTo(x.Parent()) {
					call, ok := site.(*ssa.Call)
					if !ok {
						continue
					}
					if len(x.Results) == 1 {
						if flowsTo(c, call, sink, depth+1, seen) {
							return true
						}
						continue
					}
					if call.Referrers() == nil {
						continue
					}
					for _, r2 := range *call.Referrers() {
						if ex, ok := r2.(*ssa.Extract); ok && ex.Index == i && flowsTo(c, ex, sink, depth+1, seen) {
							return true
						}
					}
				}
			}
		case *ssa.Store:
			// kept in a local cell (a named result that was not lifted): every load of the cell
			if al, ok := x.Addr.(*ssa.Alloc); ok && x.Val == v && al.Referrers() != nil {
				for _, r2 := range *al.Referrers() {
					if ld, ok := r2.(*ssa.UnOp); ok && ld.Op == token.MUL && flowsTo(c, ld, sink, depth+1, seen) {
						return true
					}
				}
			}
		}
	}
	return false
}

func init() {
	register(&Rule{
		Name:  "TRAILER-ROLES",
		Floor: 2,
		Doc:   "the fixed trailer in front of the stored index is [byte length of the chunk offsets][number of chunks] (chunkedDocumentCoder.Write emits them in that order): in the loader the 32-bit word read from storedIndexOffset-4 is used as the element COUNT of the offsets (slice length / loop bound) and the word read from storedIndexOffset-8 as the byte LENGTH that locates their start (subtracted from a position) — however the two words are fetched (two reads walking backwards, or one 8-byte read sliced in two)",
		Run: func(c *Ctx, scope string, r *Report) {
			fn := c.MustFn("(*Segment).loadStoredFieldChunk")
			constLikeCtx = c
			isAnchor := func(v ssa.Value) bool {
				ld, ok := v.(*ssa.UnOp)
				return ok && ld.Op == token.MUL && strings.HasSuffix(accessPath(ld.X), ".footer.storedIndexOffset")
			}
			type word struct {
				pos int64
				val ssa.Value
				at  token.Pos
			}
			var words []word
			fns := []*ssa.Function{fn}
			for _, sc := range staticCallees(fn) {
				if c.inRoot(sc) && sc.Blocks != nil {
					fns = append(fns, sc)
				}
			}
			for _, f := range fns {
				for _, b := range f.Blocks {
					for _, ins := range b.Instrs {
						call, ok := ins.(*ssa.Call)
						if !ok || call.Call.StaticCallee() == nil || call.Call.StaticCallee().Name() != "Uint32" || !strings.Contains(funcFullName(call.Call.StaticCallee()), "encoding/binary") {
							continue
						}
						arg := call.Call.Args[len(call.Call.Args)-1]
						var low int64
						if sl, ok := arg.(*ssa.Slice); ok {
							if sl.Low != nil {
								k, ok := constLike(sl.Low)
								if !ok {
									continue
								}
								low = k
							}
							arg = sl.X
						}
						ex, ok := arg.(*ssa.Extract)
						if !ok {
							continue
						}
						rd, ok := ex.Tuple.(*ssa.Call)
						if !ok || !isDataRead(&rd.Call) {
							continue
						}
						start := rd.Call.Args[1]
						// through a read helper: position = the helper's parameter bound at the call
						if p, isParam := stripConv(start).(*ssa.Parameter); isParam && f != fn {
							for _, site := range c.callsTo(f) {
								if site.Parent() != fn {
									continue
								}
								if off, ok := relOff(argFor(site.Common(), p), isAnchor, 0); ok {
									if sc, ok := site.(*ssa.Call); ok {
										words = append(words, word{off + low, tupleFirst(sc), site.Pos()})
									}
								}
							}
							continue
						}
						if off, ok := relOff(start, isAnchor, 0); ok {
							words = append(words, word{off + low, call, call.Pos()})
						}
					}
				}
			}
			isCountUse := func(user ssa.Instruction, v ssa.Value) bool {
				switch x := user.(type) {
				case *ssa.MakeSlice:
					return x.Len == v || x.Cap == v
				case *ssa.BinOp:
					return x.Op == token.LSS && x.Y == v // loop bound i < n
				}
				return false
			}
			isLengthUse := func(user ssa.Instruction, v ssa.Value) bool {
				x, ok := user.(*ssa.BinOp)
				return ok && x.Op == token.SUB && x.Y == v
			}
			found := map[int64]bool{}
			for _, w := range words {
				switch w.pos {
				case -4:
					found[-4] = true
					key := fnName(fn) + "/trailer-count"
					cnt := flowsTo(c, w.val, isCountUse, 0, map[ssa.Value]bool{})
					ln := flowsTo(c, w.val, isLengthUse, 0, map[ssa.Value]bool{})
					if cnt && !ln {
						r.ok(key, fnName(fn), c.pos(w.at), "the last trailer word is used as the number of chunk offsets")
					} else {
						r.bad(key, fnName(fn), c.pos(w.at), "the word at storedIndexOffset-4 is the number of chunks, but it is not used as the element count of the offsets (or it is used as a byte length): the two trailer words are swapped")
					}
				case -8:
					found[-8] = true
					key := fnName(fn) + "/trailer-length"
					cnt := flowsTo(c, w.val, isCountUse, 0, map[ssa.Value]bool{})
					ln := flowsTo(c, w.val, isLengthUse, 0, map[ssa.Value]bool{})
					if ln && !cnt {
						r.ok(key, fnName(fn), c.pos(w.at), "the word before it is used as the byte length that locates the offsets")
					} else {
						r.bad(key, fnName(fn), c.pos(w.at), "the word at storedIndexOffset-8 is the byte length of the chunk offsets, but it is not used to locate them (or it is used as a count): the two trailer words are swapped")
					}
				}
			}
			if !found[-4] || !found[-8] {
				r.undecided(fnName(fn)+"/trailer", fnName(fn), c.pos(fn.Pos()), "cannot locate the two 32-bit trailer words relative to footer.storedIndexOffset")
			}
		},
	})
}

// tupleFirst: result #0 of a multi-result call (the Extract), or the call itself.
func tupleFirst(call *ssa.Call) ssa.Value {
	if call.Referrers() != nil {
		for _, ref := range *call.Referrers() {
			if ex, ok := ref.(*ssa.Extract); ok && ex.Index == 0 {
				return ex
			}
		}
	}
	return call
}

// runsThroughStepTable: fn puts the method value of step into a local table
// (array of funcs or of structs with a func field), walks the whole table in
// a loop that calls each entry, and leaves that loop early only with a
// failure: every successful return of fn is reached through the loop's
// normal exit.
func runsThroughStepTable(c *Ctx, fn, step *ssa.Function) bool {
	var root func(v ssa.Value) ssa.Value
	root = func(v ssa.Value) ssa.Value {
		for d := 0; d < 8; d++ {
			switch x := v.(type) {
			case *ssa.FieldAddr:
				v = x.X
			case *ssa.IndexAddr:
				v = x.X
			case *ssa.Field:
				v = x.X
			case *ssa.Index:
				v = x.X // an element of an array value (range over an array copies it)
			case *ssa.Slice:
				v = x.X
			case *ssa.UnOp:
				if x.Op != token.MUL {
					return v
				}
				v = x.X
			default:
				return v
			}
		}
		return v
	}
	// a local struct that is copied as a whole into / out of a table element stands for the table
	plainRoot := root
	root = func(v ssa.Value) ssa.Value {
		v = plainRoot(v)
		for d := 0; d < 3; d++ {
			a, ok := v.(*ssa.Alloc)
			if !ok || a.Referrers() == nil {
				return v
			}
			next := v
			for _, ref := range *a.Referrers() {
				switch x := ref.(type) {
				case *ssa.UnOp:
					// *a stored into table[i]
					if x.Op == token.MUL && x.Referrers() != nil {
						for _, r2 := range *x.Referrers() {
							if st, ok := r2.(*ssa.Store); ok && st.Val == ssa.Value(x) {
								if _, isIdx := st.Addr.(*ssa.IndexAddr); isIdx {
									next = plainRoot(st.Addr)
								}
							}
						}
					}
				case *ssa.Store:
					// a = *(&table[i])
					if x.Addr == ssa.Value(a) {
						if ld, ok := x.Val.(*ssa.UnOp); ok && ld.Op == token.MUL {
							if _, isIdx := ld.X.(*ssa.IndexAddr); isIdx {
								next = plainRoot(ld.X)
							}
						}
					}
				}
			}
			if next == v {
				return v
			}
			v = next
		}
		return v
	}
	// the table the step is stored in
	var table ssa.Value
	var stored *ssa.Store
	for _, b := range fn.Blocks {
		for _, ins := range b.Instrs {
			st, ok := ins.(*ssa.Store)
			if !ok {
				continue
			}
			mc, ok := st.Val.(*ssa.MakeClosure)
			if !ok {
				continue
			}
			for _, f := range unwrapBound(mc.Fn.(*ssa.Function)) {
				if f == step {
					table, stored = root(st.Addr), st
				}
			}
		}
	}
	if table == nil {
		return false
	}
	for _, h := range fn.Blocks {
		if !isLoopHeader(h) || !(stored.Block() == h || stored.Block().Dominates(h)) {
			continue
		}
		body := loopBody(h)
		called := false
		for b := range body {
			for _, ins := range b.Instrs {
				call, ok := ins.(*ssa.Call)
				if !ok || call.Call.IsInvoke() || call.Call.StaticCallee() != nil {
					continue
				}
				if _, isB := call.Call.Value.(*ssa.Builtin); isB {
					continue
				}
				if root(call.Call.Value) == table {
					called = true
				}
			}
		}
		if !called {
			continue
		}
		// the loop ranges over the table: its bound is the table's length
		ifi, ok := h.Instrs[len(h.Instrs)-1].(*ssa.If)
		if !ok {
			continue
		}
		bin, ok := ifi.Cond.(*ssa.BinOp)
		if !ok || bin.Op != token.LSS {
			continue
		}
		if x, name, ok := lenOrCapOf(bin.Y); !ok || name != "len" || root(x) != table {
			// a table that is an array: the bound is its constant length
			arrLen := int64(-1)
			if pt, isPtr := table.Type().Underlying().(*types.Pointer); isPtr {
				if at, isArr := pt.Elem().Underlying().(*types.Array); isArr {
					arrLen = at.Len()
				}
			}
			if k, isK := constInt(bin.Y); !isK || arrLen < 0 || k != arrLen {
				continue
			}
		}
		// success only through the loop's normal exit
		okAll := true
		for _, rb := range successReturns(fn) {
			if body[rb] || !(h.Succs[1] == rb || h.Succs[1].Dominates(rb)) {
				okAll = false
			}
		}
		if okAll && len(successReturns(fn)) > 0 {
			return true
		}
	}
	return false
}

// tailHelper: fn's every successful return hands on the results of one call of an
// in-package function (`return s.writeSections()`): that function.
func tailHelper(c *Ctx, fn *ssa.Function) *ssa.Function {
	var h *ssa.Function
	// the returns that may report success: a nil error, or an error handed on from a call
	var rets []*ssa.BasicBlock
	for _, b := range fn.Blocks {
		ret, ok := b.Instrs[len(b.Instrs)-1].(*ssa.Return)
		if !ok || len(ret.Results) == 0 {
			continue
		}
		ev := resolveLoad(ret.Results[len(ret.Results)-1])
		if isNilConst(ev) {
			rets = append(rets, b)
			continue
		}
		if _, isEx := ev.(*ssa.Extract); isEx && !knownNonNilAt(ev, b) {
			rets = append(rets, b)
		} else if _, isCall := ev.(*ssa.Call); isCall && !knownNonNilAt(ev, b) {
			rets = append(rets, b)
		}
	}
	for _, rb := range rets {
		ret := rb.Instrs[len(rb.Instrs)-1].(*ssa.Return)
		var call *ssa.Call
		for _, res := range ret.Results {
			v := resolveLoad(res)
			switch x := v.(type) {
			case *ssa.Extract:
				if cl, ok := x.Tuple.(*ssa.Call); ok {
					call = cl
				}
			case *ssa.Call:
				call = x
			}
		}
		if call == nil || call.Call.StaticCallee() == nil || !c.inRoot(call.Call.StaticCallee()) || call.Call.StaticCallee().Blocks == nil {
			return nil
		}
		if h != nil && h != call.Call.StaticCallee() {
			return nil
		}
		h = call.Call.StaticCallee()
	}
	return h
}
