package main

import (
	"go/token"
	"go/types"

	"golang.org/x/tools/go/ssa"
)

func init() {
	register(&Rule{
		Name:   "ADVANCE-LOST",
		Floor:  0,
		ZeroOK: true,
		Doc:    "a function that walks a by-value integer parameter forwards (p++ in a loop) and files what it produces under that number in a slice it is handed (out[p] = …) must give the advanced number back when it is called once per iteration of a loop: if the caller passes a value that does not change from one iteration to the next and the callee does not return the advanced one, every call files its results under the same numbers - the later ones overwrite the earlier ones and the remaining entries are never set",
		Run: func(c *Ctx, scope string, r *Report) {
			for _, h := range c.srcFns {
				for pi, p := range h.Params {
					if b, ok := p.Type().Underlying().(*types.Basic); !ok || b.Info()&types.IsInteger == 0 {
						continue
					}
					// p advanced in a loop: a phi fed by p and by itself plus something
					var walk *ssa.Phi
					if p.Referrers() == nil {
						continue
					}
					// the phis p flows into (nested loops carry it through several)
					carried := map[*ssa.Phi]bool{}
					var follow func(v ssa.Value, d int)
					follow = func(v ssa.Value, d int) {
						if d > 4 || v.Referrers() == nil {
							return
						}
						for _, ref := range *v.Referrers() {
							if phi, ok := ref.(*ssa.Phi); ok && !carried[phi] {
								carried[phi] = true
								follow(phi, d+1)
							}
						}
					}
					follow(p, 0)
					for phi := range carried {
						for _, e := range phi.Edges {
							if bin, ok := e.(*ssa.BinOp); ok && bin.Op == token.ADD {
								if xp, ok := bin.X.(*ssa.Phi); ok && carried[xp] {
									walk = phi
								}
							}
						}
					}
					if walk == nil {
						continue
					}
					// results filed under it in a slice parameter
					var slot *ssa.Parameter
					for _, b := range h.Blocks {
						for _, ins := range b.Instrs {
							st, ok := ins.(*ssa.Store)
							if !ok {
								continue
							}
							ia, ok := st.Addr.(*ssa.IndexAddr)
							if !ok {
								continue
							}
							if ip, isPhi := stripConv(ia.Index).(*ssa.Phi); !isPhi || !carried[ip] {
								continue
							}
							if q, ok := ia.X.(*ssa.Parameter); ok {
								slot = q
							}
						}
					}
					if slot == nil {
						continue
					}
					// the advanced number handed back?
					returned := false
					for _, b := range h.Blocks {
						if ret, ok := b.Instrs[len(b.Instrs)-1].(*ssa.Return); ok {
							for _, res := range ret.Results {
								for phi := range carried {
									if derivesFromPhi(resolveLoad(res), phi, 0) {
										returned = true
									}
								}
							}
						}
					}
					for _, site := range c.callsTo(h) {
						g := site.Parent()
						key := fnName(g) + "/" + fnName(h) + "/" + p.Name()
						var hdr *ssa.BasicBlock
						for x := site.Block(); x != nil; x = x.Idom() {
							if isLoopHeader(x) && loopBody(x)[site.Block()] {
								hdr = x
								break
							}
						}
						if hdr == nil || pi >= len(site.Common().Args) {
							continue
						}
						arg := site.Common().Args[pi]
						invariant := true
						if ins, ok := arg.(ssa.Instruction); ok {
							if loopBody(hdr)[ins.Block()] || ins.Block() == hdr {
								invariant = false
							}
						}
						switch {
						case !invariant || returned:
							r.ok(key, fnName(g), c.pos(site.Pos()), "the number "+fnName(h)+" advances is carried from one call to the next")
						default:
							r.bad(key, fnName(g), c.pos(site.Pos()), fnName(h)+" advances its by-value parameter "+p.Name()+" and files its results under it in "+slot.Name()+", but it is called in a loop with a value that does not change between iterations and does not return the advanced number: every call writes the same entries")
						}
					}
				}
			}
		},
	})
}

func derivesFromPhi(v ssa.Value, phi *ssa.Phi, d int) bool {
	if d > 6 {
		return false
	}
	switch x := stripConv(v).(type) {
	case *ssa.Phi:
		if x == phi {
			return true
		}
		for _, e := range x.Edges {
			if e != ssa.Value(x) && derivesFromPhi(e, phi, d+1) {
				return true
			}
		}
	case *ssa.BinOp:
		return derivesFromPhi(x.X, phi, d+1) || derivesFromPhi(x.Y, phi, d+1)
	}
	return false
}
