package main

// Property table: which rules decide which property (DESIGN §5).
var properties = map[string]*Property{}

func prop(p *Property) { properties[p.ID] = p }

// Properties that are not claimed, with the reason (MANIFEST.not_applicable).
// Entries for properties that are registered above are ignored, so a property
// whose check is still being built is listed here until its rules exist.
var notApplicable = []naEntry{
	{"C17", "A metamorphic relation between the outputs of different merge trees: purely a value property over runtime data; its structural ingredients are already those checked under C02/C03/C08, and no static rule in reach decides the equality itself."},
}

func init() {
	prop(&Property{
		ID:          "C12",
		Title:       "A failing writer or a cancelled merge never yields silent success",
		Technique:   "static analysis: path-sensitive error-flow walk over go/cfg (every error-returning call of the persist path accounted for on all paths) + SSA dominance (checked Flush, ErrClosed on cancellation)",
		Level:       "Static rules sound for the named clauses: for every byte offset at which the destination can fail, the error reaches the WriteTo result (all paths of all functions of the persist path are enumerated, not sampled); every cancellation poll returns ErrClosed. Not a verdict on the correctness of a completed file.",
		Explanation: "DATA-COPY-COMPLETE shows that Segment.WriteTo reports success only where the number of bytes copied out of the segment data (an io.Copy over the file for file-backed data, which ends silently on an early io.EOF) equals the length of the data: success is never reported for a truncated image. Static, path-quantified error discipline of the persist path. ERR-FLOW (go/cfg + go/types abstract walk) shows that in every function reachable from Segment.WriteTo, Merger.WriteTo and the builder's section writers every error-returning call is accounted for on every control-flow path, so a non-nil error from a write at ANY byte offset propagates to the WriteTo result; FLUSH-CHECKED (SSA dominance) shows every possibly-successful return of the two WriteTo methods is dominated by a checked bufio Flush; CLOSED-RETURNS-ERR shows every isClosed poll returns a non-nil error on its true edge; WRITE-CHANNEL enumerates the write sites. Decides clause 1 for every failure offset under the bufio sticky-error assumption; for clause 2 it decides that the only outcomes are ErrClosed or the normal completion path.",
		NotCovered:  "that a completed file is correct (C02/C04); destination writers that violate io.Writer (short write with nil error)",
		Uses:        []RuleUse{{"DATA-COPY-COMPLETE", ""}, {"ERR-FLOW", "PERSIST"}, {"FLUSH-CHECKED", ""}, {"CLOSED-RETURNS-ERR", ""}, {"WRITE-CHANNEL", ""}},
	})

	prop(&Property{
		ID:          "C19",
		Title:       "A failed storage read is reported and never wedges the segment",
		Technique:   "static analysis: SSA lockset dataflow (must-release on every return), dominance of every Data.Read result use by its error test, go/cfg error-flow walk over all read-reachable functions",
		Level:       "Static rules; the lock clause is decided: on every path of every function that takes the segment mutex the lock is released before return, so no fault sequence can leave it held. Every one of the Data.Read call sites is shown to use its slice only behind err == nil and every read error is shown to propagate or be explicitly tolerated. Not a verdict on promptness in the sense of time.",
		Explanation: "LOCK-RELEASE (path-set lockset dataflow over SSA blocks, defer-aware) proves every return of every locking function releases the mutex; NO-CALLBACK-UNDER-LOCK proves nothing re-entrant runs while it is held; READ-CHECKED (dominator tree) proves the slice of each segment.Data.Read is used only on the nil edge of its error test; ERR-FLOW over the functions reachable from the read API proves every error-returning call is accounted for on every path (returned, wrapped, sentinel, sticky field) with one listed exemption; STATE-AFTER-FALLIBLE treats each chunk loader as a transaction on the reader's cache: on every path to a possibly-failing return (path-sensitive over the CFG, helper methods followed into, storage starting to fail between two reads of one call included) either nothing of the cached chunk was touched - field stores, element stores through the doc-value header, the freq/norm reader switched before the location reader - or the cache was declared empty on that path, so a failed load is retried rather than leaving half a chunk that a later call takes for loaded. DATA-COPY-COMPLETE proves Segment.WriteTo reports success only where the number of bytes copied out of the (possibly file-backed) data equals its length. MEMO-COMMIT proves a remembered key (`if key != last { load }`) is stored only after the fallible loads it stands for, in the same round. CACHE-AFTER-CHECK requires that a value from a fallible call is published into a Segment-held cache only on the path where its error was tested nil, so a failed load cannot poison later calls.",
		NotCovered:  "promptness in the sense of wall-clock time; panics from corrupt (as opposed to unreadable) data; behaviour of dependencies on failing storage",
		Uses:        []RuleUse{{"DATA-COPY-COMPLETE", ""}, {"CACHE-AFTER-CHECK", ""}, {"LOCK-RELEASE", ""}, {"NO-CALLBACK-UNDER-LOCK", ""}, {"READ-CHECKED", ""}, {"ERR-FLOW", "READ"}, {"STATE-AFTER-FALLIBLE", ""}, {"MEMO-COMMIT", ""}},
	})

	prop(&Property{
		ID:          "C06",
		Title:       "Stored fields of a document are returned exactly and only for that document",
		Technique:   "static analysis: SSA pattern/dominance rules (clamped look-ahead slices, numDocs guard, visitor-controlled loop) and folded-constant agreement of the block size between writers and reader",
		Level:       "Static rules deciding named necessary conditions (no un-clamped look-ahead into the decompressed block, every access behind num < numDocs, the visitor's result alone controls the loop, writers and reader use the same block size). Partial: grouping/order of values and the re-encode arithmetic are value properties and not decided.",
		Explanation: "LOOKAHEAD-CLAMP enumerates every []byte slice expression whose upper bound is offset+constant and requires the bound to be clamped by a comparison with len/cap of the same buffer (siblings copyStoredDocs and getDocStoredOffsets are both covered); VISIT-GUARD proves by dominance that every read and every visitor call in visitDocument is behind num < footer.numDocs and that the loop variable is defined only by the visitor's result; BLOCK-SELECT folds the constant passed to newChunkedDocumentCoder by both writers and the reader's divisor and requires them equal. ITER-SCRATCH shows that on every path through one document iteration the meta buffer is Reset and the data slice restarted before the record is added; SCRATCH-OWNED covers the decompression buffers.",
		NotCovered:  "grouping and order of delivered values, correctness of the merge re-encode and of the byte-copy path arithmetic",
		Uses:        []RuleUse{{"STALE-LEN", ""}, {"APPEND-RESULT-USED", ""}, {"TRAILER-ROLES", ""}, {"ITER-SCRATCH", ""}, {"SCRATCH-LENT", ""}, {"SCRATCH-OWNED", ""}, {"LOOKAHEAD-CLAMP", ""}, {"VISIT-GUARD", ""}, {"BLOCK-SELECT", ""}, {"STORED-OFFSET-SOURCE", ""}, {"ADVANCE-LOST", ""}, {"VALUE-RECORD-COMPLETE", ""}, {"BLOCK-CURSOR", ""}, {"LOOP-BOUND-AGREE", ""}, {"RESET-COMPLETE", ""}, {"ESCAPE-FRESH", ""}},
	})
	prop(&Property{
		ID:          "C08",
		Title:       "Dictionaries enumerate exactly the live terms, in order, with true counts",
		Technique:   "static analysis: SSA typestate/dominance rules (init-before-read of the scratch postings list, nil-result and nil-field discipline, insert guard, 1-hit awareness)",
		Level:       "Static rules deciding named necessary conditions of the count/never-panic clauses. Partial: FST range/automaton semantics and term order live in vellum and are not analysed.",
		Explanation: "INIT-BEFORE-READ proves every PostingsList.read receiver is a freshly re-initialised list (so a count can never inherit the 1-hit flag of the previous term); NIL-RESULT derives the functions that may return (nil,nil) and proves every dereference or escaping interface conversion of such a result crossed a nil test on all paths (unknown field => emptyDictionary, never a nil pointer in an interface); NIL-FIELD proves every method call on Dictionary.fst/fstReader is dominated by a nil test; INSERT-GUARD proves terms are inserted only with postingsOffset>0 and writePostings returns 0 for empty bitmaps; ONEHIT-AWARE proves every content use of PostingsList.postings also dispatches on normBits1Hit. DICT-SEALED shows a Dictionary is written only while under construction (provenance Fresh), so several iterators / postings lists of one Dictionary share no mutable state. ZERO-OBJECT-SAFE proves every exported method of the types that have a shared zero-valued \"nothing found\" object (emptyDictionary, emptyPostingsList, emptyPostingsIterator, emptyDictionaryIterator) dereferences pointer fields of its receiver only behind a test that excludes that object; RANGE-EMPTY-GUARD proves caller-supplied range bounds are compared before they reach FST.Search and equal bounds never reach it (vellum hands out the first key >= start without looking at the exclusive end).",
		NotCovered:  "vellum FST range/automaton semantics beyond the empty range, term order, numeric correctness of counts under exclusion bitmaps",
		Uses:        []RuleUse{{"EMPTY-MEANS-BOTH", ""}, {"DICT-SEALED", ""}, {"INIT-BEFORE-READ", ""}, {"REUSE-THROUGH-INIT", ""}, {"LIST-READ-GUARD", ""}, {"ZERO-OBJECT-SAFE", ""}, {"NIL-RESULT", ""}, {"NIL-FIELD", ""}, {"INSERT-GUARD", ""}, {"ONEHIT-AWARE", ""}, {"PARALLEL-APPEND", ""}, {"TERM-BOUNDARY", ""}, {"ENUM-SKIP-GUARD", ""}, {"SINGLETON-GUARD", ""}, {"RANGE-EMPTY-GUARD", ""}},
	})
	prop(&Property{
		ID:          "C18",
		Title:       "DocsMatchingTerms returns exactly the union of the listed terms' documents",
		Technique:   "static analysis: SSA dominance rules (nil-result discipline at the dictionary lookup, 1-hit awareness of OrInto, field-cache reload condition)",
		Level:       "Static rules deciding named necessary conditions (never a nil dereference for unknown fields, both encodings reach the union, the cached dictionary is replaced whenever the field changes). Partial: set equality itself is a value property.",
		Explanation: "NIL-RESULT covers the (*Segment).dictionary call in DocsMatchingTerms (path-sensitive, phi-aware: the cached dictionary variable is a loop phi); ONEHIT-AWARE covers OrInto; FIELD-CACHE proves the dictionary reload is control-dependent on thisField != lastField and that lastField and the cached dictionary are updated together on that path only. ONEHIT-AWARE treats handing the bitmap on (returning, storing) like a content use: a 1-hit list has no bitmap. EMPTY-MEANS-BOTH proves a PostingsList method leaves early for a missing bitmap only where the 1-hit marker is known zero (a 1-hit list keeps no bitmap). MEMO-PRIMED proves the keyed reload `if field != lastField { dict = load }` (and its siblings for chunks) is also taken in the first round - a disjunct about the value, the owner or the first index, or a sentinel start value - because the zero value of the remembered key (the field named \"\") is a possible key.",
		NotCovered:  "equality of the returned set with the union (value property)",
		Uses:        []RuleUse{{"EMPTY-MEANS-BOTH", ""}, {"RANGE-INDEX-BASE", ""}, {"NIL-RESULT", ""}, {"NIL-FIELD", ""}, {"ONEHIT-AWARE", ""}, {"FIELD-CACHE", ""}, {"TERM-BOUNDARY", ""}, {"SINGLETON-GUARD", ""}, {"MEMO-PRIMED", ""}},
	})
}

func init() {
	prop(&Property{
		ID:          "C09",
		Title:       "A segment is safe for concurrent and re-entrant readers, also during a merge",
		Technique:   "static analysis: write census over all API-reachable functions + field-based provenance classes (what memory a write can reach) + lockset must-held regions + sync.Once/sync.Pool idiom rules",
		Level:       "Static rules; write-side race freedom is decided: no function reachable from the read API or a merge writes memory another reader of the same segment can reach, except under the segment mutex or sync.Once — for every schedule and every nesting. Sound under the dependency table (zstd EncodeAll/DecodeAll stateless, vellum FST readers concurrent-safe, Data.Read does not write).",
		Explanation: "SHARED-WRITE enumerates every write (field/element/map/whole-object store, destination-argument call) in every function reachable from the API roots, classifies the written object with an interprocedural field-based provenance analysis (Fresh / Caller / SharedSegment / Global / SegmentData) and requires shared targets to be written only with the mutex must-held or inside Once.Do; the fields written under the lock form the guarded set whose reads must hold the lock too. CLONE-DISCIPLINE derives the receiver-mutating docValueReader methods and proves each call site's receiver is a private clone. ZSTD-STATELESS, POOL-SCRATCH, NO-CALLBACK-UNDER-LOCK and SINGLETON-GUARD cover the shared codec, the per-call scratch context, re-entrancy under the lock and the shared empty singletons. DICT-SEALED and SEG-IMMUT extend this to state kept in a Dictionary or newly cached in a Segment (a lazily cached helper object is shared by every reader even when its insertion is locked); SCRATCH-OWNED shows no two readers cache data in one buffer.",
		NotCovered:  "races inside dependencies; value equivalence of concurrent and sequential observations beyond what absence of shared mutable state implies",
		Uses:        []RuleUse{{"SEG-IMMUT", ""}, {"SCRATCH-OWNED", ""}, {"DICT-SEALED", ""}, {"SHARED-WRITE", ""}, {"CLONE-DISCIPLINE", ""}, {"ZSTD-STATELESS", ""}, {"POOL-SCRATCH", ""}, {"NO-CALLBACK-UNDER-LOCK", ""}, {"SINGLETON-GUARD", ""}},
	})
	prop(&Property{
		ID:          "C15",
		Title:       "Reading, persisting and merging never modify a segment or the caller's bitmaps",
		Technique:   "static analysis: interprocedural provenance classes over SSA (who owns a bitmap / a byte slice / a struct) checked at every mutating roaring call, every write sink and every store on the read/persist/merge path",
		Level:       "Static rules sound for the named clauses under the roaring purity table (which must cover roaring's whole method set): caller bitmaps are never the receiver of a mutating call, segment bytes never reach a write sink, no store to segment or footer state on any API-reachable path.",
		Explanation: "BITMAP-OWNERSHIP classifies the receiver of every mutating *roaring.Bitmap call (12 today) through parameters, fields, containers and call results: class Caller (Merge drops, PostingsList except, ReplaceActual argument and everything derived) is a violation; writes into caller-supplied bitmap slices likewise. DATA-READONLY shows bytes from Data.Read never reach a write sink. SEG-IMMUT shows no API-reachable function stores into an existing Segment, its footer or containers reachable from it (only the lock-guarded FST cache is exempt).",
		NotCovered:  "mutation through dependency internals (roaring copy-on-write after FromBuffer is trusted)",
		Uses:        []RuleUse{{"BITMAP-OWNERSHIP", ""}, {"DATA-READONLY", ""}, {"SEG-IMMUT", ""}, {"SINGLETON-GUARD", ""}},
	})
}

func init() {
	prop(&Property{
		ID:          "C11",
		Title:       "Written files end in a footer whose CRC-32 covers every preceding byte",
		Technique:   "static analysis: SSA def-use/dominance rules on the CRC plumbing (seed of the footer CRC, hashing-writer chain of every data write, order and operand of the footer writes, crc32.Update operands, returned byte counts) + provenance of footer objects",
		Level:       "Static rules sound for the named clauses: for every persist call site the footer CRC continues the running CRC of the writer all data bytes went through, the CRC is the last thing written and is computed with IEEE over exactly the bytes reported written, byte counts returned are data+footerLen / the hashing writer's count, and a parsed footer is never altered. Byte-for-byte re-persist additionally relies on Data.WriteTo (trusted) and the wire agreement rules of C04.",
		Explanation: "CRC-SEED checks both persistFooter call sites: a dominating assignment footer.crc = Sum32() of a countHashWriter created in the same function, through which every data-writing call on that destination passes (no bypass), and a footer writer on the same destination that does not bypass a buffer holding data. CRC-LAST checks persistFooter itself (hashing writer seeded from footer.crc before the first write, all 7 writes through it, CRC written last from the running value, no write into the footer argument). CRC-UPDATE pins countHashWriter.Write/Count/Sum32. LEN-RETURN pins the three returned byte counts. FOOTER-FAITHFUL shows a footer obtained from parseFooter is never written afterwards and that parseFooter sets every footer field. SEG-IMMUT (shared with C15) shows persisting never stores into the segment or its footer.",
		NotCovered:  "Data.WriteTo semantics (trusted); equality of re-persisted bytes beyond CRC/footer faithfulness (needs C04 WIRE-AGREE)",
		Uses:        []RuleUse{{"CRC-SEED", ""}, {"CRC-LAST", ""}, {"CRC-UPDATE", ""}, {"LEN-RETURN", ""}, {"FOOTER-FAITHFUL", ""}, {"SEG-IMMUT", ""}},
	})
}

func init() {
	prop(&Property{
		ID:          "C16",
		Title:       "Collection statistics describe the documents actually in the segment",
		Technique:   "static analysis: provenance of the statistics maps (lane identification) + unit classification of every accumulated increment + SSA structural checks of record order, decode order, accessors and Merge",
		Level:       "Static rules deciding named necessary conditions: which quantity is accumulated into which statistic (units), that the two lanes never cross anywhere between builder/merger, file record, loader, Segment fields and CollectionStats, and that Merge adds component-wise unconditionally. Partial: that the sums are numerically right for a given input is a value property.",
		Explanation: "STAT-UNITS identifies the maps of the two lanes from the arguments of persistFields and the stores to Segment.fieldDocs/fieldFreqs (provenance of map creation sites), then classifies the increment of every MapUpdate on them: the frequency lane must add Field.Length()/Posting.Frequency(), the document lane 1 per element of a per-document set or the tracker's cardinality. STAT-LANES checks the record order in persistFields, the decode order in loadFields, initSegmentBase's parameter-to-field mapping, the three CollectionStats fields and accessors, unconditional component-wise Merge, and that the merger clears the per-field document tracker before use on every path. ESCAPE-FRESH shows the statistics maps a built Segment keeps are fresh allocations on every path of the pooled builder (never kept, emptied or re-used from an earlier batch), so a later build cannot rewrite the statistics of an earlier segment. STAT-UNITS also requires that merged statistics are keyed by the merged field index, never by an input segment's own field id. REMAP (shared with C02) requires that every document number the merger hands to a bitmap - the per-field document tracker included - is the remapped one.",
		NotCovered:  "numeric correctness of the sums for particular inputs/deletions (value property)",
		Uses:        []RuleUse{{"TERM-FREQ-ACCUMULATED", ""}, {"STAT-UNITS", ""}, {"STAT-LANES", ""}, {"TAIL-READ-BOUNDED", ""}, {"ESCAPE-FRESH", ""}, {"REMAP", ""}},
	})
}

func init() {
	prop(&Property{
		ID:          "C03",
		Title:       "Merge reports a correct old-to-new document number mapping",
		Technique:   "static analysis: SSA path enumeration over one iteration of the remap loops (exactly-once store, sentinel on the drops edge, counter +1), phi-aware definedness of the returned map, def-use checks of publication and counting",
		Level:       "Static rules deciding the shape of the map for every input: one table per input segment of that segment's length, filled exactly once per document with the sentinel or a consecutive counter threaded across segments, defined on every success path (incl. zero survivors), published by the Merger, survivor count from the bitmaps. Partial: that content is found at the reported number is a value property (its structural part is REMAP under C02).",
		Explanation: "DOCNUMS-DEFINED: phi-aware check that no nil-error return of mergeToWriter carries a nil map. DOCNUMS-SHAPE: enumerates every acyclic path through one iteration of the per-document loop (mergeStoredAndRemapSegment) and of the per-segment loop (mergeStoredAndRemap): exactly one store table[docNum] per path, the sentinel exactly on the drops.Contains edge with the counter unchanged, otherwise the counter which advances by exactly one; each segment iteration fills then appends exactly one make([]uint64, seg.footer.numDocs); counter threaded from 0 through the fill loop / callee result; zero-survivor branch builds all-dropped tables. DOCNUMS-PUBLISHED: Merger.WriteTo stores merge's result into the field DocumentNumbers returns; Merge/merge pass every segment and the caller's drops unchanged; docDropped folds to MaxInt64; footer.numDocs = computeNewDocCount. STORED-OFFSET-SOURCE: every stored-offset index entry is coder.Size() taken right before coder.Add of the same document. EMPTY-SAFE (expected count zero, exercised by a control) forbids constant indexing of a variable-length table without a length test — zero-document segments are valid inputs.",
		NotCovered:  "that the content of a surviving document is found at its reported number (value property); bitmaps that violate the input contract",
		Uses:        []RuleUse{{"EMPTY-SAFE", ""}, {"DOCNUMS-DEFINED", ""}, {"DOCNUMS-SHAPE", ""}, {"DOCNUMS-PUBLISHED", ""}, {"STORED-OFFSET-SOURCE", ""}, {"ADVANCE-LOST", ""}, {"REMAP-TABLE-READONLY", ""}, {"FASTPATH-GUARD", ""}},
	})
}

func init() {
	prop(&Property{
		ID:          "C13",
		Title:       "Reusing iterators, postings lists and readers never changes results",
		Technique:   "static analysis: store census per re-initialiser (every field of every reusable struct re-established or listed with a reason), SSA typestate (init-before-read), must-store-before-successful-return for chunk caches, provenance-based singleton guard",
		Level:       "Static rules showing that no state CAN carry over from a previous use — the structural content of the property — for every sequence of lookups: each reusable struct's re-initialiser is checked field by field (fail-closed on new fields). Equality of results itself is a value property and is not decided.",
		Explanation: "RESET-COMPLETE checks the re-initialisers of PostingsList, PostingsIterator, chunkedIntDecoder, docValueReader (cloneInto), chunkedIntCoder, chunkedContentCoder, interim, docVisitState and visitDocumentCtx: whole-struct clear + only sanitised restores, or every field stored/Reset on every path, whole-range zeroing of retained slices. INIT-BEFORE-READ shows a postings list is always re-initialised before read(). CACHE-COHERENT shows every chunk loader re-establishes all chunk-derived fields before a successful return, STATE-AFTER-FALLIBLE that it does so only after the fallible steps. SINGLETON-GUARD shows writes can never reach the shared empty singletons. REUSED-POSTING (the reused Posting is fully re-established per call) and SCRATCH-OWNED (a decompression result is cached only by the owner of its destination buffer) cover two more carriers of state between uses.",
		NotCovered:  "equality of results with fresh objects (value property); correctness of what the re-initialised object then computes",
		Uses:        []RuleUse{{"EMPTY-VS-NIL", ""}, {"SCRATCH-OWNED", ""}, {"RESET-COMPLETE", ""}, {"INIT-BEFORE-READ", ""}, {"REUSE-THROUGH-INIT", ""}, {"LIST-READ-GUARD", ""}, {"ZERO-OBJECT-SAFE", ""}, {"CACHE-COHERENT", ""}, {"STATE-AFTER-FALLIBLE", ""}, {"SINGLETON-GUARD", ""}, {"BITMAP-OWNERSHIP", ""}, {"REUSED-POSTING", ""}},
	})
	prop(&Property{
		ID:          "C14",
		Title:       "Builder output depends only on its input, not on history or concurrency",
		Technique:   "static analysis: field-by-field reset census of the pooled builder state, re-extension sites of pooled slices, escape analysis of fields handed to the segment, dominance of the pool Put by a successful reset, map-range order-insensitivity patterns, no writes to package-level state on the build path",
		Level:       "Static rules showing the pooled builder state cannot influence a later build and concurrent builds share nothing mutable: every field reset or entry-assigned, every re-extension exposes only sanitised/overwritten elements, escaping fields re-established fresh, Put only after a successful reset, map iteration order cannot reach the output, no global writes. Byte equality itself and determinism of dependencies are not decided.",
		Explanation: "RESET-COMPLETE(interim) over all fields of the builder state; RE-EXTENSION over every s.F = s.F[:n] site of a pooled slice; ESCAPE-FRESH for the fields and bytes that escape into the returned Segment; POOL-DISCIPLINE for interimPool.Put; CARRIED-ESTIMATE shows the only deliberately surviving values reach nothing but a buffer size hint; MAP-ORDER shows every range over a map on the build/merge path has an order-insensitive body; NO-GLOBAL-STATE shows no function reachable from New writes package-level state.",
		NotCovered:  "byte equality itself; determinism of vellum/roaring/zstd",
		Uses:        []RuleUse{{"EMPTY-VS-NIL", ""}, {"ITER-SCRATCH", ""}, {"SCRATCH-LENT", ""}, {"RESET-COMPLETE", ""}, {"RE-EXTENSION", ""}, {"ESCAPE-FRESH", ""}, {"POOL-DISCIPLINE", ""}, {"CARRIED-ESTIMATE", ""}, {"NO-GLOBAL-STATE", ""}, {"MAP-ORDER", ""}},
	})
}

func init() {
	prop(&Property{
		ID:          "C04",
		Title:       "Every segment ice writes can be loaded back and reads identically",
		Technique:   "static analysis: wire-signature extraction (AST + go/types) of every writer/reader pair and their comparison; must-pass-through (SSA dominance) of section emitters against loader guards; adjacency and memory-image def-use checks",
		Level:       "Static rules deciding agreement clauses for every input: the writer and the reader of each of the 11 on-disk records use the same sequence of primitives (kinds, widths, loop structure, byte order; tail-first trailers reversed), every section the loader parses is present on every writer path or skipped under a condition the loader also tests, layout adjacency assumptions hold, the in-memory image is the written bytes, WriteTo returns data+footer length. Partial: identical ANSWERS after load are a value property.",
		Explanation: "WIRE-AGREE extracts, from the type-checked AST, the source-ordered sequence of wire primitives (binary.Write/PutUvarint/writeUvarints/PutUintN/raw Write vs binary.Uvarint/UintN/raw Data.Read) of each writer and reader region with loops as nested units and compares the 11 pairs (builder and merger writers must also agree with each other; footer fields must correspond by name; parseFooter's offsets must form a contiguous tail of footerLen bytes with widths matching their decodes). SECTION-PRESENT proves by dominance that load() always runs the three section loaders and that each section is written on every successful path of both data-section writers, or skipped exactly on the zero-document branch the loader also guards. ADJACENCY, MEM-IMAGE and LEN-RETURN pin the implicit layout assumptions, the builder's memory image and the byte counts. EMPTY-SAFE forbids constant indexing of variable-length tables without a length test (empty segments must load and merge).",
		NotCovered:  "identical answers after load (value property); file-backed vs memory-backed look-ahead near the end of data (layout arithmetic)",
		Uses:        []RuleUse{{"DATA-COPY-COMPLETE", ""}, {"TRAILER-ROLES", ""}, {"EMPTY-SAFE", ""}, {"WIRE-AGREE", ""}, {"SECTION-PRESENT", ""}, {"ADJACENCY", ""}, {"MEM-IMAGE", ""}, {"LEN-RETURN", ""}, {"TAIL-READ-BOUNDED", ""}, {"DV-SECTION-COMPLETE", ""}, {"PER-FIELD-COMPLETE", ""}, {"ESCAPE-FRESH", ""}},
	})
	prop(&Property{
		ID:          "C10",
		Title:       "On-disk format version 2 stays readable across code versions",
		Technique:   "static analysis: re-extraction of the format table (folded constants at use sites, wire signatures, codec, CRC polynomial, dependency versions) from the current tree and semantic comparison with a golden table extracted from the pinned reference tree",
		Level:       "Static freeze of the format: every layout-defining constant (by folded value at its use site), every writer's and reader's primitive sequence incl. byte order and carried fields, the codec, the CRC polynomial and the versions of the embedded serialisations equal the pinned reference. Detects symmetric writer+reader changes that round-trip. Partial: arithmetic inside encoders beyond its constants, and roaring/vellum/zstd serialisations (pinned by go.mod, compared) are not analysed.",
		Explanation: "FMT-CONST compares 27 named format constants, ~35 use-site constants (block size 128 at both coders and the reader's divisor; doc-value chunk arguments (1024,0,0) at three sites; chunk mode 1025 at New/merge; getChunkSize's bounds; bit-level encoder constants; termSeparator 0xff) and the roaring/vellum/compress versions with golden/format_v2.json. FMT-SEQ compares the wire signature of 33 writer/reader functions with the golden ones (this catches symmetric changes WIRE-AGREE accepts by construction). FMT-CODEC pins zstd EncodeAll/DecodeAll as the only codec; CRC-UPDATE pins CRC-32 IEEE. The compression level is reported, not gated (any level is readable by the reference reader). Optional emissions of writers ({…}) are part of the compared signature: an early successful return before an emission makes the rest optional, exactly like an if-block.",
		NotCovered:  "roaring/vellum serialisation internals (versions pinned and compared); the arithmetic of the encoders beyond their constants",
		Uses:        []RuleUse{{"TRAILER-ROLES", ""}, {"FMT-CONST", ""}, {"FMT-SEQ", ""}, {"FMT-CODEC", ""}, {"CRC-UPDATE", ""}, {"WIRE-AGREE", ""}, {"DV-SEPARATOR", ""}, {"SEARCH-HIT", ""}},
	})
}

func init() {
	prop(&Property{
		ID:          "C01",
		Title:       "A built segment returns exactly the postings its documents imply",
		Technique:   "static analysis: SSA def-use agreement rules between the builder and the reader (chunk-size derivation, chunk index, location length prefix vs. encoded values, field order, sibling composite literals) — structural necessary conditions only",
		Level:       "Static rules deciding named NECESSARY conditions of the behaviour, not the behaviour: writer and reader derive the chunk size from the same three quantities and index chunks the same way; the location byte-count prefix counts exactly the quantities that are encoded; _id first / sorted field order; sibling literals agree; the reused encoders are fully reset. The equality of postings, frequencies, norms and locations for every batch is a value property and is NOT decided.",
		Explanation: "CHUNK-AGREE checks the getChunkSize call of the builder (s.chunkMode, GetCardinality of the very bitmap writePostings serialises, len(s.results) — and that newWithChunkMode records the same mode and length in the footer) against the reader's (footer.chunkMode, GetCardinality of the bitmap just deserialised, footer.numDocs), that both encoders are re-sized with the result, and that both sides compute the chunk index as docNum / chunkSize (CHUNK-INDEX for the encoders). LENPREFIX-AGREE compares, as a multiset of normalised expression trees, the four arguments of totalUvarintBytes with the four values encoded per location and pins numUvarintBytes' shape. FIELD-ORDER, SIBLING-LITERAL, RESET-COMPLETE (the shared encoders) and ONEHIT-AWARE complete the set.",
		NotCovered:  "the two-pass accumulation arithmetic, completeness of terms/postings, norms, terms with more than 1024 documents (values)",
		Uses:        []RuleUse{{"TERM-FREQ-ACCUMULATED", ""}, {"LOCS-FLAG-AGREE", ""}, {"STALE-LEN", ""}, {"APPEND-RESULT-USED", ""}, {"CHUNK-AGREE", ""}, {"CHUNK-INDEX", ""}, {"LENPREFIX-AGREE", ""}, {"FIELD-ORDER", ""}, {"SIBLING-LITERAL", ""}, {"RESET-COMPLETE", ""}, {"ESCAPE-FRESH", ""}},
	})
	prop(&Property{
		ID:          "C02",
		Title:       "A merge is indistinguishable from rebuilding the surviving documents",
		Technique:   "static analysis: SSA def-use and dominance rules over the merger (remapped document numbers at every encoder/bitmap site, parallel-slice provenance, fast-path and 1-hit guards, chunk-size derivation, insert guard) — structural necessary conditions only",
		Level:       "Static rules deciding named NECESSARY conditions: every document number written is the remapped one, location field ids use the merged map, doc values are re-added under new numbers and dropped ones skipped, the parallel per-iterator slices come from one filtered result, the byte-copy path is taken only for identical field lists without deletions, 1-hit encoding only under its full conjunction, chunk size from the footer quantities, terms inserted only with postings. Observational equality with a rebuild is a value property and is NOT decided.",
		Explanation: "REMAP (mergeTermFreqNormLocs, buildMergedDocVals visitor, persistMergedRestField), CHUNK-AGREE (prepareNewTerm traced through its unique call chain to the values stored in the merged footer), LENPREFIX-AGREE, FASTPATH-GUARD (+ mergeFields compares every field of every segment), INSERT-GUARD, ONEHIT-GUARD, FIELD-ORDER (mergeFields), STORED-OFFSET-SOURCE, FIELDID-LANE, DV-SECTION-COMPLETE.",
		NotCovered:  "k-way enumeration order, the re-encoding arithmetic, correctness of the stored-field byte copy (values)",
		Uses:        []RuleUse{{"EMPTY-VS-NIL", ""}, {"LOCS-FLAG-AGREE", ""}, {"STALE-LEN", ""}, {"APPEND-RESULT-USED", ""}, {"RANGE-INDEX-BASE", ""}, {"ITER-SCRATCH", ""}, {"SCRATCH-LENT", ""}, {"REMAP", ""}, {"CHUNK-AGREE", ""}, {"LENPREFIX-AGREE", ""}, {"FASTPATH-GUARD", ""}, {"INSERT-GUARD", ""}, {"ONEHIT-GUARD", ""}, {"FIELD-ORDER", ""}, {"STORED-OFFSET-SOURCE", ""}, {"ADVANCE-LOST", ""}, {"BLOCK-CURSOR", ""}, {"FIELDID-LANE", ""}, {"DV-SECTION-COMPLETE", ""}, {"PER-FIELD-COMPLETE", ""}, {"LOOP-BOUND-AGREE", ""}, {"PARALLEL-APPEND", ""}, {"REMAP-TABLE-READONLY", ""}, {"TERM-BOUNDARY", ""}, {"ENUM-SKIP-GUARD", ""}, {"RESET-COMPLETE", ""}},
	})
	prop(&Property{
		ID:          "C07",
		Title:       "Doc values return exactly each document's terms for the requested fields",
		Technique:   "static analysis: constant folding at the three chunk-size sites, SSA def-use rules for separator/payload identity, section completeness, chunk index, per-segment field-id lane, clone discipline and chunk-cache coherence — structural necessary conditions only",
		Level:       "Static rules deciding named NECESSARY conditions: writers and reader chunk doc values by the same constant, the chunk index is docNum/that constant, terms are stored unmodified followed by the separator the reader splits on, every recorded section has its trailer, the chunk cache is coherent across chunk switches, per-segment readers are indexed by that segment's field id, merged doc values are re-added under new numbers. Which terms a document gets back (binary search, ordering) is a value property and is NOT decided.",
		Explanation: "DV-FACTOR-AGREE, CHUNK-INDEX (content coder), DV-SEPARATOR, DV-SECTION-COMPLETE, FIELDID-LANE, REMAP (DV-REMAP part), CLONE-DISCIPLINE, CACHE-COHERENT, RESET-COMPLETE (cloneInto) and the two doc-value pairs of WIRE-AGREE. SCRATCH-OWNED shows a decompressed chunk is cached only by the reader owning the destination buffer; DV-SECTION-COMPLETE also requires the start offset to be captured before any byte of the section can be written (progressive chunk writes included).",
		NotCovered:  "the header binary search, chunk-cache logic across visiting orders beyond coherence, sorted term order (values)",
		Uses:        []RuleUse{{"BLOCK-CURSOR", ""}, {"SCRATCH-OWNED", ""}, {"DV-FACTOR-AGREE", ""}, {"CHUNK-INDEX", ""}, {"DV-SEPARATOR", ""}, {"SEARCH-HIT", ""}, {"DV-SECTION-COMPLETE", ""}, {"FIELDID-LANE", ""}, {"REMAP", ""}, {"CLONE-DISCIPLINE", ""}, {"CACHE-COHERENT", ""}, {"WIRE-AGREE", ""}, {"RESET-COMPLETE", ""}, {"RE-EXTENSION", ""}, {"STATE-AFTER-FALLIBLE", ""}},
	})
}

func init() {
	prop(&Property{
		ID:          "C05",
		Title:       "Postings iterators navigate correctly under Next/Advance, exclusions and flags",
		Technique:   "static analysis: SSA agreement rules between the stream writers and the iterator's read and skip paths (per-posting arity, byte-count prefix), flag-guarded decoder use (interprocedural), sticky end of iteration, Count/exclusion shape — structural necessary conditions only",
		Level:       "Static rules deciding named NECESSARY conditions of navigation: the read path and both skip paths consume exactly what the writer emits per posting in each stream, locations are skipped by the recorded byte count, no flag combination reaches a missing decoder, the 1-hit cursor is consumed on every return, an exhausted cursor is never advanced, Count subtracts the excluded intersection, exclusions are applied into a fresh bitmap. WHICH posting Next/Advance(d) returns for a given history is a relation over runtime cursor values and is NOT decided.",
		Explanation: "ENTRY-ARITY compares the per-posting shape written by tfEncoder/locEncoder (2 uvarints; byte-count prefix + 4 uvarints per location) with readFreqNormHasLocs, skipFreqNormReadHasLocs, readLocation, the location loop of nextAtOrAfter and the skip in currChunkNext. READER-FLAG-GUARD computes interprocedurally which iterator methods need includeLocs/includeFreqNorm and proves no exported method reaches an unguarded decoder use. ITER-END proves the clean fast path is entered only under postings == nil || postings.postings == ActualBM (boolean abstraction; ReplaceActual can change ActualBM at any time), every return of the 1-hit branch leaves the hit consumed, every Actual.Next() is behind HasNext(), Count subtracts |postings ∩ except| for both encodings, and exclusions are applied as AndNot into a fresh bitmap. REPLAY-COUNT checks that the replay counter of the clean path is reset by comparing chunk numbers of postings, not the loaded chunk. LENPREFIX-AGREE, CHUNK-AGREE (reader side), ONEHIT-AWARE, CACHE-COHERENT and STATE-AFTER-FALLIBLE cover the prefix, chunk index, encoding dispatch and chunk switching the navigation relies on. REUSED-POSTING shows every field of the Posting the iterator reuses is stored in the current call on each path that hands it out. NARROW-GUARD proves a 64-bit argument of an exported method (the Advance target) reaches a narrowing conversion (uint32 for the roaring iterator) only behind a comparison with a constant that fits, through any chain of static calls; CHUNK-START-INCLUSIVE proves a document number is compared with the first number of a chunk only by >= / <; MEMO-PRIMED proves each keyed chunk reload is also taken when nothing has been loaded yet; LOCS-IMPLY-FREQNORM proves, by truth table over the values stored, that wherever the two decoder flags of an iterator are set the freq/norm flag is true whenever the location flag is (the has-locations bit lives in the freq/norm stream).",
		NotCovered:  "which posting is returned by Next/Advance for a given call history, the skip counting across chunks beyond the operands of its reset test (sameChunkNexts arithmetic), lock-step advance of the two cursors under exclusions (values)",
		Uses:        []RuleUse{{"EMPTY-MEANS-BOTH", ""}, {"LOCS-FLAG-AGREE", ""}, {"ENTRY-ARITY", ""}, {"READER-FLAG-GUARD", ""}, {"ITER-END", ""}, {"REPLAY-COUNT", ""}, {"CHUNK-START-INCLUSIVE", ""}, {"NARROW-GUARD", ""}, {"LOCS-IMPLY-FREQNORM", ""}, {"REUSED-POSTING", ""}, {"LENPREFIX-AGREE", ""}, {"CHUNK-AGREE", ""}, {"ONEHIT-AWARE", ""}, {"CACHE-COHERENT", ""}, {"STATE-AFTER-FALLIBLE", ""}},
	})
}
