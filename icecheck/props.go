package main

// Property table: which rules decide which property (DESIGN §5).
var properties = map[string]*Property{}

func prop(p *Property) { properties[p.ID] = p }

// Properties that are not claimed, with the reason (MANIFEST.not_applicable).
// Entries for properties that are registered above are ignored, so a property
// whose check is still being built is listed here until its rules exist.
var notApplicable = []naEntry{
	{"C05", "Correctness of Next/Advance is a relation between runtime cursor values (two roaring cursors and two compressed-stream positions) over arbitrary call histories; no structural clause short of symbolic execution decides it, so static analysis gives no verdict (the wire-arity and length-prefix rules of C01/C04 protect the stream format it relies on but are not a verdict on navigation)."},
	{"C17", "A metamorphic relation between the outputs of different merge trees: purely a value property over runtime data; its structural ingredients are already those checked under C02/C03/C08, and no static rule in reach decides the equality itself."},
	{"C01", "check under construction"}, {"C02", "check under construction"}, {"C03", "check under construction"},
	{"C04", "check under construction"}, {"C06", "check under construction"}, {"C07", "check under construction"},
	{"C08", "check under construction"}, {"C09", "check under construction"}, {"C10", "check under construction"},
	{"C11", "check under construction"}, {"C13", "check under construction"}, {"C14", "check under construction"},
	{"C15", "check under construction"}, {"C16", "check under construction"}, {"C18", "check under construction"},
	{"C19", "check under construction"},
}

func init() {
	prop(&Property{
		ID:          "C12",
		Title:       "A failing writer or a cancelled merge never yields silent success",
		Technique:   "static analysis: path-sensitive error-flow walk over go/cfg (every error-returning call of the persist path accounted for on all paths) + SSA dominance (checked Flush, ErrClosed on cancellation)",
		Level:       "Static rules sound for the named clauses: for every byte offset at which the destination can fail, the error reaches the WriteTo result (all paths of all functions of the persist path are enumerated, not sampled); every cancellation poll returns ErrClosed. Not a verdict on the correctness of a completed file.",
		Explanation: "Static, path-quantified error discipline of the persist path. ERR-FLOW (go/cfg + go/types abstract walk) shows that in every function reachable from Segment.WriteTo, Merger.WriteTo and the builder's section writers every error-returning call is accounted for on every control-flow path, so a non-nil error from a write at ANY byte offset propagates to the WriteTo result; FLUSH-CHECKED (SSA dominance) shows every possibly-successful return of the two WriteTo methods is dominated by a checked bufio Flush; CLOSED-RETURNS-ERR shows every isClosed poll returns a non-nil error on its true edge; WRITE-CHANNEL enumerates the write sites. Decides clause 1 for every failure offset under the bufio sticky-error assumption; for clause 2 it decides that the only outcomes are ErrClosed or the normal completion path.",
		NotCovered:  "that a completed file is correct (C02/C04); destination writers that violate io.Writer (short write with nil error)",
		Uses:        []RuleUse{{"ERR-FLOW", "PERSIST"}, {"FLUSH-CHECKED", ""}, {"CLOSED-RETURNS-ERR", ""}, {"WRITE-CHANNEL", ""}},
	})
}
