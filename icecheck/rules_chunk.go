package main

// C01 / C02 / C07 — structural necessary conditions: chunk-size agreement,
// length-prefix agreement, field order, remapping, guards.

import (
	"fmt"
	"go/constant"
	"go/token"
	"go/types"
	"sort"
	"strings"

	"golang.org/x/tools/go/ssa"
)

// exprSig renders a value as an expression tree that ignores SSA register
// names and the identity of loop variables: loads become field names, invokes
// method names.  Used to compare "the same quantity" computed at two sites.
func exprSig(v ssa.Value, depth int) string { return exprSigWith(v, depth, nil) }

// exprSigWith: exprSig with the parameters in subst replaced by the given
// values (the arguments of the call site under consideration).
func exprSigWith(v ssa.Value, depth int, subst map[*ssa.Parameter]ssa.Value) string {
	if depth > 8 {
		return "…"
	}
	switch x := v.(type) {
	case *ssa.Const:
		if x.Value == nil {
			return "nil"
		}
		return x.Value.ExactString()
	case *ssa.Convert:
		return exprSigWith(x.X, depth+1, subst)
	case *ssa.ChangeType:
		return exprSigWith(x.X, depth+1, subst)
	case *ssa.MakeInterface:
		return exprSigWith(x.X, depth+1, subst)
	case *ssa.BinOp:
		return "(" + exprSigWith(x.X, depth+1, subst) + x.Op.String() + exprSigWith(x.Y, depth+1, subst) + ")"
	case *ssa.UnOp:
		if x.Op == token.MUL {
			// an element staged a few instructions earlier in the same block (args[0] = v; … args[0] …)
			if fv := forwardElemLoad(x); fv != nil {
				return exprSigWith(fv, depth+1, subst)
			}
			return exprSigWith(x.X, depth+1, subst)
		}
		return x.Op.String() + exprSigWith(x.X, depth+1, subst)
	case *ssa.FieldAddr:
		_, f := fieldAddrInfo(x)
		if f != nil {
			return "." + f.Name()
		}
	case *ssa.Field:
		return ".#" + fmt.Sprint(x.Field)
	case *ssa.IndexAddr:
		return exprSigWith(x.X, depth+1, subst) + "[" + exprSigWith(x.Index, depth+1, subst) + "]"
	case *ssa.Lookup:
		return exprSigWith(x.X, depth+1, subst) + "[" + exprSigWith(x.Index, depth+1, subst) + "]"
	case *ssa.Call:
		if x.Call.IsInvoke() {
			return x.Call.Method.Name() + "()"
		}
		if sc := x.Call.StaticCallee(); sc != nil {
			var a []string
			for _, arg := range x.Call.Args {
				a = append(a, exprSigWith(arg, depth+1, subst))
			}
			return fnName(sc) + "(" + strings.Join(a, ",") + ")"
		}
		if b, ok := x.Call.Value.(*ssa.Builtin); ok {
			var a []string
			for _, arg := range x.Call.Args {
				a = append(a, exprSigWith(arg, depth+1, subst))
			}
			return b.Name() + "(" + strings.Join(a, ",") + ")"
		}
	case *ssa.Parameter:
		if a := subst[x]; a != nil {
			return exprSigWith(a, depth+1, nil)
		}
		return "param:" + x.Name()
	case *ssa.FreeVar:
		return "free:" + x.Name()
	case *ssa.Extract:
		return exprSigWith(x.Tuple, depth+1, subst) + "#" + fmt.Sprint(x.Index)
	case *ssa.Phi:
		return "phi:" + x.Comment
	case *ssa.Global:
		return "global:" + x.Name()
	case *ssa.Next:
		return "next"
	case *ssa.Slice:
		return exprSigWith(x.X, depth+1, subst) + "[:]"
	}
	return fmt.Sprintf("%T", v)
}

// traceParamUp follows a parameter through a unique in-package call chain.
func (c *Ctx) traceParamUp(v ssa.Value) ssa.Value {
	for depth := 0; depth < 8; depth++ {
		p, ok := v.(*ssa.Parameter)
		if !ok {
			return v
		}
		sites := c.callsTo(p.Parent())
		if len(sites) != 1 {
			return v
		}
		idx := paramIndex(p)
		if idx >= len(sites[0].Common().Args) {
			return v
		}
		v = sites[0].Common().Args[idx]
	}
	return v
}

// paramChainHas: following v up through unique in-package call sites, is
// `want` one of the values on the chain?
func (c *Ctx) paramChainHas(v, want ssa.Value) bool {
	for depth := 0; depth < 8; depth++ {
		v = forwardFieldLoad(v)
		if v == want {
			return true
		}
		p, ok := v.(*ssa.Parameter)
		if !ok {
			return false
		}
		sites := c.callsTo(p.Parent())
		if len(sites) != 1 {
			return false
		}
		idx := paramIndex(p)
		if idx >= len(sites[0].Common().Args) {
			return false
		}
		v = sites[0].Common().Args[idx]
	}
	return false
}

func sortedSigs(vals []ssa.Value) []string {
	var out []string
	for _, v := range vals {
		out = append(out, exprSig(v, 0))
	}
	sort.Strings(out)
	return out
}

func callsOf(fn *ssa.Function, callee string) []*ssa.Call {
	var out []*ssa.Call
	for _, b := range fn.Blocks {
		for _, ins := range b.Instrs {
			if call, ok := ins.(*ssa.Call); ok {
				if sc := call.Call.StaticCallee(); sc != nil && fnName(sc) == callee {
					out = append(out, call)
				}
			}
		}
	}
	return out
}

// callsOfName: static calls in fn whose callee's (unqualified) name is name.
func callsOfName(fn *ssa.Function, name string) []*ssa.Call {
	var out []*ssa.Call
	for _, b := range fn.Blocks {
		for _, ins := range b.Instrs {
			if call, ok := ins.(*ssa.Call); ok {
				if sc := call.Call.StaticCallee(); sc != nil && sc.Name() == name {
					out = append(out, call)
				}
			}
		}
	}
	return out
}

// storedBy: value stored into field `field` of footer in fn.
func (c *Ctx) footerStoreIn(fn *ssa.Function, field string) ssa.Value {
	ft := c.NamedType("footer").Obj()
	for _, st := range c.census().fieldStores[fieldKey{ft, field}] {
		if st.fn == fn {
			return st.val
		}
	}
	return nil
}

func init() {
	register(&Rule{
		Name:  "CHUNK-AGREE",
		Floor: 6,
		Doc:   "the postings writer(s) and the postings reader derive the chunk size from the same three quantities: the chunk mode recorded in the footer, the cardinality of the very bitmap that is serialised/deserialised (merger: the sum of Count() of the lists opened with the same drops — provenance only), and the document count recorded in the footer; the result re-sizes both int encoders identically and the chunk index on both sides is docNum / chunkSize",
		Run: func(c *Ctx, scope string, r *Report) {
			gcs := c.MustFn("getChunkSize")
			nw := c.MustFn("newWithChunkMode")
			// --- builder
			// (the function of the builder that computes the chunk size, wherever that was moved to)
			var fn *ssa.Function
			var key string
			for _, f := range c.fnsCalling("getChunkSize") {
				if recv := f.Signature.Recv(); recv != nil && namedOf(recv.Type()) != nil && namedOf(recv.Type()).Obj().Name() == "interim" {
					fn = f
				}
			}
			if fn == nil {
				r.undecided("builder/getChunkSize", "", "-", "no method of the builder calls getChunkSize")
				fn = c.MustFn("(*interim).writeDictsTermField")
			}
			key = "(*interim).writeDictsTermField/getChunkSize"
			for _, call := range callsOf(fn, "getChunkSize") {
				var probs []string
				a0, a1, a2 := chunkSizeArgs(&call.Call)
				if exprSig(a0, 0) != ".chunkMode" {
					probs = append(probs, "mode argument is "+exprSig(a0, 0)+", not the builder's chunkMode")
				}
				// newWithChunkMode stores the same parameter to s.chunkMode and footer.chunkMode
				it := c.NamedType("interim").Obj()
				var sMode, sRes ssa.Value
				// (stored by newWithChunkMode itself or by a helper it hands the values to: then the
				// helper's parameter stands for the argument)
				inNw := func(st storeSite) ssa.Value {
					if st.fn == nw {
						return st.val
					}
					if p, ok := st.val.(*ssa.Parameter); ok {
						for _, site := range c.callsTo(st.fn) {
							if site.Parent() == nw {
								return argFor(site.Common(), p)
							}
						}
					}
					return nil
				}
				for _, st := range c.census().fieldStores[fieldKey{it, "chunkMode"}] {
					if v := inNw(st); v != nil {
						sMode = v
					}
				}
				for _, st := range c.census().fieldStores[fieldKey{it, "results"}] {
					if v := inNw(st); v != nil {
						sRes = v
					}
				}
				// (or a method of the builder records them from the builder's own fields, which
				// newWithChunkMode set from its parameters)
				builderStore := func(field, want string) bool {
					ft := c.NamedType("footer").Obj()
					n := 0
					for _, st := range c.census().fieldStores[fieldKey{ft, field}] {
						rv := st.fn.Signature.Recv()
						if rv == nil || namedOf(rv.Type()) == nil || namedOf(rv.Type()).Obj() != it {
							continue
						}
						if exprSig(st.val, 0) != want {
							return false
						}
						n++
					}
					return n > 0
				}
				if fm := c.footerStoreIn(nw, "chunkMode"); (fm == nil || fm != sMode) && !(fm == nil && sMode != nil && builderStore("chunkMode", ".chunkMode")) {
					probs = append(probs, "newWithChunkMode does not record in footer.chunkMode the mode it gives the builder")
				}
				if fd := c.footerStoreIn(nw, "numDocs"); (fd == nil || sRes == nil || exprSig(fd, 0) != "len("+exprSig(sRes, 0)+")") && !(fd == nil && sRes != nil && builderStore("numDocs", "len(.results)")) {
					probs = append(probs, "newWithChunkMode does not record len(results) of the batch it gives the builder in footer.numDocs")
				}
				if exprSig(a2, 0) != "len(.results)" {
					probs = append(probs, "document-count argument is "+exprSig(a2, 0)+", not len(s.results)")
				}
				// cardinality of the bitmap handed to writePostings
				cardV := c.traceParamUp(a1)
				card, ok := cardV.(*ssa.Call)
				viaStruct := false
				if !ok {
					// the per-term inputs gathered in a struct that a helper returns: the cardinality field
					// is GetCardinality() of the bitmap stored in another field of the same struct, and that
					// field is what reaches writePostings here
					if ts, isCall := c.throughStruct(cardV).(*ssa.Call); isCall && ts.Call.StaticCallee() != nil && ts.Call.StaticCallee().Name() == "GetCardinality" {
						bmSig := exprSig(ts.Call.Args[0], 0)
						helper := ts.Parent()
						bmField := -1
						for _, hb := range helper.Blocks {
							for _, hi := range hb.Instrs {
								if st, isSt := hi.(*ssa.Store); isSt {
									if fa, isFA := st.Addr.(*ssa.FieldAddr); isFA && exprSig(st.Val, 0) == bmSig {
										bmField = fa.Field
									}
								}
							}
						}
						if ld, isLd := cardV.(*ssa.UnOp); isLd && bmField >= 0 {
							if cfa, isFA := ld.X.(*ssa.FieldAddr); isFA {
								for _, fb := range cfa.Parent().Blocks {
									for _, fi := range fb.Instrs {
										if l2, isL2 := fi.(*ssa.UnOp); isL2 && l2.Op == token.MUL {
											if fa2, isFA2 := l2.X.(*ssa.FieldAddr); isFA2 && fa2.X == cfa.X && fa2.Field == bmField && c.reachesWritePostings(cfa.Parent(), l2, 0) {
												viaStruct = true
											}
											// (another load of the same field is what is handed on)
											if fa2, isFA2 := l2.X.(*ssa.FieldAddr); isFA2 && fa2.X == cfa.X && fa2.Field == bmField && c.placeReachesWritePostings(cfa.Parent(), l2) {
												viaStruct = true
											}
										}
									}
								}
							}
						}
					}
				}
				if viaStruct {
					// agreed through the struct
				} else if !ok || card.Call.StaticCallee() == nil || card.Call.StaticCallee().Name() != "GetCardinality" || !c.reachesWritePostings(card.Parent(), card.Call.Args[0], 0) {
					probs = append(probs, "cardinality argument is not GetCardinality() of the bitmap that writePostings serialises")
				}
				probs = append(probs, bothEncodersResized(fn, call)...)
				if len(probs) > 0 {
					r.bad(key, fnName(fn), c.pos(call.Pos()), strings.Join(probs, "; "))
				} else {
					r.ok(key, fnName(fn), c.pos(call.Pos()), "getChunkSize(s.chunkMode, card(serialised bitmap), len(s.results)); both encoders re-sized with the result")
				}
			}
			// --- merger
			fn = nil
			for _, f := range c.fnsCalling("getChunkSize") {
				if recv := f.Signature.Recv(); recv == nil && c.entries().MERGE[topFn(f)] || fnName(f) == "prepareNewTerm" {
					// (the function that prepares a term when it is there: a doc-value helper that
					// also asks for a chunk size is DV-FACTOR-AGREE's business)
					if fn == nil || fnName(fn) != "prepareNewTerm" {
						fn = f
					}
				}
			}
			if fn == nil {
				r.undecided("merger/getChunkSize", "", "-", "no function of the merge path calls getChunkSize")
				fn = c.MustFn("prepareNewTerm")
			}
			key = "prepareNewTerm/getChunkSize"
			msw := c.MustFn("mergeSegmentBasesWriter")
			mtw := c.MustFn("mergeToWriter")
			for _, call := range callsOf(fn, "getChunkSize") {
				var probs []string
				m0, m1, m2 := chunkSizeArgs(&call.Call)
				// (the merged footer's chunkMode may be filled in by mergeSegmentBasesWriter or by the
				// function that writes the sections and returns the footer)
				okMode := false
				for _, st := range c.census().fieldStores[fieldKey{c.NamedType("footer").Obj(), "chunkMode"}] {
					if (st.fn == msw || c.entries().MERGE[topFn(st.fn)]) && c.paramChainHas(m0, st.val) {
						okMode = true
					}
				}
				if !okMode {
					probs = append(probs, "mode argument does not trace to the value stored in the merged footer's chunkMode")
				}
				if fd := c.footerStoreIn(mtw, "numDocs"); fd == nil || !c.paramChainHas(m2, fd) {
					probs = append(probs, "document-count argument does not trace to the value stored in the merged footer's numDocs")
				}
				// card: phi accumulating Count() of lists opened with drops[idx]
				okCard := false
				cardWhy := "cardinality argument is not the sum of Count() of the postings lists opened with the per-segment drops"
				if phi, ok := c.accumulatorOf(m1).(*ssa.Phi); ok {
					for _, e := range phi.Edges {
						if bin, ok := e.(*ssa.BinOp); ok && bin.Op == token.ADD && bin.X == ssa.Value(phi) {
							if cnt, ok := bin.Y.(*ssa.Call); ok && cnt.Call.StaticCallee() != nil && fnName(cnt.Call.StaticCallee()) == "(*PostingsList).Count" {
								if ex, ok := cnt.Call.Args[0].(*ssa.Extract); ok {
									if plc, ok := ex.Tuple.(*ssa.Call); ok && plc.Call.StaticCallee() != nil && fnName(plc.Call.StaticCallee()) == "(*Dictionary).postingsListFromOffset" {
										// the list of segment k is opened with the drops of segment k
										di, ok1 := sliceElemIndex(plc.Call.Args[0], "[]*"+rootPkgPath+".Dictionary")
										xi, ok2 := sliceElemIndex(argOfType(&plc.Call, roaringBitmapPtr), dropsSliceType)
										switch {
										case !ok1 || !ok2:
										case exprSig(di, 0) != exprSig(xi, 0):
											cardWhy = "the cardinality counts the list of dictionary " + exprSig(di, 0) + " under the deletions of segment " + exprSig(xi, 0) + ": the chunk size is computed for another set of documents than is written"
										default:
											okCard = true
										}
									}
								}
							}
						}
					}
				}
				if !okCard {
					probs = append(probs, cardWhy)
				}
				probs = append(probs, bothEncodersResized(fn, call)...)
				if len(probs) > 0 {
					r.bad(key, fnName(fn), c.pos(call.Pos()), strings.Join(probs, "; "))
				} else {
					r.ok(key, fnName(fn), c.pos(call.Pos()), "getChunkSize(footer mode, Σ Count() under drops, footer numDocs); both encoders re-sized with the result")
				}
			}
			// --- reader
			fn = c.MustFn("(*PostingsList).read")
			key = fnName(fn) + "/getChunkSize"
			for _, call := range callsOf(fn, "getChunkSize") {
				var probs []string
				r0, r1, r2 := chunkSizeArgs(&call.Call)
				if ld, ok := r0.(*ssa.UnOp); !ok || !strings.HasSuffix(accessPath(ld.X), ".footer.chunkMode") {
					probs = append(probs, "mode argument is not footer.chunkMode")
				}
				if ld, ok := r2.(*ssa.UnOp); !ok || !strings.HasSuffix(accessPath(ld.X), ".footer.numDocs") {
					probs = append(probs, "document-count argument is not footer.numDocs")
				}
				card, ok := r1.(*ssa.Call)
				fromBuf := false
				if ok && card.Call.StaticCallee() != nil && card.Call.StaticCallee().Name() == "GetCardinality" {
					for _, fb := range fn.Blocks {
						for _, ins := range fb.Instrs {
							if c2, ok := ins.(*ssa.Call); ok && c2.Call.StaticCallee() != nil && c2.Call.StaticCallee().Name() == "FromBuffer" {
								if exprSig(c2.Call.Args[0], 0) == exprSig(card.Call.Args[0], 0) && before(c2, card) {
									fromBuf = true
								}
							}
						}
					}
				}
				if !fromBuf && ok && card.Call.StaticCallee() != nil && card.Call.StaticCallee().Name() == "GetCardinality" {
					// FromBuffer in a helper method of the same list, called before the cardinality is taken
					for _, fb := range fn.Blocks {
						for _, ins := range fb.Instrs {
							hc, isCall := ins.(*ssa.Call)
							if !isCall || !before(hc, card) {
								continue
							}
							sc := hc.Call.StaticCallee()
							if sc == nil || !c.inRoot(sc) || sc.Blocks == nil || len(hc.Call.Args) == 0 || hc.Call.Args[0] != ssa.Value(fn.Params[0]) || sc.Signature.Recv() == nil {
								continue
							}
							for _, c3 := range callsOfName(sc, "FromBuffer") {
								if exprSig(c3.Call.Args[0], 0) == exprSig(card.Call.Args[0], 0) {
									fromBuf = true
								}
							}
						}
					}
				}
				if !fromBuf {
					probs = append(probs, "cardinality argument is not GetCardinality() of the bitmap just deserialised with FromBuffer")
				}
				// stored to p.chunkSize
				stored := false
				if ex := tupleParts(call)[0]; ex != nil {
					for _, st := range storesToFieldOf(fn, fn.Params[0], "chunkSize") {
						if st.Val == ssa.Value(ex) {
							stored = true
						}
					}
				}
				if !stored {
					probs = append(probs, "the result is not stored in the list's chunkSize")
				}
				if len(probs) > 0 {
					r.bad(key, fnName(fn), c.pos(call.Pos()), strings.Join(probs, "; "))
				} else {
					r.ok(key, fnName(fn), c.pos(call.Pos()), "getChunkSize(footer.chunkMode, card(deserialised bitmap), footer.numDocs) -> p.chunkSize")
				}
			}
			// reader chunk index: n / uint32(postings.chunkSize)
			// every division in a method of the postings iterator is a chunk index (wherever
			// the navigation code is split): it divides by the list's chunkSize
			nq := 0
			isIterMethod := func(fn *ssa.Function, typ string) bool {
				recv := fn.Signature.Recv()
				return recv != nil && namedOf(recv.Type()) != nil && namedOf(recv.Type()).Obj().Name() == typ
			}
			// helpers of the postings list that the iterator's methods call count once per call
			uses := map[*ssa.Function]int{}
			helperUses := map[*ssa.Function]int{}
			for _, fn := range c.srcFns {
				if !isIterMethod(fn, "PostingsIterator") {
					continue
				}
				uses[fn] = 1
			}
			for _, fn := range c.srcFns {
				if !isIterMethod(fn, "PostingsIterator") {
					continue
				}
				for _, b := range fn.Blocks {
					for _, ins := range b.Instrs {
						if call, ok := ins.(*ssa.Call); ok {
							if sc := call.Call.StaticCallee(); sc != nil && sc.Blocks != nil && isIterMethod(sc, "PostingsList") && len(callsOf(sc, "getChunkSize")) == 0 {
								uses[sc]++
							}
							// a helper method of the iterator itself counts once per call, too
							if sc := call.Call.StaticCallee(); sc != nil && sc.Blocks != nil && sc != fn && isIterMethod(sc, "PostingsIterator") {
								helperUses[sc]++
							}
						}
					}
				}
			}
			for f, n := range helperUses {
				if n > uses[f] {
					uses[f] = n
				}
			}
			for _, fn := range c.srcFns {
				if uses[fn] == 0 {
					continue
				}
				name := fnName(fn)
				for _, b := range fn.Blocks {
					for _, ins := range b.Instrs {
						if bin, ok := ins.(*ssa.BinOp); ok && bin.Op == token.QUO {
							// (one obligation per navigation step that uses the quotient)
							for u := 0; u < uses[fn]; u++ {
								nq++
								key := name + "/chunk-index"
								if exprSig(bin.Y, 0) == ".chunkSize" {
									r.ok(key, name, c.pos(bin.Pos()), "chunk index = docNum / postings.chunkSize")
								} else {
									r.bad(key, name, c.pos(bin.Pos()), "chunk index divides by "+exprSig(bin.Y, 0)+", not by the list's chunkSize")
								}
							}
						}
					}
				}
			}
			if nq < 2 {
				r.undecided("PostingsIterator/chunk-index", "", "-", fmt.Sprintf("%d chunk-index divisions found in the iterator's methods, both navigation paths need one", nq))
			}
			_ = gcs
		},
	})

	register(&Rule{
		Name:  "CHUNK-INDEX",
		Floor: 3,
		Doc:   "in both chunked encoders Add computes chunk = docNum / c.chunkSize, switches chunk exactly when chunk != c.currChunk and records that very quotient as the current chunk; SetChunkSize stores its argument",
		Run: func(c *Ctx, scope string, r *Report) {
			for _, name := range []string{"(*chunkedIntCoder).Add", "(*chunkedContentCoder).Add"} {
				fn := c.MustFn(name)
				key := name + "/chunk"
				var quo *ssa.BinOp
				for _, ins := range fn.Blocks[0].Instrs {
					if bin, ok := ins.(*ssa.BinOp); ok && bin.Op == token.QUO && bin.X == ssa.Value(fn.Params[1]) && exprSig(bin.Y, 0) == ".chunkSize" {
						quo = bin
					}
				}
				if quo == nil {
					r.bad(key, name, c.pos(fn.Pos()), "Add does not start by computing docNum / c.chunkSize")
					continue
				}
				okCmp, okStore := false, false
				if ifi, ok := fn.Blocks[0].Instrs[len(fn.Blocks[0].Instrs)-1].(*ssa.If); ok {
					if bin, ok := ifi.Cond.(*ssa.BinOp); ok && bin.Op == token.NEQ && bin.X == ssa.Value(quo) && exprSig(bin.Y, 0) == ".currChunk" {
						okCmp = true
						for _, ins := range fn.Blocks[0].Succs[0].Instrs {
							if st, ok := ins.(*ssa.Store); ok && exprSig(st.Addr, 0) == ".currChunk" {
								okStore = st.Val == ssa.Value(quo)
							}
						}
						// the store may be in a later block of the then-branch (after an error check)
						if !okStore {
							for _, st := range storesToFieldOf(fn, fn.Params[0], "currChunk") {
								if st.Val == ssa.Value(quo) && fn.Blocks[0].Succs[0].Dominates(st.Block()) {
									okStore = true
								}
							}
						}
						// or in a helper method of the same coder that is handed the quotient
						if !okStore {
							for _, b := range fn.Blocks {
								if !fn.Blocks[0].Succs[0].Dominates(b) {
									continue
								}
								for _, ins := range b.Instrs {
									ci, ok := ins.(ssa.CallInstruction)
									if !ok {
										continue
									}
									sc := ci.Common().StaticCallee()
									if sc == nil || !c.inRoot(sc) || sc.Blocks == nil || len(ci.Common().Args) == 0 {
										continue
									}
									// a method of the coder, or of a struct it holds by value (c.chunks.start(chunk))
									onCoder := ci.Common().Args[0] == ssa.Value(fn.Params[0])
									if fa, isFA := ci.Common().Args[0].(*ssa.FieldAddr); isFA && fa.X == ssa.Value(fn.Params[0]) {
										onCoder = true
									}
									if !onCoder {
										continue
									}
									for ai, a := range ci.Common().Args {
										if a != ssa.Value(quo) || ai >= len(sc.Params) {
											continue
										}
										for _, st := range storesToFieldOf(sc, sc.Params[0], "currChunk") {
											if st.Val == ssa.Value(sc.Params[ai]) {
												okStore = true
											}
										}
									}
								}
							}
						}
					}
				}
				switch {
				case !okCmp:
					r.bad(key, name, c.pos(quo.Pos()), "the chunk switch is not decided by chunk != c.currChunk")
				case !okStore:
					r.bad(key, name, c.pos(quo.Pos()), "on a chunk switch c.currChunk is not set to docNum / c.chunkSize")
				default:
					r.ok(key, name, c.pos(quo.Pos()), "chunk = docNum / chunkSize; switch iff chunk != currChunk; currChunk = chunk")
				}
			}
			for _, name := range []string{"(*chunkedIntCoder).SetChunkSize", "(*chunkedContentCoder).SetChunkSize"} {
				fn := c.MustFn(name)
				key := name + "/stores"
				ok := false
				for _, st := range storesToFieldOf(fn, fn.Params[0], "chunkSize") {
					if st.Val == ssa.Value(fn.Params[1]) {
						ok = true
					}
				}
				if ok {
					r.ok(key, name, c.pos(fn.Pos()), "c.chunkSize = chunkSize argument")
				} else {
					r.bad(key, name, c.pos(fn.Pos()), "SetChunkSize does not store its chunk size argument")
				}
			}
		},
	})

	register(&Rule{
		Name:  "LENPREFIX-AGREE",
		Floor: 2,
		Doc:   "the byte-count prefix written before a posting's locations is totalUvarintBytes of the same four quantities (as a multiset) that are then encoded per location; otherwise skipping over locations lands mid-record",
		Run: func(c *Ctx, scope string, r *Report) {
			for _, fn := range c.fnsCalling("totalUvarintBytes") {
				name := fnName(fn)
				key := name + "/prefix"
				tub := callsOf(fn, "totalUvarintBytes")
				if len(tub) != 1 {
					r.undecided(key, name, c.pos(fn.Pos()), fmt.Sprintf("%d totalUvarintBytes calls", len(tub)))
					continue
				}
				pre := sortedSigs(tub[0].Call.Args)
				// the 4-value Add of the location encoder
				var enc []string
				for _, add := range callsOf(fn, "(*chunkedIntCoder).Add") {
					vals := varargValues(add.Call.Args[2])
					if len(vals) == 4 {
						enc = sortedSigs(vals)
					} else if sl, ok := add.Call.Args[2].(*ssa.Slice); ok {
						// args := bufLoc[0:4]; args[i] = …
						var vs []ssa.Value
						for _, ref := range *sl.Referrers() {
							if ia, ok := ref.(*ssa.IndexAddr); ok {
								for _, r2 := range *ia.Referrers() {
									if st, ok := r2.(*ssa.Store); ok {
										vs = append(vs, st.Val)
									}
								}
							}
						}
						if len(vs) == 4 {
							enc = sortedSigs(vs)
						}
					}
				}
				if enc == nil {
					// staged: the four values of every location are written into a window of a scratch
					// buffer, the prefix is computed from loads of that window, and what is encoded
					// are windows of the same buffer: sized from the very values that are encoded
					if staged, why := stagedLocations(fn, tub[0]); staged {
						r.ok(key, name, c.pos(tub[0].Pos()), "prefix computed from the four staged values of each location; the location encoder is handed windows of the same staging buffer")
						goto prefixWritten
					} else if why != "" {
						r.bad(key, name, c.pos(tub[0].Pos()), why)
						continue
					}
					r.undecided(key, name, c.pos(tub[0].Pos()), "cannot find the 4-value location Add")
					continue
				}
				if strings.Join(pre, " | ") == strings.Join(enc, " | ") {
					r.ok(key, name, c.pos(tub[0].Pos()), "prefix and encoding use the same four quantities: "+strings.Join(pre, ", "))
				} else {
					r.bad(key, name, c.pos(tub[0].Pos()), "the location byte-count prefix is computed from ["+strings.Join(pre, ", ")+"] but the locations are encoded from ["+strings.Join(enc, ", ")+"]")
				}
			prefixWritten:
				// the prefix value is the accumulated totalUvarintBytes, passed alone to Add
				okPfx := false
				for _, add := range callsOf(fn, "(*chunkedIntCoder).Add") {
					vals := varargValues(add.Call.Args[2])
					if len(vals) == 1 {
						if s := exprSig(vals[0], 0); strings.HasPrefix(s, "phi:numBytesLocs") {
							okPfx = true
						}
					}
				}
				if okPfx {
					r.ok(name+"/prefix-written", name, c.pos(tub[0].Pos()), "the accumulated byte count is written before the locations")
				} else {
					r.bad(name+"/prefix-written", name, c.pos(tub[0].Pos()), "the accumulated location byte count is not what is written as the prefix")
				}
			}
			// numUvarintBytes must count what PutUvarint emits: >=0x80 loop, >>7, +1
			fn := c.MustFn("numUvarintBytes")
			key := "numUvarintBytes/algorithm"
			var ks []string
			for _, b := range fn.Blocks {
				for _, ins := range b.Instrs {
					if bin, ok := ins.(*ssa.BinOp); ok {
						for _, op := range []ssa.Value{bin.X, bin.Y} {
							if k, ok := op.(*ssa.Const); ok && k.Value != nil && k.Value.Kind() == constant.Int {
								ks = append(ks, bin.Op.String()+k.Value.ExactString())
							}
						}
					}
				}
			}
			sort.Strings(ks)
			// accepted spellings: n from 0 with `return n+1` (two +1), or n from 1 (one +1
			// and a counter that starts at the constant 1); the comparison in either polarity
			got := strings.Join(ks, " ")
			plus, cmp, shift, other := 0, 0, 0, 0
			for _, b := range fn.Blocks {
				for _, ins := range b.Instrs {
					bin, ok := ins.(*ssa.BinOp)
					if !ok {
						continue
					}
					for oi, op := range []ssa.Value{bin.X, bin.Y} {
						k, ok := constInt(op)
						if !ok {
							continue
						}
						switch tok := canonArith(bin.Op.String(), oi == 0); {
						case tok == "+" && k == 1:
							plus++
						case tok == "lt" && k == 128, tok == "le" && k == 127:
							cmp++
						case tok == ">>" && k == 7:
							shift++
						default:
							other++
						}
					}
				}
			}
			startsAtOne := false
			for _, b := range fn.Blocks {
				for _, ins := range b.Instrs {
					if phi, ok := ins.(*ssa.Phi); ok {
						for _, e := range phi.Edges {
							if k, ok := constInt(e); ok && k == 1 {
								startsAtOne = true
							}
						}
					}
				}
			}
			if other == 0 && cmp == 1 && shift == 1 && (plus == 2 || (plus == 1 && startsAtOne)) {
				r.ok(key, fnName(fn), c.pos(fn.Pos()), "counts one byte per 7 bits: for x >= 0x80 { x >>= 7; n++ }; n+1")
			} else if uvarintLenClosedForm(fn) {
				r.ok(key, fnName(fn), c.pos(fn.Pos()), "closed form: (bits.Len64(x|1)+6)/7 - seven bits per byte, and zero still takes one byte")
			} else {
				r.bad(key, fnName(fn), c.pos(fn.Pos()), "numUvarintBytes no longer has the shape of the uvarint length loop (constants now: "+got+")")
			}
		},
	})

	register(&Rule{
		Name:  "FIELD-ORDER",
		Floor: 4,
		Doc:   "builder and merger put _id first and sort the remaining field names: the first defined field folds to \"_id\", sort.Strings is applied to the slice from index 1, the name→id map is rebuilt from the sorted slice before dictionaries are prepared; a location's field id is the containing field's id when its field name is empty, else the id of the named field",
		Run: func(c *Ctx, scope string, r *Report) {
			// convert
			fn := c.MustFn("(*interim).convert")
			key := fnName(fn) + "/id-first"
			// the first thing that can define a field - in convert or in the helpers it starts with
			// (collectFields(); assignFieldIDs(); ...) - is the direct definition of "_id"
			var firstDef func(f *ssa.Function, depth int) (ssa.Instruction, bool)
			definesViaClosure := func(call *ssa.Call) bool {
				for _, a := range call.Call.Args {
					for {
						if ct, ok := a.(*ssa.ChangeType); ok {
							a = ct.X
							continue
						}
						break
					}
					if mc, ok := a.(*ssa.MakeClosure); ok {
						if lit, ok := mc.Fn.(*ssa.Function); ok && len(callsOf(lit, "(*interim).getOrDefineField")) > 0 {
							return true
						}
					}
				}
				return false
			}
			firstDef = func(f *ssa.Function, depth int) (ssa.Instruction, bool) {
				for bi, b := range f.Blocks {
					for _, ins := range b.Instrs {
						call, ok := ins.(*ssa.Call)
						if !ok {
							continue
						}
						if sc := call.Call.StaticCallee(); sc != nil && fnName(sc) == "(*interim).getOrDefineField" {
							return call, bi == 0 && exprSig(call.Call.Args[1], 0) == `"_id"`
						}
						if definesViaClosure(call) {
							return call, false
						}
						if sc := call.Call.StaticCallee(); sc != nil && c.inRoot(sc) && sc.Blocks != nil && depth < 2 && len(call.Call.Args) > 0 && call.Call.Args[0] == ssa.Value(f.Params[0]) && sc.Signature.Recv() != nil {
							if ev, good := firstDef(sc, depth+1); ev != nil {
								return ev, good && bi == 0
							}
						}
					}
				}
				return nil, false
			}
			if ev, good := firstDef(fn, 0); ev != nil && good {
				r.ok(key, fnName(fn), c.pos(ev.Pos()), "the first field defined is \"_id\"")
			} else {
				r.bad(key, fnName(fn), c.pos(fn.Pos()), "convert does not define \"_id\" as the first field")
			}
			checkSort := func(fn *ssa.Function, what string) {
				key := fnName(fn) + "/sort-from-1"
				ok := false
				var sortCall *ssa.Call
				for _, b := range fn.Blocks {
					for _, ins := range b.Instrs {
						if call, isCall := ins.(*ssa.Call); isCall {
							if sc := call.Call.StaticCallee(); sc != nil && funcFullName(sc) == "sort.Strings" {
								if sl, isSl := call.Call.Args[0].(*ssa.Slice); isSl {
									if k, isK := constInt(sl.Low); isK && k == 1 && sl.High == nil {
										ok = true
										sortCall = call
									}
								}
							}
						}
					}
				}
				if ok {
					r.ok(key, fnName(fn), c.pos(sortCall.Pos()), "sort.Strings("+what+"[1:])")
				} else {
					r.bad(key, fnName(fn), c.pos(fn.Pos()), "the field names are not sorted from index 1 (keeping _id first)")
				}
				if (fnName(fn) == "(*interim).convert" || convertSortSite != nil && what == "s.FieldsInv") && sortCall != nil {
					// FieldsMap rebuilt after the sort, before prepareDicts
					key := fnName(fn) + "/map-rebuilt"
					rebuilt := false
					for _, b := range fn.Blocks {
						for _, ins := range b.Instrs {
							if mu, isMu := ins.(*ssa.MapUpdate); isMu && exprSig(mu.Map, 0) == ".FieldsMap" && sortCall.Block().Dominates(b) {
								if strings.Contains(exprSig(mu.Value, 0), "+1") {
									rebuilt = true
								}
							}
						}
					}
					pd := callsOf(fn, "(*interim).prepareDicts")
					if convertSortSite != nil {
						// sorted and rebuilt in a helper: the helper is called before prepareDicts in convert
						cvf := c.MustFn("(*interim).convert")
						pd = callsOf(cvf, "(*interim).prepareDicts")
						if rebuilt && len(pd) == 1 && before(convertSortSite, pd[0]) {
							r.ok(key, fnName(fn), c.pos(sortCall.Pos()), "FieldsMap is rebuilt (id+1) from the sorted names before prepareDicts")
						} else {
							r.bad(key, fnName(fn), c.pos(sortCall.Pos()), "the name→id map is not rebuilt from the sorted field list before the dictionaries are prepared")
						}
					} else if rebuilt && len(pd) == 1 && before(sortCall, pd[0]) {
						r.ok(key, fnName(fn), c.pos(sortCall.Pos()), "FieldsMap is rebuilt (id+1) from the sorted names before prepareDicts")
					} else {
						r.bad(key, fnName(fn), c.pos(sortCall.Pos()), "the name→id map is not rebuilt from the sorted field list before the dictionaries are prepared")
					}
				}
			}
			// (the sort and the rebuild of the map may sit in a helper that convert starts with)
			sortFn := fn
			var sortSite ssa.Instruction
			if len(callsOfFull(fn, "sort.Strings")) == 0 || !sortsFromOne(fn) {
				for _, b := range fn.Blocks {
					for _, ins := range b.Instrs {
						if call, ok := ins.(*ssa.Call); ok {
							if sc := call.Call.StaticCallee(); sc != nil && c.inRoot(sc) && sc.Blocks != nil && sortsFromOne(sc) && sortSite == nil {
								sortFn, sortSite = sc, call
							}
						}
					}
				}
			}
			convertSortSite = sortSite
			checkSort(sortFn, "s.FieldsInv")
			mf := c.MustFn("mergeFields")
			// (the union of the field names may be built in a helper mergeFields is split into)
			if len(callsOfFull(mf, "sort.Strings")) == 0 {
				for _, h := range staticCallees(mf) {
					if c.inRoot(h) && h.Blocks != nil && len(callsOfFull(h, "sort.Strings")) > 0 {
						mf = h
					}
				}
			}
			checkSort(mf, "fields")
			key = "mergeFields/id-first"
			okID := false
			for _, b := range mf.Blocks {
				for _, ins := range b.Instrs {
					if call, ok := ins.(*ssa.Call); ok {
						if bi, ok := call.Call.Value.(*ssa.Builtin); ok && bi.Name() == "append" {
							if _, isMk := call.Call.Args[0].(*ssa.MakeSlice); isMk {
								vals := varargValues(call.Call.Args[1])
								if len(vals) == 1 && exprSig(vals[0], 0) == `"_id"` {
									okID = true
								}
							}
						}
					}
				}
			}
			if okID {
				r.ok(key, "mergeFields", c.pos(mf.Pos()), "the merged field list starts with \"_id\"")
			} else {
				r.bad(key, "mergeFields", c.pos(mf.Pos()), "the merged field list does not start with \"_id\"")
			}
			// location field ids in processDocument
			// (anchored on the store of an interimLoc's fieldID, wherever the conversion of token
			// locations sits: processDocument, a helper of it, or what it was split into)
			key = "(*interim).processDocument/location-field-id"
			okLoc := false
			var pdoc *ssa.Function
			locFns := c.srcFns
			for _, lf := range locFns {
				for _, b := range lf.Blocks {
					for _, ins := range b.Instrs {
						st, ok := ins.(*ssa.Store)
						if !ok || exprSig(st.Addr, 0) != ".fieldID" {
							continue
						}
						phi, ok := st.Val.(*ssa.Phi)
						if !ok || len(phi.Edges) != 2 {
							continue
						}
						// one edge: the id of the field being processed (index of the range over the per-field token
						// frequencies, possibly handed to the helper as a parameter); the other:
						// getOrDefineField(loc.FieldVal), taken when FieldVal != ""
						named, containing := false, false
						for _, e := range phi.Edges {
							sig := exprSig(e, 0)
							switch {
							case strings.Contains(sig, "(*interim).getOrDefineField(") && strings.Contains(sig, ".FieldVal"):
								named = true
							case strings.Contains(sig, "phi:rangeindex"):
								containing = true
							default:
								if p, isParam := stripConv(e).(*ssa.Parameter); isParam {
									all, n := true, 0
									for _, site := range c.callsTo(lf) {
										n++
										if !strings.Contains(exprSig(argFor(site.Common(), p), 0), "phi:rangeindex") {
											all = false
										}
									}
									containing = all && n > 0
								}
							}
						}
						if named && containing {
							okLoc = true
							pdoc = lf
						}
					}
				}
			}
			if okLoc {
				r.ok(key, fnName(pdoc), c.pos(pdoc.Pos()), "location field id = containing field id, or getOrDefineField(FieldVal) when named")
			} else {
				r.bad(key, "(*interim).processDocument", "-", "a location's field id is no longer {containing field | named field}")
			}
		},
	})

	register(&Rule{
		Name:  "SIBLING-LITERAL",
		Floor: 1,
		Doc:   "all composite literals of tokenLocation in the processDocument family populate each field from the same source (FieldVal←location.Field(), StartVal←Start(), EndVal←End(), PositionVal←Pos()): sibling code paths (first occurrence of a term vs. repeated field) must agree",
		Run: func(c *Ctx, scope string, r *Report) {
			tl := c.NamedType("tokenLocation").Obj()
			type lit struct {
				fn     *ssa.Function
				alloc  *ssa.Alloc
				fields map[string]string
			}
			var lits []lit
			for _, fn := range c.srcFns {
				for _, b := range fn.Blocks {
					for _, ins := range b.Instrs {
						a, ok := ins.(*ssa.Alloc)
						if !ok {
							continue
						}
						n := namedOf(a.Type())
						if n == nil || n.Obj() != tl {
							continue
						}
						l := lit{fn: fn, alloc: a, fields: map[string]string{}}
						for _, ref := range *a.Referrers() {
							if fa, ok := ref.(*ssa.FieldAddr); ok {
								_, f := fieldAddrInfo(fa)
								for _, r2 := range *fa.Referrers() {
									if st, ok := r2.(*ssa.Store); ok {
										l.fields[f.Name()] = exprSig(st.Val, 0)
									}
								}
							}
						}
						lits = append(lits, l)
					}
				}
			}
			if len(lits) == 0 {
				r.undecided("tokenLocation/literals", "", "-", "no tokenLocation literal found")
				return
			}
			if len(lits) == 1 {
				r.ok("tokenLocation/literal-1", fnName(lits[0].fn), c.pos(lits[0].alloc.Pos()), "a single literal builds every token location: no sibling to disagree with")
				return
			}
			ref := lits[0]
			for i, l := range lits {
				key := fmt.Sprintf("tokenLocation/literal-%d", i+1)
				var diffs []string
				for f, src := range ref.fields {
					if l.fields[f] != src {
						diffs = append(diffs, fmt.Sprintf("%s: %s here vs %s in %s", f, l.fields[f], src, fnName(ref.fn)))
					}
				}
				for f := range l.fields {
					if _, ok := ref.fields[f]; !ok {
						diffs = append(diffs, f+" set only here")
					}
				}
				if len(diffs) > 0 {
					r.bad(key, fnName(l.fn), c.pos(l.alloc.Pos()), "sibling tokenLocation literals disagree: "+strings.Join(diffs, "; "))
				} else {
					r.ok(key, fnName(l.fn), c.pos(l.alloc.Pos()), "same sources as its siblings")
				}
			}
		},
	})

	register(&Rule{
		Name:  "REMAP",
		Floor: 6,
		Doc:   "in the merger every document number handed to the encoders and bitmaps is newDocNums[next.Number()] (never the old number), location field ids are fieldsMap[loc.Field()]-1 with the merged map, doc values are re-added under newDocNums[seg][docNum] and only when that is not the dropped sentinel, and the parallel slices indexed by the iterator index (dicts, drops, newDocNums, segmentsInFocus) come from one setupActiveForField result",
		Run: func(c *Ctx, scope string, r *Report) {
			fn := c.MustFn("mergeTermFreqNormLocs")
			n := 0
			nLocID, okLocID := 0, true
			var tubPos token.Pos
			// the term loop and the helpers it hands the posting to (their parameters are read as
			// the arguments of the call)
			c.withHelpers(fn, 2, func(f *ssa.Function, subst map[*ssa.Parameter]ssa.Value) {
				for _, b := range f.Blocks {
					for _, ins := range b.Instrs {
						call, ok := ins.(*ssa.Call)
						if !ok || call.Call.StaticCallee() == nil {
							continue
						}
						sc := call.Call.StaticCallee()
						var doc ssa.Value
						switch {
						case fnName(sc) == "(*chunkedIntCoder).Add":
							doc = call.Call.Args[1]
						case sc.Name() == "Add" && sc.Signature.Recv() != nil && isRoaringBitmapPtr(sc.Signature.Recv().Type()):
							doc = stripConv(call.Call.Args[1])
						case fnName(sc) == "totalUvarintBytes":
							nLocID++
							tubPos = call.Pos()
							if exprSigWith(call.Call.Args[0], 0, subst) != "(param:fieldsMap[Field()]-1)" {
								okLocID = false
							}
							continue
						default:
							continue
						}
						n++
						key := fnName(f) + "/" + fnName(sc)
						if sig := exprSigWith(doc, 0, subst); sig == "param:newDocNums[Number()]" {
							r.ok(key, fnName(f), c.pos(call.Pos()), "document number is newDocNums[next.Number()]")
						} else {
							r.bad(key, fnName(f), c.pos(call.Pos()), "document number passed is "+sig+", not the remapped newDocNums[next.Number()]")
						}
					}
				}
			})
			if n == 0 {
				r.undecided(fnName(fn)+"/no-sites", fnName(fn), c.pos(fn.Pos()), "no encoder/bitmap Add found")
			}
			// location field id via the merged map
			key := fnName(fn) + "/loc-field-id"
			if nLocID == 1 && okLocID {
				r.ok(key, fnName(fn), c.pos(tubPos), "location field id = fieldsMap[loc.Field()] - 1 (merged map)")
			} else {
				r.bad(key, fnName(fn), c.pos(fn.Pos()), "location field ids are not taken from the merged fieldsMap")
			}
			// DV-REMAP
			// the doc-value visitor: the function literal of the merge path that
			// feeds the merged doc-value encoder (wherever it was moved to)
			var dvfn *ssa.Function
			for _, f := range c.fnsCalling("(*chunkedContentCoder).Add") {
				if f.Parent() != nil && (c.entries().MERGE[topFn(f)] || strings.HasPrefix(fnName(f), "buildMergedDocVals$")) {
					dvfn = f
				}
			}
			// or a method with the visitor's signature (docNum uint64, terms []byte) error
			// that the merge path hands to iterateAllDocValues as a method value
			if dvfn == nil {
				for _, f := range c.fnsCalling("(*chunkedContentCoder).Add") {
					sig := f.Signature
					if f.Parent() == nil && sig.Recv() != nil && sig.Params().Len() == 2 && sig.Params().At(0).Type().String() == "uint64" && isByteSlice(sig.Params().At(1).Type()) && !c.entries().BUILD[f] {
						dvfn = f
					}
				}
			}
			key = "buildMergedDocVals/dv-remap"
			if dvfn == nil {
				r.undecided(key, "buildMergedDocVals", "-", "doc-value visitor literal not found")
			} else {
				adds := callsOf(dvfn, "(*chunkedContentCoder).Add")
				okDv := len(adds) == 1
				why := "no single fdvEncoder.Add in the visitor"
				if okDv {
					arg := adds[0].Call.Args[1]
					s := exprSig(arg, 0)
					// the document number must be a load of TABLE[docNum] where docNum is the visitor's parameter and
					// TABLE derives from the newDocNums parameter of buildMergedDocVals (possibly via a captured local)
					top := topFn(dvfn)
					var tableParam *ssa.Parameter
					for _, p := range top.Params {
						if strings.HasSuffix(p.Type().String(), "[][]uint64") {
							tableParam = p
						}
					}
					if tableParam == nil {
						// a per-segment helper: it is handed one segment's table, which
						// every caller must select with the index it selects the segment with
						if p := paramOfType(top, "[]uint64"); p != nil && perSegmentTableArg(c, top, p) {
							tableParam = p
						}
					}
					okShape := false
					docParam := paramOfType(dvfn, "uint64")
					if ld, ok := resolveCellLoad(c, arg).(*ssa.UnOp); ok && ld.Op == token.MUL {
						if ia, ok := ld.X.(*ssa.IndexAddr); ok && docParam != nil && stripConv(ia.Index) == ssa.Value(docParam) {
							if tableParam != nil && derivesFrom(c, ia.X, tableParam, 0) {
								okShape = true
							}
							// the table is a field of the visitor object: every store to that field is
							// TABLES[i] of the remap tables handed to the function that makes the object
							if fld, isLd := ia.X.(*ssa.UnOp); isLd && dvfn.Signature.Recv() != nil {
								if fa, isFA := fld.X.(*ssa.FieldAddr); isFA && fa.X == ssa.Value(dvfn.Params[0]) {
									owner, fv := fieldAddrInfo(fa)
									if owner != nil && fv != nil {
										stores := c.census().fieldStores[fieldKey{owner.Obj(), fv.Name()}]
										okShape = len(stores) > 0
										for _, st := range stores {
											okSt := false
											if eld, ok := st.val.(*ssa.UnOp); ok && eld.Op == token.MUL {
												if eia, ok := eld.X.(*ssa.IndexAddr); ok {
													for _, cp := range st.fn.Params {
														if strings.HasSuffix(cp.Type().String(), "[][]uint64") && derivesFrom(c, eia.X, cp, 0) {
															okSt = true
														}
													}
												}
											}
											if !okSt {
												okShape = false
											}
										}
									}
								}
							}
						}
					}
					if !okShape {
						okDv, why = false, "doc values are added under "+s+", which is not newDocNums[segment][docNum] of the remap tables"
					}
					// dominated by != docDropped
					guarded := false
					for b := adds[0].Block(); b != nil && !guarded; b = b.Idom() {
						idom := b.Idom()
						if idom == nil {
							break
						}
						if ifi, ok := idom.Instrs[len(idom.Instrs)-1].(*ssa.If); ok {
							if bin, ok := ifi.Cond.(*ssa.BinOp); ok && (bin.Op == token.EQL || bin.Op == token.NEQ) && isDocDroppedConst(bin.Y) && (exprSig(bin.X, 0) == s || resolveCellLoad(c, bin.X) == resolveCellLoad(c, arg)) {
								ne := idom.Succs[1]
								if bin.Op == token.NEQ {
									ne = idom.Succs[0]
								}
								if ne == b || ne.Dominates(adds[0].Block()) {
									guarded = true
								}
							}
						}
					}
					if okDv && !guarded {
						okDv, why = false, "doc values of dropped documents are not filtered (no dominating != docDropped test on the same entry)"
					}
				}
				if okDv {
					r.ok(key, fnName(dvfn), c.pos(adds[0].Pos()), "doc values re-added under newDocNums[seg][docNum], dropped documents skipped")
				} else {
					r.bad(key, fnName(dvfn), c.pos(dvfn.Pos()), why)
				}
			}
			// parallel slices
			// (anchored on the one call of setupActiveForField, wherever it was moved to; the users of
			// its result are looked for in the whole merge path, a slice handed down as a parameter is
			// followed back to the call it came from)
			pm := c.MustFn("persistMergedRestField")
			key = fnName(pm) + "/parallel-slices"
			var sa []*ssa.Call
			for _, f := range c.fnsCalling("setupActiveForField") {
				sa = append(sa, callsOf(f, "setupActiveForField")...)
			}
			if len(sa) != 1 {
				r.undecided(key, fnName(pm), c.pos(pm.Pos()), "setupActiveForField call not found")
			} else {
				set := newActiveSet(sa[0])
				set.c = c
				var probs []string
				const tablesType, dictsType = "[][]uint64", "[]*" + rootPkgPath + ".Dictionary"
				// the slices are recognised by their element type (results of the call, or fields of the
				// one object it returns), never by position
				fromSet := func(call *ssa.Call, typ string) bool {
					for _, a := range call.Call.Args {
						if set.role(a) == "set" {
							return true // the callee is handed the whole result
						}
					}
					a := argOfType(&call.Call, typ)
					return a != nil && set.role(a) == typ
				}
				elemOf := func(v ssa.Value, typ string) (ssa.Value, bool) {
					ld, ok := v.(*ssa.UnOp)
					if !ok || ld.Op != token.MUL {
						return nil, false
					}
					ia, ok := ld.X.(*ssa.IndexAddr)
					if !ok || set.role(ia.X) != typ {
						return nil, false
					}
					return ia.Index, true
				}
				for _, call := range c.allCallsOf("buildMergedDocVals") {
					if !fromSet(call, segSliceType) || !fromSet(call, tablesType) {
						probs = append(probs, "buildMergedDocVals is not given the (segmentsInFocus, newDocNums) pair of the same setupActiveForField result")
					}
				}
				for _, call := range c.allCallsOf("mergeTermFreqNormLocs") {
					given := false
					for _, a := range call.Call.Args {
						if _, ok := elemOf(a, tablesType); ok {
							given = true
						}
					}
					if !given {
						probs = append(probs, "mergeTermFreqNormLocs is not given newDocNums[itrI] of the filtered slices")
					}
				}
				for _, call := range c.allCallsOf("(*Dictionary).postingsListFromOffset") {
					if call.Parent() != sa[0].Parent() && call.Parent() != pm {
						continue // the term-cardinality loop is CHUNK-AGREE's
					}
					di, ok1 := elemOf(call.Call.Args[0], dictsType)
					xi, ok2 := elemOf(argOfType(&call.Call, roaringBitmapPtr), dropsSliceType)
					if !ok1 || !ok2 {
						probs = append(probs, "postings are not opened with dicts[itrI] and drops[itrI] of the same filtered slices")
					} else if exprSig(di, 0) != exprSig(xi, 0) {
						probs = append(probs, "dicts and drops are indexed by different iterator indexes")
					}
				}
				for _, call := range c.allCallsOf("prepareNewTerm") {
					if !fromSet(call, dictsType) || !fromSet(call, dropsSliceType) {
						probs = append(probs, "prepareNewTerm is not given the filtered (dicts, drops)")
					}
				}
				if len(probs) > 0 {
					r.bad(key, fnName(pm), c.pos(sa[0].Pos()), strings.Join(probs, "; "))
				} else {
					r.ok(key, fnName(pm), c.pos(sa[0].Pos()), "dicts/drops/newDocNums/segmentsInFocus all come from one setupActiveForField result and are indexed together")
				}
			}
		},
	})

	register(&Rule{
		Name:  "FASTPATH-GUARD",
		Floor: 2,
		Doc:   "the stored-field byte-copy path is taken only when the field lists are identical (fieldsSame) and the segment has no deletions (drops nil or empty); fieldsSame is computed by comparing every field of every segment with the first segment's list, unconditionally",
		Run: func(c *Ctx, scope string, r *Report) {
			fn := c.MustFn("mergeStoredAndRemap")
			key := fnName(fn) + "/copyStoredDocs"
			calls := callsOf(fn, "(*Segment).copyStoredDocs")
			mtw := c.MustFn("mergeToWriter")
			// which parameter receives mergeFields' verdict?
			var same *ssa.Parameter
			for _, site := range c.callsTo(fn) {
				if site.Parent() != mtw {
					continue
				}
				for i, a := range site.Common().Args {
					if ex, ok := a.(*ssa.Extract); ok && ex.Index == 0 {
						if call, ok := ex.Tuple.(*ssa.Call); ok && call.Call.StaticCallee() != nil && fnName(call.Call.StaticCallee()) == "mergeFields" && i < len(fn.Params) {
							same = fn.Params[i]
						}
					}
				}
			}
			// ... or which field of an options struct handed to it
			var sameField *types.Var
			if same == nil {
				for _, site := range c.callsTo(fn) {
					if site.Parent() != mtw {
						continue
					}
					for _, a := range site.Common().Args {
						var cell *ssa.Alloc
						switch x := a.(type) {
						case *ssa.Alloc:
							cell = x
						case *ssa.UnOp:
							if al, ok := x.X.(*ssa.Alloc); ok && x.Op == token.MUL {
								cell = al
							}
						}
						if cell == nil || cell.Referrers() == nil {
							continue
						}
						for _, ref := range *cell.Referrers() {
							fa, ok := ref.(*ssa.FieldAddr)
							if !ok || fa.Referrers() == nil {
								continue
							}
							for _, fr := range *fa.Referrers() {
								st, ok := fr.(*ssa.Store)
								if !ok || st.Addr != ssa.Value(fa) {
									continue
								}
								if ex, ok := st.Val.(*ssa.Extract); ok && ex.Index == 0 {
									if call, ok := ex.Tuple.(*ssa.Call); ok && call.Call.StaticCallee() != nil && fnName(call.Call.StaticCallee()) == "mergeFields" {
										_, sameField = fieldAddrInfo(fa)
									}
								}
							}
						}
					}
				}
			}
			isSame := func(v ssa.Value) bool {
				if same != nil && v == ssa.Value(same) {
					return true
				}
				if sameField == nil {
					return false
				}
				switch x := v.(type) {
				case *ssa.UnOp:
					if fa, ok := x.X.(*ssa.FieldAddr); ok && x.Op == token.MUL {
						_, fv := fieldAddrInfo(fa)
						return fv == sameField
					}
				case *ssa.Field:
					if st, ok := x.X.Type().Underlying().(*types.Struct); ok && x.Field < st.NumFields() {
						return st.Field(x.Field) == sameField
					}
				}
				return false
			}
			switch {
			case same != nil:
				r.ok(fnName(fn)+"/fieldsSame-source", fnName(fn), c.pos(fn.Pos()), "parameter "+same.Name()+" is mergeFields' verdict")
			case sameField != nil:
				r.ok(fnName(fn)+"/fieldsSame-source", fnName(fn), c.pos(fn.Pos()), "field ."+sameField.Name()+" of the options handed in is mergeFields' verdict")
			default:
				r.bad(fnName(fn)+"/fieldsSame-source", fnName(fn), c.pos(fn.Pos()), "mergeStoredAndRemap is not given the first result of mergeFields (the fields-are-identical verdict)")
			}
			if len(calls) != 1 {
				r.undecided(key, fnName(fn), c.pos(fn.Pos()), "copyStoredDocs call not found")
			} else if same != nil || sameField != nil {
				// the drops bitmap of the segment being copied: drops[segI] with seg = segments[segI] the call's receiver
				isDropsHere := func(v ssa.Value) bool {
					ld, ok := v.(*ssa.UnOp)
					if !ok || ld.Op != token.MUL {
						return false
					}
					ia, ok := ld.X.(*ssa.IndexAddr)
					return ok && ia.X == ssa.Value(fn.Params[1])
				}
				// the same bitmap as a parameter of a predicate it is handed to
				dropsParam := map[ssa.Value]bool{}
				for _, b := range fn.Blocks {
					for _, ins := range b.Instrs {
						if call, ok := ins.(*ssa.Call); ok {
							if sc := call.Call.StaticCallee(); sc != nil && c.inRoot(sc) && sc.Blocks != nil {
								for ai, a := range call.Call.Args {
									if isDropsHere(a) && ai < len(sc.Params) {
										dropsParam[sc.Params[ai]] = true
									}
								}
							}
						}
					}
				}
				isDrops := func(v ssa.Value) bool { return isDropsHere(v) || dropsParam[v] }
				isCard := func(v ssa.Value) bool {
					call, ok := v.(*ssa.Call)
					return ok && call.Call.StaticCallee() != nil && call.Call.StaticCallee().Name() == "GetCardinality" && isDrops(call.Call.Args[0])
				}
				atoms := func(v ssa.Value) (int, bool, bool) {
					if isSame(v) {
						return 0, false, true
					}
					if neg, ok := cmpNilAtom(v, isDrops); ok {
						return 1, neg, true
					}
					if neg, ok := cmpZeroAtom(v, isCard); ok {
						return 2, neg, true
					}
					if call, ok := v.(*ssa.Call); ok && call.Call.StaticCallee() != nil && call.Call.StaticCallee().Name() == "IsEmpty" && isDrops(call.Call.Args[0]) {
						return 2, false, true
					}
					return 0, false, false
				}
				be := &boolExec{fn: fn, atoms: atoms, n: 3, inline: true}
				ok, cex, n := be.impliedAt(calls[0].Block(), func(asg uint) bool {
					return asg&1 != 0 && (asg&2 != 0 || asg&4 != 0)
				})
				switch {
				case n == 0:
					r.undecided(key, fnName(fn), c.pos(calls[0].Pos()), "the byte-copy call is unreachable in the boolean abstraction")
				case !ok:
					r.bad(key, fnName(fn), c.pos(calls[0].Pos()), "the stored-field byte-copy path can be taken when "+describeAsg([]string{"fieldsSame", "drops==nil", "drops empty"}, cex)+": it requires fieldsSame && (drops == nil || drops empty)")
				default:
					r.ok(key, fnName(fn), c.pos(calls[0].Pos()), fmt.Sprintf("reachable only under fieldsSame && (drops == nil || drops empty) (%d of 8 assignments)", n))
				}
			}
			// mergeFields: same=false decided for every (segment, field) pair
			mf := c.MustFn("mergeFields")
			key = "mergeFields/compares-all"
			// the comparison may sit in mergeFields or in helpers it is split into; what counts:
			// a length comparison of two field lists and an element comparison exist, and nothing but
			// loops (and the test that there are segments at all) decides whether they are reached
			type found struct {
				fn  *ssa.Function
				ins ssa.Instruction
			}
			var lenCmp, elemCmp *found
			chainGuard := ""
			isStrList := func(v ssa.Value) bool { return v.Type().String() == "[]string" }
			var scan func(f *ssa.Function, depth int, guard string)
			scan = func(f *ssa.Function, depth int, guard string) {
				for _, b := range f.Blocks {
					for _, ins := range b.Instrs {
						switch x := ins.(type) {
						case *ssa.BinOp:
							if x.Op != token.NEQ && x.Op != token.EQL {
								continue
							}
							lx, nx, okx := lenOrCapOf(x.X)
							ly, ny, oky := lenOrCapOf(x.Y)
							if okx && oky && nx == "len" && ny == "len" && isStrList(lx) && isStrList(ly) && lenCmp == nil {
								lenCmp = &found{f, x}
								chainGuard = guard
								if g := segGuard(x); g != "" {
									chainGuard = g
								}
							}
							isElem := func(v ssa.Value) bool {
								ld, ok := v.(*ssa.UnOp)
								if !ok || ld.Op != token.MUL {
									return false
								}
								ia, ok := ld.X.(*ssa.IndexAddr)
								return ok && isStrList(ia.X)
							}
							if x.X.Type().String() == "string" && (isElem(x.X) || isElem(x.Y)) && elemCmp == nil {
								elemCmp = &found{f, x}
							}
						case *ssa.Call:
							if sc := x.Call.StaticCallee(); sc != nil && c.inRoot(sc) && sc.Blocks != nil && depth < 2 && sc != f {
								g := guard
								if g == "" {
									g = segGuard(x)
								}
								scan(sc, depth+1, g)
							}
						}
					}
				}
			}
			scan(mf, 0, "")
			switch {
			case lenCmp == nil:
				r.undecided(key, "mergeFields", c.pos(mf.Pos()), "the length comparison with the first segment's field list was not found")
			case elemCmp == nil:
				r.undecided(key, "mergeFields", c.pos(mf.Pos()), "the element-wise comparison with the first segment's field list was not found")
			case chainGuard != "":
				r.bad(key, "mergeFields", c.pos(lenCmp.ins.Pos()), "some segments are skipped before their field list is compared (only when "+chainGuard+")")
			default:
				r.ok(key, "mergeFields", c.pos(lenCmp.ins.Pos()), "every field of every segment is compared with the first segment's list")
			}
		},
	})

	register(&Rule{
		Name:  "ONEHIT-GUARD",
		Floor: 1,
		Doc:   "the merger chooses the 1-hit FST value only under the conjunction: cardinality == 1, no location bytes, docNum fits 31 bits, docNum is the last document written, and its frequency is 1",
		Run: func(c *Ctx, scope string, r *Report) {
			// the decision function: the merge-side function that tests under32Bits
			var fn *ssa.Function
			for _, f := range c.fnsCalling("under32Bits") {
				// a closure, a named function or a method of a small carrier struct (then it is
				// reached through a bound-method value): anything but the builder side
				if !c.entries().BUILD[topFn(f)] || c.entries().MERGE[topFn(f)] {
					fn = f
				}
			}
			key := "finishTerm/use1HitEncoding"
			if fn == nil {
				r.undecided(key, "finishTerm", "-", "use1HitEncoding literal not found")
				return
			}
			var trueRet *ssa.BasicBlock
			for _, b := range fn.Blocks {
				if ret, ok := b.Instrs[len(b.Instrs)-1].(*ssa.Return); ok && len(ret.Results) >= 1 {
					if k, ok := ret.Results[0].(*ssa.Const); ok && k.Value != nil && k.Value.Kind() == constant.Bool && constant.BoolVal(k.Value) {
						trueRet = b
					}
				}
			}
			if trueRet == nil {
				r.bad(key, fnName(fn), c.pos(fn.Pos()), "no `return true` found")
				return
			}
			names := []string{"cardinality==1", "no location bytes", "docNum fits 31 bits", "docNum is the last one written", "its frequency is 1"}
			atoms := func(v ssa.Value) (int, bool, bool) {
				switch x := v.(type) {
				case *ssa.BinOp:
					// a != b is the negation of the atom a == b
					op, neg := x.Op, false
					if op == token.NEQ {
						op, neg = token.EQL, true
					}
					sx := "(" + exprSig(x.X, 0) + op.String() + exprSig(x.Y, 0) + ")"
					switch {
					case op == token.EQL && (sx == "(param:termCardinality==1)" || sx == "(1==param:termCardinality)"):
						return 0, neg, true
					case op == token.EQL && isCardinalityOne(x):
						return 0, neg, true
					case (op == token.LEQ || op == token.EQL) && strings.Contains(exprSig(x.X, 0), "FinalSize(") && exprSig(x.Y, 0) == "0":
						return 1, neg, true
					case op == token.GTR && strings.Contains(exprSig(x.X, 0), "FinalSize(") && exprSig(x.Y, 0) == "0":
						return 1, true, true
					case op == token.EQL && isLastHitCmp(exprSig(x.X, 0), exprSig(x.Y, 0)):
						return 3, neg, true
					case op == token.EQL && isLastFreqOne(exprSig(x.X, 0), exprSig(x.Y, 0)):
						return 4, neg, true
					}
				case *ssa.Call:
					if sc := x.Call.StaticCallee(); sc != nil && fnName(sc) == "under32Bits" {
						return 2, false, true
					}
				case *ssa.Parameter:
					// `hasLocs bool`, bound at every call to `locEncoder.FinalSize() > 0`
					if isBoolType(x.Type()) {
						sites := c.callsTo(x.Parent())
						all := len(sites) > 0
						for _, site := range sites {
							bo, ok := argFor(site.Common(), x).(*ssa.BinOp)
							if !ok || bo.Op != token.GTR || !strings.Contains(exprSig(bo.X, 0), "FinalSize(") || exprSig(bo.Y, 0) != "0" {
								all = false
							}
						}
						if all {
							return 1, true, true
						}
					}
				}
				return 0, false, false
			}
			be := &boolExec{fn: fn, atoms: atoms, n: 5}
			ok, cex, n := be.impliedAt(trueRet, func(asg uint) bool { return asg == 31 })
			switch {
			case n == 0:
				r.undecided(key, fnName(fn), c.pos(fn.Pos()), "`return true` unreachable in the boolean abstraction")
			case !ok:
				r.bad(key, fnName(fn), c.pos(fn.Pos()), "1-hit encoding can be chosen when "+describeAsg(names, cex)+": it requires all five conditions")
			default:
				r.ok(key, fnName(fn), c.pos(fn.Pos()), "1-hit only when "+strings.Join(names, " && "))
			}
		},
	})
}

// perSegmentTableArg: every call of helper passes for its []uint64 parameter p
// an element TABLES[i] of a [][]uint64 parameter of the caller, and for its
// *Segment parameter (if any) the element SEGMENTS[i] with the same index.
func perSegmentTableArg(c *Ctx, helper *ssa.Function, p *ssa.Parameter) bool {
	sites := c.callsTo(helper)
	if len(sites) == 0 {
		return false
	}
	elemIndex := func(v ssa.Value) (ssa.Value, ssa.Value, bool) {
		ld, ok := v.(*ssa.UnOp)
		if !ok || ld.Op != token.MUL {
			return nil, nil, false
		}
		ia, ok := ld.X.(*ssa.IndexAddr)
		if !ok {
			return nil, nil, false
		}
		return ia.X, ia.Index, true
	}
	for _, site := range sites {
		tbl, idx, ok := elemIndex(argFor(site.Common(), p))
		if !ok {
			return false
		}
		caller := site.Parent()
		okTbl := false
		for _, cp := range caller.Params {
			if strings.HasSuffix(cp.Type().String(), "[][]uint64") && derivesFrom(c, tbl, cp, 0) {
				okTbl = true
			}
		}
		if !okTbl {
			return false
		}
		if sp := paramOfType(helper, "*"+rootPkgPath+".Segment"); sp != nil {
			if _, sidx, ok := elemIndex(argFor(site.Common(), sp)); !ok || sidx != idx {
				return false
			}
		}
	}
	return true
}

// isLastHitCmp: one side is the single document of the merged bitmap
// (Minimum()), the other the remembered last document number written
// (a variable, captured variable or field whose name says docNum).
func isLastHitCmp(a, b string) bool {
	one := func(x, y string) bool {
		return strings.Contains(x, "Minimum(") && strings.Contains(strings.ToLower(y), "docnum") && !strings.Contains(y, "Minimum(")
	}
	return one(a, b) || one(b, a)
}

// isLastFreqOne: the remembered last frequency compared with 1.
func isLastFreqOne(a, b string) bool {
	one := func(x, y string) bool {
		return y == "1" && strings.Contains(strings.ToLower(x), "freq") && !strings.Contains(x, "(")
	}
	return one(a, b) || one(b, a)
}

// resolveCellLoad: follow loads of single-assignment local cells.
func resolveCellLoad(c *Ctx, v ssa.Value) ssa.Value {
	for d := 0; d < 6; d++ {
		ld, ok := v.(*ssa.UnOp)
		if !ok || ld.Op != token.MUL {
			return v
		}
		a, ok := ld.X.(*ssa.Alloc)
		if !ok {
			return v
		}
		sts := c.census().allocStores[a]
		if len(sts) != 1 {
			return v
		}
		v = sts[0].val
	}
	return v
}

// derivesFrom: v is param itself, an element/sub-slice of it, or a captured /
// local copy of one of those.
func derivesFrom(c *Ctx, v ssa.Value, param *ssa.Parameter, depth int) bool {
	if depth > 10 {
		return false
	}
	switch x := v.(type) {
	case *ssa.Parameter:
		return x == param
	case *ssa.UnOp:
		if x.Op != token.MUL {
			return false
		}
		switch a := x.X.(type) {
		case *ssa.IndexAddr:
			return derivesFrom(c, a.X, param, depth+1)
		case *ssa.Alloc:
			for _, st := range c.census().allocStores[a] {
				if !derivesFrom(c, st.val, param, depth+1) {
					return false
				}
			}
			return len(c.census().allocStores[a]) > 0
		case *ssa.FreeVar:
			return derivesFrom(c, a, param, depth+1)
		}
	case *ssa.FreeVar:
		fn := x.Parent()
		for i, fv := range fn.FreeVars {
			if fv != x {
				continue
			}
			mcs := c.census().closures[fn]
			if len(mcs) == 0 {
				return false
			}
			for _, mc := range mcs {
				b := mc.Bindings[i]
				if al, ok := b.(*ssa.Alloc); ok {
					// captured by reference: the cell's stores
					sts := c.census().allocStores[al]
					if len(sts) == 0 {
						return false
					}
					for _, st := range sts {
						if !derivesFrom(c, st.val, param, depth+1) {
							return false
						}
					}
					continue
				}
				if !derivesFrom(c, b, param, depth+1) {
					return false
				}
			}
			return true
		}
	case *ssa.Slice:
		return derivesFrom(c, x.X, param, depth+1)
	case *ssa.Phi:
		for _, e := range x.Edges {
			if !derivesFrom(c, e, param, depth+1) {
				return false
			}
		}
		return true
	}
	return false
}

// bothEncodersResized: the getChunkSize result reaches SetChunkSize of two
// distinct encoders (the freq/norm and the location encoder, however they are
// named or passed) with identical arguments.
func bothEncodersResized(fn *ssa.Function, gcs *ssa.Call) []string {
	res := tupleParts(gcs)[0]
	if res == nil {
		return []string{"the chunk size result is unused"}
	}
	sized := map[string]string{}
	for _, call := range callsOf(fn, "(*chunkedIntCoder).SetChunkSize") {
		recv := exprSig(call.Call.Args[0], 0)
		if call.Call.Args[1] != ssa.Value(res) {
			return []string{recv + ".SetChunkSize is not given the computed chunk size"}
		}
		sized[recv] = exprSig(call.Call.Args[2], 0)
	}
	var probs []string
	if len(sized) < 2 {
		probs = append(probs, fmt.Sprintf("%d encoder(s) re-sized with the computed chunk size, the freq/norm and the location encoder both have to be", len(sized)))
	}
	bound := ""
	for _, b := range sized {
		if bound != "" && b != bound {
			probs = append(probs, "the two encoders are re-sized with different document bounds")
			break
		}
		bound = b
	}
	return probs
}

// activeSet: the result of one setupActiveForField call - five parallel
// slices, returned as separate results or as the fields of one object.
type activeSet struct {
	call  *ssa.Call
	obj   ssa.Value
	cells map[ssa.Value]bool // local cells the object (returned by value) is kept in
	c     *Ctx
}

func newActiveSet(call *ssa.Call) *activeSet {
	a := &activeSet{call: call}
	for _, ex := range tupleParts(call) {
		t := ex.Type()
		if p, ok := t.Underlying().(*types.Pointer); ok {
			t = p.Elem()
		}
		if _, ok := t.Underlying().(*types.Struct); ok {
			a.obj = ex
			if ex.Referrers() != nil {
				for _, ref := range *ex.Referrers() {
					if st, ok := ref.(*ssa.Store); ok && st.Val == ssa.Value(ex) {
						if cell, ok := st.Addr.(*ssa.Alloc); ok {
							if a.cells == nil {
								a.cells = map[ssa.Value]bool{}
							}
							a.cells[cell] = true
						}
					}
				}
			}
		}
	}
	return a
}

// role: "set" for the object itself, the slice type for one of its slices, "" otherwise.
func (a *activeSet) role(v ssa.Value) string {
	if v == nil {
		return ""
	}
	if a.obj != nil && (v == a.obj || a.cells[v]) {
		return "set"
	}
	if ld, ok := v.(*ssa.UnOp); ok && ld.Op == token.MUL && a.cells[ld.X] {
		return "set"
	}
	if p, ok := v.(*ssa.Parameter); ok && a.c != nil {
		// handed down from the function that made the call
		if up := a.c.traceParamUp(p); up != v {
			return a.role(up)
		}
		return ""
	}
	switch x := v.(type) {
	case *ssa.Extract:
		if x.Tuple == ssa.Value(a.call) {
			if _, ok := x.Type().Underlying().(*types.Slice); ok {
				return x.Type().String()
			}
		}
	case *ssa.UnOp:
		if fa, ok := x.X.(*ssa.FieldAddr); ok && x.Op == token.MUL && a.obj != nil && (fa.X == a.obj || a.cells[fa.X]) {
			return x.Type().String()
		}
	case *ssa.Field:
		if a.obj != nil && x.X == a.obj {
			return x.Type().String()
		}
	}
	return ""
}

// sliceElemIndex: v is a load of X[i] with X of the given slice type: i.
func sliceElemIndex(v ssa.Value, typ string) (ssa.Value, bool) {
	ld, ok := v.(*ssa.UnOp)
	if !ok || ld.Op != token.MUL {
		return nil, false
	}
	ia, ok := ld.X.(*ssa.IndexAddr)
	if !ok || ia.X.Type().String() != typ {
		return nil, false
	}
	return ia.Index, true
}

// accumulatorOf follows a value to the loop-carried accumulator it is the
// final value of: up through parameters (unique call site) and down through
// the result of an in-package helper.
func (c *Ctx) accumulatorOf(v ssa.Value) ssa.Value {
	for depth := 0; depth < 6; depth++ {
		v = stripConv(v)
		switch x := v.(type) {
		case *ssa.Parameter:
			u := c.traceParamUp(x)
			if u == v {
				return v
			}
			v = u
		case *ssa.Extract:
			call, ok := x.Tuple.(*ssa.Call)
			if !ok {
				return v
			}
			sc := call.Call.StaticCallee()
			if sc == nil || !c.inRoot(sc) || sc.Blocks == nil {
				return v
			}
			var res ssa.Value
			n := 0
			for _, b := range sc.Blocks {
				if ret, ok := b.Instrs[len(b.Instrs)-1].(*ssa.Return); ok && x.Index < len(ret.Results) {
					if _, isConst := ret.Results[x.Index].(*ssa.Const); !isConst && ret.Results[x.Index] != res {
						res = ret.Results[x.Index]
						n++
					}
				}
			}
			if n != 1 {
				return v
			}
			v = res
		default:
			return v
		}
	}
	return v
}

// reachesWritePostings: bitmap value b of function f is the bitmap handed to
// writePostings, directly or through in-package helpers.
func (c *Ctx) reachesWritePostings(f *ssa.Function, b ssa.Value, depth int) bool {
	if depth > 3 || b == nil {
		return false
	}
	for _, blk := range f.Blocks {
		for _, ins := range blk.Instrs {
			call, ok := ins.(*ssa.Call)
			if !ok {
				continue
			}
			sc := call.Call.StaticCallee()
			if sc == nil || !c.inRoot(sc) {
				continue
			}
			for i, a := range call.Call.Args {
				if a != b || i >= len(sc.Params) {
					continue
				}
				if fnName(sc) == "writePostings" {
					if sc.Params[i] == paramOfType(sc, roaringBitmapPtr) {
						return true
					}
				} else if sc.Blocks != nil && c.reachesWritePostings(sc, sc.Params[i], depth+1) {
					return true
				}
			}
		}
	}
	return false
}

// withHelpers visits fn and the in-package functions it calls statically (to
// the given depth), each with the substitution parameter -> argument of the
// call that reaches it (arguments that are themselves substituted parameters
// are resolved).  A helper called from several sites is visited per site.
func (c *Ctx) withHelpers(fn *ssa.Function, depth int, visit func(f *ssa.Function, subst map[*ssa.Parameter]ssa.Value)) {
	var rec func(f *ssa.Function, subst map[*ssa.Parameter]ssa.Value, d int, stack map[*ssa.Function]bool)
	rec = func(f *ssa.Function, subst map[*ssa.Parameter]ssa.Value, d int, stack map[*ssa.Function]bool) {
		visit(f, subst)
		if d == 0 {
			return
		}
		stack[f] = true
		for _, b := range f.Blocks {
			for _, ins := range b.Instrs {
				ci, ok := ins.(ssa.CallInstruction)
				if !ok {
					continue
				}
				sc := ci.Common().StaticCallee()
				if sc == nil || !c.inRoot(sc) || sc.Blocks == nil || stack[sc] {
					continue
				}
				sub := map[*ssa.Parameter]ssa.Value{}
				for i, a := range ci.Common().Args {
					if i >= len(sc.Params) {
						break
					}
					if p, ok := a.(*ssa.Parameter); ok && subst[p] != nil {
						a = subst[p]
					}
					sub[sc.Params[i]] = a
				}
				rec(sc, sub, d-1, stack)
			}
		}
		delete(stack, f)
	}
	rec(fn, nil, depth, map[*ssa.Function]bool{})
}

// segGuard: a content condition (contentGuard) governing ins other than
// "there are segments at all" (a length test of a segment slice).
func segGuard(ins ssa.Instruction) string {
	for b := ins.Block(); b != nil; b = b.Idom() {
		idom := b.Idom()
		if idom == nil {
			return ""
		}
		ifi, ok := idom.Instrs[len(idom.Instrs)-1].(*ssa.If)
		if !ok || len(b.Preds) != 1 || isLoopHeader(idom) {
			continue
		}
		pol := idom.Succs[0] == b
		if !pol && idom.Succs[1] != b {
			continue
		}
		if bin, ok := ifi.Cond.(*ssa.BinOp); ok {
			if isNilConst(bin.X) || isNilConst(bin.Y) {
				continue
			}
			if x, name, ok := lenOrCapOf(bin.X); ok && name == "len" && x.Type().String() == segSliceType {
				continue
			}
			if x, name, ok := lenOrCapOf(bin.Y); ok && name == "len" && x.Type().String() == segSliceType {
				continue
			}
		}
		return condCanon(ifi.Cond, pol, nil)
	}
	return ""
}

// callsOfFull: the static calls in fn of the function with that full name (package path included).
func callsOfFull(fn *ssa.Function, full string) []*ssa.Call {
	var out []*ssa.Call
	for _, b := range fn.Blocks {
		for _, ins := range b.Instrs {
			if call, ok := ins.(*ssa.Call); ok {
				if sc := call.Call.StaticCallee(); sc != nil && funcFullName(sc) == full {
					out = append(out, call)
				}
			}
		}
	}
	return out
}

// allCallsOf: the static calls of the named function in all source functions.
func (c *Ctx) allCallsOf(name string) []*ssa.Call {
	var out []*ssa.Call
	for _, f := range c.srcFns {
		out = append(out, callsOf(f, name)...)
	}
	return out
}

// forwardElemLoad: ld reads S[k] (k constant) and the closest preceding
// instruction of the same block that stores to an element of S stores S[k]:
// the stored value.  nil otherwise.
func forwardElemLoad(ld *ssa.UnOp) ssa.Value {
	ia, ok := ld.X.(*ssa.IndexAddr)
	if !ok {
		return nil
	}
	k, ok := constInt(ia.Index)
	if !ok {
		return nil
	}
	b := ld.Block()
	idx := instrIndex(ld)
	for i := idx - 1; i >= 0; i-- {
		switch y := b.Instrs[i].(type) {
		case *ssa.Store:
			ia2, ok := y.Addr.(*ssa.IndexAddr)
			if !ok || ia2.X != ia.X {
				continue
			}
			if k2, ok := constInt(ia2.Index); ok && k2 == k {
				return y.Val
			}
		case ssa.CallInstruction:
			// a call that is handed the slice may have changed it
			for _, a := range y.Common().Args {
				if a == ia.X {
					return nil
				}
			}
		}
	}
	return nil
}

// stagedLocations: the arguments of the totalUvarintBytes call are loads of
// elements 0..3 of a window W of a buffer B, each staged (stored) in the same
// block before the call, and every multi-value Add of the function is handed
// a window of the same B.
func stagedLocations(fn *ssa.Function, tub *ssa.Call) (bool, string) {
	if len(tub.Call.Args) != 4 {
		return false, ""
	}
	bufOf := func(v ssa.Value) ssa.Value {
		for d := 0; d < 4; d++ {
			sl, ok := v.(*ssa.Slice)
			if !ok {
				return v
			}
			v = sl.X
		}
		return v
	}
	var buf ssa.Value
	seen := map[int64]bool{}
	for _, a := range tub.Call.Args {
		ld, ok := a.(*ssa.UnOp)
		if !ok || ld.Op != token.MUL {
			return false, ""
		}
		ia, ok := ld.X.(*ssa.IndexAddr)
		if !ok {
			return false, ""
		}
		k, ok := constInt(ia.Index)
		if !ok || forwardElemLoad(ld) == nil {
			return false, ""
		}
		seen[k] = true
		b := bufOf(ia.X)
		if buf != nil && b != buf {
			return false, ""
		}
		buf = b
	}
	if len(seen) != 4 {
		return false, "the byte-count prefix is not computed from four different staged values"
	}
	n := 0
	for _, add := range callsOf(fn, "(*chunkedIntCoder).Add") {
		if len(varargValues(add.Call.Args[2])) > 0 {
			continue // explicit values: the prefix itself, the freq/norm pair
		}
		n++
		if bufOf(add.Call.Args[2]) != buf {
			return false, "the locations are encoded from another buffer than the one the byte-count prefix was computed from"
		}
	}
	return n > 0, ""
}

var convertSortSite ssa.Instruction

// sortsFromOne: fn calls sort.Strings(x[1:]).
func sortsFromOne(fn *ssa.Function) bool {
	for _, call := range callsOfFull(fn, "sort.Strings") {
		if sl, isSl := call.Call.Args[0].(*ssa.Slice); isSl {
			if k, isK := constInt(sl.Low); isK && k == 1 && sl.High == nil {
				return true
			}
		}
	}
	return false
}

// placeReachesWritePostings: some load of the same place as ld is the bitmap
// argument of writePostings (directly or through helpers).
func (c *Ctx) placeReachesWritePostings(fn *ssa.Function, ld *ssa.UnOp) bool {
	want := accessPath(ld)
	for _, b := range fn.Blocks {
		for _, ins := range b.Instrs {
			if l2, ok := ins.(*ssa.UnOp); ok && l2.Op == token.MUL && accessPath(l2) == want && c.reachesWritePostings(fn, l2, 0) {
				return true
			}
		}
	}
	return false
}

// uvarintLenClosedForm: fn(x) returns (bits.Len64(x|1)+6)/7 on every return -
// or (bits.Len64(x)+6)/7 behind an `x == 0` guard that returns 1.
func uvarintLenClosedForm(fn *ssa.Function) bool {
	if len(fn.Params) != 1 || fn.Blocks == nil {
		return false
	}
	x := ssa.Value(fn.Params[0])
	closed := func(v ssa.Value) (arg ssa.Value, ok bool) {
		q, ok := stripConv(v).(*ssa.BinOp)
		if !ok || q.Op != token.QUO {
			return nil, false
		}
		if k, isK := constInt(q.Y); !isK || k != 7 {
			return nil, false
		}
		a, ok := stripConv(q.X).(*ssa.BinOp)
		if !ok || a.Op != token.ADD {
			return nil, false
		}
		l, k := a.X, a.Y
		if _, isK := constInt(l); isK {
			l, k = k, l
		}
		if kv, isK := constInt(k); !isK || kv != 6 {
			return nil, false
		}
		call, ok := stripConv(l).(*ssa.Call)
		if !ok || call.Call.StaticCallee() == nil || funcFullName(call.Call.StaticCallee()) != "math/bits.Len64" {
			return nil, false
		}
		return call.Call.Args[0], true
	}
	nClosed, nOne := 0, 0
	guarded := true
	for _, b := range fn.Blocks {
		ret, ok := b.Instrs[len(b.Instrs)-1].(*ssa.Return)
		if !ok || len(ret.Results) != 1 {
			continue
		}
		rv := resolveLoad(ret.Results[0])
		if k, isK := constInt(rv); isK && k == 1 {
			nOne++
			continue
		}
		arg, ok := closed(rv)
		if !ok {
			return false
		}
		nClosed++
		if or, isOr := stripConv(arg).(*ssa.BinOp); isOr && or.Op == token.OR {
			k1, ok1 := constInt(or.Y)
			k2, ok2 := constInt(or.X)
			if (ok1 && k1 == 1 && or.X == x) || (ok2 && k2 == 1 && or.Y == x) {
				continue
			}
			return false
		}
		if stripConv(arg) != x {
			return false
		}
		// plain Len64(x): zero must have been sent away
		okGuard := false
		for _, tb := range fn.Blocks {
			ifi, isIf := tb.Instrs[len(tb.Instrs)-1].(*ssa.If)
			if !isIf {
				continue
			}
			bin, isBin := ifi.Cond.(*ssa.BinOp)
			if !isBin || (bin.Op != token.EQL && bin.Op != token.NEQ) || bin.X != x {
				continue
			}
			if k, isK := constInt(bin.Y); !isK || k != 0 {
				continue
			}
			nz := tb.Succs[1]
			if bin.Op == token.NEQ {
				nz = tb.Succs[0]
			}
			if len(nz.Preds) == 1 && (nz == b || nz.Dominates(b)) {
				okGuard = true
			}
		}
		if !okGuard {
			guarded = false
		}
	}
	return nClosed > 0 && guarded
}

// isCardinalityOne: bitmap.GetCardinality() == 1 (either operand order).
func isCardinalityOne(bin *ssa.BinOp) bool {
	x, y := stripConv(bin.X), stripConv(bin.Y)
	if k, ok := constInt(x); ok && k == 1 {
		x, y = y, x
	}
	if k, ok := constInt(y); !ok || k != 1 {
		return false
	}
	call, ok := x.(*ssa.Call)
	return ok && call.Call.StaticCallee() != nil && call.Call.StaticCallee().Name() == "GetCardinality"
}
