package main

import (
	"fmt"
	"go/ast"
	"go/token"
	"go/types"
	"strings"

	"golang.org/x/tools/go/ssa"
)

// shared E4 configuration for ice
var iceSentinels = []string{"github.com/blevesearch/vellum.ErrIteratorDone", "io.EOF"}

// function|callee -> reason (DESIGN §3-E4: two explicit exemptions)
var iceErrExempt = map[string]string{
	"(*Segment).visitDocumentFieldTerms|(*docValueReader).visitDocValues": "C19 allows 'error or empty result'; the reader state is re-loaded on the next chunk switch",
}

func scopeSet(c *Ctx, scope string) map[string]bool {
	es := c.entries()
	var m map[*ssa.Function]bool
	switch scope {
	case "READ":
		m = es.READ
	case "PERSIST":
		m = es.PERSIST
	case "BUILD":
		m = es.BUILD
	case "MERGE":
		m = es.MERGE
	case "ALL", "":
		m = map[*ssa.Function]bool{}
		for _, f := range c.srcFns {
			m[f] = true
		}
	default:
		panic(infra("unknown scope %q", scope))
	}
	out := map[string]bool{}
	for f := range m {
		out[fnName(f)] = true
	}
	return out
}

func init() {
	register(&Rule{
		Name:  "ERR-FLOW",
		Floor: 40,
		Doc:   "every error-returning call in the scope is accounted for on every path of its function: returned (directly, via named result, or wrapped), nil-tested with the non-nil branch returning a non-nil error, tolerated as a listed sentinel (vellum.ErrIteratorDone, io.EOF), handed to a terminal call, stored in a sticky error field, or produced by an infallible callee",
		Run: func(c *Ctx, scope string, r *Report) {
			ef := newErrFlow(c, iceSentinels, iceErrExempt)
			inScope := scopeSet(c, scope)
			total := 0
			for _, f := range ef.analyse() {
				total++
				if !inScope[f.fnName] {
					continue
				}
				key := f.fnName + "/" + f.callee
				switch f.status {
				case Discharged:
					r.ok(key, f.fnName, c.pos(f.pos), "error of "+f.callee+" accounted for: "+f.how)
				case Violated:
					r.bad(key, f.fnName, c.pos(f.pos), "error of "+f.callee+" is not accounted for: "+f.how, f.path...)
				default:
					r.undecided(key, f.fnName, c.pos(f.pos), "error of "+f.callee+": idiom not understood: "+f.how)
				}
			}
			var inf []string
			for fn, ok := range ef.infallible {
				if ok {
					inf = append(inf, declName(fn))
				}
			}
			r.note("%d error-returning calls in the package, %d function bodies (incl. literals); infallible callees: %s", total, len(ef.funcs), strings.Join(sortStrings(inf), ", "))
		},
	})

	register(&Rule{
		Name:  "CLOSED-RETURNS-ERR",
		Floor: 3,
		Doc:   "the true edge of every isClosed(ch) poll returns a non-nil error (segment.ErrClosed): cancellation is never reported as success",
		Run: func(c *Ctx, scope string, r *Report) {
			isClosed := c.MustFn("isClosed")
			for _, fn := range c.srcFns {
				for _, b := range fn.Blocks {
					for _, ins := range b.Instrs {
						call, ok := ins.(*ssa.Call)
						if !ok || call.Call.StaticCallee() != isClosed {
							continue
						}
						key := fnName(fn) + "/isClosed"
						// the only use must be an If in the same block
						refs := *call.Referrers()
						var ifi *ssa.If
						for _, ref := range refs {
							if i, ok := ref.(*ssa.If); ok {
								ifi = i
							}
						}
						if ifi == nil || len(refs) != 1 {
							r.undecided(key, fnName(fn), c.pos(call.Pos()), "result of isClosed is not used directly as a branch condition")
							continue
						}
						tb := ifi.Block().Succs[0]
						ret, ok := tb.Instrs[len(tb.Instrs)-1].(*ssa.Return)
						if !ok {
							r.bad(key, fnName(fn), c.pos(call.Pos()), "closed branch does not return immediately")
							continue
						}
						good := false
						var got string
						for _, res := range ret.Results {
							if isErrorType(res.Type()) {
								res = resolveLoad(res)
								got = res.String()
								if nonNilErrorValue(res) {
									good = true
								}
							}
						}
						if good {
							r.ok(key, fnName(fn), c.pos(call.Pos()), "closed branch returns "+got)
						} else {
							r.bad(key, fnName(fn), c.pos(call.Pos()), fmt.Sprintf("closed branch returns error operand %q which is not a non-nil error value", got))
						}
					}
				}
			}
		},
	})

	register(&Rule{
		Name:  "FLUSH-CHECKED",
		Floor: 1,
		Doc:   "every bufio.Writer created in a WriteTo method is flushed, with the Flush error checked, on every path that returns a possibly-nil error",
		Run: func(c *Ctx, scope string, r *Report) {
			for _, name := range []string{"(*Merger).WriteTo", "(*Segment).WriteTo"} {
				top := c.MustFn(name)
				// the method itself and the in-package helpers it runs (a phase of the write path
				// may have been split off together with its buffer)
				var writers []*ssa.Call
				seenFn := map[*ssa.Function]bool{}
				var collect func(f *ssa.Function, depth int)
				collect = func(f *ssa.Function, depth int) {
					if seenFn[f] || depth > 2 || f.Blocks == nil {
						return
					}
					seenFn[f] = true
					for _, b := range f.Blocks {
						for _, ins := range b.Instrs {
							if call, ok := ins.(*ssa.Call); ok {
								sc := call.Call.StaticCallee()
								if sc == nil {
									continue
								}
								if sc.Pkg != nil && sc.Pkg.Pkg.Path() == "bufio" && strings.HasPrefix(sc.Name(), "NewWriter") {
									writers = append(writers, call)
								} else if c.inRoot(sc) && fnName(sc) != "persistFooter" {
									collect(sc, depth+1)
								}
							}
						}
					}
				}
				collect(top, 0)
				if len(writers) == 0 {
					r.undecided(name+"/bufio", name, c.pos(top.Pos()), "no bufio.Writer is created in this method any more: the rule's model of the write path is out of date")
					continue
				}
				for _, wcall := range writers {
					fn := wcall.Parent()
					key := name + "/Flush"
					// find Flush calls on this writer
					var flushes []*ssa.Call
					for _, ref := range *wcall.Referrers() {
						if call, ok := ref.(*ssa.Call); ok {
							if sc := call.Call.StaticCallee(); sc != nil && sc.Name() == "Flush" && len(call.Call.Args) > 0 && call.Call.Args[0] == ssa.Value(wcall) {
								flushes = append(flushes, call)
							}
						}
					}
					if len(flushes) == 0 {
						// or flushed by a deferred literal that hands the Flush error to the caller
						// through the method's named error result
						if how, bad := deferredFlush(c, fn, wcall); how != "" {
							r.ok(key, name, c.pos(wcall.Pos()), how)
						} else if bad != "" {
							r.bad(key, name, c.pos(wcall.Pos()), bad)
						} else {
							r.bad(key, name, c.pos(wcall.Pos()), "bufio.Writer is never flushed")
						}
						continue
					}
					// every return whose error operand may be nil must be dominated by the nil-edge of a Flush error test
					okAll := true
					var why string
					for _, b := range fn.Blocks {
						ret, ok := b.Instrs[len(b.Instrs)-1].(*ssa.Return)
						if !ok {
							continue
						}
						mayNil := false
						for _, res := range ret.Results {
							if !isErrorType(res.Type()) {
								continue
							}
							rv := resolveLoad(res)
							// `return n, bw.Flush()` / `err = bw.Flush(); return n, err`:
							// the Flush error itself is what the caller is handed
							isFlush := false
							for _, fl := range flushes {
								if rv == ssa.Value(fl) {
									isFlush = true
								}
							}
							if isFlush {
								continue
							}
							if mayBeNilErrorAt(rv, b, map[ssa.Value]bool{}) {
								mayNil = true
							}
						}
						if !mayNil {
							continue
						}
						guarded := false
						for _, fl := range flushes {
							if flushErrNilDominates(fl, b) {
								guarded = true
							}
						}
						if !guarded {
							okAll = false
							why = "return at " + c.pos(ret.Pos()) + " may report success without a checked Flush"
						}
					}
					if okAll {
						r.ok(key, name, c.pos(wcall.Pos()), "every possibly-successful return is dominated by the nil edge of the Flush error test")
					} else {
						r.bad(key, name, c.pos(wcall.Pos()), why)
					}
				}
			}
		},
	})

	register(&Rule{
		Name:  "WRITE-CHANNEL",
		Floor: 10,
		Doc:   "every Write reaching the destination goes through countHashWriter.Write, a bufio.Writer, bytes.Buffer or an io.Writer parameter; binary.Write targets are the same; no writer is invoked with its result ignored (covered by ERR-FLOW) — enumerates the write sites of the persist path",
		Run: func(c *Ctx, scope string, r *Report) {
			inScope := scopeSet(c, "PERSIST")
			for _, fn := range c.srcFns {
				if !inScope[fnName(fn)] {
					continue
				}
				for _, b := range fn.Blocks {
					for _, ins := range b.Instrs {
						call, ok := ins.(ssa.CallInstruction)
						if !ok {
							continue
						}
						cc := call.Common()
						name := ""
						if cc.IsInvoke() {
							name = cc.Method.Name()
						} else if sc := cc.StaticCallee(); sc != nil {
							name = sc.Name()
						}
						if name != "Write" {
							continue
						}
						if _, isDefer := ins.(*ssa.Defer); isDefer {
							r.bad(fnName(fn)+"/deferred-Write", fnName(fn), c.pos(ins.Pos()), "write in a deferred call: its error cannot be reported")
							continue
						}
						r.ok(fnName(fn)+"/Write", fnName(fn), c.pos(ins.Pos()), "write site enumerated (error accounted by ERR-FLOW)")
					}
				}
			}
		},
	})
}

func sortStrings(s []string) []string {
	out := append([]string{}, s...)
	for i := 1; i < len(out); i++ {
		for j := i; j > 0 && out[j] < out[j-1]; j-- {
			out[j], out[j-1] = out[j-1], out[j]
		}
	}
	return out
}

// nonNilErrorValue: a load of a package-level Err* variable of another package,
// or a call to fmt.Errorf / errors.New.
func nonNilErrorValue(v ssa.Value) bool {
	switch v := v.(type) {
	case *ssa.UnOp:
		if v.Op == token.MUL {
			if g, ok := v.X.(*ssa.Global); ok && strings.HasPrefix(g.Name(), "Err") {
				return true
			}
		}
	case *ssa.Call:
		if sc := v.Call.StaticCallee(); sc != nil && sc.Pkg != nil {
			full := sc.Pkg.Pkg.Path() + "." + sc.Name()
			return full == "fmt.Errorf" || full == "errors.New"
		}
	case *ssa.MakeInterface:
		return true
	}
	return false
}

// mayBeNilErrorAt: can error value v be nil when control is in block b?
// Not when it is a non-nil error constructor, or when b is dominated by the
// non-nil edge of a nil test of v.  Phis are followed edge-wise (an edge value
// tested non-nil before the phi is non-nil).
func mayBeNilErrorAt(v ssa.Value, b *ssa.BasicBlock, seen map[ssa.Value]bool) bool {
	if seen[v] {
		return false
	}
	seen[v] = true
	if nonNilErrorValue(v) {
		return false
	}
	if knownNonNilAt(v, b) {
		return false
	}
	switch v := v.(type) {
	case *ssa.Const:
		return v.IsNil()
	case *ssa.Phi:
		for i, e := range v.Edges {
			if mayBeNilErrorAt(e, v.Block().Preds[i], seen) {
				return true
			}
		}
		return false
	}
	return true
}

// flushErrNilDominates: block b is dominated by the successor of `if flushErr != nil`
// on which flushErr is nil.
func flushErrNilDominates(fl *ssa.Call, b *ssa.BasicBlock) bool {
	for _, ref := range *fl.Referrers() {
		bin, ok := ref.(*ssa.BinOp)
		if !ok || (bin.Op != token.NEQ && bin.Op != token.EQL) {
			continue
		}
		var other ssa.Value
		if bin.X == ssa.Value(fl) {
			other = bin.Y
		} else {
			other = bin.X
		}
		if k, ok := other.(*ssa.Const); !ok || !k.IsNil() {
			continue
		}
		for _, r2 := range *bin.Referrers() {
			ifi, ok := r2.(*ssa.If)
			if !ok {
				continue
			}
			nilSucc := ifi.Block().Succs[1]
			if bin.Op == token.EQL {
				nilSucc = ifi.Block().Succs[0]
			}
			if len(nilSucc.Preds) == 1 && nilSucc.Dominates(b) {
				return true
			}
		}
	}
	return false
}

var _ = ast.Inspect
var _ = types.Universe

// deferredFlush: the writer created by wcall is flushed in a literal deferred
// before any return of fn, and the Flush error is stored into fn's named error
// result (the cell every return of fn loads its error operand from).
func deferredFlush(c *Ctx, fn *ssa.Function, wcall *ssa.Call) (how, bad string) {
	// the cell the writer lives in (captured variables live in cells)
	var wcell *ssa.Alloc
	for _, ref := range *wcall.Referrers() {
		if st, ok := ref.(*ssa.Store); ok && st.Val == ssa.Value(wcall) {
			if a, ok := st.Addr.(*ssa.Alloc); ok {
				wcell = a
			}
		}
	}
	if wcell == nil {
		return "", ""
	}
	// named error result cells: what the returns load their error operand from
	resCell := map[*ssa.Alloc]bool{}
	for _, b := range fn.Blocks {
		if ret, ok := b.Instrs[len(b.Instrs)-1].(*ssa.Return); ok {
			for _, res := range ret.Results {
				if ld, ok := res.(*ssa.UnOp); ok && isErrorType(res.Type()) && ld.Op == token.MUL {
					if a, ok := ld.X.(*ssa.Alloc); ok {
						resCell[a] = true
					}
				}
			}
		}
	}
	for _, b := range fn.Blocks {
		for _, ins := range b.Instrs {
			df, ok := ins.(*ssa.Defer)
			if !ok {
				continue
			}
			mc, ok := df.Call.Value.(*ssa.MakeClosure)
			if !ok {
				continue
			}
			lit := mc.Fn.(*ssa.Function)
			fvOf := func(a *ssa.Alloc) *ssa.FreeVar {
				for i, bnd := range mc.Bindings {
					if bnd == ssa.Value(a) {
						return lit.FreeVars[i]
					}
				}
				return nil
			}
			wfv := fvOf(wcell)
			if wfv == nil {
				continue
			}
			for _, lb := range lit.Blocks {
				for _, li := range lb.Instrs {
					call, ok := li.(*ssa.Call)
					if !ok {
						continue
					}
					sc := call.Call.StaticCallee()
					if sc == nil || sc.Name() != "Flush" || len(call.Call.Args) == 0 {
						continue
					}
					if ld, ok := call.Call.Args[0].(*ssa.UnOp); !ok || ld.X != ssa.Value(wfv) {
						continue
					}
					// where does the Flush error go?
					stored := false
					for _, ref := range *call.Referrers() {
						st, ok := ref.(*ssa.Store)
						if !ok {
							continue
						}
						for a := range resCell {
							if fv := fvOf(a); fv != nil && st.Addr == ssa.Value(fv) {
								stored = true
							}
						}
					}
					if !stored {
						return "", "the deferred Flush at " + c.pos(call.Pos()) + " does not store its error in the method's named error result: the caller is told the file was written although the last buffered bytes were not"
					}
					for _, rb := range fn.Blocks {
						if _, isRet := rb.Instrs[len(rb.Instrs)-1].(*ssa.Return); isRet && rb != fn.Recover && !(b == rb || b.Dominates(rb)) {
							return "", "the Flush is deferred at " + c.pos(df.Pos()) + " only on some paths to a return"
						}
					}
					return "flushed by a literal deferred before every return; the Flush error is stored in the named error result", ""
				}
			}
		}
	}
	return "", ""
}
