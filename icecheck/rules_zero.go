package main

import (
	"go/token"
	"go/types"

	"golang.org/x/tools/go/ssa"
)

// zeroSingletons: package-level variables initialised to the address of a
// zero struct literal (var emptyX = &T{}): objects every caller shares and
// that the API hands out for "nothing found".
func (c *Ctx) zeroSingletons() map[*types.TypeName][]*ssa.Global {
	out := map[*types.TypeName][]*ssa.Global{}
	initFn := c.SSA.Func("init")
	if initFn == nil {
		return out
	}
	for _, b := range initFn.Blocks {
		for _, ins := range b.Instrs {
			st, ok := ins.(*ssa.Store)
			if !ok {
				continue
			}
			g, ok := st.Addr.(*ssa.Global)
			if !ok || g.Pkg != c.SSA {
				continue
			}
			al, ok := st.Val.(*ssa.Alloc)
			if !ok {
				continue
			}
			n := namedOf(al.Type())
			if n == nil {
				continue
			}
			if _, isStruct := n.Underlying().(*types.Struct); !isStruct {
				continue
			}
			// zero literal: no stores into its fields
			zero := true
			for _, ref := range *al.Referrers() {
				if _, isFA := ref.(*ssa.FieldAddr); isFA {
					zero = false
				}
			}
			if zero {
				out[n.Obj()] = append(out[n.Obj()], g)
			}
		}
	}
	return out
}

func init() {
	register(&Rule{
		Name:  "ZERO-OBJECT-SAFE",
		Floor: 4,
		Doc:   "the API answers \"nothing there\" (unknown field, absent term, empty range) with shared zero-valued objects (emptyDictionary, emptyPostingsList, emptyPostingsIterator, emptyDictionaryIterator): every exported method of such a type therefore works on the zero value - it dereferences a pointer field of its receiver (directly, or by calling a method through it) only where a test of a receiver field has excluded the zero object (field != nil, a marker != 0, a flag set) - never an error or a panic for a lookup that finds nothing",
		Run: func(c *Ctx, scope string, r *Report) {
			singles := c.zeroSingletons()
			if len(singles) == 0 {
				r.undecided("singletons", "", "-", "no shared zero-valued object found: the rule's model is out of date")
				return
			}
			for _, fn := range c.srcFns {
				recvV := fn.Signature.Recv()
				if recvV == nil || fn.Parent() != nil || !token.IsExported(fn.Name()) {
					continue
				}
				rn := namedOf(recvV.Type())
				if rn == nil || len(singles[rn.Obj()]) == 0 {
					continue
				}
				recv := fn.Params[0]
				// edges that the zero object cannot take: a test that some receiver field is non-zero
				var excluded []*ssa.BasicBlock
				recvField := func(v ssa.Value) bool {
					ld, ok := stripConv(v).(*ssa.UnOp)
					if !ok || ld.Op != token.MUL {
						return false
					}
					fa, ok := ld.X.(*ssa.FieldAddr)
					return ok && fa.X == ssa.Value(recv)
				}
				edgeFacts(fn, func(edge *ssa.BasicBlock, cf condFact) {
					switch x := cf.cond.(type) {
					case *ssa.BinOp:
						f, o := x.X, x.Y
						if isNilConst(f) || isZeroConst(f) {
							f, o = o, f
						}
						if recvField(f) && (isNilConst(o) || isZeroConst(o)) {
							switch x.Op {
							case token.NEQ, token.GTR:
								if cf.truth {
									excluded = append(excluded, edge)
								}
							case token.EQL:
								if !cf.truth {
									excluded = append(excluded, edge)
								}
							}
						}
					case *ssa.UnOp:
						if x.Op == token.MUL && recvField(x) && cf.truth { // a bool flag of the receiver
							excluded = append(excluded, edge)
						}
					}
				})
				safeAt := func(b *ssa.BasicBlock) bool {
					for _, e := range excluded {
						if e == b || e.Dominates(b) {
							return true
						}
					}
					return false
				}
				key := fnName(fn) + "/zero-value"
				bad := ""
				for _, b := range fn.Blocks {
					for _, ins := range b.Instrs {
						// pointer fields of the receiver that are dereferenced here
						var ptr ssa.Value
						switch x := ins.(type) {
						case *ssa.FieldAddr:
							ptr = x.X
						case *ssa.IndexAddr:
							ptr = nil
						case ssa.CallInstruction:
							cc := x.Common()
							if cc.IsInvoke() {
								ptr = cc.Value
							} else if sc := cc.StaticCallee(); sc != nil && sc.Signature.Recv() != nil && len(cc.Args) > 0 {
								// a method called through the field: it dereferences its receiver unless it is
								// itself safe on nil (not assumed)
								ptr = cc.Args[0]
							}
						}
						if ptr == nil || !recvField(ptr) {
							continue
						}
						switch ptr.Type().Underlying().(type) {
						case *types.Pointer, *types.Interface:
						default:
							continue
						}
						if !safeAt(b) {
							bad = c.pos(ins.Pos()) + " (" + exprSig(ptr, 0) + ")"
						}
					}
				}
				if bad != "" {
					r.bad(key, fnName(fn), c.pos(fn.Pos()), "on the shared zero-valued "+rn.Obj().Name()+" (handed out when nothing is found) this method dereferences a nil field at "+bad+": a lookup that finds nothing panics instead of reporting nothing")
				} else {
					r.ok(key, fnName(fn), c.pos(fn.Pos()), "safe on the zero value: pointer fields are dereferenced only behind a test that excludes it")
				}
			}
		},
	})
}

func init() {
	register(&Rule{
		Name:  "RANGE-EMPTY-GUARD",
		Floor: 1,
		Doc:   "a dictionary range is [start, end): vellum's range search positions its iterator on the first key >= start and hands that key out without comparing it with the exclusive end (dependency behaviour, summarised here: FST.Search(a, k, k) yields k when k is a key). A function that passes caller-supplied bounds to FST.Search/Iterator therefore compares the two bounds itself, and the branch taken when they are equal does not reach the search: an empty range enumerates nothing",
		Run: func(c *Ctx, scope string, r *Report) {
			n := 0
			for _, fn := range c.srcFns {
				for _, b := range fn.Blocks {
					for _, ins := range b.Instrs {
						call, ok := ins.(*ssa.Call)
						if !ok || call.Call.StaticCallee() == nil {
							continue
						}
						full := funcFullName(call.Call.StaticCallee())
						if full != "github.com/blevesearch/vellum.(*FST).Search" && full != "github.com/blevesearch/vellum.(*FST).Iterator" {
							continue
						}
						args := call.Call.Args
						start, end := args[len(args)-2], args[len(args)-1]
						if isNilConst(start) || isNilConst(end) {
							continue // unbounded on one side: never empty by construction
						}
						n++
						key := fnName(fn) + "/range-search"
						guarded := false
						for _, gb := range fn.Blocks {
							ifi, ok := gb.Instrs[len(gb.Instrs)-1].(*ssa.If)
							if !ok {
								continue
							}
							var equalEdge *ssa.BasicBlock
							isBounds := func(cc *ssa.CallCommon) bool {
								return len(cc.Args) == 2 && (cc.Args[0] == start && cc.Args[1] == end || cc.Args[0] == end && cc.Args[1] == start)
							}
							switch x := ifi.Cond.(type) {
							case *ssa.Call:
								if sc := x.Call.StaticCallee(); sc != nil && funcFullName(sc) == "bytes.Equal" && isBounds(&x.Call) {
									equalEdge = gb.Succs[0]
								}
							case *ssa.BinOp:
								cmp, ok := x.X.(*ssa.Call)
								k, isK := constInt(x.Y)
								if ok && isK && cmp.Call.StaticCallee() != nil && funcFullName(cmp.Call.StaticCallee()) == "bytes.Compare" && isBounds(&cmp.Call) {
									// the truth of `0 <op> k`
									var at0 bool
									switch x.Op {
									case token.EQL:
										at0 = 0 == k
									case token.NEQ:
										at0 = 0 != k
									case token.LSS:
										at0 = 0 < k
									case token.LEQ:
										at0 = 0 <= k
									case token.GTR:
										at0 = 0 > k
									case token.GEQ:
										at0 = 0 >= k
									default:
										continue
									}
									if at0 {
										equalEdge = gb.Succs[0]
									} else {
										equalEdge = gb.Succs[1]
									}
								}
							}
							if equalEdge != nil && equalEdge != b && !reachableWithout(equalEdge, b, nil) {
								guarded = true
							}
						}
						if guarded {
							r.ok(key, fnName(fn), c.pos(call.Pos()), "the bounds are compared first; equal bounds do not reach the search")
						} else {
							r.bad(key, fnName(fn), c.pos(call.Pos()), "caller-supplied range bounds are handed to the FST search without being compared: for an empty range [k,k) with k a live term the iterator enumerates k")
						}
					}
				}
			}
			if n == 0 {
				r.undecided("range-search", "", "-", "no bounded FST search found: the rule's model is out of date")
			}
		},
	})
}
