package main

import (
	"fmt"
	"go/token"
	"go/types"
	"sort"

	"golang.org/x/tools/go/ssa"
)

// zeroSingletons: package-level variables initialised to the address of a
// zero struct literal (var emptyX = &T{}): objects every caller shares and
// that the API hands out for "nothing found".
func (c *Ctx) zeroSingletons() map[*types.TypeName][]*ssa.Global {
	out := map[*types.TypeName][]*ssa.Global{}
	initFn := c.SSA.Func("init")
	if initFn == nil {
		return out
	}
	for _, b := range initFn.Blocks {
		for _, ins := range b.Instrs {
			st, ok := ins.(*ssa.Store)
			if !ok {
				continue
			}
			g, ok := st.Addr.(*ssa.Global)
			if !ok || g.Pkg != c.SSA {
				continue
			}
			al, ok := st.Val.(*ssa.Alloc)
			if !ok {
				continue
			}
			n := namedOf(al.Type())
			if n == nil {
				continue
			}
			if _, isStruct := n.Underlying().(*types.Struct); !isStruct {
				continue
			}
			// zero literal: no stores into its fields
			zero := true
			for _, ref := range *al.Referrers() {
				if _, isFA := ref.(*ssa.FieldAddr); isFA {
					zero = false
				}
			}
			if zero {
				out[n.Obj()] = append(out[n.Obj()], g)
			}
		}
	}
	return out
}

func init() {
	register(&Rule{
		Name:  "ZERO-OBJECT-SAFE",
		Floor: 4,
		Doc:   "the API answers \"nothing there\" (unknown field, absent term, empty range) with shared zero-valued objects (emptyDictionary, emptyPostingsList, emptyPostingsIterator, emptyDictionaryIterator): every exported method of such a type therefore works on the zero value - it dereferences a pointer field of its receiver (directly, or by calling a method through it) only where a test of a receiver field has excluded the zero object (field != nil, a marker != 0, a flag set) - never an error or a panic for a lookup that finds nothing",
		Run: func(c *Ctx, scope string, r *Report) {
			singles := c.zeroSingletons()
			if len(singles) == 0 {
				r.undecided("singletons", "", "-", "no shared zero-valued object found: the rule's model is out of date")
				return
			}
			for _, fn := range c.srcFns {
				recvV := fn.Signature.Recv()
				if recvV == nil || fn.Parent() != nil || !token.IsExported(fn.Name()) {
					continue
				}
				rn := namedOf(recvV.Type())
				if rn == nil || len(singles[rn.Obj()]) == 0 {
					continue
				}
				recv := fn.Params[0]
				recvField := func(v ssa.Value) bool {
					ld, ok := stripConv(v).(*ssa.UnOp)
					if !ok || ld.Op != token.MUL {
						return false
					}
					fa, ok := ld.X.(*ssa.FieldAddr)
					return ok && fa.X == ssa.Value(recv)
				}
				// The zero object has every field zero.  Boolean execution over the atoms
				// "receiver field f is non-zero" (tests written inline, in the cases of a switch,
				// or inside small predicate methods called on the same receiver, which are
				// evaluated under the same assignment): a dereference is safe when its block is
				// unreachable under the assignment in which every atom is false.
				sameRecvCallee := map[*ssa.Function]bool{}
				otherRecvCallee := map[*ssa.Function]bool{}
				var scan func(f *ssa.Function, r ssa.Value, depth int)
				scan = func(f *ssa.Function, r ssa.Value, depth int) {
					for _, b := range f.Blocks {
						for _, ins := range b.Instrs {
							call, ok := ins.(*ssa.Call)
							if !ok {
								continue
							}
							sc := call.Call.StaticCallee()
							if sc == nil || sc.Pkg != fn.Pkg || sc.Blocks == nil || sc.Signature.Recv() == nil || len(call.Call.Args) == 0 {
								continue
							}
							if namedOf(sc.Signature.Recv().Type()) != rn {
								continue
							}
							if call.Call.Args[0] == r {
								if !sameRecvCallee[sc] && depth < 2 {
									sameRecvCallee[sc] = true
									scan(sc, sc.Params[0], depth+1)
								}
							} else {
								otherRecvCallee[sc] = true
							}
						}
					}
				}
				scan(fn, recv, 0)
				atomIdx := map[string]int{}
				recvOf := func(f *ssa.Function) ssa.Value {
					if f == fn {
						return recv
					}
					if sameRecvCallee[f] && !otherRecvCallee[f] {
						return f.Params[0]
					}
					return nil
				}
				fieldOfLoad := func(v ssa.Value) (string, bool) {
					ld, ok := stripConv(v).(*ssa.UnOp)
					if !ok || ld.Op != token.MUL {
						return "", false
					}
					fa, ok := ld.X.(*ssa.FieldAddr)
					if !ok {
						return "", false
					}
					r := recvOf(ld.Parent())
					if r == nil || fa.X != r {
						return "", false
					}
					_, fv := fieldAddrInfo(fa)
					if fv == nil {
						return "", false
					}
					return fv.Name(), true
				}
				atomOf := func(v ssa.Value, define bool) (int, bool, bool) {
					name, neg, ok := "", false, false
					switch x := v.(type) {
					case *ssa.BinOp:
						f, o := x.X, x.Y
						if isNilConst(f) || isZeroConst(f) {
							f, o = o, f
						}
						if !(isNilConst(o) || isZeroConst(o)) {
							break
						}
						if n, isF := fieldOfLoad(f); isF {
							switch x.Op {
							case token.NEQ:
								name, ok = n, true
							case token.EQL:
								name, neg, ok = n, true, true
							case token.GTR:
								if bt, isB := f.Type().Underlying().(*types.Basic); isB && bt.Info()&types.IsUnsigned != 0 {
									name, ok = n, true
								}
							}
						}
					case *ssa.UnOp:
						if x.Op == token.MUL {
							if bt, isB := x.Type().Underlying().(*types.Basic); isB && bt.Kind() == types.Bool {
								if n, isF := fieldOfLoad(x); isF {
									name, ok = n, true
								}
							}
						}
					}
					if !ok {
						return 0, false, false
					}
					idx, have := atomIdx[name]
					if !have {
						if !define || len(atomIdx) >= 10 {
							return 0, false, false
						}
						idx = len(atomIdx)
						atomIdx[name] = idx
					}
					return idx, neg, true
				}
				fnsToScan := []*ssa.Function{fn}
				for f := range sameRecvCallee {
					if !otherRecvCallee[f] {
						fnsToScan = append(fnsToScan, f)
					}
				}
				sort.Slice(fnsToScan, func(a, b int) bool { return fnName(fnsToScan[a]) < fnName(fnsToScan[b]) })
				for _, f := range fnsToScan {
					for _, b := range f.Blocks {
						for _, ins := range b.Instrs {
							if v, ok := ins.(ssa.Value); ok {
								atomOf(v, true)
							}
						}
					}
				}
				be := &boolExec{fn: fn, n: len(atomIdx), inline: true, atoms: func(v ssa.Value) (int, bool, bool) { return atomOf(v, false) }}
				reachZero := map[*ssa.BasicBlock]bool{}
				safeAt := func(b *ssa.BasicBlock) bool {
					z, ok := reachZero[b]
					if !ok {
						z = be.reachableUnder(b)[0]
						reachZero[b] = z
					}
					return !z
				}
				key := fnName(fn) + "/zero-value"
				bad := ""
				for _, b := range fn.Blocks {
					for _, ins := range b.Instrs {
						// pointer fields of the receiver that are dereferenced here
						var ptr ssa.Value
						switch x := ins.(type) {
						case *ssa.FieldAddr:
							ptr = x.X
						case *ssa.IndexAddr:
							ptr = nil
						case ssa.CallInstruction:
							cc := x.Common()
							if cc.IsInvoke() {
								ptr = cc.Value
							} else if sc := cc.StaticCallee(); sc != nil && sc.Signature.Recv() != nil && len(cc.Args) > 0 {
								// a method called through the field: it dereferences its receiver unless it is
								// itself safe on nil (not assumed)
								ptr = cc.Args[0]
							}
						}
						if ptr == nil || !recvField(ptr) {
							continue
						}
						switch ptr.Type().Underlying().(type) {
						case *types.Pointer, *types.Interface:
						default:
							continue
						}
						if !safeAt(b) {
							bad = c.pos(ins.Pos()) + " (" + exprSig(ptr, 0) + ")"
						}
					}
				}
				if bad != "" {
					r.bad(key, fnName(fn), c.pos(fn.Pos()), "on the shared zero-valued "+rn.Obj().Name()+" (handed out when nothing is found) this method dereferences a nil field at "+bad+": a lookup that finds nothing panics instead of reporting nothing")
				} else {
					r.ok(key, fnName(fn), c.pos(fn.Pos()), "safe on the zero value: pointer fields are dereferenced only behind a test that excludes it")
				}
			}
		},
	})
}

// ---- RANGE-EMPTY-GUARD -----------------------------------------------------

// boundRoles: which SSA values are the lower (1) / upper (2) bound of the range
// under consideration, and which struct-typed values / cells carry them in
// which field.
type boundRoles struct {
	val    map[ssa.Value]int
	fields map[ssa.Value]map[int]int
}

func newBoundRoles() *boundRoles {
	return &boundRoles{val: map[ssa.Value]int{}, fields: map[ssa.Value]map[int]int{}}
}

func (r *boundRoles) setField(v ssa.Value, idx, role int) {
	if r.fields[v] == nil {
		r.fields[v] = map[int]int{}
	}
	r.fields[v][idx] = role
}

// structRoles: the field roles of a struct value, a pointer to one, or a cell holding one.
func (r *boundRoles) structRoles(v ssa.Value) map[int]int {
	v = stripConv(v)
	if m, ok := r.fields[v]; ok {
		return m
	}
	switch x := v.(type) {
	case *ssa.UnOp:
		if x.Op == token.MUL {
			return r.structRoles(x.X)
		}
	case *ssa.Alloc:
		// a local struct filled field by field from values that have a role
		m := map[int]int{}
		if refs := x.Referrers(); refs != nil {
			for _, ref := range *refs {
				fa, ok := ref.(*ssa.FieldAddr)
				if !ok || fa.Referrers() == nil {
					continue
				}
				for _, fr := range *fa.Referrers() {
					if st, ok := fr.(*ssa.Store); ok && st.Addr == ssa.Value(fa) {
						if role := r.role(st.Val); role != 0 {
							m[fa.Field] = role
						}
					}
				}
			}
		}
		if len(m) > 0 {
			return m
		}
		// a parameter spilled into a cell
		if refs := x.Referrers(); refs != nil {
			for _, ref := range *refs {
				if st, ok := ref.(*ssa.Store); ok && st.Addr == ssa.Value(x) {
					if _, isAlloc := stripConv(st.Val).(*ssa.Alloc); !isAlloc {
						if sm := r.structRoles(st.Val); sm != nil {
							return sm
						}
					}
				}
			}
		}
	}
	return nil
}

func (r *boundRoles) role(v ssa.Value) int {
	v = stripConv(v)
	if k, ok := r.val[v]; ok {
		return k
	}
	switch x := v.(type) {
	case *ssa.Field:
		if m := r.structRoles(x.X); m != nil {
			return m[x.Field]
		}
	case *ssa.UnOp:
		if x.Op == token.MUL {
			if fa, ok := x.X.(*ssa.FieldAddr); ok {
				if m := r.structRoles(fa.X); m != nil {
					return m[fa.Field]
				}
			}
		}
	}
	return 0
}

// mark: v is bound `role`; carry the role back to where v comes from inside its
// function (a field of a struct parameter / local struct).
func (r *boundRoles) mark(v ssa.Value, role int) {
	v = stripConv(v)
	r.val[v] = role
	switch x := v.(type) {
	case *ssa.Field:
		r.setField(stripConv(x.X), x.Field, role)
		if ld, ok := stripConv(x.X).(*ssa.UnOp); ok && ld.Op == token.MUL {
			r.setField(ld.X, x.Field, role)
		}
	case *ssa.UnOp:
		if x.Op == token.MUL {
			if fa, ok := x.X.(*ssa.FieldAddr); ok {
				r.setField(stripConv(fa.X), fa.Field, role)
				if ld, ok := stripConv(fa.X).(*ssa.UnOp); ok && ld.Op == token.MUL {
					r.setField(ld.X, fa.Field, role)
				}
			}
		}
	}
}

// truthIfEqual: the value of a condition under the hypothesis "both bounds are
// given (non-nil) and equal".
func (r *boundRoles) truthIfEqual(v ssa.Value, depth int) tri {
	both := func(a, b ssa.Value) bool {
		x, y := r.role(a), r.role(b)
		return x != 0 && y != 0 && x != y
	}
	fromBool := func(b bool) tri {
		if b {
			return triTrue
		}
		return triFalse
	}
	switch x := v.(type) {
	case *ssa.Call:
		sc := x.Call.StaticCallee()
		if sc == nil {
			return triUnknown
		}
		switch funcFullName(sc) {
		case "bytes.Equal":
			if both(x.Call.Args[0], x.Call.Args[1]) {
				return triTrue
			}
			return triUnknown
		}
		// an in-package predicate over the bounds
		if sc.Blocks == nil || depth > 2 || sc.Signature.Results().Len() != 1 || !isBoolType(sc.Signature.Results().At(0).Type()) {
			return triUnknown
		}
		carries := false
		for i, a := range x.Call.Args {
			if i >= len(sc.Params) {
				break
			}
			if role := r.role(a); role != 0 {
				r.val[sc.Params[i]] = role
				carries = true
			}
			if m := r.structRoles(a); m != nil {
				r.fields[sc.Params[i]] = m
				carries = true
			}
		}
		if !carries {
			return triUnknown
		}
		return predicateUnder(sc, func(w ssa.Value) (int, bool, bool) {
			switch r.truthIfEqual(w, depth+1) {
			case triTrue:
				return 0, false, true
			case triFalse:
				return 0, true, true
			}
			return 0, false, false
		}, 1, nil, 0)
	case *ssa.BinOp:
		if cmp, ok := x.X.(*ssa.Call); ok {
			if sc := cmp.Call.StaticCallee(); sc != nil && funcFullName(sc) == "bytes.Compare" && both(cmp.Call.Args[0], cmp.Call.Args[1]) {
				if k, isK := constInt(x.Y); isK {
					switch x.Op {
					case token.EQL:
						return fromBool(0 == k)
					case token.NEQ:
						return fromBool(0 != k)
					case token.LSS:
						return fromBool(0 < k)
					case token.LEQ:
						return fromBool(0 <= k)
					case token.GTR:
						return fromBool(0 > k)
					case token.GEQ:
						return fromBool(0 >= k)
					}
				}
			}
		}
		// a given bound is not nil
		a, b := x.X, x.Y
		if isNilConst(a) {
			a, b = b, a
		}
		if isNilConst(b) && r.role(a) != 0 {
			switch x.Op {
			case token.EQL:
				return triFalse
			case token.NEQ:
				return triTrue
			}
		}
	}
	return triUnknown
}

// searchReachableIfEqual: can `at` be reached in fn when the bounds are equal?
func (r *boundRoles) searchReachableIfEqual(fn *ssa.Function, at *ssa.BasicBlock) bool {
	be := &boolExec{fn: fn, n: 1, atoms: func(w ssa.Value) (int, bool, bool) {
		switch r.truthIfEqual(w, 0) {
		case triTrue:
			return 0, false, true
		case triFalse:
			return 0, true, true
		}
		return 0, false, false
	}}
	return be.reachableUnder(at)[1]
}

func init() {
	register(&Rule{
		Name:  "RANGE-EMPTY-GUARD",
		Floor: 1,
		Doc:   "a dictionary range is [start, end): vellum's range search positions its iterator on the first key >= start and hands that key out without comparing it with the exclusive end (dependency behaviour, summarised here: FST.Search(a, k, k) yields k when k is a key). Wherever caller-supplied bounds reach FST.Search/Iterator, the search is unreachable when both bounds are given and equal: boolean execution of the function under that hypothesis (bytes.Equal of the bounds true, bytes.Compare of them 0, neither nil; predicates over the bounds - also over a struct that carries them - evaluated under the same hypothesis) does not reach the call; when the bounds are parameters of an unexported helper the same is asked of every call of the helper instead. An empty range enumerates nothing",
		Run: func(c *Ctx, scope string, r *Report) {
			n := 0
			var decide func(fn *ssa.Function, at ssa.Instruction, start, end ssa.Value, depth int) (bool, string)
			decide = func(fn *ssa.Function, at ssa.Instruction, start, end ssa.Value, depth int) (bool, string) {
				roles := newBoundRoles()
				roles.mark(start, 1)
				roles.mark(end, 2)
				if !roles.searchReachableIfEqual(fn, at.Block()) {
					return true, "equal bounds do not reach the search in " + fnName(fn)
				}
				// the bounds come in through parameters of a helper: ask its callers
				if depth >= 3 || token.IsExported(fn.Name()) || fn.Parent() != nil {
					return false, fnName(fn)
				}
				origin := func(v ssa.Value) (int, int, bool) { // parameter index, field (-1: the parameter itself)
					v = stripConv(v)
					for i, p := range fn.Params {
						if v == ssa.Value(p) {
							return i, -1, true
						}
					}
					switch x := v.(type) {
					case *ssa.Field:
						for i, p := range fn.Params {
							if stripConv(x.X) == ssa.Value(p) {
								return i, x.Field, true
							}
						}
					case *ssa.UnOp:
						if fa, ok := x.X.(*ssa.FieldAddr); ok && x.Op == token.MUL {
							base := stripConv(fa.X)
							if ld, ok := base.(*ssa.UnOp); ok && ld.Op == token.MUL {
								// a spilled parameter
								if al, ok := ld.X.(*ssa.Alloc); ok && al.Referrers() != nil {
									for _, ref := range *al.Referrers() {
										if st, ok := ref.(*ssa.Store); ok {
											base = stripConv(st.Val)
										}
									}
								}
							}
							if al, ok := base.(*ssa.Alloc); ok && al.Referrers() != nil {
								for _, ref := range *al.Referrers() {
									if st, ok := ref.(*ssa.Store); ok && st.Addr == ssa.Value(al) {
										base = stripConv(st.Val)
									}
								}
							}
							for i, p := range fn.Params {
								if base == ssa.Value(p) {
									return i, fa.Field, true
								}
							}
						}
					}
					return 0, 0, false
				}
				si, sf, ok1 := origin(start)
				ei, ef, ok2 := origin(end)
				if !ok1 || !ok2 {
					return false, fnName(fn)
				}
				sites := 0
				for _, caller := range c.srcFns {
					for _, b := range caller.Blocks {
						for _, ins := range b.Instrs {
							call, ok := ins.(*ssa.Call)
							if !ok || call.Call.StaticCallee() != fn {
								continue
							}
							sites++
							argOf := func(pi, field int) ssa.Value {
								a := call.Call.Args[pi]
								if field < 0 {
									return a
								}
								// the field of the struct argument as a value of the caller
								roles := newBoundRoles()
								_ = roles
								return &boundFieldRef{base: a, field: field}
							}
							sa, ea := argOf(si, sf), argOf(ei, ef)
							ok, why := decideRef(c, decide, caller, call, sa, ea, depth+1)
							if !ok {
								return false, why
							}
						}
					}
				}
				if sites == 0 {
					return false, fnName(fn)
				}
				return true, "every call of " + fnName(fn) + " is unreachable for equal bounds"
			}
			for _, fn := range c.srcFns {
				for _, b := range fn.Blocks {
					for _, ins := range b.Instrs {
						call, ok := ins.(*ssa.Call)
						if !ok || call.Call.StaticCallee() == nil {
							continue
						}
						full := funcFullName(call.Call.StaticCallee())
						if full != "github.com/blevesearch/vellum.(*FST).Search" && full != "github.com/blevesearch/vellum.(*FST).Iterator" {
							continue
						}
						args := call.Call.Args
						start, end := args[len(args)-2], args[len(args)-1]
						if isNilConst(start) || isNilConst(end) {
							continue // unbounded on one side: never empty by construction
						}
						n++
						key := fnName(fn) + "/range-search"
						if ok, why := decide(fn, call, start, end, 0); ok {
							r.ok(key, fnName(fn), c.pos(call.Pos()), why)
						} else {
							r.bad(key, fnName(fn), c.pos(call.Pos()), "caller-supplied range bounds reach the FST search without the empty range having been diverted (followed up to "+why+"): for an empty range [k,k) with k a live term the iterator enumerates k")
						}
					}
				}
			}
			if n == 0 {
				r.undecided("range-search", "", "-", "no bounded FST search found: the rule's model is out of date")
			}
		},
	})
}

// boundFieldRef stands for "field #field of the struct value base" at a call site.
type boundFieldRef struct {
	ssa.Value
	base  ssa.Value
	field int
}

func decideRef(c *Ctx, decide func(fn *ssa.Function, at ssa.Instruction, start, end ssa.Value, depth int) (bool, string), caller *ssa.Function, call *ssa.Call, sa, ea ssa.Value, depth int) (bool, string) {
	// resolve field references to values of the caller where possible
	resolve := func(v ssa.Value) ssa.Value {
		ref, ok := v.(*boundFieldRef)
		if !ok {
			return v
		}
		base := stripConv(ref.base)
		if ld, ok := base.(*ssa.UnOp); ok && ld.Op == token.MUL {
			base = ld.X
		}
		if al, ok := base.(*ssa.Alloc); ok && al.Referrers() != nil {
			for _, r := range *al.Referrers() {
				fa, ok := r.(*ssa.FieldAddr)
				if !ok || fa.Field != ref.field || fa.Referrers() == nil {
					continue
				}
				for _, fr := range *fa.Referrers() {
					if st, ok := fr.(*ssa.Store); ok && st.Addr == ssa.Value(fa) {
						return st.Val
					}
				}
			}
		}
		// a struct parameter of the caller handed on
		for _, p := range caller.Params {
			if base == ssa.Value(p) {
				for _, b := range caller.Blocks {
					for _, ins := range b.Instrs {
						if f, ok := ins.(*ssa.Field); ok && stripConv(f.X) == ssa.Value(p) && f.Field == ref.field {
							return f
						}
					}
				}
			}
		}
		return nil
	}
	s, e := resolve(sa), resolve(ea)
	if s == nil || e == nil {
		return false, fnName(caller)
	}
	return decide(caller, call, s, e, depth)
}

func init() {
	register(&Rule{
		Name:   "EMPTY-MEANS-BOTH",
		ZeroOK: true,
		Doc:    "a postings list is empty only when it has neither a bitmap nor a 1-hit (the 1-hit encoding keeps no bitmap): a method of PostingsList that leaves early because `postings == nil` - the nil edge of the test leads straight to a return - does so only where the 1-hit marker is known to be zero (tested first, in the same condition, or through a predicate such as is1Hit()). Otherwise every 1-hit list - every _id term of a merged segment - is treated as empty",
		Run: func(c *Ctx, scope string, r *Report) {
			for _, fn := range c.srcFns {
				if fn.Signature.Recv() == nil || fn.Parent() != nil {
					continue
				}
				rn := namedOf(fn.Signature.Recv().Type())
				if rn == nil || rn.Obj().Name() != "PostingsList" {
					continue
				}
				recvName := accessPath(fn.Params[0])
				facts := edgePathFacts(fn)
				n := 0
				for _, f := range facts {
					if f.nonzero || f.path != "*"+recvName+".postings" {
						continue
					}
					// the nil edge leads straight to a return (through empty jumps)
					blk := f.edge
					steps := 0
					for steps < 3 {
						if _, isJump := blk.Instrs[len(blk.Instrs)-1].(*ssa.Jump); isJump && len(blk.Instrs) == 1 {
							blk = blk.Succs[0]
							steps++
							continue
						}
						break
					}
					if _, isRet := blk.Instrs[len(blk.Instrs)-1].(*ssa.Return); !isRet || len(blk.Instrs) > 4 {
						continue
					}
					n++
					key := fmt.Sprintf("%s/early-exit#%d", fnName(fn), n)
					if pathKnown(fn, "*"+recvName+".normBits1Hit", false, f.edge) {
						r.ok(key, fnName(fn), c.pos(blk.Instrs[len(blk.Instrs)-1].Pos()), "leaves early for a missing bitmap only where the 1-hit marker is known to be zero")
					} else {
						r.bad(key, fnName(fn), c.pos(blk.Instrs[len(blk.Instrs)-1].Pos()), "returns early because the list has no bitmap without having looked at the 1-hit marker: a 1-hit list (no bitmap by construction) is treated as empty")
					}
				}
			}
		},
	})
}

func init() {
	register(&Rule{
		Name:   "EMPTY-VS-NIL",
		ZeroOK: true,
		Doc:    "a slice field whose nil-ness is tested as \"nothing yet\" (`x.f == nil` in a condition that does not also accept a zero length) is reset to nil, not re-sliced to `f[:0]`: a buffer kept for reuse is empty but not nil, so after the first use the test can never say \"nothing yet\" again (the first term of the next field is then taken for a repetition of nothing). A re-slice that is immediately appended to (the update `f = append(f[:0], v...)`) is not a reset",
		Run: func(c *Ctx, scope string, r *Report) {
			type fieldKey struct {
				owner string
				name  string
			}
			keyOf := func(fa *ssa.FieldAddr) (fieldKey, bool) {
				owner, f := fieldAddrInfo(fa)
				if f == nil {
					return fieldKey{}, false
				}
				if _, isSlice := f.Type().Underlying().(*types.Slice); !isSlice {
					return fieldKey{}, false
				}
				on := ""
				if owner != nil {
					on = owner.Obj().Name()
				}
				return fieldKey{on, f.Name()}, true
			}
			// fields whose nil-ness carries meaning: the nil test stands beside a test of the
			// field's CONTENT in one condition (`!bytes.Equal(x.f, cur) || x.f == nil`): nil says
			// "nothing to compare with yet"
			meaningful := map[fieldKey]string{}
			fieldOfLoad := func(v ssa.Value) (fieldKey, bool) {
				ld, ok := v.(*ssa.UnOp)
				if !ok || ld.Op != token.MUL {
					return fieldKey{}, false
				}
				fa, ok := ld.X.(*ssa.FieldAddr)
				if !ok {
					return fieldKey{}, false
				}
				return keyOf(fa)
			}
			for _, fn := range c.srcFns {
				// one condition written with || / && is several If blocks that share a successor
				for _, target := range fn.Blocks {
					var atoms []condFact
					for _, b := range target.Preds {
						ifi, ok := b.Instrs[len(b.Instrs)-1].(*ssa.If)
						if !ok {
							continue
						}
						atoms = append(atoms, condFacts(ifi.Cond, true, 0)...)
						atoms = append(atoms, condFacts(ifi.Cond, false, 0)...)
					}
					if len(atoms) == 0 {
						continue
					}
					nilOf := map[fieldKey]token.Pos{}
					contentOf := map[fieldKey]bool{}
					for _, a := range atoms {
						switch x := a.cond.(type) {
						case *ssa.BinOp:
							v, o := x.X, x.Y
							if isNilConst(v) {
								v, o = o, v
							}
							if k, ok := fieldOfLoad(v); ok && isNilConst(o) && (x.Op == token.EQL || x.Op == token.NEQ) {
								nilOf[k] = x.Pos()
							}
						case *ssa.Call:
							if _, isBuiltin := x.Call.Value.(*ssa.Builtin); isBuiltin {
								continue
							}
							for _, arg := range x.Call.Args {
								if k, ok := fieldOfLoad(arg); ok {
									contentOf[k] = true
								}
							}
						}
					}
					for k, pos := range nilOf {
						if contentOf[k] {
							meaningful[k] = c.pos(pos) + " in " + fnName(fn)
						}
					}
				}
			}
			for _, fn := range c.srcFns {
				for _, b := range fn.Blocks {
					for _, ins := range b.Instrs {
						st, ok := ins.(*ssa.Store)
						if !ok {
							continue
						}
						fa, ok := st.Addr.(*ssa.FieldAddr)
						if !ok {
							continue
						}
						k, ok := keyOf(fa)
						if !ok || meaningful[k] == "" {
							continue
						}
						sl, ok := st.Val.(*ssa.Slice)
						if !ok || sl.High == nil {
							continue
						}
						if hk, ok := sl.High.(*ssa.Const); !ok || hk.Value == nil || hk.Value.String() != "0" {
							continue
						}
						src, ok := sl.X.(*ssa.UnOp)
						if !ok || src.Op != token.MUL {
							continue
						}
						if sfa, ok := src.X.(*ssa.FieldAddr); !ok || sfa.Field != fa.Field || accessPath(sfa.X) != accessPath(fa.X) {
							continue
						}
						// the update idiom: a later store of append(...) to the same field in this block
						update := false
						for _, later := range b.Instrs[instrIndex(st)+1:] {
							if ls, ok := later.(*ssa.Store); ok {
								if lfa, ok := ls.Addr.(*ssa.FieldAddr); ok && lfa.Field == fa.Field && accessPath(lfa.X) == accessPath(fa.X) {
									if call, ok := ls.Val.(*ssa.Call); ok {
										if bi, ok := call.Call.Value.(*ssa.Builtin); ok && bi.Name() == "append" {
											update = true
										}
									}
								}
							}
						}
						key := fnName(fn) + "/reset:" + k.name
						if update {
							r.ok(key, fnName(fn), c.pos(st.Pos()), "re-sliced and appended to at once: an update, not a reset")
						} else {
							r.bad(key, fnName(fn), c.pos(st.Pos()), "."+k.name+" is reset to an empty, non-nil slice, but its nil-ness is what says \"nothing yet\" (tested at "+meaningful[k]+", with no zero-length alternative): after the first use the test never fires again")
						}
					}
				}
			}
		},
	})
}
