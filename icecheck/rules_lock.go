package main

// E2 — lockset analysis on SSA blocks.

import (
	"fmt"
	"go/token"
	"go/types"
	"sort"
	"strings"

	"golang.org/x/tools/go/ssa"
)

// lockID renders the access path of a mutex operand: (root value, field path).
func accessPath(v ssa.Value) string {
	switch x := v.(type) {
	case *ssa.FieldAddr:
		_, f := fieldAddrInfo(x)
		name := fmt.Sprint(x.Field)
		if f != nil {
			name = f.Name()
		}
		return accessPath(x.X) + "." + name
	case *ssa.Field:
		return accessPath(x.X) + "." + fmt.Sprint(x.Field)
	case *ssa.UnOp:
		if x.Op == token.MUL {
			return "*" + accessPath(x.X)
		}
	case *ssa.Parameter:
		return x.Name()
	case *ssa.FreeVar:
		return x.Name()
	case *ssa.Global:
		return x.Name()
	case *ssa.Alloc:
		return "local:" + x.Comment
	}
	return v.Name()
}

type lockOp struct {
	kind string // "lock", "unlock", "defer-unlock"
	id   string
	ins  ssa.Instruction
}

func mutexOp(ins ssa.Instruction) *lockOp {
	var cc *ssa.CallCommon
	deferred := false
	switch x := ins.(type) {
	case *ssa.Call:
		cc = &x.Call
	case *ssa.Defer:
		cc = &x.Call
		deferred = true
	default:
		return nil
	}
	sc := cc.StaticCallee()
	if sc == nil || sc.Pkg == nil || sc.Pkg.Pkg.Path() != "sync" || len(cc.Args) == 0 {
		return nil
	}
	recv := sc.Signature.Recv()
	if recv == nil || !(isNamed(recv.Type(), "sync", "Mutex") || isNamed(recv.Type(), "sync", "RWMutex")) {
		return nil
	}
	id := accessPath(cc.Args[0])
	switch sc.Name() {
	case "Lock", "RLock":
		if deferred {
			return nil
		}
		return &lockOp{"lock", id, ins}
	case "Unlock", "RUnlock":
		if deferred {
			return &lockOp{"defer-unlock", id, ins}
		}
		return &lockOp{"unlock", id, ins}
	}
	return nil
}

// lockState is a path state: which locks are held and which unlocks are deferred.
type lockState struct {
	held     string // sorted, comma separated "id@line"
	deferred string
}

func setAdd(s, x string) string {
	parts := splitSet(s)
	for _, p := range parts {
		if p == x {
			return s
		}
	}
	parts = append(parts, x)
	sort.Strings(parts)
	return strings.Join(parts, ",")
}
func setDel(s, x string) string {
	var out []string
	for _, p := range splitSet(s) {
		if p != x {
			out = append(out, p)
		}
	}
	return strings.Join(out, ",")
}
func splitSet(s string) []string {
	if s == "" {
		return nil
	}
	return strings.Split(s, ",")
}

type lockResult struct {
	// instr -> set of lock ids that MAY be held just before instr, and MUST be held
	may  map[ssa.Instruction]map[string]bool
	must map[ssa.Instruction]map[string]bool
	// leaks: return instruction -> held lock ids
	leaks map[ssa.Instruction][]string
	locks int
}

// lockAnalyse runs a path-set dataflow (finite: states are subsets of the
// function's lock ids) over fn.
func lockAnalyse(fn *ssa.Function) *lockResult {
	res := &lockResult{may: map[ssa.Instruction]map[string]bool{}, must: map[ssa.Instruction]map[string]bool{}, leaks: map[ssa.Instruction][]string{}}
	has := false
	for _, b := range fn.Blocks {
		for _, ins := range b.Instrs {
			if op := mutexOp(ins); op != nil {
				has = true
				if op.kind == "lock" {
					res.locks++
				}
			}
		}
	}
	if !has {
		return res
	}
	in := map[*ssa.BasicBlock]map[lockState]bool{}
	in[fn.Blocks[0]] = map[lockState]bool{{}: true}
	work := []*ssa.BasicBlock{fn.Blocks[0]}
	statesAt := map[ssa.Instruction]map[lockState]bool{}
	for len(work) > 0 {
		b := work[0]
		work = work[1:]
		cur := map[lockState]bool{}
		for s := range in[b] {
			cur[s] = true
		}
		for _, ins := range b.Instrs {
			if statesAt[ins] == nil {
				statesAt[ins] = map[lockState]bool{}
			}
			for s := range cur {
				statesAt[ins][s] = true
			}
			if op := mutexOp(ins); op != nil {
				next := map[lockState]bool{}
				for s := range cur {
					switch op.kind {
					case "lock":
						s.held = setAdd(s.held, op.id)
					case "unlock":
						s.held = setDel(s.held, op.id)
					case "defer-unlock":
						s.deferred = setAdd(s.deferred, op.id)
					}
					next[s] = true
				}
				cur = next
			}
		}
		for _, succ := range b.Succs {
			if in[succ] == nil {
				in[succ] = map[lockState]bool{}
			}
			changed := false
			for s := range cur {
				if !in[succ][s] {
					in[succ][s] = true
					changed = true
				}
			}
			if changed {
				work = append(work, succ)
			}
		}
	}
	for ins, states := range statesAt {
		may := map[string]bool{}
		var must map[string]bool
		for s := range states {
			h := map[string]bool{}
			for _, id := range splitSet(s.held) {
				h[id] = true
				may[id] = true
			}
			if must == nil {
				must = h
			} else {
				for id := range must {
					if !h[id] {
						delete(must, id)
					}
				}
			}
		}
		res.may[ins] = may
		res.must[ins] = must
		if _, ok := ins.(*ssa.Return); ok {
			leaked := map[string]bool{}
			for s := range states {
				def := map[string]bool{}
				for _, id := range splitSet(s.deferred) {
					def[id] = true
				}
				for _, id := range splitSet(s.held) {
					if !def[id] {
						leaked[id] = true
					}
				}
			}
			if len(leaked) > 0 {
				var ids []string
				for id := range leaked {
					ids = append(ids, id)
				}
				sort.Strings(ids)
				res.leaks[ins] = ids
			}
		}
	}
	return res
}

// isCallbackCall: a call through a caller-supplied function value or
// interface (anything that is not a static callee, a locally created closure,
// or a builtin).
func isCallbackCall(cc *ssa.CallCommon) (bool, string) {
	if cc.IsInvoke() {
		return true, "interface method " + cc.Method.Name() + " on " + cc.Value.Type().String()
	}
	if cc.StaticCallee() != nil {
		return false, ""
	}
	switch cc.Value.(type) {
	case *ssa.Builtin:
		return false, ""
	case *ssa.MakeClosure:
		return false, ""
	}
	return true, "function value " + cc.Value.Name() + " of type " + cc.Value.Type().String()
}

// transitively: does fn (in root package) contain a callback call or acquire a lock?
func (c *Ctx) reentrancyHazards(fn *ssa.Function, seen map[*ssa.Function]bool) []string {
	if seen[fn] || !c.inRoot(fn) || fn.Blocks == nil {
		return nil
	}
	seen[fn] = true
	var out []string
	for _, b := range fn.Blocks {
		for _, ins := range b.Instrs {
			if op := mutexOp(ins); op != nil && op.kind == "lock" {
				out = append(out, fmt.Sprintf("%s acquires %s at %s", fnName(fn), op.id, c.pos(ins.Pos())))
			}
			ci, ok := ins.(ssa.CallInstruction)
			if !ok {
				continue
			}
			if cb, what := isCallbackCall(ci.Common()); cb {
				out = append(out, fmt.Sprintf("%s calls %s at %s", fnName(fn), what, c.pos(ins.Pos())))
			}
			if sc := ci.Common().StaticCallee(); sc != nil {
				out = append(out, c.reentrancyHazards(sc, seen)...)
			}
		}
	}
	return out
}

func init() {
	register(&Rule{
		Name:  "LOCK-RELEASE",
		Floor: 1,
		Doc:   "every path from a sync.Mutex Lock()/RLock() to any return of the function releases the lock (explicit Unlock on the path or a registered deferred Unlock): no read API call can leave the segment mutex held, for every fault sequence",
		Run: func(c *Ctx, scope string, r *Report) {
			nfn := 0
			for _, fn := range c.srcFns {
				lr := lockAnalyse(fn)
				if lr.locks == 0 {
					continue
				}
				nfn++
				// one obligation per return instruction of a locking function
				for _, b := range fn.Blocks {
					ret, ok := b.Instrs[len(b.Instrs)-1].(*ssa.Return)
					if !ok {
						continue
					}
					key := fmt.Sprintf("%s/return@%s", fnName(fn), blockDesc(b))
					if ids, leak := lr.leaks[ret]; leak {
						r.bad(key, fnName(fn), c.pos(retPos(ret, b)), fmt.Sprintf("return with %s still locked (no Unlock on this path and no deferred Unlock)", strings.Join(ids, ", ")), pathTo(c, b)...)
					} else {
						r.ok(key, fnName(fn), c.pos(retPos(ret, b)), "all locks released at this return")
					}
				}
			}
			r.note("%d function(s) acquire a mutex", nfn)
		},
	})

	register(&Rule{
		Name:  "NO-CALLBACK-UNDER-LOCK",
		Floor: 1,
		Doc:   "while a mutex may be held, no call goes through a caller-supplied function value or interface, and no in-package callee (transitively) does so or acquires a mutex: a visitor re-entering the segment cannot self-deadlock",
		Run: func(c *Ctx, scope string, r *Report) {
			for _, fn := range c.srcFns {
				lr := lockAnalyse(fn)
				if lr.locks == 0 {
					continue
				}
				n := 0
				for _, b := range fn.Blocks {
					for _, ins := range b.Instrs {
						ci, ok := ins.(ssa.CallInstruction)
						if !ok || len(lr.may[ins]) == 0 {
							continue
						}
						if op := mutexOp(ins); op != nil {
							if op.kind == "lock" && lr.may[ins][op.id] {
								r.bad(fnName(fn)+"/relock", fnName(fn), c.pos(ins.Pos()), "Lock of "+op.id+" while it may already be held (self-deadlock)")
							}
							continue
						}
						n++
						key := fnName(fn) + "/" + calleeFullName(ci.Common())
						if cb, what := isCallbackCall(ci.Common()); cb {
							r.bad(key, fnName(fn), c.pos(ins.Pos()), "call of "+what+" while "+strings.Join(keys(lr.may[ins]), ",")+" may be held")
							continue
						}
						if sc := ci.Common().StaticCallee(); sc != nil && c.inRoot(sc) {
							if hz := c.reentrancyHazards(sc, map[*ssa.Function]bool{}); len(hz) > 0 {
								r.bad(key, fnName(fn), c.pos(ins.Pos()), "in-package callee under lock can call back or lock", hz...)
								continue
							}
						}
						r.ok(key, fnName(fn), c.pos(ins.Pos()), "call under lock is static and free of callbacks/locks")
					}
				}
				if n == 0 {
					r.ok(fnName(fn)+"/no-calls-under-lock", fnName(fn), c.pos(fn.Pos()), "no calls while the lock is held")
				}
			}
		},
	})
}

func keys(m map[string]bool) []string {
	var out []string
	for k := range m {
		out = append(out, k)
	}
	sort.Strings(out)
	return out
}

func retPos(ret *ssa.Return, b *ssa.BasicBlock) token.Pos {
	if ret.Pos().IsValid() {
		return ret.Pos()
	}
	for i := len(b.Instrs) - 1; i >= 0; i-- {
		if p := b.Instrs[i].Pos(); p.IsValid() {
			return p
		}
	}
	return b.Parent().Pos()
}

// blockDesc identifies a return block without line numbers: its ordinal among
// the function's return blocks plus the block comment.
func blockDesc(b *ssa.BasicBlock) string {
	n := 0
	for _, x := range b.Parent().Blocks {
		if _, ok := x.Instrs[len(x.Instrs)-1].(*ssa.Return); ok {
			n++
			if x == b {
				break
			}
		}
	}
	return fmt.Sprintf("%d(%s)", n, b.Comment)
}

// pathTo renders one entry-to-block path (via the dominator tree).
func pathTo(c *Ctx, b *ssa.BasicBlock) []string {
	var chain []*ssa.BasicBlock
	for x := b; x != nil; x = x.Idom() {
		chain = append(chain, x)
	}
	var out []string
	for i := len(chain) - 1; i >= 0; i-- {
		x := chain[i]
		p := token.NoPos
		for _, ins := range x.Instrs {
			if ins.Pos().IsValid() {
				p = ins.Pos()
				break
			}
		}
		out = append(out, fmt.Sprintf("block %d (%s) %s", x.Index, x.Comment, c.pos(p)))
	}
	return out
}

var _ = types.Universe
