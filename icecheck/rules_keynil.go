package main

import (
	"fmt"
	"go/token"
	"go/types"

	"golang.org/x/tools/go/ssa"
)

// KEY-NIL-AMBIGUOUS.  A vellum iterator hands out the current key as a byte
// slice that is nil both when the iterator is exhausted and when the key is the
// empty term (a valid term).  Code that keeps such keys (the merge enumerator's
// per-iterator keys and its current low key) may therefore use `k == nil` only
// together with a second discriminator (`k == nil && v == 0`, `lowK == nil &&
// len(lowIdxs) == 0`); a bare nil test - alone, or as one side of an `||` -
// takes a segment whose smallest term is the empty term for one that has
// nothing, and its terms are lost or mis-ordered.

type keyField struct {
	owner *types.Named
	field *types.Var
}

func isByteSliceType(t types.Type) bool { return isByteSlice(t) }

// vellumKeys: the values that carry a key handed out by an iterator's Current().
func vellumKeys(c *Ctx) (map[ssa.Value]bool, map[keyField]bool) {
	K := map[ssa.Value]bool{}
	KF := map[keyField]bool{}
	isCurrent := func(call *ssa.Call) bool {
		if !call.Call.IsInvoke() || call.Call.Method.Name() != "Current" {
			return false
		}
		sig, ok := call.Call.Method.Type().(*types.Signature)
		if !ok || sig.Results().Len() != 2 || !isByteSliceType(sig.Results().At(0).Type()) {
			return false
		}
		n := namedOf(call.Call.Value.Type())
		return n != nil && n.Obj().Name() == "Iterator"
	}
	fieldOfAddr := func(a ssa.Value) (keyField, bool) {
		switch x := a.(type) {
		case *ssa.FieldAddr:
			o, f := fieldAddrInfo(x)
			if f != nil {
				return keyField{o, f}, true
			}
		case *ssa.IndexAddr:
			// an element of a slice/array that is itself a field (m.currKs[i]) or an element's field (m.cursors[i].k is a FieldAddr of an IndexAddr: handled above)
			if ld, ok := x.X.(*ssa.UnOp); ok && ld.Op == token.MUL {
				if fa, ok := ld.X.(*ssa.FieldAddr); ok {
					o, f := fieldAddrInfo(fa)
					if f != nil {
						return keyField{o, f}, true
					}
				}
			}
		}
		return keyField{}, false
	}
	for pass := 0; pass < 4; pass++ {
		changed := false
		mark := func(v ssa.Value) {
			if !K[v] {
				K[v] = true
				changed = true
			}
		}
		for _, fn := range c.srcFns {
			for _, b := range fn.Blocks {
				for _, ins := range b.Instrs {
					switch x := ins.(type) {
					case *ssa.Extract:
						if call, ok := x.Tuple.(*ssa.Call); ok && x.Index == 0 && isCurrent(call) {
							mark(x)
						}
					case *ssa.Store:
						if K[x.Val] {
							if kf, ok := fieldOfAddr(x.Addr); ok && !KF[kf] {
								KF[kf] = true
								changed = true
							}
						}
					case *ssa.UnOp:
						if x.Op == token.MUL && isByteSliceType(x.Type()) {
							if kf, ok := fieldOfAddr(x.X); ok && KF[kf] {
								mark(x)
							}
						}
					case *ssa.Phi:
						if isByteSliceType(x.Type()) {
							for _, e := range x.Edges {
								if K[e] {
									mark(x)
								}
							}
						}
					}
				}
			}
		}
		if !changed {
			break
		}
	}
	return K, KF
}

// conjoinedNilTest: the nil test that ends block tb is one side of an `&&`
// (for `== nil`; of an `||` for `!= nil`) with another condition.
func conjoinedNilTest(tb *ssa.BasicBlock, op token.Token) bool {
	ifi := tb.Instrs[len(tb.Instrs)-1].(*ssa.If)
	_ = ifi
	hit, other := tb.Succs[0], tb.Succs[1] // for ==: the edge on which the key is nil, and the other one
	if op == token.NEQ {
		hit, other = tb.Succs[1], tb.Succs[0]
	}
	// first operand: the nil edge leads to a block that only evaluates the second condition
	if len(hit.Preds) == 1 {
		switch last := hit.Instrs[len(hit.Instrs)-1].(type) {
		case *ssa.If:
			o2 := hit.Succs[1]
			if op == token.NEQ {
				o2 = hit.Succs[0]
			}
			if o2 == other {
				return true
			}
		case *ssa.Jump:
			_ = last
			// value form: `return k == nil && v == 0` - the join carries a phi of bools
			if hit.Succs[0] == other && len(other.Instrs) > 0 {
				if phi, ok := other.Instrs[0].(*ssa.Phi); ok && isBoolType(phi.Type()) {
					return true
				}
			}
		}
	}
	// second operand: reached only over the edge of another test, which shares the other target
	if len(tb.Preds) == 1 {
		p := tb.Preds[0]
		if pi, ok := p.Instrs[len(p.Instrs)-1].(*ssa.If); ok {
			_ = pi
			pIn, pOther := p.Succs[0], p.Succs[1]
			if op == token.NEQ {
				pIn, pOther = p.Succs[1], p.Succs[0]
			}
			if pIn == tb && pOther == other {
				return true
			}
		}
	}
	return false
}

func init() {
	register(&Rule{
		Name:   "KEY-NIL-AMBIGUOUS",
		ZeroOK: true, // an enumerator that keeps a validity flag instead has no instance; the control keeps the matcher alive
		Doc:    "a key handed out by an iterator's Current() - kept in a field, a slice element or a local - is nil for the empty term as well as for an exhausted iterator: every test of such a key against nil is one side of a conjunction with a second discriminator (`k == nil && v == 0`, `lowK == nil && len(lowIdxs) == 0`; dually `k != nil || …`); a bare nil test, or one that is a side of an `||`, takes the empty term for \"no key\"",
		Run: func(c *Ctx, scope string, r *Report) {
			K, _ := vellumKeys(c)
			for _, fn := range c.srcFns {
				n := 0
				for _, b := range fn.Blocks {
					for _, ins := range b.Instrs {
						bin, ok := ins.(*ssa.BinOp)
						if !ok || (bin.Op != token.EQL && bin.Op != token.NEQ) {
							continue
						}
						x, y := bin.X, bin.Y
						if isNilConst(x) {
							x, y = y, x
						}
						if !isNilConst(y) || !K[x] {
							continue
						}
						n++
						key := fmt.Sprintf("%s/nil-test-%d", fnName(fn), n)
						conj, seen := true, false
						if refs := bin.Referrers(); refs != nil {
							for _, ref := range *refs {
								switch u := ref.(type) {
								case *ssa.If:
									seen = true
									if !conjoinedNilTest(u.Block(), bin.Op) {
										conj = false
									}
								case *ssa.Phi:
									// value form of a condition: the other edges say which connective it is
									seen = true
									for _, e := range u.Edges {
										if e == ssa.Value(bin) {
											continue
										}
										k, isK := e.(*ssa.Const)
										if !isK || k.Value == nil {
											continue
										}
										isTrue := k.Value.String() == "true"
										if (bin.Op == token.EQL) == isTrue {
											conj = false // `… || k == nil` (or `… && k != nil`)
										}
									}
									hasConst := false
									for _, e := range u.Edges {
										if _, isK := e.(*ssa.Const); isK {
											hasConst = true
										}
									}
									if !hasConst {
										conj = false
									}
								case *ssa.DebugRef:
								default:
									seen = true
									conj = false
								}
							}
						}
						if !seen {
							continue
						}
						if conj {
							r.ok(key, fnName(fn), c.pos(bin.Pos()), "the nil test of the key stands in a conjunction with a second discriminator")
						} else {
							r.bad(key, fnName(fn), c.pos(bin.Pos()), "a key that comes from an iterator's Current() is tested against nil on its own (or as one side of an `||`): the empty term is a nil key too, so a segment whose current term is the empty term is taken for one that has no key")
						}
					}
				}
			}
		},
	})
}
