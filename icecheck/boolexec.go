package main

// E9 — boolean abstract execution.
//
// A function's CFG is executed over a finite abstraction: a small set of
// named boolean atoms (recognised SSA conditions such as `fieldsSame`,
// `dropsI == nil`, `card == 0`) takes each of its 2^k truth assignments; every
// other condition is unknown and both of its branches are followed.  Boolean
// phis (the result of && / || assigned to a local) are tracked concretely per
// path.  The result is, for a target instruction, the set of assignments under
// which it is reachable — which a rule then checks against the required guard
// formula by truth table.  This makes guard rules independent of how the
// condition is spelled (nested ifs, short-circuit operators, a hoisted boolean
// local, early returns).

import (
	"fmt"
	"go/constant"
	"go/token"
	"sort"

	"golang.org/x/tools/go/ssa"
)

type tri int8

const (
	triUnknown tri = iota
	triFalse
	triTrue
)

func triNot(t tri) tri {
	switch t {
	case triTrue:
		return triFalse
	case triFalse:
		return triTrue
	}
	return triUnknown
}

// atomFn recognises an atom in an SSA value: returns (atom index, negated, ok).
type atomFn func(v ssa.Value) (int, bool, bool)

type boolExec struct {
	fn    *ssa.Function
	atoms atomFn
	n     int
	// inline: evaluate calls of small in-package bool predicates under the same
	// atom assignment (a guard extracted into a helper such as c.exhausted(skip))
	inline bool
}

// predicateUnder evaluates a small bool function under an atom assignment:
// triTrue / triFalse when every path returns that value, else unknown.  Bool
// parameters are bound to the values the caller passes.
func predicateUnder(fn *ssa.Function, atoms atomFn, asg uint, bind map[*ssa.Parameter]tri, depth int) tri {
	if fn == nil || fn.Blocks == nil || len(fn.Blocks) > 16 || depth > 2 {
		return triUnknown
	}
	var eval func(v ssa.Value, path []*ssa.BasicBlock) tri
	eval = func(v ssa.Value, path []*ssa.BasicBlock) tri {
		if p, ok := v.(*ssa.Parameter); ok {
			if t, ok := bind[p]; ok {
				return t
			}
		}
		if i, neg, ok := atoms(v); ok {
			t := triFalse
			if asg&(1<<uint(i)) != 0 {
				t = triTrue
			}
			if neg {
				return triNot(t)
			}
			return t
		}
		switch x := v.(type) {
		case *ssa.Call:
			// a predicate that calls another one (isEmptyList -> is1Hit)
			if sc := x.Call.StaticCallee(); sc != nil && sc.Pkg == fn.Pkg && sc.Blocks != nil && sc != fn && sc.Signature.Results().Len() == 1 && isBoolType(sc.Signature.Results().At(0).Type()) {
				inner := map[*ssa.Parameter]tri{}
				for i, p := range sc.Params {
					if i < len(x.Call.Args) && isBoolType(p.Type()) {
						inner[p] = eval(x.Call.Args[i], path)
					}
				}
				return predicateUnder(sc, atoms, asg, inner, depth+1)
			}
		case *ssa.Const:
			if x.Value != nil && x.Value.Kind() == constant.Bool {
				if constant.BoolVal(x.Value) {
					return triTrue
				}
				return triFalse
			}
		case *ssa.UnOp:
			if x.Op == token.NOT {
				return triNot(eval(x.X, path))
			}
		case *ssa.Phi:
			for i := len(path) - 1; i > 0; i-- {
				if path[i] == x.Block() {
					for k, pr := range x.Block().Preds {
						if pr == path[i-1] {
							return eval(x.Edges[k], path[:i])
						}
					}
				}
			}
		}
		return triUnknown
	}
	sawTrue, sawFalse, sawUnknown := false, false, false
	var walk func(b *ssa.BasicBlock, path []*ssa.BasicBlock)
	walk = func(b *ssa.BasicBlock, path []*ssa.BasicBlock) {
		if len(path) > 32 {
			sawUnknown = true
			return
		}
		path = append(path, b)
		switch last := b.Instrs[len(b.Instrs)-1].(type) {
		case *ssa.Return:
			if len(last.Results) != 1 {
				sawUnknown = true
				return
			}
			switch eval(last.Results[0], path) {
			case triTrue:
				sawTrue = true
			case triFalse:
				sawFalse = true
			default:
				sawUnknown = true
			}
		case *ssa.If:
			switch eval(last.Cond, path) {
			case triTrue:
				walk(b.Succs[0], path)
			case triFalse:
				walk(b.Succs[1], path)
			default:
				walk(b.Succs[0], path)
				walk(b.Succs[1], path)
			}
		default:
			for _, s := range b.Succs {
				walk(s, path)
			}
		}
	}
	walk(fn.Blocks[0], nil)
	switch {
	case sawUnknown || (sawTrue && sawFalse):
		return triUnknown
	case sawTrue:
		return triTrue
	case sawFalse:
		return triFalse
	}
	return triUnknown
}

type beState struct {
	b   *ssa.BasicBlock
	env string // canonical encoding of boolean phi values
}

func (x *boolExec) eval(v ssa.Value, asg uint, env map[*ssa.Phi]tri) tri {
	if i, neg, ok := x.atoms(v); ok {
		t := triFalse
		if asg&(1<<uint(i)) != 0 {
			t = triTrue
		}
		if neg {
			return triNot(t)
		}
		return t
	}
	switch y := v.(type) {
	case *ssa.Call:
		if x.inline {
			if sc := y.Call.StaticCallee(); sc != nil && sc.Pkg == x.fn.Pkg && sc.Blocks != nil && sc.Signature.Results().Len() == 1 && isBoolType(sc.Signature.Results().At(0).Type()) {
				bind := map[*ssa.Parameter]tri{}
				for i, p := range sc.Params {
					if i < len(y.Call.Args) && isBoolType(p.Type()) {
						bind[p] = x.eval(y.Call.Args[i], asg, env)
					}
				}
				return predicateUnder(sc, x.atoms, asg, bind, 0)
			}
		}
	case *ssa.Const:
		if y.Value != nil && y.Value.Kind() == constant.Bool {
			if constant.BoolVal(y.Value) {
				return triTrue
			}
			return triFalse
		}
	case *ssa.UnOp:
		if y.Op == token.NOT {
			return triNot(x.eval(y.X, asg, env))
		}
	case *ssa.Phi:
		if t, ok := env[y]; ok {
			return t
		}
	case *ssa.BinOp:
		if isBoolType(y.X.Type()) && (y.Op == token.EQL || y.Op == token.NEQ) {
			a, b := x.eval(y.X, asg, env), x.eval(y.Y, asg, env)
			if a == triUnknown || b == triUnknown {
				return triUnknown
			}
			eq := a == b
			if y.Op == token.NEQ {
				eq = !eq
			}
			if eq {
				return triTrue
			}
			return triFalse
		}
	}
	return triUnknown
}

func isBoolType(t interface{ String() string }) bool { return t.String() == "bool" }

func envKey(env map[*ssa.Phi]tri) string {
	var ks []string
	for p, t := range env {
		ks = append(ks, fmt.Sprintf("%s=%d", p.Name(), t))
	}
	sort.Strings(ks)
	return fmt.Sprint(ks)
}

// reachableUnder returns, for each assignment (bitmask over n atoms), whether
// the target block is reachable from the entry.
func (x *boolExec) reachableUnder(target *ssa.BasicBlock) []bool {
	out := make([]bool, 1<<uint(x.n))
	for asg := uint(0); asg < 1<<uint(x.n); asg++ {
		seen := map[beState]bool{}
		type item struct {
			b    *ssa.BasicBlock
			pred *ssa.BasicBlock
			env  map[*ssa.Phi]tri
		}
		work := []item{{b: x.fn.Blocks[0], env: map[*ssa.Phi]tri{}}}
		for len(work) > 0 && !out[asg] {
			it := work[len(work)-1]
			work = work[:len(work)-1]
			// bind boolean phis on entry
			env := it.env
			if it.pred != nil {
				newEnv := map[*ssa.Phi]tri{}
				for k, v := range env {
					newEnv[k] = v
				}
				for _, ins := range it.b.Instrs {
					phi, ok := ins.(*ssa.Phi)
					if !ok {
						break
					}
					if !isBoolType(phi.Type()) {
						continue
					}
					for i, p := range it.b.Preds {
						if p == it.pred {
							newEnv[phi] = x.eval(phi.Edges[i], asg, env)
						}
					}
				}
				env = newEnv
			}
			st := beState{it.b, envKey(env)}
			if seen[st] {
				continue
			}
			seen[st] = true
			if it.b == target {
				out[asg] = true
				break
			}
			last := it.b.Instrs[len(it.b.Instrs)-1]
			if ifi, ok := last.(*ssa.If); ok {
				switch x.eval(ifi.Cond, asg, env) {
				case triTrue:
					work = append(work, item{it.b.Succs[0], it.b, env})
				case triFalse:
					work = append(work, item{it.b.Succs[1], it.b, env})
				default:
					work = append(work, item{it.b.Succs[0], it.b, env}, item{it.b.Succs[1], it.b, env})
				}
				continue
			}
			for _, s := range it.b.Succs {
				work = append(work, item{s, it.b, env})
			}
		}
	}
	return out
}

// pathAvoiding: under assignment asg, is there a path from block start to
// block target that never enters a block of avoid?  (must-pass-through under
// a boolean abstraction: "no" means every path passes avoid.)
func (x *boolExec) pathAvoiding(start, target *ssa.BasicBlock, avoid map[*ssa.BasicBlock]bool, asg uint) bool {
	seen := map[beState]bool{}
	type item struct {
		b, pred *ssa.BasicBlock
		env     map[*ssa.Phi]tri
	}
	work := []item{{b: start, env: map[*ssa.Phi]tri{}}}
	for len(work) > 0 {
		it := work[len(work)-1]
		work = work[:len(work)-1]
		env := it.env
		if it.pred != nil {
			newEnv := map[*ssa.Phi]tri{}
			for k, v := range env {
				newEnv[k] = v
			}
			for _, ins := range it.b.Instrs {
				phi, ok := ins.(*ssa.Phi)
				if !ok {
					break
				}
				if !isBoolType(phi.Type()) {
					continue
				}
				for i, p := range it.b.Preds {
					if p == it.pred {
						newEnv[phi] = x.eval(phi.Edges[i], asg, env)
					}
				}
			}
			env = newEnv
		}
		st := beState{it.b, envKey(env)}
		if seen[st] {
			continue
		}
		seen[st] = true
		if it.b == target {
			return true
		}
		if avoid[it.b] && it.b != start {
			continue
		}
		last := it.b.Instrs[len(it.b.Instrs)-1]
		if ifi, ok := last.(*ssa.If); ok {
			switch x.eval(ifi.Cond, asg, env) {
			case triTrue:
				work = append(work, item{it.b.Succs[0], it.b, env})
			case triFalse:
				work = append(work, item{it.b.Succs[1], it.b, env})
			default:
				work = append(work, item{it.b.Succs[0], it.b, env}, item{it.b.Succs[1], it.b, env})
			}
			continue
		}
		for _, s := range it.b.Succs {
			work = append(work, item{s, it.b, env})
		}
	}
	return false
}

// impliedAt: is `formula` (a predicate over assignments) true for every
// assignment under which block is reachable?  Returns a counterexample
// assignment otherwise.
func (x *boolExec) impliedAt(block *ssa.BasicBlock, formula func(asg uint) bool) (bool, uint, int) {
	reach := x.reachableUnder(block)
	n := 0
	for asg, r := range reach {
		if !r {
			continue
		}
		n++
		if !formula(uint(asg)) {
			return false, uint(asg), n
		}
	}
	return true, 0, n
}

func describeAsg(names []string, asg uint) string {
	s := ""
	for i, n := range names {
		v := "false"
		if asg&(1<<uint(i)) != 0 {
			v = "true"
		}
		if i > 0 {
			s += ", "
		}
		s += n + "=" + v
	}
	return s
}

// cmpZeroAtom: v is (X == 0) / (X != 0) / (X > 0) / (X <= 0) for unsigned or
// length-like X, with X recognised by isX; returns negated=true when the
// comparison means "X is non-zero".
func cmpZeroAtom(v ssa.Value, isX func(ssa.Value) bool) (neg bool, ok bool) {
	bin, isBin := v.(*ssa.BinOp)
	if !isBin {
		return false, false
	}
	k, isK := constInt(bin.Y)
	if !isK || k != 0 || !isX(bin.X) {
		return false, false
	}
	switch bin.Op {
	case token.EQL, token.LEQ:
		return false, true
	case token.NEQ, token.GTR:
		return true, true
	}
	return false, false
}

// cmpNilAtom: v is (X == nil) / (X != nil).
func cmpNilAtom(v ssa.Value, isX func(ssa.Value) bool) (neg bool, ok bool) {
	bin, isBin := v.(*ssa.BinOp)
	if !isBin || (bin.Op != token.EQL && bin.Op != token.NEQ) {
		return false, false
	}
	var other ssa.Value
	switch {
	case isNilConst(bin.Y):
		other = bin.X
	case isNilConst(bin.X):
		other = bin.Y
	default:
		return false, false
	}
	if !isX(other) {
		return false, false
	}
	return bin.Op == token.NEQ, true
}
