package main

import (
	"go/token"

	"golang.org/x/tools/go/ssa"
)

func init() {
	register(&Rule{
		Name:   "SEARCH-HIT",
		Floor:  0,
		ZeroOK: true,
		Doc:    "the index returned by sort.Search is only \"the first entry whose key is not smaller\": wherever it is used as the position OF the searched key - to index the searched table (or a neighbour entry), or handed to a function - that use is governed by the test that the entry at that index has exactly the searched key (besides being inside the table); otherwise a key that is absent is answered with the data of the next larger key",
		Run: func(c *Ctx, scope string, r *Report) {
			for _, fn := range c.srcFns {
				for _, b := range fn.Blocks {
					for _, ins := range b.Instrs {
						call, ok := ins.(*ssa.Call)
						if !ok {
							continue
						}
						if sc := call.Call.StaticCallee(); sc == nil || funcFullName(sc) != "sort.Search" {
							continue
						}
						key := fnName(fn) + "/sort.Search"
						// values derived from the index: i, i-1, i+1, conversions
						derived := map[ssa.Value]bool{call: true}
						for changed := true; changed; {
							changed = false
							for v := range derived {
								if v.Referrers() == nil {
									continue
								}
								for _, ref := range *v.Referrers() {
									switch x := ref.(type) {
									case *ssa.BinOp:
										if (x.Op == token.ADD || x.Op == token.SUB) && !derived[x] {
											derived[x] = true
											changed = true
										}
									case *ssa.Convert:
										if !derived[x] {
											derived[x] = true
											changed = true
										}
									case *ssa.Phi:
										if !derived[x] {
											derived[x] = true
											changed = true
										}
									}
								}
							}
						}
						// hit edges: blocks entered exactly when table[i].key == target
						var hits []*ssa.BasicBlock
						guardReads := map[ssa.Instruction]bool{}
						for _, hb := range fn.Blocks {
							ifi, ok := hb.Instrs[len(hb.Instrs)-1].(*ssa.If)
							if !ok {
								continue
							}
							bin, ok := ifi.Cond.(*ssa.BinOp)
							if !ok || (bin.Op != token.EQL && bin.Op != token.NEQ) {
								continue
							}
							var ia *ssa.IndexAddr
							for _, side := range []ssa.Value{bin.X, bin.Y} {
								if e := elemAt(side, call); e != nil {
									ia = e
								}
							}
							if ia == nil {
								continue
							}
							guardReads[ia] = true
							edge := hb.Succs[0]
							if bin.Op == token.NEQ {
								edge = hb.Succs[1]
							}
							if len(edge.Preds) == 1 {
								hits = append(hits, edge)
							}
						}
						governed := func(b *ssa.BasicBlock) bool {
							for _, h := range hits {
								if h == b || h.Dominates(b) {
									return true
								}
							}
							return false
						}
						bad := ""
						n := 0
						for v := range derived {
							if v.Referrers() == nil {
								continue
							}
							for _, ref := range *v.Referrers() {
								switch x := ref.(type) {
								case *ssa.IndexAddr:
									if x.Index != v || guardReads[x] {
										continue
									}
									n++
									if !governed(x.Block()) {
										bad = "the search result indexes " + exprSig(x.X, 0) + " at " + c.pos(x.Pos()) + " without the test that the entry found has the searched key"
									}
								case ssa.CallInstruction:
									if x == ssa.CallInstruction(call) {
										continue
									}
									if _, isB := x.Common().Value.(*ssa.Builtin); isB {
										continue
									}
									n++
									if !governed(x.Block()) {
										bad = "the search result is handed to " + calleeFullName(x.Common()) + " at " + c.pos(x.Pos()) + " without the test that the entry found has the searched key"
									}
								case *ssa.Return:
									n++
									if !governed(x.Block()) {
										bad = "the search result is returned at " + c.pos(x.Pos()) + " without the test that the entry found has the searched key"
									}
								}
							}
						}
						switch {
						case bad != "":
							r.bad(key, fnName(fn), c.pos(call.Pos()), bad+": a key that is absent gets the data of the next larger key")
						default:
							r.ok(key, fnName(fn), c.pos(call.Pos()), "every use of the search result as the position of the key is governed by the equality test on that entry")
						}
						_ = n
					}
				}
			}
		},
	})
}

// elemAt: v is (a field of) the table entry at the index idx - a load of
// &table[idx] or of &table[idx].field: that IndexAddr.
func elemAt(v ssa.Value, idx ssa.Value) *ssa.IndexAddr {
	ld, ok := stripConv(v).(*ssa.UnOp)
	if !ok || ld.Op != token.MUL {
		return nil
	}
	addr := ld.X
	if fa, ok := addr.(*ssa.FieldAddr); ok {
		addr = fa.X
	}
	ia, ok := addr.(*ssa.IndexAddr)
	if !ok || ia.Index != idx {
		return nil
	}
	return ia
}

func init() {
	register(&Rule{
		Name:   "CHUNK-START-INCLUSIVE",
		Floor:  0,
		ZeroOK: true,
		Doc:    "a chunk of the integer streams covers the document numbers [k*chunkSize, (k+1)*chunkSize): wherever a document number is compared with the first number of a chunk (a product of a chunk index and the chunk size), the comparison includes that first number on the chunk's side - `doc >= start` / `doc < start`, never `doc > start` / `doc <= start` - otherwise the entry of the posting that opens a chunk is attributed to the wrong side",
		Run: func(c *Ctx, scope string, r *Report) {
			isChunkStart := func(v ssa.Value) bool {
				bin, ok := stripConv(v).(*ssa.BinOp)
				if !ok || bin.Op != token.MUL {
					return false
				}
				sx, sy := exprSig(bin.X, 0), exprSig(bin.Y, 0)
				return (sx == ".chunkSize") != (sy == ".chunkSize")
			}
			for _, fn := range c.srcFns {
				for _, b := range fn.Blocks {
					for _, ins := range b.Instrs {
						bin, ok := ins.(*ssa.BinOp)
						if !ok {
							continue
						}
						var strict bool
						switch {
						case isChunkStart(bin.Y) && !isChunkStart(bin.X):
							switch bin.Op {
							case token.GEQ, token.LSS:
							case token.GTR, token.LEQ:
								strict = true
							default:
								continue
							}
						case isChunkStart(bin.X) && !isChunkStart(bin.Y):
							switch bin.Op {
							case token.LEQ, token.GTR:
							case token.LSS, token.GEQ:
								strict = true
							default:
								continue
							}
						default:
							continue
						}
						key := fnName(fn) + "/chunk-start-compare"
						if strict {
							r.bad(key, fnName(fn), c.pos(bin.Pos()), "a document number is compared with the first number of a chunk by "+bin.Op.String()+", which puts the posting that opens the chunk on the wrong side: its freq/norm/location entry is not skipped (or skipped twice), and the following postings of the chunk are decoded out of step")
						} else {
							r.ok(key, fnName(fn), c.pos(bin.Pos()), "the chunk's first document number counts as inside the chunk")
						}
					}
				}
			}
		},
	})
}
