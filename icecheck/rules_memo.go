package main

import (
	"go/ast"
	"go/token"
	"go/types"
	"golang.org/x/tools/go/ssa"
	"strings"
)

// memoSite: `if K != L [|| more] { ... load(K) ... }` - a value that depends on
// a key is (re)loaded only when the key differs from the remembered one.
type memoSite struct {
	fn       *ast.FuncDecl
	ifs      *ast.IfStmt
	key      ast.Expr // K: the key of this round
	last     ast.Expr // L: the remembered key
	load     *ast.CallExpr
	val      ast.Expr   // V: where the loaded value is kept (nil: inside the object that holds L)
	others   []ast.Expr // the other disjuncts of the test
	loopVars []*types.Var
}

func unparen(e ast.Expr) ast.Expr {
	for {
		p, ok := e.(*ast.ParenExpr)
		if !ok {
			return e
		}
		e = p.X
	}
}

func splitOr(e ast.Expr) []ast.Expr {
	e = unparen(e)
	if b, ok := e.(*ast.BinaryExpr); ok && b.Op == token.LOR {
		return append(splitOr(b.X), splitOr(b.Y)...)
	}
	return []ast.Expr{e}
}

// orGroups: the ||-chains of a condition, looking through &&.
func orGroups(e ast.Expr) [][]ast.Expr {
	e = unparen(e)
	if b, ok := e.(*ast.BinaryExpr); ok && b.Op == token.LAND {
		return append(orGroups(b.X), orGroups(b.Y)...)
	}
	return [][]ast.Expr{splitOr(e)}
}

// rootIdent: x of x, x.f, x.f.g, x.m(), x[i].
func rootIdent(e ast.Expr) *ast.Ident {
	for {
		switch x := unparen(e).(type) {
		case *ast.Ident:
			return x
		case *ast.SelectorExpr:
			e = x.X
		case *ast.CallExpr:
			e = x.Fun
		case *ast.IndexExpr:
			e = x.X
		case *ast.StarExpr:
			e = x.X
		case *ast.UnaryExpr:
			e = x.X
		default:
			return nil
		}
	}
}

func mentionsExpr(n ast.Node, want string) bool {
	found := false
	ast.Inspect(n, func(m ast.Node) bool {
		if found || m == nil {
			return false
		}
		if e, ok := m.(ast.Expr); ok && types.ExprString(e) == want {
			found = true
		}
		return !found
	})
	return found
}

func (c *Ctx) mentionsObj(n ast.Node, obj types.Object) bool {
	found := false
	ast.Inspect(n, func(m ast.Node) bool {
		if id, ok := m.(*ast.Ident); ok && (c.Info.Uses[id] == obj || c.Info.Defs[id] == obj) {
			found = true
		}
		return !found
	})
	return found
}

// differTest: the two operands of `a != b`, `!eq(a, b)`.
func differTest(e ast.Expr) (a, b ast.Expr, ok bool) {
	switch x := unparen(e).(type) {
	case *ast.BinaryExpr:
		if x.Op == token.NEQ {
			return x.X, x.Y, true
		}
	case *ast.UnaryExpr:
		if call, isCall := unparen(x.X).(*ast.CallExpr); x.Op == token.NOT && isCall && len(call.Args) == 2 {
			name := ""
			switch f := call.Fun.(type) {
			case *ast.SelectorExpr:
				name = f.Sel.Name
			case *ast.Ident:
				name = f.Name
			}
			if strings.Contains(strings.ToLower(name), "equal") {
				return call.Args[0], call.Args[1], true
			}
		}
	}
	return nil, nil, false
}

// keyNames: the spellings under which the key of this round appears: the
// expression itself and, for a local defined once from an expression, that
// expression.
func (c *Ctx) keyNames(fd *ast.FuncDecl, k ast.Expr) []string {
	out := []string{types.ExprString(k)}
	id, ok := unparen(k).(*ast.Ident)
	if !ok {
		return out
	}
	obj := c.Info.Uses[id]
	if obj == nil {
		return out
	}
	n := 0
	var rhs ast.Expr
	ast.Inspect(fd.Body, func(m ast.Node) bool {
		as, ok := m.(*ast.AssignStmt)
		if !ok || len(as.Lhs) != len(as.Rhs) {
			return true
		}
		for i, l := range as.Lhs {
			if lid, ok := l.(*ast.Ident); ok && (c.Info.Defs[lid] == obj || c.Info.Uses[lid] == obj) {
				n++
				rhs = as.Rhs[i]
			}
		}
		return true
	})
	if n == 1 && rhs != nil {
		out = append(out, types.ExprString(rhs))
	}
	return out
}

func (c *Ctx) memoSites() []*memoSite {
	var out []*memoSite
	for _, file := range c.Root.Syntax {
		for _, d := range file.Decls {
			fd, ok := d.(*ast.FuncDecl)
			if !ok || fd.Body == nil {
				continue
			}
			var loops []ast.Stmt
			var visit func(n ast.Node) bool
			visit = func(n ast.Node) bool {
				switch x := n.(type) {
				case *ast.ForStmt:
					loops = append(loops, x)
					ast.Inspect(x.Body, visit)
					loops = loops[:len(loops)-1]
					return false
				case *ast.RangeStmt:
					loops = append(loops, x)
					ast.Inspect(x.Body, visit)
					loops = loops[:len(loops)-1]
					return false
				case *ast.IfStmt:
					if x.Else != nil {
						return true
					}
					for _, group := range orGroups(x.Cond) {
						for gi, d := range group {
							a, b, ok := differTest(d)
							if !ok {
								continue
							}
							for _, kl := range [][2]ast.Expr{{a, b}, {b, a}} {
								if s := c.memoAt(fd, x, kl[0], kl[1]); s != nil {
									for gj, o := range group {
										if gj != gi {
											s.others = append(s.others, o)
										}
									}
									for _, l := range loops {
										switch lp := l.(type) {
										case *ast.RangeStmt:
											if id, ok := lp.Key.(*ast.Ident); ok && lp.Tok == token.DEFINE {
												if v, ok := c.Info.Defs[id].(*types.Var); ok {
													s.loopVars = append(s.loopVars, v)
												}
											}
										case *ast.ForStmt:
											if as, ok := lp.Init.(*ast.AssignStmt); ok && as.Tok == token.DEFINE {
												for _, l := range as.Lhs {
													if id, ok := l.(*ast.Ident); ok {
														if v, ok := c.Info.Defs[id].(*types.Var); ok {
															s.loopVars = append(s.loopVars, v)
														}
													}
												}
											}
										}
									}
									out = append(out, s)
									break
								}
							}
						}
					}
				}
				return true
			}
			ast.Inspect(fd.Body, visit)
		}
	}
	return out
}

// memoAt decides whether `if K != L { body }` is a keyed reload: the body calls
// something with K, and the result is either assigned to a variable other than
// L, or the call is a method of the object that holds L (which then records K
// itself).
func (c *Ctx) memoAt(fd *ast.FuncDecl, ifs *ast.IfStmt, k, l ast.Expr) *memoSite {
	lroot := rootIdent(l)
	if lroot == nil {
		return nil
	}
	switch unparen(l).(type) {
	case *ast.Ident, *ast.SelectorExpr, *ast.CallExpr:
	default:
		return nil
	}
	if _, isLit := unparen(k).(*ast.BasicLit); isLit {
		return nil
	}
	if id, ok := unparen(k).(*ast.Ident); ok {
		if _, isConst := c.Info.Uses[id].(*types.Const); isConst || id.Name == "nil" {
			return nil
		}
	}
	if id, ok := unparen(l).(*ast.Ident); ok {
		if _, isVar := c.Info.Uses[id].(*types.Var); !isVar {
			return nil
		}
	}
	knames := c.keyNames(fd, k)
	lstr := types.ExprString(l)
	withKey := func(call *ast.CallExpr) bool {
		for _, a := range call.Args {
			for _, kn := range knames {
				if mentionsExpr(a, kn) {
					return true
				}
			}
		}
		return false
	}
	var site *memoSite
	for _, st := range ifs.Body.List {
		if site != nil {
			break
		}
		var call *ast.CallExpr
		var lhs []ast.Expr
		switch s := st.(type) {
		case *ast.AssignStmt:
			if len(s.Rhs) == 1 {
				call, _ = unparen(s.Rhs[0]).(*ast.CallExpr)
				lhs = s.Lhs
			}
		case *ast.ExprStmt:
			call, _ = unparen(s.X).(*ast.CallExpr)
		case *ast.IfStmt:
			if as, ok := s.Init.(*ast.AssignStmt); ok && len(as.Rhs) == 1 {
				call, _ = unparen(as.Rhs[0]).(*ast.CallExpr)
				lhs = as.Lhs
			}
		}
		if call == nil || !withKey(call) {
			continue
		}
		if tv, ok := c.Info.Types[call.Fun]; ok && tv.IsType() {
			continue // a conversion
		}
		// the value kept: a left-hand side that is neither L, nor blank, nor an error
		for _, e := range lhs {
			if id, ok := e.(*ast.Ident); ok && id.Name == "_" {
				continue
			}
			if types.ExprString(e) == lstr {
				continue
			}
			if t := c.Info.TypeOf(e); t != nil && types.Identical(t, types.Universe.Lookup("error").Type()) {
				continue
			}
			site = &memoSite{fn: fd, ifs: ifs, key: k, last: l, load: call, val: e}
			break
		}
		if site == nil {
			// a method of the object that holds L
			if sel, ok := call.Fun.(*ast.SelectorExpr); ok {
				if r := rootIdent(sel.X); r != nil && c.Info.Uses[r] != nil && c.Info.Uses[r] == c.Info.Uses[lroot] && unparen(l) != ast.Expr(lroot) {
					// ... that fetches from the segment data: a load, not the writer's "finish the
					// previous chunk, start the next", which has nothing to do in the first round
					if tf, ok := c.Info.Uses[sel.Sel].(*types.Func); ok {
						if sf := c.Prog.FuncValue(tf); sf != nil && reachesDataRead(c, sf, 0) {
							site = &memoSite{fn: fd, ifs: ifs, key: k, last: l, load: call}
						}
					}
				}
			}
		}
	}
	if site == nil {
		return nil
	}
	if site.val != nil {
		// L is brought up to date from K: in the body, or later in the function
		updated := false
		ast.Inspect(fd.Body, func(m ast.Node) bool {
			as, ok := m.(*ast.AssignStmt)
			if !ok {
				return true
			}
			for i, e := range as.Lhs {
				if types.ExprString(e) != lstr {
					continue
				}
				rhs := as.Rhs[0]
				if len(as.Rhs) == len(as.Lhs) {
					rhs = as.Rhs[i]
				}
				for _, kn := range knames {
					if mentionsExpr(rhs, kn) {
						updated = true
					}
				}
			}
			return true
		})
		if !updated {
			return nil
		}
	}
	return site
}

// zeroInit reports how a local variable starts: "zero" (var x T, or := a zero
// literal), "set" (some other initial value), "" (not a local of this function).
func (c *Ctx) zeroInit(fd *ast.FuncDecl, e ast.Expr) string {
	id, ok := unparen(e).(*ast.Ident)
	if !ok {
		return ""
	}
	obj, _ := c.Info.Uses[id].(*types.Var)
	if obj == nil || obj.IsField() {
		return ""
	}
	res := ""
	isZeroLit := func(x ast.Expr) bool {
		switch v := unparen(x).(type) {
		case *ast.BasicLit:
			return v.Value == `""` || v.Value == "0" || v.Value == "``"
		case *ast.Ident:
			return v.Name == "nil" || v.Name == "false"
		}
		return false
	}
	ast.Inspect(fd, func(m ast.Node) bool {
		switch x := m.(type) {
		case *ast.ValueSpec:
			for i, n := range x.Names {
				if c.Info.Defs[n] == obj {
					if len(x.Values) == 0 || (i < len(x.Values) && isZeroLit(x.Values[i])) {
						res = "zero"
					} else {
						res = "set"
					}
				}
			}
		case *ast.AssignStmt:
			if x.Tok != token.DEFINE {
				return true
			}
			for i, l := range x.Lhs {
				if lid, ok := l.(*ast.Ident); ok && c.Info.Defs[lid] == obj {
					if len(x.Rhs) == len(x.Lhs) && isZeroLit(x.Rhs[i]) {
						res = "zero"
					} else {
						res = "set"
					}
				}
			}
		case *ast.FuncType:
			if x.Results != nil {
				for _, f := range x.Results.List {
					for _, n := range f.Names {
						if c.Info.Defs[n] == obj {
							res = "zero"
						}
					}
				}
			}
			if x.Params != nil {
				for _, f := range x.Params.List {
					for _, n := range f.Names {
						if c.Info.Defs[n] == obj {
							res = "set"
						}
					}
				}
			}
		}
		return true
	})
	return res
}

// fieldOf: the struct field that a remembered key R.f or R.getter() names.
func (c *Ctx) fieldOf(e ast.Expr) *types.Var {
	switch x := unparen(e).(type) {
	case *ast.SelectorExpr:
		if v, ok := c.Info.Uses[x.Sel].(*types.Var); ok && v.IsField() {
			return v
		}
	case *ast.CallExpr:
		sel, ok := x.Fun.(*ast.SelectorExpr)
		if !ok || len(x.Args) != 0 {
			return nil
		}
		fn, _ := c.Info.Uses[sel.Sel].(*types.Func)
		if fn == nil {
			return nil
		}
		decl := c.declOf[fn]
		if decl == nil || decl.Body == nil || len(decl.Body.List) != 1 {
			return nil
		}
		ret, ok := decl.Body.List[0].(*ast.ReturnStmt)
		if !ok || len(ret.Results) != 1 {
			return nil
		}
		return c.fieldOf(ret.Results[0])
	}
	return nil
}

// fieldStartsNonZero: every function that creates an object of the struct that
// owns f (a composite literal) also gives f a constant other than zero - in the
// literal, by an assignment, or through a method of the object that stores a
// non-zero constant (or its parameter, given a non-zero constant) into f: a
// sentinel no key takes.  There is at least one such function.
func (c *Ctx) fieldStartsNonZero(f *types.Var) (bool, string) {
	ownsF := func(t types.Type) bool {
		if p, ok := t.Underlying().(*types.Pointer); ok {
			t = p.Elem()
		}
		var owns func(t types.Type, depth int) bool
		owns = func(t types.Type, depth int) bool {
			st, ok := t.Underlying().(*types.Struct)
			if !ok || depth > 3 {
				return false
			}
			for i := 0; i < st.NumFields(); i++ {
				// directly, or inside a struct held by value
				if st.Field(i) == f || owns(st.Field(i).Type(), depth+1) {
					return true
				}
			}
			return false
		}
		return owns(t, 0)
	}
	nonZeroConst := func(v ssa.Value) bool {
		k, ok := stripConv(v).(*ssa.Const)
		return ok && k.Value != nil && k.Value.String() != "0" && k.Value.String() != `""` && k.Value.String() != "false"
	}
	isF := func(addr ssa.Value) bool {
		fa, ok := addr.(*ssa.FieldAddr)
		if !ok {
			return false
		}
		_, fv := fieldAddrInfo(fa)
		return fv == f
	}
	// storesF: fn stores a non-zero constant into f, directly or through a callee (one level
	// more); a stored parameter counts when the call passes a non-zero constant for it
	var storesF func(fn *ssa.Function, args []ssa.Value, depth int) bool
	storesF = func(fn *ssa.Function, args []ssa.Value, depth int) bool {
		if fn == nil || fn.Blocks == nil {
			return false
		}
		for _, b := range fn.Blocks {
			for _, ins := range b.Instrs {
				switch x := ins.(type) {
				case *ssa.Store:
					if !isF(x.Addr) {
						continue
					}
					if nonZeroConst(x.Val) {
						return true
					}
					for pi, prm := range fn.Params {
						if stripConv(x.Val) == ssa.Value(prm) && args != nil && pi < len(args) && nonZeroConst(args[pi]) {
							return true
						}
					}
				case *ssa.Call:
					if sc := x.Call.StaticCallee(); sc != nil && c.inRoot(sc) && depth < 3 && sc != fn {
						// constants of this frame's parameters are passed on
						cargs := make([]ssa.Value, len(x.Call.Args))
						for i, a := range x.Call.Args {
							cargs[i] = a
							for pi, prm := range fn.Params {
								if stripConv(a) == ssa.Value(prm) && args != nil && pi < len(args) {
									cargs[i] = args[pi]
								}
							}
						}
						if storesF(sc, cargs, depth+1) {
							return true
						}
					}
				}
			}
		}
		return false
	}
	creators, bad := 0, ""
	for _, fn := range c.srcFns {
		creates := token.NoPos
		for _, b := range fn.Blocks {
			for _, ins := range b.Instrs {
				if al, ok := ins.(*ssa.Alloc); ok && ownsF(al.Type()) && (al.Heap || al.Comment == "complit") {
					if _, isStruct := al.Type().Underlying().(*types.Pointer).Elem().Underlying().(*types.Struct); isStruct {
						creates = al.Pos()
					}
				}
			}
		}
		if creates == token.NoPos {
			continue
		}
		creators++
		if !storesF(fn, nil, 0) {
			bad = c.pos(creates)
		}
	}
	return creators > 0 && bad == "", bad
}

func init() {
	register(&Rule{
		Name:   "MEMO-PRIMED",
		ZeroOK: true, // how many keyed reloads exist is a matter of style (a refactoring into runs has none); the controls keep the matcher alive
		Doc:    "a value that depends on a key (the dictionary of a field, the decoded chunk of a chunk number) is reloaded only when the key differs from the remembered one: `if key != last { value = load(key) }`. The first round has nothing remembered, so the test is also true then: a further disjunct names the value, the remembered key, their owner or the loop's first index (`|| value == nil`, `|| i == 0`), or the remembered key starts at a constant no key takes. A remembered key that starts at the zero value of its type with the value unset skips the load for the key that equals that zero value (the field named \"\", chunk 0)",
		Run: func(c *Ctx, scope string, r *Report) {
			for _, s := range c.memoSites() {
				obj := c.Info.Defs[s.fn.Name]
				name := s.fn.Name.Name
				if f, ok := obj.(*types.Func); ok {
					if fn := c.Prog.FuncValue(f); fn != nil {
						name = fnName(fn)
					}
				}
				lroot := rootIdent(s.last)
				key := name + "/memo:" + types.ExprString(s.last)
				pos := c.pos(s.ifs.Pos())
				// a further disjunct that is true when nothing has been loaded
				primed := ""
				for _, o := range s.others {
					hit := false
					if s.val != nil {
						if vr := rootIdent(s.val); vr != nil && c.Info.Uses[vr] != nil && c.mentionsObj(o, c.Info.Uses[vr]) {
							hit = true
						}
					}
					if lroot != nil && c.Info.Uses[lroot] != nil && c.mentionsObj(o, c.Info.Uses[lroot]) {
						hit = true
					}
					for _, lv := range s.loopVars {
						if c.mentionsObj(o, lv) {
							hit = true
						}
					}
					if hit {
						primed = types.ExprString(o)
					}
				}
				if primed != "" {
					r.ok(key, name, pos, "the reload also runs when `"+primed+"` holds: nothing loaded yet is recognised by itself")
					continue
				}
				switch c.zeroInit(s.fn, s.last) {
				case "zero":
					if s.val != nil && c.zeroInit(s.fn, s.val) != "zero" {
						r.ok(key, name, pos, "the remembered key starts at its zero value, and "+types.ExprString(s.val)+" is given a value before the first round")
						continue
					}
					r.bad(key, name, pos, "`"+types.ExprString(s.last)+"` starts at the zero value of its type, which is also a possible key, and nothing else says that nothing has been loaded yet: for a first key equal to that zero value `"+types.ExprString(s.load)+"` is skipped and "+valName(s)+" is used unset")
					continue
				case "set":
					r.ok(key, name, pos, "the remembered key is given a starting value before the first round")
					continue
				}
				if f := c.fieldOf(s.last); f != nil {
					if ok, where := c.fieldStartsNonZero(f); ok {
						r.ok(key, name, pos, "every literal of the owning struct starts "+f.Name()+" at a non-zero constant that no key takes")
					} else {
						r.bad(key, name, pos, "field "+f.Name()+" starts at zero (literal at "+where+"), which is also a possible key, and nothing else says that nothing has been loaded yet: `"+types.ExprString(s.load)+"` is skipped for that key")
					}
					continue
				}
				r.undecided(key, name, pos, "cannot tell how `"+types.ExprString(s.last)+"` starts")
			}
		},
	})
}

func valName(s *memoSite) string {
	if s.val != nil {
		return "`" + types.ExprString(s.val) + "`"
	}
	return "the loaded state"
}

func init() {
	register(&Rule{
		Name:   "MEMO-COMMIT",
		ZeroOK: true,
		Doc:    "a remembered key (`last` in `if key != last { value = load(key) }`) says what is loaded: it is set to the new key only after the load it stands for - in the same round, no fallible, data-reading call that the comparison guards is reachable from the store of the key without going round the loop. Otherwise a load that fails leaves the key claiming it succeeded, and the retry skips the load (an empty or stale result instead of the error)",
		Run: func(c *Ctx, scope string, r *Report) {
			for _, fn := range c.srcFns {
				// comparisons of a value with a remembered field, and stores of that value into the field
				type memo struct {
					cmp   *ssa.BinOp
					key   ssa.Value
					field *types.Var
				}
				var memos []memo
				for _, b := range fn.Blocks {
					for _, ins := range b.Instrs {
						bo, ok := ins.(*ssa.BinOp)
						if !ok || (bo.Op != token.NEQ && bo.Op != token.EQL) {
							continue
						}
						for _, pair := range [][2]ssa.Value{{bo.X, bo.Y}, {bo.Y, bo.X}} {
							ld, ok := pair[1].(*ssa.UnOp)
							if !ok || ld.Op != token.MUL {
								continue
							}
							fa, ok := ld.X.(*ssa.FieldAddr)
							if !ok {
								continue
							}
							_, fv := fieldAddrInfo(fa)
							if fv == nil || isNilConst(pair[0]) {
								continue
							}
							if _, isK := pair[0].(*ssa.Const); isK {
								continue
							}
							memos = append(memos, memo{bo, pair[0], fv})
						}
					}
				}
				for _, m := range memos {
					// the commit: the compared value stored into the same field
					var commit *ssa.Store
					for _, b := range fn.Blocks {
						for _, ins := range b.Instrs {
							st, ok := ins.(*ssa.Store)
							if !ok || st.Val != m.key {
								continue
							}
							if fa, ok := st.Addr.(*ssa.FieldAddr); ok {
								if _, fv := fieldAddrInfo(fa); fv == m.field {
									commit = st
								}
							}
						}
					}
					if commit == nil {
						continue
					}
					// the loads the comparison guards: data-reading calls with an error result in blocks
					// entered on an edge that the comparison decides
					var guarded []*ssa.Call
					edgeFacts(fn, func(edge *ssa.BasicBlock, f condFact) {
						if f.cond != ssa.Value(m.cmp) {
							return
						}
						differs := (m.cmp.Op == token.NEQ) == f.truth
						if !differs {
							return
						}
						for _, b := range fn.Blocks {
							if !(edge == b || edge.Dominates(b)) {
								continue
							}
							for _, ins := range b.Instrs {
								call, ok := ins.(*ssa.Call)
								if !ok {
									continue
								}
								sc := call.Call.StaticCallee()
								if sc == nil || !c.inRoot(sc) {
									continue
								}
								// a load: it reads segment data, or it is given the key
								takesKey := false
								for _, a := range call.Call.Args {
									if a == m.key {
										takesKey = true
									}
								}
								if !takesKey && !reachesDataRead(c, sc, 0) {
									continue
								}
								res := call.Call.Signature().Results()
								if res.Len() == 0 || !isErrorType(res.At(res.Len()-1).Type()) {
									continue
								}
								guarded = append(guarded, call)
							}
						}
					})
					if len(guarded) == 0 {
						continue
					}
					key := fnName(fn) + "/commit:" + m.field.Name()
					// reachable from the commit without taking a back edge
					reach := map[*ssa.BasicBlock]bool{}
					var walk func(b *ssa.BasicBlock)
					walk = func(b *ssa.BasicBlock) {
						for _, s := range b.Succs {
							if s.Dominates(b) || reach[s] { // back edge, or seen
								continue
							}
							reach[s] = true
							walk(s)
						}
					}
					walk(commit.Block())
					bad := ""
					for _, g := range guarded {
						after := reach[g.Block()]
						if g.Block() == commit.Block() && instrIndex(g) > instrIndex(commit) {
							after = true
						}
						if after {
							bad = c.pos(g.Pos())
						}
					}
					if bad != "" {
						r.bad(key, fnName(fn), c.pos(commit.Pos()), "the remembered ."+m.field.Name()+" is set to the new key before the load it stands for (at "+bad+") has run: when that load fails the key already claims it, and the next call skips the load")
					} else {
						r.ok(key, fnName(fn), c.pos(commit.Pos()), "the key is remembered only after the guarded loads of this round")
					}
				}
			}
		},
	})
}
