package main

// Name normalisation.
//
// The rules name their anchors (functions, types, struct fields, a few
// parameters) the way the pinned tree does.  A maintainer renaming an
// unexported function, a struct field or a parameter changes nothing the
// properties speak about, so before the rules run the current tree is
// alpha-renamed back to the reference names wherever a reference name has
// disappeared and exactly one new name plays its role:
//
//   golden/names.json   reference names with a structural fingerprint each
//                       (types: field and method names; struct fields: type;
//                       functions: receiver, signature, callees, fields
//                       touched; parameters: position), extracted from the
//                       pinned commit with -write-names
//   computeRenames      matches every reference name that is missing in the
//                       current tree against the names that are new in it;
//                       a match must be unique and clear, otherwise nothing
//                       is renamed (and a rule that needs the anchor fails
//                       as "unresolved anchor", as before)
//   rewriteTree         writes an alpha-renamed copy of the tree to a scratch
//                       directory (outside /repo and /verif, removed at exit)
//                       with //line directives so that every position still
//                       names the original file and line; the copy is then
//                       loaded and analysed in place of the original
//
// Only identifiers are changed; if the renamed copy does not type-check the
// original is analysed unchanged.  The renames applied are listed in the
// evidence ("name_normalisation").

import (
	"bytes"
	"encoding/json"
	"fmt"
	"go/ast"
	"go/printer"
	"go/token"
	"go/types"
	"io"
	"os"
	"path/filepath"
	"regexp"
	"sort"
	"strings"
	"sync"
)

type gField struct {
	Name string `json:"name"`
	Type string `json:"type"`
}

type gType struct {
	Fields  []gField `json:"fields,omitempty"`
	Methods []string `json:"methods,omitempty"`
	Under   string   `json:"underlying"`
}

type gFunc struct {
	Recv    string   `json:"recv,omitempty"`
	Sig     string   `json:"sig"`
	Params  []string `json:"params,omitempty"`
	Results []string `json:"results,omitempty"`
	Feats   []string `json:"features,omitempty"`
}

type goldenNames struct {
	Comment string            `json:"comment"`
	Types   map[string]gType  `json:"types"`
	Funcs   map[string]gFunc  `json:"funcs"`
	Vars    map[string]string `json:"vars"`
}

// goldenNamesPath is set by run(); empty disables normalisation.
var goldenNamesPath string

var scratchDirs []string

func cleanupScratch() {
	for _, d := range scratchDirs {
		_ = os.RemoveAll(d)
	}
	scratchDirs = nil
}

func (c *Ctx) typeStr(t types.Type) string {
	return types.TypeString(t, func(p *types.Package) string {
		if p == c.Root.Types {
			return ""
		}
		return p.Path()
	})
}

type curNames struct {
	g        *goldenNames
	typeObj  map[string]*types.TypeName
	funcObj  map[string]*types.Func
	varObj   map[string]types.Object
	fieldObj map[string]map[string]*types.Var // type -> field -> var
}

// extractNames computes the name table of a loaded tree.
func extractNames(c *Ctx) *curNames {
	cn := &curNames{
		g:        &goldenNames{Types: map[string]gType{}, Funcs: map[string]gFunc{}, Vars: map[string]string{}},
		typeObj:  map[string]*types.TypeName{},
		funcObj:  map[string]*types.Func{},
		varObj:   map[string]types.Object{},
		fieldObj: map[string]map[string]*types.Var{},
	}
	scope := c.Root.Types.Scope()
	for _, name := range scope.Names() {
		switch o := scope.Lookup(name).(type) {
		case *types.TypeName:
			if o.IsAlias() {
				continue
			}
			n, ok := o.Type().(*types.Named)
			if !ok {
				continue
			}
			gt := gType{Under: "other"}
			if st, ok := n.Underlying().(*types.Struct); ok {
				gt.Under = "struct"
				cn.fieldObj[name] = map[string]*types.Var{}
				for i := 0; i < st.NumFields(); i++ {
					f := st.Field(i)
					gt.Fields = append(gt.Fields, gField{f.Name(), c.typeStr(f.Type())})
					cn.fieldObj[name][f.Name()] = f
				}
			} else if _, ok := n.Underlying().(*types.Interface); ok {
				gt.Under = "interface"
			} else {
				gt.Under = c.typeStr(n.Underlying())
			}
			for i := 0; i < n.NumMethods(); i++ {
				gt.Methods = append(gt.Methods, n.Method(i).Name())
			}
			sort.Strings(gt.Methods)
			cn.g.Types[name] = gt
			cn.typeObj[name] = o
		case *types.Var:
			cn.g.Vars[name] = "var " + c.typeStr(o.Type())
			cn.varObj[name] = o
		case *types.Const:
			cn.g.Vars[name] = "const " + c.typeStr(o.Type()) + " = " + o.Val().ExactString()
			cn.varObj[name] = o
		}
	}
	for obj, fd := range c.declOf {
		name := declName(obj)
		sig := obj.Type().(*types.Signature)
		gf := gFunc{}
		if r := sig.Recv(); r != nil {
			gf.Recv = c.typeStr(r.Type())
		}
		var ps, rs []string
		for i := 0; i < sig.Params().Len(); i++ {
			ps = append(ps, c.typeStr(sig.Params().At(i).Type()))
			gf.Params = append(gf.Params, sig.Params().At(i).Name())
		}
		for i := 0; i < sig.Results().Len(); i++ {
			rs = append(rs, c.typeStr(sig.Results().At(i).Type()))
			gf.Results = append(gf.Results, sig.Results().At(i).Name())
		}
		v := ""
		if sig.Variadic() {
			v = "..."
		}
		gf.Sig = "(" + strings.Join(ps, ", ") + v + ") (" + strings.Join(rs, ", ") + ")"
		feats := map[string]bool{}
		if fd.Body != nil {
			ast.Inspect(fd.Body, func(n ast.Node) bool {
				switch x := n.(type) {
				case *ast.CallExpr:
					var id *ast.Ident
					switch f := ast.Unparen(x.Fun).(type) {
					case *ast.Ident:
						id = f
					case *ast.SelectorExpr:
						id = f.Sel
					}
					if id != nil {
						if fn, ok := c.Info.Uses[id].(*types.Func); ok {
							if fn.Pkg() == c.Root.Types {
								feats["call:"+declName(fn)] = true
							} else {
								feats["call:"+fn.FullName()] = true
							}
						}
					}
				case *ast.SelectorExpr:
					if sel := c.Info.Selections[x]; sel != nil && sel.Kind() == types.FieldVal {
						if fv, ok := sel.Obj().(*types.Var); ok && fv.Pkg() == c.Root.Types {
							recv := sel.Recv()
							if p, ok := recv.(*types.Pointer); ok {
								recv = p.Elem()
							}
							if n, ok := recv.(*types.Named); ok {
								feats["field:"+n.Obj().Name()+"."+fv.Name()] = true
							}
						}
					}
				}
				return true
			})
		}
		for f := range feats {
			gf.Feats = append(gf.Feats, f)
		}
		sort.Strings(gf.Feats)
		cn.g.Funcs[name] = gf
		cn.funcObj[name] = obj
	}
	return cn
}

func writeNamesFile(c *Ctx, path string) error {
	cn := extractNames(c)
	cn.g.Comment = "Reference names of the pinned tree with a structural fingerprint each; used to alpha-rename a tree in which an unexported function, type, field or parameter was renamed back to these names before the rules run. Generated with -write-names; never written at check time."
	b, err := json.MarshalIndent(cn.g, "", " ")
	if err != nil {
		return err
	}
	return os.WriteFile(path, append(b, '\n'), 0o644)
}

// sortedSig: a signature string "(t1, t2) (r1)" with its parameter types sorted,
// so that a reordered parameter list compares equal.
func sortedSig(sig string) string {
	i := strings.Index(sig, ") (")
	if i < 0 {
		return sig
	}
	ps := strings.Split(strings.TrimPrefix(sig[:i], "("), ", ")
	sort.Strings(ps)
	return "(" + strings.Join(ps, ", ") + sig[i:]
}

func jaccard(a, b []string) float64 {
	if len(a) == 0 && len(b) == 0 {
		return 1
	}
	sa := map[string]bool{}
	for _, x := range a {
		sa[x] = true
	}
	inter, union := 0, len(sa)
	seen := map[string]bool{}
	for _, x := range b {
		if seen[x] {
			continue
		}
		seen[x] = true
		if sa[x] {
			inter++
		} else {
			union++
		}
	}
	if union == 0 {
		return 1
	}
	return float64(inter) / float64(union)
}

type renameSet struct {
	byObj map[types.Object]string
	notes []string
	// alias: current function name -> reference name, for a function that became a
	// method (or the reverse): it cannot be renamed in the source, the loaded
	// function is known to the rules under the reference name instead (its SSA
	// parameter list, receiver first, is the same either way)
	alias map[string]string
}

// computeRenames matches missing reference names against new current names.
func computeRenames(c *Ctx, g *goldenNames) *renameSet {
	rs := &renameSet{byObj: map[types.Object]string{}, alias: map[string]string{}}
	cur := extractNames(c)

	// ---- types
	typeMap := map[string]string{} // current name -> reference name
	var missingT, extraT []string
	for n := range g.Types {
		if _, ok := cur.g.Types[n]; !ok {
			missingT = append(missingT, n)
		}
	}
	for n := range cur.g.Types {
		if _, ok := g.Types[n]; !ok {
			extraT = append(extraT, n)
		}
	}
	sort.Strings(missingT)
	sort.Strings(extraT)
	typeFeat := func(t gType) []string {
		var out []string
		for i, f := range t.Fields {
			out = append(out, "f:"+f.Name)
			// (a renamed type whose fields were renamed as well still has their types, in order)
			out = append(out, fmt.Sprintf("ft%d:%s", i, f.Type))
		}
		for _, m := range t.Methods {
			out = append(out, "m:"+m)
		}
		return out
	}
	usedT := map[string]bool{}
	for _, m := range missingT {
		best, second, bestN := 0.0, 0.0, ""
		for _, e := range extraT {
			if usedT[e] || g.Types[m].Under != cur.g.Types[e].Under && (g.Types[m].Under == "struct" || cur.g.Types[e].Under == "struct") {
				continue
			}
			s := jaccard(typeFeat(g.Types[m]), typeFeat(cur.g.Types[e]))
			if s > best {
				second, best, bestN = best, s, e
			} else if s > second {
				second = s
			}
		}
		if bestN != "" && best >= 0.5 && best-second >= 0.2 {
			typeMap[bestN] = m
			usedT[bestN] = true
			rs.byObj[cur.typeObj[bestN]] = m
			rs.notes = append(rs.notes, fmt.Sprintf("type %s -> %s (similarity %.2f)", bestN, m, best))
		}
	}
	canonTypeName := func(n string) string {
		if r, ok := typeMap[n]; ok {
			return r
		}
		return n
	}
	var typeRe []*regexp.Regexp
	var typeTo []string
	for from, to := range typeMap {
		typeRe = append(typeRe, regexp.MustCompile(`\b`+regexp.QuoteMeta(from)+`\b`))
		typeTo = append(typeTo, to)
	}
	canonStr := func(s string) string {
		for i, re := range typeRe {
			s = re.ReplaceAllString(s, typeTo[i])
		}
		return s
	}

	// ---- struct fields
	fieldMap := map[string]string{} // "RefType.curField" -> reference field
	for cname, ct := range cur.g.Types {
		rname := canonTypeName(cname)
		gt, ok := g.Types[rname]
		if !ok || gt.Under != "struct" || ct.Under != "struct" {
			continue
		}
		gset := map[string]string{}
		for _, f := range gt.Fields {
			gset[f.Name] = f.Type
		}
		cset := map[string]string{}
		for _, f := range ct.Fields {
			cset[f.Name] = canonStr(f.Type)
		}
		var miss, extra []gField
		for _, f := range gt.Fields {
			if _, ok := cset[f.Name]; !ok {
				miss = append(miss, f)
			}
		}
		for _, f := range ct.Fields {
			if _, ok := gset[f.Name]; !ok {
				extra = append(extra, gField{f.Name, canonStr(f.Type)})
			}
		}
		if len(miss) == 0 || len(extra) == 0 {
			continue
		}
		used := map[string]bool{}
		match := func(m gField, e gField) {
			used[e.Name] = true
			fieldMap[rname+"."+e.Name] = m.Name
			if fv := cur.fieldObj[cname][e.Name]; fv != nil {
				rs.byObj[fv] = m.Name
			}
			rs.notes = append(rs.notes, fmt.Sprintf("field %s.%s -> %s", cname, e.Name, m.Name))
		}
		// positional when the two lists have equal length and pairwise equal types
		positional := len(miss) == len(extra)
		if positional {
			for i := range miss {
				if miss[i].Type != extra[i].Type {
					positional = false
				}
			}
		}
		if positional {
			for i := range miss {
				match(miss[i], extra[i])
			}
			continue
		}
		// otherwise a missing field takes the only unused new field of its type
		for _, m := range miss {
			var cands []gField
			for _, e := range extra {
				if !used[e.Name] && e.Type == m.Type {
					cands = append(cands, e)
				}
			}
			nSameTypeMissing := 0
			for _, m2 := range miss {
				if m2.Type == m.Type {
					nSameTypeMissing++
				}
			}
			if len(cands) == 1 && nSameTypeMissing == 1 {
				match(m, cands[0])
			}
		}
	}

	// ---- package-level variables and constants
	{
		var miss, extra []string
		for n := range g.Vars {
			if _, ok := cur.g.Vars[n]; !ok {
				miss = append(miss, n)
			}
		}
		for n := range cur.g.Vars {
			if _, ok := g.Vars[n]; !ok {
				extra = append(extra, n)
			}
		}
		sort.Strings(miss)
		sort.Strings(extra)
		usedV := map[string]bool{}
		doneV := map[string]bool{}
		for _, m := range miss {
			var cands []string
			for _, e := range extra {
				if !usedV[e] && canonStr(cur.g.Vars[e]) == g.Vars[m] {
					cands = append(cands, e)
				}
			}
			nSame := 0
			for _, m2 := range miss {
				if g.Vars[m2] == g.Vars[m] && !doneV[m2] {
					nSame++
				}
			}
			isConst := strings.HasPrefix(g.Vars[m], "const ")
			switch {
			case len(cands) == 1 && nSame == 1:
			case isConst && len(cands) == nSame && nSame > 1:
				// several constants of one type and value were renamed together: they are
				// interchangeable for every rule (only values are compared); pair in name order
			default:
				continue
			}
			usedV[cands[0]] = true
			doneV[m] = true
			rs.byObj[cur.varObj[cands[0]]] = m
			rs.notes = append(rs.notes, fmt.Sprintf("package-level %s -> %s", cands[0], m))
		}
	}

	// ---- functions and methods
	funcMap := map[string]string{} // current canonical-receiver name -> reference name
	canonFuncKey := func(name string) string {
		// "(*T').m" -> "(*T).m"
		if strings.HasPrefix(name, "(*") {
			i := strings.Index(name, ")")
			return "(*" + canonTypeName(name[2:i]) + ")" + name[i+1:]
		}
		if i := strings.Index(name, "."); i > 0 {
			return canonTypeName(name[:i]) + name[i:]
		}
		return name
	}
	curByKey := map[string]string{}
	for n := range cur.g.Funcs {
		curByKey[canonFuncKey(n)] = n
	}
	var missF, extraF []string
	for n := range g.Funcs {
		if _, ok := curByKey[n]; !ok {
			missF = append(missF, n)
		}
	}
	for k, n := range curByKey {
		if _, ok := g.Funcs[k]; !ok {
			extraF = append(extraF, n)
		}
	}
	sort.Strings(missF)
	sort.Strings(extraF)
	canonFeat := func(feats []string) []string {
		var out []string
		for _, f := range feats {
			switch {
			case strings.HasPrefix(f, "call:"):
				k := canonFuncKey(strings.TrimPrefix(f, "call:"))
				if r, ok := funcMap[k]; ok {
					k = r
				}
				out = append(out, "call:"+k)
			case strings.HasPrefix(f, "field:"):
				tf := strings.TrimPrefix(f, "field:")
				i := strings.Index(tf, ".")
				t, fld := canonTypeName(tf[:i]), tf[i+1:]
				if r, ok := fieldMap[t+"."+fld]; ok {
					fld = r
				}
				out = append(out, "field:"+t+"."+fld)
			default:
				out = append(out, f)
			}
		}
		return out
	}
	usedF := map[string]bool{}
	for round := 0; round < 4; round++ {
		for _, m := range missF {
			if _, done := func() (string, bool) {
				for _, r := range funcMap {
					if r == m {
						return r, true
					}
				}
				return "", false
			}(); done {
				continue
			}
			gm := g.Funcs[m]
			best, second, bestN, ncand := -1.0, -1.0, "", 0
			for _, e := range extraF {
				if usedF[e] {
					continue
				}
				ce := cur.g.Funcs[e]
				if canonStr(ce.Recv) != gm.Recv {
					continue
				}
				sameSig := canonStr(ce.Sig) == gm.Sig
				anySig := false
				if !sameSig && sortedSig(canonStr(ce.Sig)) != sortedSig(gm.Sig) {
					// last round: renamed AND its parameter list changed (a phase moved to the
					// caller): matched by its body alone when that is very similar
					if round < 3 || len(gm.Feats) < 6 {
						continue
					}
					anySig = true
				}
				s := jaccard(gm.Feats, canonFeat(ce.Feats))
				if !sameSig && s < 0.7 {
					continue // renamed AND parameters reordered: only with a very similar body
				}
				_ = anySig
				ncand++
				if s > best {
					second, best, bestN = best, s, e
				} else if s > second {
					second = s
				}
			}
			if bestN == "" {
				continue
			}
			if (best >= 0.5 && best-second >= 0.15) || (ncand == 1 && best >= 0.3) || (ncand == 1 && len(gm.Feats) <= 2) {
				usedF[bestN] = true
				funcMap[canonFuncKey(bestN)] = m
				newIdent := m
				if i := strings.LastIndex(m, "."); i >= 0 {
					newIdent = m[i+1:]
				}
				rs.byObj[cur.funcObj[bestN]] = newIdent
				rs.notes = append(rs.notes, fmt.Sprintf("func %s -> %s (similarity %.2f, %d candidate(s))", bestN, m, best, ncand))
			}
		}
	}

	// ---- function <-> method: the receiver became the first parameter or the
	// first parameter the receiver (possibly of another type that provides what
	// the body needs); everything else of the flattened signature is the same
	flat := func(recv, sig string) (first string, rest string) {
		inner := strings.TrimPrefix(sig, "(")
		if recv != "" {
			return recv, inner
		}
		depth := 0
		for i, ch := range inner {
			switch ch {
			case '(', '[', '{':
				depth++
			case ')', ']', '}':
				if depth == 0 {
					return inner[:i], inner[i:]
				}
				depth--
			case ',':
				if depth == 0 {
					return inner[:i], strings.TrimPrefix(inner[i+1:], " ")
				}
			}
		}
		return "", inner
	}
	for _, m := range missF {
		mapped := false
		for _, r := range funcMap {
			if r == m {
				mapped = true
			}
		}
		if mapped {
			continue
		}
		gm := g.Funcs[m]
		_, grest := flat(gm.Recv, gm.Sig)
		best, second, bestN := -1.0, -1.0, ""
		for _, e := range extraF {
			if usedF[e] {
				continue
			}
			ce := cur.g.Funcs[e]
			if (canonStr(ce.Recv) == "") == (gm.Recv == "") {
				continue
			}
			_, crest := flat(canonStr(ce.Recv), canonStr(ce.Sig))
			s := jaccard(gm.Feats, canonFeat(ce.Feats))
			if crest != grest {
				// the parameters became fields of the new receiver (or the reverse): only
				// with a very similar body, and only the name is carried over
				if s < 0.7 || len(gm.Feats) < 5 {
					continue
				}
			}
			if s > best {
				second, best, bestN = best, s, e
			} else if s > second {
				second = s
			}
		}
		if bestN != "" && best >= 0.6 && best-second >= 0.15 {
			usedF[bestN] = true
			rs.alias[bestN] = m
			rs.notes = append(rs.notes, fmt.Sprintf("func %s is known as %s (function <-> method, similarity %.2f)", bestN, m, best))
		}
	}

	// ---- parameters and named results, by position, in functions whose
	// signature is unchanged
	for cname, cf := range cur.g.Funcs {
		k := canonFuncKey(cname)
		if r, ok := funcMap[k]; ok {
			k = r
		}
		gf, ok := g.Funcs[k]
		if !ok || canonStr(cf.Sig) != gf.Sig {
			continue
		}
		obj := cur.funcObj[cname]
		fd := c.declOf[obj]
		sig := obj.Type().(*types.Signature)
		// every name defined anywhere in the function (to avoid capture)
		defined := map[string]bool{}
		if fd != nil {
			ast.Inspect(fd, func(n ast.Node) bool {
				if id, ok := n.(*ast.Ident); ok && c.Info.Defs[id] != nil {
					defined[id.Name] = true
				}
				return true
			})
		}
		used := map[string]bool{}
		if fd != nil && fd.Body != nil {
			ast.Inspect(fd.Body, func(n ast.Node) bool {
				if id, ok := n.(*ast.Ident); ok {
					used[id.Name] = true
				}
				return true
			})
		}
		try := func(v *types.Var, want string) {
			if v.Name() == want || want == "" || want == "_" || v.Name() == "" || v.Name() == "_" {
				return
			}
			if defined[want] || used[want] || c.Root.Types.Scope().Lookup(want) != nil && used[want] {
				return
			}
			rs.byObj[v] = want
			defined[want] = true
			rs.notes = append(rs.notes, fmt.Sprintf("parameter %s of %s -> %s", v.Name(), cname, want))
		}
		if len(gf.Params) == sig.Params().Len() {
			for i := 0; i < sig.Params().Len(); i++ {
				try(sig.Params().At(i), gf.Params[i])
			}
		}
		if len(gf.Results) == sig.Results().Len() {
			for i := 0; i < sig.Results().Len(); i++ {
				try(sig.Results().At(i), gf.Results[i])
			}
		}
	}
	sort.Strings(rs.notes)
	return rs
}

// rewriteTree writes an alpha-renamed copy of the module at dir.
func rewriteTree(c *Ctx, dir string, rs *renameSet) (string, error) {
	tmp, err := os.MkdirTemp("", "icecanon")
	if err != nil {
		return "", err
	}
	scratchDirs = append(scratchDirs, tmp)
	// copy everything but .git
	err = filepath.Walk(dir, func(p string, info os.FileInfo, err error) error {
		if err != nil {
			return err
		}
		rel, _ := filepath.Rel(dir, p)
		if rel == ".git" {
			return filepath.SkipDir
		}
		dst := filepath.Join(tmp, rel)
		if info.IsDir() {
			return os.MkdirAll(dst, 0o755)
		}
		if !info.Mode().IsRegular() {
			return nil
		}
		in, err := os.Open(p)
		if err != nil {
			return err
		}
		defer in.Close()
		out, err := os.Create(dst)
		if err != nil {
			return err
		}
		defer out.Close()
		_, err = io.Copy(out, in)
		return err
	})
	if err != nil {
		return "", err
	}
	for _, pkg := range c.Pkgs {
		for i, f := range pkg.Syntax {
			if i >= len(pkg.CompiledGoFiles) {
				continue
			}
			path := pkg.CompiledGoFiles[i]
			rel, err := filepath.Rel(dir, path)
			if err != nil || strings.HasPrefix(rel, "..") {
				continue
			}
			changed := false
			ast.Inspect(f, func(n ast.Node) bool {
				id, ok := n.(*ast.Ident)
				if !ok {
					return true
				}
				obj := pkg.TypesInfo.Defs[id]
				if obj == nil {
					obj = pkg.TypesInfo.Uses[id]
				}
				if obj == nil {
					return true
				}
				if to, ok := rs.byObj[obj]; ok && id.Name != to {
					id.Name = to
					changed = true
				}
				return true
			})
			if !changed {
				continue
			}
			var buf bytes.Buffer
			cfg := printer.Config{Mode: printer.SourcePos | printer.TabIndent | printer.UseSpaces, Tabwidth: 8}
			if err := cfg.Fprint(&buf, pkg.Fset, f); err != nil {
				return "", err
			}
			if err := os.WriteFile(filepath.Join(tmp, rel), buf.Bytes(), 0o644); err != nil {
				return "", err
			}
		}
	}
	return tmp, nil
}

// normaliseNames returns a context for the alpha-renamed copy of c's tree, or
// c itself when nothing needs renaming (or the copy cannot be analysed).
func normaliseNames(c *Ctx, o loadOpts) *Ctx {
	if goldenNamesPath == "" || o.rootPath != rootPkgPath {
		return c
	}
	b, err := os.ReadFile(goldenNamesPath)
	if err != nil {
		return c
	}
	var g goldenNames
	if err := json.Unmarshal(b, &g); err != nil {
		panic(infra("golden names %s: %v", goldenNamesPath, err))
	}
	rs := computeRenames(c, &g)
	if len(rs.byObj) == 0 {
		if len(rs.alias) > 0 {
			c.applyAliases(rs.alias)
			c.NameNotes = rs.notes
		}
		return c
	}
	tmp, err := rewriteTree(c, o.dir, rs)
	if err != nil {
		c.NameNotes = append([]string{"normalisation failed (" + err.Error() + "); the tree is analysed under its own names"}, rs.notes...)
		return c
	}
	o2 := o
	o2.dir = tmp
	o2.noCanon = true
	c2, err := loadCtx(o2)
	if err != nil {
		c.NameNotes = append([]string{"the alpha-renamed copy does not load (" + err.Error() + "); the tree is analysed under its own names"}, rs.notes...)
		return c
	}
	c2.Dir = o.dir
	c2.LoadDir = tmp
	c2.NameNotes = rs.notes
	c2.applyAliases(rs.alias)
	return c2
}

var _ = token.NoPos

// fnAlias: loaded function -> the reference name the rules know it under.
var fnAlias sync.Map

// declAlias: the same for the declared object (the AST-based engines name functions by it).
var declAlias sync.Map

func (c *Ctx) applyAliases(alias map[string]string) {
	for cur, ref := range alias {
		if fn, ok := c.byName[cur]; ok {
			fnAlias.Store(fn, ref)
			c.byName[ref] = fn
			if obj, isFunc := fn.Object().(*types.Func); isFunc {
				declAlias.Store(obj, ref)
			}
		}
	}
}
