package main

// E8 — format extraction: wire signatures of writer / reader functions.
//
// The signature of a function is the source-ordered sequence of wire
// primitives it emits / decodes, with loops kept as nested units and
// in-package callees inlined.  Each primitive is tagged with the struct field
// it carries when the value is a field selector (semantic, not textual).

import (
	"fmt"
	"go/ast"
	"go/token"
	"go/types"
	"strings"
)

type wireItem struct {
	Kind  string     `json:"k"` // U32 U64 UV RAW LOOP ALT
	Carry string     `json:"c,omitempty"`
	Items []wireItem `json:"i,omitempty"`
	pos   token.Pos
	note  string
	buf   string // Put*: the scratch buffer the primitive was encoded into
}

func (w wireItem) String() string {
	switch w.Kind {
	case "LOOP":
		return "[" + wireString(w.Items) + "]"
	case "ALT":
		return "{" + wireString(w.Items) + "}"
	}
	if w.Carry != "" {
		return w.Kind + "(" + w.Carry + ")"
	}
	return w.Kind
}

func wireString(items []wireItem) string {
	var s []string
	for _, it := range items {
		s = append(s, it.String())
	}
	return strings.Join(s, " ")
}

// kindsOnly drops carries.
func kindsOnly(items []wireItem) string {
	var s []string
	for _, it := range items {
		switch it.Kind {
		case "LOOP":
			s = append(s, "["+kindsOnly(it.Items)+"]")
		case "ALT":
			s = append(s, "{"+kindsOnly(it.Items)+"}")
		default:
			s = append(s, it.Kind)
		}
	}
	return strings.Join(s, " ")
}

type wireExtractor struct {
	bodies   []*ast.BlockStmt // bodies of the functions being extracted, outermost first
	c        *Ctx
	info     *types.Info
	mode     string // "w" or "r"
	cache    map[*types.Func][]wireItem
	active   map[*types.Func]bool
	problems []string
	// writer: expression strings of scratch buffers last filled by Put*
	carrier map[string]bool
	// reader: Data.Read calls whose result is never handed to a decode primitive (raw payload reads)
	rawReads map[*ast.CallExpr]bool
	depth    int
	// loop variable of an unrolled `for _, v := range []T{a, b, c}` -> the element it stands for
	subst map[types.Object]ast.Expr
	// variadic parameter of a helper being inlined -> the arguments of the call being inlined
	variadic map[types.Object][]ast.Expr
}

// undecodedReads: Data.Read calls in body whose slice result variable is not an
// argument of binary.Uvarint / BigEndian.UintN anywhere in the body.
func (x *wireExtractor) undecodedReads(body *ast.BlockStmt) map[*ast.CallExpr]bool {
	out := map[*ast.CallExpr]bool{}
	if x.mode != "r" {
		return out
	}
	readVar := map[*ast.CallExpr]types.Object{}
	var allReads []*ast.CallExpr
	decoded := map[types.Object]bool{}
	handedOn := map[*ast.CallExpr]bool{}
	returnedVars := map[types.Object]bool{}
	ast.Inspect(body, func(n ast.Node) bool {
		switch n := n.(type) {
		case *ast.FuncLit:
			return false
		case *ast.ReturnStmt:
			// `return data.Read(a, b)`: the bytes go to the caller, which decodes them or not
			if len(n.Results) == 1 {
				if call, ok := ast.Unparen(n.Results[0]).(*ast.CallExpr); ok {
					handedOn[call] = true
				}
				// `return b` of a reader object that keeps the error in a field
				if id, ok := ast.Unparen(n.Results[0]).(*ast.Ident); ok {
					if obj := x.info.ObjectOf(id); obj != nil && isByteSlice(obj.Type()) {
						returnedVars[obj] = true
					}
				}
			}
			// `b, err := data.Read(a, b); ...; return b, nil`: the same, through a variable
			if len(n.Results) == 2 {
				if id, ok := ast.Unparen(n.Results[0]).(*ast.Ident); ok {
					if obj := x.info.ObjectOf(id); obj != nil && isByteSlice(obj.Type()) {
						returnedVars[obj] = true
					}
				}
			}
		case *ast.AssignStmt:
			if len(n.Rhs) == 1 {
				if call, ok := ast.Unparen(n.Rhs[0]).(*ast.CallExpr); ok {
					if _, full := x.calleeOf(call); (strings.HasSuffix(full, "bluge_segment_api.*Data.Read") || x.forwardsRead(call)) && len(n.Lhs) >= 1 {
						if id, ok := n.Lhs[0].(*ast.Ident); ok {
							readVar[call] = x.info.ObjectOf(id)
						}
					}
				}
			}
		case *ast.CallExpr:
			fn, full := x.calleeOf(n)
			if fn != nil && (strings.HasSuffix(full, "bluge_segment_api.*Data.Read") || x.forwardsRead(n)) {
				allReads = append(allReads, n)
			}
			if fn != nil && strings.HasPrefix(full, "encoding/binary.") {
				for _, a := range n.Args {
					a = ast.Unparen(a)
					// the buffer itself or a window of it (trailer[:4], trailer[4:])
					for {
						se, ok := a.(*ast.SliceExpr)
						if !ok {
							break
						}
						a = ast.Unparen(se.X)
					}
					if id, ok := a.(*ast.Ident); ok {
						decoded[x.info.ObjectOf(id)] = true
					}
				}
			}
		}
		return true
	})
	// every read is a raw payload read unless its result variable is handed to a decode primitive
	for _, call := range allReads {
		if handedOn[call] {
			continue
		}
		if obj, ok := readVar[call]; ok && obj != nil && returnedVars[obj] && !decoded[obj] {
			continue // handed to the caller
		}
		if obj, ok := readVar[call]; !ok || obj == nil || !decoded[obj] {
			out[call] = true
		}
	}
	return out
}

// forwardsRead: call is to an in-package function that hands the bytes of a
// storage read straight to its caller (`return c.data.Read(lo, hi)`): for
// the caller it is a read.
func (x *wireExtractor) forwardsRead(call *ast.CallExpr) bool {
	fn, _ := x.calleeOf(call)
	if fn == nil || fn.Pkg() != x.c.Root.Types {
		return false
	}
	decl := x.c.declOf[fn]
	if decl == nil || decl.Body == nil {
		return false
	}
	sig := fn.Type().(*types.Signature)
	// ([]byte, error), or []byte alone for a reader object that remembers its first error
	if (sig.Results().Len() != 2 && sig.Results().Len() != 1) || !isByteSlice(sig.Results().At(0).Type()) {
		return false
	}
	found := false
	// also: b, err := data.Read(...); ...; return b, nil  (a cursor that moves its position in between)
	var readVars []types.Object
	nReads := 0
	ast.Inspect(decl.Body, func(n ast.Node) bool {
		if ret, ok := n.(*ast.ReturnStmt); ok && len(ret.Results) == 1 {
			if c2, ok := ast.Unparen(ret.Results[0]).(*ast.CallExpr); ok {
				if _, full := x.calleeOf(c2); strings.HasSuffix(full, "bluge_segment_api.*Data.Read") {
					found = true
				}
			}
		}
		if as, ok := n.(*ast.AssignStmt); ok && len(as.Rhs) == 1 && len(as.Lhs) == 2 {
			if c2, ok := ast.Unparen(as.Rhs[0]).(*ast.CallExpr); ok {
				if _, full := x.calleeOf(c2); strings.HasSuffix(full, "bluge_segment_api.*Data.Read") {
					nReads++
					if id, ok := as.Lhs[0].(*ast.Ident); ok {
						if obj := x.info.Defs[id]; obj != nil {
							readVars = append(readVars, obj)
						} else if obj := x.info.Uses[id]; obj != nil {
							readVars = append(readVars, obj)
						}
					}
				}
			}
		}
		return true
	})
	if !found && nReads == 1 && len(readVars) == 1 {
		returned, other := false, false
		ast.Inspect(decl.Body, func(n ast.Node) bool {
			switch y := n.(type) {
			case *ast.ReturnStmt:
				if len(y.Results) == 2 || len(y.Results) == 1 {
					if id, ok := ast.Unparen(y.Results[0]).(*ast.Ident); ok && x.info.Uses[id] == readVars[0] {
						returned = true
					}
				}
			case *ast.CallExpr:
				// the bytes are only handed back: not decoded, sliced or passed on here
				for _, a := range y.Args {
					if id, ok := ast.Unparen(a).(*ast.Ident); ok && x.info.Uses[id] == readVars[0] {
						other = true
					}
				}
			case *ast.SliceExpr:
				if id, ok := ast.Unparen(y.X).(*ast.Ident); ok && x.info.Uses[id] == readVars[0] {
					other = true
				}
			}
			return true
		})
		found = returned && !other
	}
	return found
}

func unusedReadVars(readVar map[*ast.CallExpr]types.Object, decoded map[types.Object]bool) map[*ast.CallExpr]bool {
	out := map[*ast.CallExpr]bool{}
	for call, obj := range readVar {
		if obj != nil && !decoded[obj] {
			out[call] = true
		}
	}
	return out
}

func newWireExtractor(c *Ctx, mode string) *wireExtractor {
	return &wireExtractor{c: c, info: c.Info, mode: mode, cache: map[*types.Func][]wireItem{}, active: map[*types.Func]bool{}, carrier: map[string]bool{}}
}

func (x *wireExtractor) funcObj(name string) *types.Func {
	fn := x.c.MustFn(name)
	obj, _ := fn.Object().(*types.Func)
	if obj == nil {
		panic(infra("no object for %s", name))
	}
	return obj
}

// signature of a declared function (by anchor name).
func (x *wireExtractor) signature(name string) []wireItem {
	return x.sigOf(x.funcObj(name))
}

func (x *wireExtractor) sigOf(obj *types.Func) []wireItem {
	if s, ok := x.cache[obj]; ok {
		return s
	}
	if x.active[obj] || x.depth > 4 {
		return nil
	}
	decl := x.c.declOf[obj]
	if decl == nil || decl.Body == nil {
		return nil
	}
	x.active[obj] = true
	x.depth++
	saved := x.carrier
	x.carrier = map[string]bool{}
	savedRaw := x.rawReads
	x.rawReads = x.undecodedReads(decl.Body)
	defer func() { x.rawReads = savedRaw }()
	x.bodies = append(x.bodies, decl.Body)
	items := x.block(decl.Body.List)
	x.bodies = x.bodies[:len(x.bodies)-1]
	if x.mode == "w" {
		items = x.dropUnwritten(items, decl.Body)
	}
	x.carrier = saved
	x.depth--
	delete(x.active, obj)
	x.cache[obj] = items
	return items
}

// sigWithVariadic: the signature of obj's body with its variadic parameter
// bound to the explicit arguments of one call (not cached: it depends on them).
func (x *wireExtractor) sigWithVariadic(obj *types.Func, args []ast.Expr) []wireItem {
	if x.active[obj] || x.depth > 4 {
		return nil
	}
	decl := x.c.declOf[obj]
	sig := obj.Type().(*types.Signature)
	if decl == nil || decl.Body == nil || !sig.Variadic() {
		return nil
	}
	vp := sig.Params().At(sig.Params().Len() - 1)
	if x.variadic == nil {
		x.variadic = map[types.Object][]ast.Expr{}
	}
	x.variadic[vp] = args
	defer delete(x.variadic, vp)
	x.active[obj] = true
	x.depth++
	saved := x.carrier
	x.carrier = map[string]bool{}
	savedRaw := x.rawReads
	x.rawReads = x.undecodedReads(decl.Body)
	defer func() { x.rawReads = savedRaw }()
	items := x.block(decl.Body.List)
	if x.mode == "w" {
		items = x.dropUnwritten(items, decl.Body)
	}
	x.carrier = saved
	x.depth--
	delete(x.active, obj)
	return items
}

func (x *wireExtractor) block(list []ast.Stmt) []wireItem {
	var out []wireItem
	for i, s := range list {
		// writer: `if cond { return <success> }` makes everything after it in
		// this block an optional emission, exactly like `if !cond { … }`
		if ifs, ok := s.(*ast.IfStmt); ok && ifs.Else == nil && x.isSuccessReturnOnly(ifs.Body) {
			if ifs.Init != nil {
				out = append(out, x.stmt(ifs.Init)...)
			}
			out = append(out, x.expr(ifs.Cond)...)
			rest := x.block(list[i+1:])
			if len(rest) > 0 {
				out = append(out, wireItem{Kind: "ALT", Items: rest, pos: ifs.Pos()})
			}
			return out
		}
		out = append(out, x.stmt(s)...)
	}
	return out
}

// isSuccessReturnOnly: the block emits nothing and ends in a return that
// reports success (no result, or a nil error result).
func (x *wireExtractor) isSuccessReturnOnly(b *ast.BlockStmt) bool {
	if len(b.List) == 0 {
		return false
	}
	// `if cond { continue }` in a writer's loop: the rest of this iteration is optional as well
	if br, isBr := b.List[len(b.List)-1].(*ast.BranchStmt); isBr && br.Tok == token.CONTINUE && br.Label == nil && x.mode == "w" {
		return len(x.block(b.List[:len(b.List)-1])) == 0
	}
	ret, ok := b.List[len(b.List)-1].(*ast.ReturnStmt)
	if !ok {
		return false
	}
	if len(x.block(b.List[:len(b.List)-1])) > 0 {
		return false
	}
	if len(ret.Results) == 0 {
		// naked return: success only when the function has no error result we can see; be conservative
		return false
	}
	last := ast.Unparen(ret.Results[len(ret.Results)-1])
	if !isErrorType(x.info.TypeOf(last)) && x.info.TypeOf(last) != types.Typ[types.UntypedNil] {
		return false
	}
	id, ok := last.(*ast.Ident)
	return ok && id.Name == "nil"
}

func (x *wireExtractor) stmt(s ast.Stmt) []wireItem {
	switch s := s.(type) {
	case *ast.BlockStmt:
		return x.block(s.List)
	case *ast.ForStmt:
		var pre []wireItem
		if s.Init != nil {
			pre = append(pre, x.stmt(s.Init)...)
		}
		if s.Cond != nil {
			pre = append(pre, x.expr(s.Cond)...)
		}
		body := x.block(s.Body.List)
		if s.Post != nil {
			body = append(body, x.stmt(s.Post)...)
		}
		if len(body) == 0 {
			return pre
		}
		return append(pre, wireItem{Kind: "LOOP", Items: body, pos: s.Pos()})
	case *ast.RangeStmt:
		pre := x.expr(s.X)
		// a loop over a literal list of values (`for _, v := range []interface{}{a, b, c}`)
		// is the sequence of its iterations: unroll it, v standing for each element in turn
		var elts []ast.Expr
		if lit := x.literalOf(s.X); lit != nil {
			elts = lit.Elts
		} else if id, ok := ast.Unparen(s.X).(*ast.Ident); ok && x.variadic != nil {
			// ranging over the variadic parameter of a helper that is being
			// inlined at a call with explicit arguments
			if args, ok := x.variadic[x.info.Uses[id]]; ok {
				elts = args
			}
		}
		if len(elts) > 0 && len(elts) <= 32 && s.Value != nil && (s.Key == nil || isBlank(s.Key)) {
			if vid, ok := s.Value.(*ast.Ident); ok && x.info.Defs[vid] != nil {
				obj := x.info.Defs[vid]
				if x.subst == nil {
					x.subst = map[types.Object]ast.Expr{}
				}
				out := pre
				for _, e := range elts {
					if kv, ok := e.(*ast.KeyValueExpr); ok {
						e = kv.Value
					}
					x.subst[obj] = e
					out = append(out, x.block(s.Body.List)...)
				}
				delete(x.subst, obj)
				return out
			}
		}
		body := x.block(s.Body.List)
		if len(body) == 0 {
			return pre
		}
		return append(pre, wireItem{Kind: "LOOP", Items: body, pos: s.Pos()})
	case *ast.IfStmt:
		var out []wireItem
		if s.Init != nil {
			out = append(out, x.stmt(s.Init)...)
		}
		out = append(out, x.expr(s.Cond)...)
		thenI := x.block(s.Body.List)
		var elseI []wireItem
		if s.Else != nil {
			elseI = x.stmt(s.Else)
		}
		switch {
		case len(thenI) == 0 && len(elseI) == 0:
		case wireString(thenI) == wireString(elseI):
			out = append(out, thenI...)
		case len(elseI) == 0:
			// optional part — error handling returns have no primitives, so this is a real conditional emission
			out = append(out, wireItem{Kind: "ALT", Items: thenI, pos: s.Pos()})
		case len(thenI) == 0:
			out = append(out, wireItem{Kind: "ALT", Items: elseI, pos: s.Pos()})
		default:
			if kindsOnly(thenI) == kindsOnly(elseI) {
				// same wire shape, different carried value (e.g. locOffset-tfOffset vs locOffset)
				out = append(out, stripCarry(thenI)...)
			} else {
				out = append(out, wireItem{Kind: "ALT", Items: append(append([]wireItem{}, thenI...), append([]wireItem{{Kind: "|"}}, elseI...)...), pos: s.Pos()})
			}
		}
		return out
	case *ast.SwitchStmt:
		var out []wireItem
		if s.Init != nil {
			out = append(out, x.stmt(s.Init)...)
		}
		for _, cc := range s.Body.List {
			out = append(out, x.block(cc.(*ast.CaseClause).Body)...)
		}
		return out
	case *ast.ExprStmt:
		return x.expr(s.X)
	case *ast.AssignStmt:
		var out []wireItem
		for _, r := range s.Rhs {
			items := x.expr(r)
			// reader: attach the destination to a single decode
			if x.mode == "r" && len(items) > 0 && len(s.Lhs) > 0 {
				last := &items[len(items)-1]
				if last.Carry == "" && isLeaf(last.Kind) {
					last.Carry = x.carryOf(s.Lhs[0])
				}
			}
			out = append(out, items...)
		}
		return out
	case *ast.ReturnStmt:
		var out []wireItem
		for _, r := range s.Results {
			out = append(out, x.expr(r)...)
		}
		return out
	case *ast.DeclStmt:
		var out []wireItem
		if gd, ok := s.Decl.(*ast.GenDecl); ok {
			for _, sp := range gd.Specs {
				if vs, ok := sp.(*ast.ValueSpec); ok {
					for _, v := range vs.Values {
						out = append(out, x.expr(v)...)
					}
				}
			}
		}
		return out
	case *ast.DeferStmt:
		return nil
	case *ast.LabeledStmt:
		return x.stmt(s.Stmt)
	case *ast.IncDecStmt, *ast.BranchStmt, *ast.EmptyStmt, *ast.GoStmt, *ast.SendStmt:
		return nil
	case *ast.TypeSwitchStmt:
		return nil
	case *ast.SelectStmt:
		return nil
	}
	return nil
}

func isLeaf(k string) bool { return k == "U32" || k == "U64" || k == "UV" || k == "RAW" }

func stripCarry(in []wireItem) []wireItem {
	out := make([]wireItem, len(in))
	for i, it := range in {
		it.Carry = ""
		it.Items = stripCarry(it.Items)
		out[i] = it
	}
	return out
}

// carryOf: the struct field path an expression denotes ("footer.numDocs"),
// package-level constant name for constants, else "".
func isBlank(e ast.Expr) bool {
	id, ok := e.(*ast.Ident)
	return ok && id.Name == "_"
}

// unsubst: the element an unrolled loop variable currently stands for.
func (x *wireExtractor) unsubst(e ast.Expr) ast.Expr {
	if x.subst == nil {
		return e
	}
	switch y := ast.Unparen(e).(type) {
	case *ast.Ident:
		if r, ok := x.subst[x.info.Uses[y]]; ok {
			return r
		}
	case *ast.SelectorExpr:
		// a field of the element of an unrolled table of struct literals: f.val with f
		// standing for {"what", footer.numDocs}
		id, ok := ast.Unparen(y.X).(*ast.Ident)
		if !ok {
			return e
		}
		r, ok := x.subst[x.info.Uses[id]]
		if !ok {
			return e
		}
		lit, ok := ast.Unparen(r).(*ast.CompositeLit)
		if !ok {
			return e
		}
		st, ok := x.info.TypeOf(lit).Underlying().(*types.Struct)
		if !ok {
			return e
		}
		for i, el := range lit.Elts {
			if kv, ok := el.(*ast.KeyValueExpr); ok {
				if k, ok := kv.Key.(*ast.Ident); ok && k.Name == y.Sel.Name {
					return kv.Value
				}
				continue
			}
			if i < st.NumFields() && st.Field(i).Name() == y.Sel.Name {
				return el
			}
		}
	}
	return e
}

// literalOf: e is a slice/array composite literal, or a local variable that is
// defined once by such a literal and never assigned (nor element-assigned) again.
func (x *wireExtractor) literalOf(e ast.Expr) *ast.CompositeLit {
	e = ast.Unparen(e)
	if lit, ok := e.(*ast.CompositeLit); ok {
		switch x.info.TypeOf(lit).Underlying().(type) {
		case *types.Slice, *types.Array:
			return lit
		}
		return nil
	}
	if call, ok := e.(*ast.CallExpr); ok {
		// a layout table: an in-package function whose whole body returns a list literal
		// (func (f *footer) fields() []interface{} { return []interface{}{&f.a, &f.b} })
		if fn, _ := x.calleeOf(call); fn != nil && fn.Pkg() == x.c.Root.Types {
			if decl := x.c.declOf[fn]; decl != nil && decl.Body != nil && len(decl.Body.List) == 1 {
				if ret, ok := decl.Body.List[0].(*ast.ReturnStmt); ok && len(ret.Results) == 1 {
					if lit, ok := ast.Unparen(ret.Results[0]).(*ast.CompositeLit); ok {
						switch x.info.TypeOf(lit).Underlying().(type) {
						case *types.Slice, *types.Array:
							return lit
						}
					}
				}
			}
		}
		return nil
	}
	id, ok := e.(*ast.Ident)
	if !ok {
		return nil
	}
	obj, ok := x.info.Uses[id].(*types.Var)
	if !ok || obj.Parent() == obj.Pkg().Scope() {
		return nil
	}
	var lit *ast.CompositeLit
	other := false
	for _, f := range x.c.Root.Syntax {
		if f.Pos() > obj.Pos() || obj.Pos() > f.End() {
			continue
		}
		ast.Inspect(f, func(n ast.Node) bool {
			switch n := n.(type) {
			case *ast.AssignStmt:
				for i, lhs := range n.Lhs {
					lhs = ast.Unparen(lhs)
					if ix, ok := lhs.(*ast.IndexExpr); ok {
						if xid, ok := ast.Unparen(ix.X).(*ast.Ident); ok && x.info.Uses[xid] == types.Object(obj) {
							other = true
						}
					}
					lid, ok := lhs.(*ast.Ident)
					if !ok {
						continue
					}
					if x.info.Defs[lid] == types.Object(obj) && len(n.Rhs) == len(n.Lhs) {
						if cl, ok := ast.Unparen(n.Rhs[i]).(*ast.CompositeLit); ok {
							lit = cl
						} else {
							other = true
						}
					} else if x.info.Uses[lid] == types.Object(obj) {
						other = true
					}
				}
			case *ast.ValueSpec:
				for i, nm := range n.Names {
					if x.info.Defs[nm] == types.Object(obj) {
						if i < len(n.Values) {
							if cl, ok := ast.Unparen(n.Values[i]).(*ast.CompositeLit); ok {
								lit = cl
								continue
							}
						}
						other = true
					}
				}
			case *ast.UnaryExpr:
				if n.Op == token.AND {
					if xid, ok := ast.Unparen(n.X).(*ast.Ident); ok && x.info.Uses[xid] == types.Object(obj) {
						other = true
					}
				}
			}
			return true
		})
	}
	if other || lit == nil {
		return nil
	}
	switch x.info.TypeOf(lit).Underlying().(type) {
	case *types.Slice, *types.Array:
		return lit
	}
	return nil
}

func (x *wireExtractor) carryOf(e ast.Expr) string {
	e = ast.Unparen(e)
	switch e := e.(type) {
	case *ast.UnaryExpr:
		if e.Op == token.AND {
			return x.carryOf(e.X) // binary.Write/Read take pointers as well
		}
	case *ast.StarExpr:
		// *f.dst with f.dst standing for &rv.field (a table of destinations)
		if r := x.unsubst(e.X); r != e.X {
			return x.carryOf(r)
		}
	case *ast.SelectorExpr:
		if sel := x.info.Selections[e]; sel != nil && sel.Kind() == types.FieldVal {
			// owner type name . field
			recv := sel.Recv()
			if p, ok := recv.(*types.Pointer); ok {
				recv = p.Elem()
			}
			if n, ok := recv.(*types.Named); ok {
				if k := x.forwardedConst(n.Obj().Name(), e.Sel.Name); k != "" {
					return k
				}
				return n.Obj().Name() + "." + e.Sel.Name
			}
			return e.Sel.Name
		}
	case *ast.Ident:
		if k, ok := x.info.Uses[e].(*types.Const); ok && k.Parent() == k.Pkg().Scope() {
			return "const " + k.Name()
		}
		if r := x.unsubst(e); r != ast.Expr(e) {
			return x.carryOf(r)
		}
		// a local that is defined once as (an append to) a field stands for that field:
		// offsets := c.offsets; final := append(c.final, …)
		if d := x.singleDef(e); d != nil {
			if call, ok := ast.Unparen(d).(*ast.CallExpr); ok {
				if id, ok := ast.Unparen(call.Fun).(*ast.Ident); ok && id.Name == "append" && len(call.Args) > 0 {
					d = call.Args[0]
				}
			}
			if _, ok := ast.Unparen(d).(*ast.SelectorExpr); ok {
				return x.carryOf(d)
			}
		}
	case *ast.CallExpr:
		// conversions uint64(x)
		if tv, ok := x.info.Types[e.Fun]; ok && tv.IsType() && len(e.Args) == 1 {
			return x.carryOf(e.Args[0])
		}
		// len(x)
		if id, ok := e.Fun.(*ast.Ident); ok && id.Name == "len" && len(e.Args) == 1 {
			if c := x.carryOf(e.Args[0]); c != "" {
				return "len " + c
			}
			return "len"
		}
	case *ast.IndexExpr:
		if c := x.carryOf(e.X); c != "" {
			return c + "[]"
		}
	}
	return ""
}

func (x *wireExtractor) calleeOf(call *ast.CallExpr) (*types.Func, string) {
	var id *ast.Ident
	switch f := ast.Unparen(call.Fun).(type) {
	case *ast.Ident:
		id = f
	case *ast.SelectorExpr:
		id = f.Sel
	}
	if id == nil {
		return nil, ""
	}
	fn, _ := x.info.Uses[id].(*types.Func)
	if fn == nil {
		return nil, ""
	}
	full := fn.Name()
	if fn.Pkg() != nil {
		full = fn.Pkg().Path() + "." + fn.Name()
	}
	if sig, ok := fn.Type().(*types.Signature); ok && sig.Recv() != nil {
		full = fn.Pkg().Path() + "." + types.TypeString(sig.Recv().Type(), func(*types.Package) string { return "" }) + "." + fn.Name()
	}
	return fn, full
}

func (x *wireExtractor) isBigEndian(e ast.Expr) bool {
	e = ast.Unparen(e)
	// binary.BigEndian  or  binary.BigEndian.PutUint64 receiver
	if se, ok := e.(*ast.SelectorExpr); ok {
		if v, ok := x.info.Uses[se.Sel].(*types.Var); ok && v.Pkg() != nil && v.Pkg().Path() == "encoding/binary" && v.Name() == "BigEndian" {
			return true
		}
	}
	return false
}

func exprStr(e ast.Expr) string { return types.ExprString(e) }

// expr extracts primitives from an expression (calls in evaluation order).
func (x *wireExtractor) expr(e ast.Expr) []wireItem {
	var out []wireItem
	ast.Inspect(e, func(n ast.Node) bool {
		switch n := n.(type) {
		case *ast.FuncLit:
			return false
		case *ast.CallExpr:
			// arguments first (evaluation order), then the call itself
			bindsBuffers := false
			if cf, _ := x.calleeOf(n); cf != nil && cf.Pkg() == x.c.Root.Types && x.hasBufferBuilderArg(n) && !wireBoundary[declName(cf)] {
				bindsBuffers = true // the buffer a helper builds is emitted where the callee writes it
			}
			for _, a := range n.Args {
				if bindsBuffers && x.bufferBuilderCall(a) != nil {
					continue
				}
				out = append(out, x.expr(a)...)
			}
			if se, ok := ast.Unparen(n.Fun).(*ast.SelectorExpr); ok {
				out = append(out, x.expr(se.X)...)
			}
			out = append(out, x.call(n)...)
			return false
		}
		return true
	})
	return out
}

func (x *wireExtractor) call(call *ast.CallExpr) []wireItem {
	fn, full := x.calleeOf(call)
	if fn == nil {
		// a local function literal (emit := func(piece []byte) error { … c.w.Write(piece) … }):
		// its body with the parameters standing for the arguments of this call
		if lit := x.localFuncLit(call.Fun); lit != nil && x.depth <= 4 && len(lit.Type.Params.List) > 0 {
			var params []*ast.Ident
			for _, f := range lit.Type.Params.List {
				params = append(params, f.Names...)
			}
			if len(params) == len(call.Args) {
				if x.subst == nil {
					x.subst = map[types.Object]ast.Expr{}
				}
				saved := map[types.Object]ast.Expr{}
				for i, p := range params {
					if obj := x.info.Defs[p]; obj != nil {
						if old, ok := x.subst[obj]; ok {
							saved[obj] = old
						}
						x.subst[obj] = x.unsubst(call.Args[i])
					}
				}
				x.depth++
				items := x.block(lit.Body.List)
				x.depth--
				for _, p := range params {
					if obj := x.info.Defs[p]; obj != nil {
						if old, ok := saved[obj]; ok {
							x.subst[obj] = old
						} else {
							delete(x.subst, obj)
						}
					}
				}
				return items
			}
		}
		return nil
	}
	at := call.Pos()
	mk := func(kind string, carry string) []wireItem {
		return []wireItem{{Kind: kind, Carry: carry, pos: at}}
	}
	if x.mode == "w" {
		switch {
		case full == "encoding/binary.Write" && len(call.Args) == 3:
			if !x.isBigEndian(call.Args[1]) {
				x.problems = append(x.problems, "binary.Write with a byte order other than binary.BigEndian at "+x.c.pos(at))
				return mk("U??", "")
			}
			t := x.info.TypeOf(x.unsubst(call.Args[2]))
			kind := "BW:" + t.String()
			if p, ok := t.Underlying().(*types.Pointer); ok {
				t = p.Elem() // binary.Write writes what a pointer points to
			}
			if b, ok := t.Underlying().(*types.Basic); ok {
				switch b.Kind() {
				case types.Uint32:
					kind = "U32"
				case types.Uint64:
					kind = "U64"
				}
			}
			return mk(kind, x.carryOf(x.unsubst(call.Args[2])))
		case full == "encoding/binary.PutUvarint" && len(call.Args) == 2:
			x.markCarrier(call.Args[0])
			it := mk("UV", x.carryOf(call.Args[1]))
			it[0].buf = carrierName(call.Args[0])
			return it
		case strings.HasPrefix(full, "encoding/binary.") && strings.HasPrefix(fn.Name(), "PutUint") && len(call.Args) == 2:
			if se, ok := ast.Unparen(call.Fun).(*ast.SelectorExpr); ok && !x.isBigEndian(se.X) {
				x.problems = append(x.problems, "PutUint with a byte order other than binary.BigEndian at "+x.c.pos(at))
			}
			x.markCarrier(call.Args[0])
			it := mk("U"+strings.TrimPrefix(fn.Name(), "PutUint"), x.carryOf(call.Args[1]))
			it[0].buf = carrierName(call.Args[0])
			return it
		case fn.Name() == "Write" && len(call.Args) == 1 && fn.Type().(*types.Signature).Recv() != nil && isByteSlice(x.info.TypeOf(call.Args[0])):
			arg := ast.Unparen(x.unsubst(call.Args[0]))
			if x.isCarrier(arg) {
				return nil
			}
			if bf := x.bufferBuilderCall(arg); bf != nil {
				// the bytes were encoded by a helper that returns its buffer: what it put into it
				return x.sigOf(bf)
			}
			return mk("RAW", x.carryOf(arg))
		case full == rootPkgPath+".writeUvarints":
			var out []wireItem
			for _, a := range call.Args[1:] {
				out = append(out, wireItem{Kind: "UV", Carry: x.carryOf(a), pos: at})
			}
			return out
		}
	} else {
		switch {
		case full == "encoding/binary.Read" && len(call.Args) == 3:
			if !x.isBigEndian(call.Args[1]) {
				x.problems = append(x.problems, "binary.Read with a byte order other than binary.BigEndian at "+x.c.pos(at))
				return mk("U??", "")
			}
			dst := x.unsubst(call.Args[2])
			t := x.info.TypeOf(dst)
			kind := "BR:" + t.String()
			if p, ok := t.Underlying().(*types.Pointer); ok {
				if b, ok := p.Elem().Underlying().(*types.Basic); ok {
					switch b.Kind() {
					case types.Uint16:
						kind = "U16"
					case types.Uint32:
						kind = "U32"
					case types.Uint64:
						kind = "U64"
					}
				}
			}
			return mk(kind, x.carryOf(dst))
		case full == "encoding/binary.Uvarint":
			return mk("UV", "")
		case strings.HasPrefix(full, "encoding/binary.") && (fn.Name() == "Uint64" || fn.Name() == "Uint32" || fn.Name() == "Uint16"):
			if se, ok := ast.Unparen(call.Fun).(*ast.SelectorExpr); ok && !x.isBigEndian(se.X) {
				x.problems = append(x.problems, "Uint decode with a byte order other than binary.BigEndian at "+x.c.pos(at))
			}
			return mk("U"+strings.TrimPrefix(fn.Name(), "Uint"), "")
		case strings.HasSuffix(full, "bluge_segment_api.*Data.Read"):
			if x.rawReads[call] {
				return mk("RAW", "")
			}
			return nil
		case x.forwardsRead(call):
			// what the helper decodes itself before it hands on its last read, then that read
			var out []wireItem
			if fn.Pkg() == x.c.Root.Types && !wireBoundary[declName(fn)] {
				out = append(out, x.sigOf(fn)...)
			}
			if x.rawReads[call] {
				out = append(out, wireItem{Kind: "RAW", pos: at})
			}
			return out
		}
	}
	// inline in-package callees that are pure emitters/decoders of part of the caller's record
	if fn.Pkg() == x.c.Root.Types && !wireBoundary[declName(fn)] {
		var sub []wireItem
		if sig := fn.Type().(*types.Signature); sig.Variadic() && !call.Ellipsis.IsValid() && len(call.Args) >= sig.Params().Len()-1 && fn.Name() != "writeUvarints" {
			sub = x.sigWithVariadic(fn, call.Args[sig.Params().Len()-1:])
		} else if (x.hasOpaqueParam(sig) || x.hasBufferBuilderArg(call)) && len(call.Args) == sig.Params().Len() {
			sub = x.sigWithArgs(fn, call.Args)
		} else {
			sub = x.sigOf(fn)
		}
		// a scratch buffer filled by Put* and handed to a pure forwarding helper (signature: one RAW) is the carrier of that primitive
		if len(sub) == 1 && sub[0].Kind == "RAW" {
			for _, a := range call.Args {
				if isByteSlice(x.info.TypeOf(a)) && x.isCarrier(ast.Unparen(a)) {
					return nil
				}
			}
		}
		if len(sub) > 0 {
			return append([]wireItem{}, sub...)
		}
	}
	return nil
}

// wireBoundary: functions that own a record / section of their own (they have
// their own signature in the table) and are therefore NOT inlined into their
// callers.  Every other in-package callee — including helpers introduced by a
// refactoring — is inlined, so extracting a helper does not change a signature.
var wireBoundary = map[string]bool{
	"persistFooter": true, "persistFields": true, "writePostings": true,
	"(*interim).writeDictsField": true, "(*interim).writeDictsTermField": true, "writeMergedDict": true,
	"(*interim).writeDicts": true, "buildMergedDocVals": true,
	"(*chunkedDocumentCoder).Add": true, "(*chunkedDocumentCoder).Write": true, "(*chunkedDocumentCoder).flush": true,
	"(*chunkedDocumentCoder).newLine":      true,
	"(*chunkedContentCoder).flushContents": true, "(*chunkedContentCoder).Write": true, "(*chunkedContentCoder).Add": true,
	"(*chunkedContentCoder).Close": true,
	"(*interim).writeStoredFields": true, "mergeStoredAndRemap": true, "mergeStoredAndRemapSegment": true,
	"(*chunkedIntCoder).Add": true, "(*chunkedIntCoder).Close": true,
	"persistMergedRest": true, "persistMergedRestField": true, "finishTerm": true, "prepareNewTerm": true,
	"mergeTermFreqNormLocs": true, "mergeToWriter": true, "(*interim).convert": true,
	// readers
	"parseFooter": true, "(*Segment).loadFields": true, "(*PostingsList).read": true, "newChunkedIntDecoder": true,
	"(*Segment).dictionary": true, "(*Segment).loadDvReaders": true, "(*Segment).copyStoredDocs": true,
	"(*Segment).loadStoredFieldChunk": true, "(*docValueReader).loadDvChunk": true,
	"(*Segment).loadFieldDocValueReader": true, "(*chunkedIntDecoder).loadChunk": true,
	"(*Dictionary).postingsListFromOffset": true, "(*Dictionary).postingsList": true, "(*PostingsList).iterator": true,
	"(*PostingsIterator).loadChunk": true, "(*docValueReader).iterateAllDocValues": true, "(*docValueReader).visitDocValues": true,
	"(*Segment).visitDocument": true, "(*Segment).visitDocumentFieldTerms": true, "load": true, "initSegmentBase": true,
	"(*Segment).getDocStoredMetaAndUnCompressed": true,
}

func carrierName(buf ast.Expr) string {
	buf = ast.Unparen(buf)
	if se, ok := buf.(*ast.SliceExpr); ok {
		buf = se.X
	}
	return exprStr(buf)
}

// dropUnwritten removes Put* primitives whose scratch buffer is never handed
// to a call in body (other than append/copy/len/cap and the Put* calls
// themselves): such a primitive builds an in-memory record (appended to a
// slice that is written elsewhere as raw bytes), it is not an emission of
// this function.
func (x *wireExtractor) dropUnwritten(items []wireItem, body *ast.BlockStmt) []wireItem {
	handed := map[string]bool{}
	ast.Inspect(body, func(n ast.Node) bool {
		if ret, isRet := n.(*ast.ReturnStmt); isRet {
			// the buffer is what the function returns: its caller writes it
			for _, res := range ret.Results {
				if t := x.info.TypeOf(res); t != nil && isByteSlice(t) {
					handed[carrierName(res)] = true
				}
			}
			return true
		}
		call, ok := n.(*ast.CallExpr)
		if !ok {
			return true
		}
		if id, ok := ast.Unparen(call.Fun).(*ast.Ident); ok {
			switch id.Name {
			case "append", "copy", "len", "cap":
				if _, isBuiltin := x.info.Uses[id].(*types.Builtin); isBuiltin {
					// append(c.acc, scratch[:n]...) into an accumulating byte-slice FIELD of an object
					// (or a local alias of one) plays the part of accBuffer.Write(scratch[:n])
					if id.Name == "append" && call.Ellipsis.IsValid() && len(call.Args) == 2 && x.isFieldAccumulator(call.Args[0], body) {
						handed[carrierName(call.Args[1])] = true
					}
					return true
				}
			}
		}
		if fn, full := x.calleeOf(call); fn != nil && strings.HasPrefix(full, "encoding/binary.") && strings.HasPrefix(fn.Name(), "Put") {
			return true
		}
		for _, a := range call.Args {
			handed[carrierName(a)] = true
		}
		return true
	})
	var filter func(in []wireItem) []wireItem
	filter = func(in []wireItem) []wireItem {
		var out []wireItem
		for _, it := range in {
			if it.buf != "" && !handed[it.buf] {
				continue
			}
			it.buf = "" // decided for this function; callers that inline the result must not decide again
			if len(it.Items) > 0 {
				it.Items = filter(it.Items)
				if len(it.Items) == 0 {
					continue
				}
			}
			out = append(out, it)
		}
		return out
	}
	return filter(items)
}

func (x *wireExtractor) markCarrier(buf ast.Expr) {
	buf = ast.Unparen(buf)
	if se, ok := buf.(*ast.SliceExpr); ok {
		buf = se.X
	}
	x.carrier[exprStr(buf)] = true
}

func (x *wireExtractor) isCarrier(arg ast.Expr) bool {
	if se, ok := arg.(*ast.SliceExpr); ok {
		return x.carrier[exprStr(se.X)]
	}
	return x.carrier[exprStr(arg)]
}

// region helpers ------------------------------------------------------------

// loopsOf returns the top-level LOOP items of a signature.
func loopsOf(items []wireItem) [][]wireItem {
	var out [][]wireItem
	for _, it := range items {
		if it.Kind == "LOOP" {
			out = append(out, it.Items)
		}
	}
	return out
}

func flatten(items []wireItem) []wireItem {
	var out []wireItem
	for _, it := range items {
		if it.Kind == "LOOP" || it.Kind == "ALT" {
			out = append(out, flatten(it.Items)...)
		} else {
			out = append(out, it)
		}
	}
	return out
}

func reverseItems(items []wireItem) []wireItem {
	out := make([]wireItem, len(items))
	for i, it := range items {
		out[len(items)-1-i] = it
	}
	return out
}

func sigDump(c *Ctx) string {
	var b strings.Builder
	w := newWireExtractor(c, "w")
	r := newWireExtractor(c, "r")
	for _, n := range wireWriterFns {
		fmt.Fprintf(&b, "W %-45s %s\n", n, wireString(w.signature(n)))
	}
	for _, n := range wireReaderFns {
		fmt.Fprintf(&b, "R %-45s %s\n", n, wireString(r.signature(n)))
	}
	return b.String()
}

var wireWriterFns = []string{
	"persistFooter", "persistFields", "writePostings", "writeRoaringWithLen", "(*chunkedIntCoder).Write",
	"(*interim).writeDictsField", "writeMergedDict", "(*interim).writeDicts", "writeDvLocs",
	"(*chunkedDocumentCoder).Add", "(*chunkedDocumentCoder).Write", "(*chunkedDocumentCoder).flush",
	"(*chunkedContentCoder).flushContents", "(*chunkedContentCoder).Write",
	"(*interim).writeStoredFields", "mergeStoredAndRemap", "(*chunkedIntCoder).Add", "(*chunkedContentCoder).Add",
}

var wireReaderFns = []string{
	"parseFooter", "(*Segment).loadFields", "(*PostingsList).read", "newChunkedIntDecoder", "(*Segment).dictionary",
	"(*Segment).loadDvReaders", "(*Segment).getDocStoredOffsets", "(*Segment).getDocStoredOffsetsOnly",
	"(*Segment).copyStoredDocs", "(*Segment).loadStoredFieldChunk", "(*docValueReader).loadDvChunk",
	"(*Segment).loadFieldDocValueReader", "(*chunkedIntDecoder).loadChunk",
}

// forwardedConst: a writer that copies its record and pins one field to a
// package constant before emitting the copy (current := *footer;
// current.version = Version) emits that constant: when the function being
// extracted assigns a package-level constant to field `field` of a value of
// type `owner` - and assigns that field nothing else - the field carries the
// constant.
func (x *wireExtractor) forwardedConst(owner, field string) string {
	if x.mode != "w" || len(x.bodies) == 0 {
		return ""
	}
	found, other := "", false
	ast.Inspect(x.bodies[0], func(n ast.Node) bool {
		as, ok := n.(*ast.AssignStmt)
		if !ok || len(as.Lhs) != len(as.Rhs) {
			return true
		}
		for i, lhs := range as.Lhs {
			se, ok := ast.Unparen(lhs).(*ast.SelectorExpr)
			if !ok || se.Sel.Name != field {
				continue
			}
			sel := x.info.Selections[se]
			if sel == nil || sel.Kind() != types.FieldVal {
				continue
			}
			recv := sel.Recv()
			if p, ok := recv.(*types.Pointer); ok {
				recv = p.Elem()
			}
			if n, ok := recv.(*types.Named); !ok || n.Obj().Name() != owner {
				continue
			}
			if id, ok := ast.Unparen(as.Rhs[i]).(*ast.Ident); ok {
				if k, ok := x.info.Uses[id].(*types.Const); ok && k.Parent() == k.Pkg().Scope() {
					found = "const " + k.Name()
					continue
				}
			}
			other = true
		}
		return true
	})
	if other {
		return ""
	}
	return found
}

// localFuncLit: fun is a local variable that is defined once, by a function
// literal, in one of the functions being extracted: that literal.
func (x *wireExtractor) localFuncLit(fun ast.Expr) *ast.FuncLit {
	id, ok := ast.Unparen(fun).(*ast.Ident)
	if !ok {
		return nil
	}
	obj, ok := x.info.Uses[id].(*types.Var)
	if !ok || obj.Pkg() == nil || obj.Parent() == obj.Pkg().Scope() {
		return nil
	}
	var lit *ast.FuncLit
	n := 0
	for _, body := range x.bodies {
		ast.Inspect(body, func(nd ast.Node) bool {
			switch s := nd.(type) {
			case *ast.AssignStmt:
				for i, lhs := range s.Lhs {
					lid, ok := ast.Unparen(lhs).(*ast.Ident)
					if !ok || i >= len(s.Rhs) {
						continue
					}
					if x.info.Defs[lid] == types.Object(obj) || x.info.Uses[lid] == types.Object(obj) {
						n++
						if fl, ok := ast.Unparen(s.Rhs[i]).(*ast.FuncLit); ok {
							lit = fl
						} else {
							lit = nil
							n++
						}
					}
				}
			case *ast.ValueSpec:
				for i, nm := range s.Names {
					if x.info.Defs[nm] == types.Object(obj) && i < len(s.Values) {
						n++
						if fl, ok := ast.Unparen(s.Values[i]).(*ast.FuncLit); ok {
							lit = fl
						}
					}
				}
			}
			return true
		})
	}
	if n != 1 {
		return nil
	}
	return lit
}

// hasOpaqueParam: the helper takes a value whose wire width is only known at
// the call (an interface{} handed on to binary.Write/Read).
func (x *wireExtractor) hasOpaqueParam(sig *types.Signature) bool {
	for i := 0; i < sig.Params().Len(); i++ {
		if it, ok := sig.Params().At(i).Type().Underlying().(*types.Interface); ok && it.NumMethods() == 0 {
			return true
		}
	}
	return false
}

// sigWithArgs: the signature of obj's body with its empty-interface
// parameters standing for the arguments of one call (not cached).
func (x *wireExtractor) sigWithArgs(obj *types.Func, args []ast.Expr) []wireItem {
	if x.active[obj] || x.depth > 4 {
		return nil
	}
	decl := x.c.declOf[obj]
	sig := obj.Type().(*types.Signature)
	if decl == nil || decl.Body == nil {
		return nil
	}
	if x.subst == nil {
		x.subst = map[types.Object]ast.Expr{}
	}
	var bound []types.Object
	anyBuilder := false
	for _, a := range args {
		if x.bufferBuilderCall(a) != nil {
			anyBuilder = true
		}
	}
	for i := 0; i < sig.Params().Len(); i++ {
		p := sig.Params().At(i)
		if it, ok := p.Type().Underlying().(*types.Interface); ok && it.NumMethods() == 0 {
			if _, taken := x.subst[p]; !taken {
				x.subst[p] = x.unsubst(args[i])
				bound = append(bound, p)
			}
		}
		// a []byte parameter handed the result of an in-package function that builds a buffer
		// (and, then, the other []byte parameters as well: what is written keeps its name)
		if isByteSlice(p.Type()) && i < len(args) && (x.bufferBuilderCall(args[i]) != nil || anyBuilder) {
			if _, taken := x.subst[p]; !taken {
				x.subst[p] = x.unsubst(args[i])
				bound = append(bound, p)
			}
		}
	}
	defer func() {
		for _, p := range bound {
			delete(x.subst, p)
		}
	}()
	x.active[obj] = true
	x.depth++
	saved := x.carrier
	x.carrier = map[string]bool{}
	savedRaw := x.rawReads
	x.rawReads = x.undecodedReads(decl.Body)
	defer func() { x.rawReads = savedRaw }()
	x.bodies = append(x.bodies, decl.Body)
	items := x.block(decl.Body.List)
	x.bodies = x.bodies[:len(x.bodies)-1]
	if x.mode == "w" {
		items = x.dropUnwritten(items, decl.Body)
	}
	x.carrier = saved
	x.depth--
	delete(x.active, obj)
	return items
}

// isFieldAccumulator: e is a []byte field selected from some object, or a
// local variable that is initialised from such a field in body.
func (x *wireExtractor) isFieldAccumulator(e ast.Expr, body *ast.BlockStmt) bool {
	isField := func(e ast.Expr) bool {
		se, ok := ast.Unparen(e).(*ast.SelectorExpr)
		if !ok {
			return false
		}
		sel := x.info.Selections[se]
		return sel != nil && sel.Kind() == types.FieldVal && isByteSlice(sel.Type())
	}
	if isField(e) {
		return true
	}
	id, ok := ast.Unparen(e).(*ast.Ident)
	if !ok {
		return false
	}
	obj := x.info.Uses[id]
	found := false
	ast.Inspect(body, func(n ast.Node) bool {
		as, ok := n.(*ast.AssignStmt)
		if !ok || len(as.Lhs) != len(as.Rhs) {
			return true
		}
		for i, lhs := range as.Lhs {
			if lid, ok := ast.Unparen(lhs).(*ast.Ident); ok && x.info.Defs[lid] == obj && obj != nil && isField(as.Rhs[i]) {
				found = true
			}
		}
		return true
	})
	return found
}

// singleDef: id is a local variable with exactly one defining assignment
// (`id := e` or `var id = e`) in the functions being extracted and no other
// plain assignment: e.
func (x *wireExtractor) singleDef(id *ast.Ident) ast.Expr {
	obj, ok := x.info.Uses[id].(*types.Var)
	if !ok || obj.Pkg() == nil || obj.Parent() == obj.Pkg().Scope() || obj.IsField() {
		return nil
	}
	var def ast.Expr
	n := 0
	for _, body := range x.bodies {
		ast.Inspect(body, func(nd ast.Node) bool {
			switch s := nd.(type) {
			case *ast.AssignStmt:
				for i, lhs := range s.Lhs {
					lid, ok := ast.Unparen(lhs).(*ast.Ident)
					if !ok {
						continue
					}
					if x.info.Defs[lid] == types.Object(obj) || x.info.Uses[lid] == types.Object(obj) {
						n++
						if len(s.Lhs) == len(s.Rhs) {
							def = s.Rhs[i]
						} else {
							def = nil
							n++
						}
					}
				}
			case *ast.ValueSpec:
				for i, nm := range s.Names {
					if x.info.Defs[nm] == types.Object(obj) {
						n++
						if i < len(s.Values) {
							def = s.Values[i]
						}
					}
				}
			}
			return true
		})
	}
	if n != 1 {
		return nil
	}
	return def
}

// bufferBuilderCall: e is a call of an in-package function (no writer among its
// parameters) whose only result is a []byte: the function, else nil.
func (x *wireExtractor) bufferBuilderCall(e ast.Expr) *types.Func {
	call, ok := ast.Unparen(e).(*ast.CallExpr)
	if !ok {
		return nil
	}
	fn, _ := x.calleeOf(call)
	if fn == nil || fn.Pkg() != x.c.Root.Types || x.c.declOf[fn] == nil {
		return nil
	}
	sig := fn.Type().(*types.Signature)
	if sig.Results().Len() != 1 || !isByteSlice(sig.Results().At(0).Type()) {
		return nil
	}
	for i := 0; i < sig.Params().Len(); i++ {
		if isWriterLike(sig.Params().At(i).Type()) {
			return nil
		}
	}
	return fn
}

func (x *wireExtractor) hasBufferBuilderArg(call *ast.CallExpr) bool {
	for _, a := range call.Args {
		if x.bufferBuilderCall(a) != nil {
			return true
		}
	}
	return false
}
