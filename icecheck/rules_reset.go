package main

// C13 / C14 — reset completeness of reused and pooled objects.

import (
	"fmt"
	"go/token"
	"go/types"
	"sort"
	"strings"

	"golang.org/x/tools/go/ssa"
)

// targetOf finds, in fn, the SSA value(s) denoting "the object being
// re-initialised": parameter idx and every phi it flows into.
func targetsOf(fn *ssa.Function, idx int) map[ssa.Value]bool {
	out := map[ssa.Value]bool{fn.Params[idx]: true}
	changed := true
	for changed {
		changed = false
		for _, b := range fn.Blocks {
			for _, ins := range b.Instrs {
				phi, ok := ins.(*ssa.Phi)
				if !ok || out[phi] {
					continue
				}
				for _, e := range phi.Edges {
					if out[e] {
						out[phi] = true
						changed = true
					}
				}
			}
		}
	}
	return out
}

var sanitiserNames = map[string]bool{"reset": true, "Reset": true, "Clear": true}

type fieldEvent struct {
	kind string // "store", "reset-call", "zero-loop"
	ins  ssa.Instruction
	val  ssa.Value
}

// fieldEvents collects, per field of the target object, the instructions in fn
// that re-establish it.
func fieldEvents(fn *ssa.Function, targets map[ssa.Value]bool) map[string][]fieldEvent {
	out := map[string][]fieldEvent{}
	isTargetField := func(v ssa.Value) (string, bool) {
		fa, ok := v.(*ssa.FieldAddr)
		if !ok {
			return "", false
		}
		if !targets[fa.X] {
			// a field of a struct that the target holds by value (state grouped into an
			// embedded / named sub-struct): it counts as a field of the target
			if outer, ok := fa.X.(*ssa.FieldAddr); ok && targets[outer.X] {
				if _, f := fieldAddrInfo(fa); f != nil {
					return f.Name(), true
				}
			}
			return "", false
		}
		_, f := fieldAddrInfo(fa)
		if f == nil {
			return "", false
		}
		return f.Name(), true
	}
	// subStructOf: v is the address of a struct the target holds by value
	subStructOf := func(v ssa.Value) (string, *types.Struct, bool) {
		fa, ok := v.(*ssa.FieldAddr)
		if !ok || !targets[fa.X] {
			return "", nil, false
		}
		_, f := fieldAddrInfo(fa)
		if f == nil {
			return "", nil, false
		}
		st, ok := f.Type().Underlying().(*types.Struct)
		if !ok {
			return "", nil, false
		}
		return f.Name(), st, true
	}
	for _, b := range fn.Blocks {
		for _, ins := range b.Instrs {
			switch x := ins.(type) {
			case *ssa.Store:
				if name, ok := isTargetField(x.Addr); ok {
					out[name] = append(out[name], fieldEvent{"store", ins, x.Val})
				}
				// element store into the container held by a field: s.F[i] = zero
				if ia, ok := x.Addr.(*ssa.IndexAddr); ok {
					if ld, ok := ia.X.(*ssa.UnOp); ok && ld.Op == token.MUL {
						if name, ok := isTargetField(ld.X); ok {
							out[name] = append(out[name], fieldEvent{"elem-store", ins, x.Val})
						}
					}
				}
			case ssa.CallInstruction:
				cc := x.Common()
				sc := cc.StaticCallee()
				// the target handed to an in-package helper: what the helper
				// re-establishes on every one of its paths counts at the call
				if sc != nil && sc.Pkg == fn.Pkg && sc.Blocks != nil && !sanitiserNames[sc.Name()] && fieldEventsDepth < 2 {
					for ai, a := range cc.Args {
						if ai >= len(sc.Params) {
							continue
						}
						if sub, st, isSub := subStructOf(a); isSub {
							// a method of the sub-struct: what it establishes counts under the same
							// names, and the sub-struct itself once all of its fields are covered
							est := mustEstablish(sc, ai)
							have := map[string]bool{}
							for _, name := range est {
								have[name] = true
								out[name] = append(out[name], fieldEvent{"store", ins, nil})
							}
							all := st.NumFields() > 0
							for i := 0; i < st.NumFields(); i++ {
								if !have[st.Field(i).Name()] {
									all = false
								}
							}
							if all {
								out[sub] = append(out[sub], fieldEvent{"store", ins, nil})
							}
							continue
						}
						if !targets[a] {
							continue
						}
						for _, name := range mustEstablish(sc, ai) {
							out[name] = append(out[name], fieldEvent{"store", ins, nil})
						}
					}
				}
				if sc == nil || len(cc.Args) == 0 || !sanitiserNames[sc.Name()] {
					continue
				}
				// Reset on the field's address (value field) or on the loaded pointer
				if name, ok := isTargetField(cc.Args[0]); ok {
					out[name] = append(out[name], fieldEvent{"reset-call", ins, nil})
				}
				if ld, ok := cc.Args[0].(*ssa.UnOp); ok && ld.Op == token.MUL {
					if name, ok := isTargetField(ld.X); ok {
						out[name] = append(out[name], fieldEvent{"reset-call", ins, nil})
					}
				}
			}
		}
	}
	return out
}

var fieldEventsDepth = 0

// mustEstablish: the fields of parameter pi's object that fn stores (or
// resets) on every path from its entry to each of its returns.
func mustEstablish(fn *ssa.Function, pi int) []string {
	fieldEventsDepth++
	defer func() { fieldEventsDepth-- }()
	ev := fieldEvents(fn, targetsOf(fn, pi))
	var out []string
	for name, evs := range ev {
		via := map[*ssa.BasicBlock]bool{}
		for _, e := range evs {
			if e.kind == "elem-store" {
				continue
			}
			via[e.ins.Block()] = true
			// Reset under a nil guard of the same pointer field: the nil branch needs no reset
			if e.kind == "reset-call" {
				if g := nilGuardBlock(e.ins); g != nil {
					via[g] = true
				}
			}
		}
		if len(via) == 0 {
			continue
		}
		all, nret := true, 0
		for _, b := range fn.Blocks {
			if ret, ok := b.Instrs[len(b.Instrs)-1].(*ssa.Return); ok {
				// a return that reports a failure does not count: the caller fails as well
				// (that it does is ERR-FLOW's business)
				if n := len(ret.Results); n > 0 && isErrorType(ret.Results[n-1].Type()) {
					ev := resolveLoad(ret.Results[n-1])
					if !isNilConst(ev) && (knownNonNilAt(ev, b) || nonNilErrorValue(ev)) {
						continue
					}
				}
				nret++
				if !coveredOnAllPaths(fn, via, b) {
					all = false
				}
			}
		}
		if all && nret > 0 {
			out = append(out, name)
		}
	}
	sort.Strings(out)
	return out
}

// fullRangeZeroLoop: fn contains `for i := range target.F { target.F[i] = <zero or sanitised> }`
// (loop bound is len of a load of the same field, index is the range index).
func fullRangeZeroLoop(fn *ssa.Function, targets map[ssa.Value]bool, field string) (bool, string) {
	fieldLoad := func(v ssa.Value) bool {
		ld, ok := v.(*ssa.UnOp)
		if !ok || ld.Op != token.MUL {
			return false
		}
		fa, ok := ld.X.(*ssa.FieldAddr)
		if !ok || !targets[fa.X] {
			return false
		}
		_, f := fieldAddrInfo(fa)
		return f != nil && f.Name() == field
	}
	for _, h := range fn.Blocks {
		if !isLoopHeader(h) {
			continue
		}
		ifi, ok := h.Instrs[len(h.Instrs)-1].(*ssa.If)
		if !ok {
			continue
		}
		bin, ok := ifi.Cond.(*ssa.BinOp)
		if !ok || bin.Op != token.LSS {
			continue
		}
		x, name, ok := lenOrCapOf(bin.Y)
		if !ok || name != "len" || !fieldLoad(x) {
			continue
		}
		// index: phi -1 then +1 (rangeindex) => bin.X is phi+1 ; or plain for i:=0
		idx := bin.X
		body := loopBody(h)
		for b := range body {
			for _, ins := range b.Instrs {
				switch s := ins.(type) {
				case *ssa.Store:
					ia, ok := s.Addr.(*ssa.IndexAddr)
					if ok && fieldLoad(ia.X) && ia.Index == idx {
						return true, "element store in a loop over the whole slice"
					}
				case *ssa.Call:
					// range value method call: idn.Clear() with idn = F[i]
					if sc := s.Call.StaticCallee(); sc != nil && sanitiserNames[sc.Name()] && len(s.Call.Args) > 0 {
						if ld, ok := s.Call.Args[0].(*ssa.UnOp); ok && ld.Op == token.MUL {
							if ia, ok := ld.X.(*ssa.IndexAddr); ok && ia.Index == idx {
								if fieldLoad(ia.X) || ia.X == x {
									return true, sc.Name() + "() on every element in a loop over the whole slice"
								}
							}
						}
					}
				}
			}
		}
	}
	return false, ""
}

// fullRangeZeroLoopDeep: the loop is in fn or in a helper fn hands the object to.
func fullRangeZeroLoopDeep(c *Ctx, fn *ssa.Function, targets map[ssa.Value]bool, field string, depth int) (bool, string) {
	if ok, how := fullRangeZeroLoop(fn, targets, field); ok {
		return true, how
	}
	if depth >= 2 {
		return false, ""
	}
	for _, b := range fn.Blocks {
		for _, ins := range b.Instrs {
			ci, ok := ins.(ssa.CallInstruction)
			if !ok {
				continue
			}
			sc := ci.Common().StaticCallee()
			if sc == nil || !c.inRoot(sc) || sc.Blocks == nil {
				continue
			}
			for ai, a := range ci.Common().Args {
				onTarget := targets[a]
				// a method of a struct the target holds by value (c.chunks.reset())
				if fa, isFA := a.(*ssa.FieldAddr); isFA && targets[fa.X] {
					onTarget = true
				}
				if onTarget && ai < len(sc.Params) {
					if ok, how := fullRangeZeroLoopDeep(c, sc, targetsOf(sc, ai), field, depth+1); ok {
						return true, how + " (in " + fnName(sc) + ")"
					}
				}
			}
		}
	}
	return false, ""
}

type resetSpec struct {
	typ     string
	fn      string
	target  int               // parameter index of the object being re-initialised
	mode    string            // "clear-restore" | "fieldwise"
	exempt  map[string]string // field -> reason (configuration set elsewhere / scratch written before read)
	entry   map[string]string // field -> function whose entry must assign it ("convert", "newWithChunkMode")
	zeroAll []string          // slice fields that must be zeroed over their whole range
	// classifyOnly: the function is not a reset function; every field must merely be re-established somewhere in it
	// (or be listed) — new carried fields of a pooled object are flagged until classified
	classifyOnly bool
}

var resetSpecs = []resetSpec{
	{typ: "PostingsList", fn: "(*Dictionary).postingsListInit", target: 1, mode: "clear-restore"},
	{typ: "PostingsIterator", fn: "(*PostingsList).iterator", target: 4, mode: "clear-restore",
		exempt: map[string]string{"buf": "scratch: never read by the iterator (kept only to retain an allocation)"}},
	{typ: "chunkedIntDecoder", fn: "(*chunkedIntDecoder).reset", target: 0, mode: "fieldwise"},
	{typ: "docValueReader", fn: "(*docValueReader).cloneInto", target: 1, mode: "fieldwise"},
	{typ: "chunkedIntCoder", fn: "(*chunkedIntCoder).Reset", target: 0, mode: "fieldwise", zeroAll: []string{"chunkLens"},
		exempt: map[string]string{
			"chunkSize":  "configuration: SetChunkSize is called for every term before the first Add",
			"buf":        "scratch: every use writes buf[:n] before reading it",
			"compressed": "scratch: overwritten by ZSTDCompress (dst[:0]) before being read",
		}},
	{typ: "chunkedContentCoder", fn: "(*chunkedContentCoder).Reset", target: 0, mode: "fieldwise", zeroAll: []string{"chunkLens"},
		exempt: map[string]string{
			"chunkSize":        "configuration fixed at construction",
			"w":                "configuration fixed at construction",
			"progressiveWrite": "configuration fixed at construction",
			"compressed":       "scratch: overwritten by ZSTDCompress (dst[:0]) before being read",
		}},
	{typ: "visitDocumentCtx", fn: "(*Segment).visitDocument", target: 1, mode: "fieldwise", classifyOnly: true,
		exempt: map[string]string{"buf": "scratch: the decompression destination, overwritten by ZSTDDecompress (dst[:0]) before it is read"}},
	{typ: "interim", fn: "(*interim).reset", target: 0, mode: "fieldwise", zeroAll: []string{"IncludeDocValues", "Postings"},
		exempt: map[string]string{},
		entry: map[string]string{
			"FieldDocs":  "(*interim).convert",
			"FieldFreqs": "(*interim).convert",
			"normCalc":   "newWithChunkMode",
		}},
}

func init() {
	register(&Rule{
		Name:  "RESET-COMPLETE",
		Floor: 40,
		Doc:   "for each reusable/pooled struct and its re-initialiser every field is re-established: clear-restore initialisers clear the whole struct and may restore only sanitised values (reset()/Clear() called on them, or re-sliced to [:0]) or listed scratch; field-wise initialisers store to / Reset every field, except listed configuration or scratch fields (each with its reason) and fields unconditionally assigned on entry of the constructor path; listed slices are zeroed over their whole range. A new field is a violation until classified",
		Run: func(c *Ctx, scope string, r *Report) {
			specs := append([]resetSpec{}, resetSpecs...)
			for si := 0; si < len(specs); si++ {
				sp := specs[si]
				fn := c.MustFn(sp.fn)
				st := c.StructOf(sp.typ)
				// the object being re-initialised is found by its type (a changed parameter
				// list must not move it); the recorded index decides between several
				var cands []int
				for pi, prm := range fn.Params {
					if n := namedOf(prm.Type()); n != nil && n.Obj().Name() == sp.typ {
						cands = append(cands, pi)
					}
				}
				switch {
				case len(cands) == 1:
					sp.target = cands[0]
				case sp.target < len(fn.Params):
				default:
					r.undecided(sp.fn+"/target", sp.fn, c.pos(fn.Pos()), "cannot tell which parameter of "+sp.fn+" is the "+sp.typ+" being re-initialised")
					continue
				}
				targets := targetsOf(fn, sp.target)
				ev := fieldEvents(fn, targets)
				switch sp.mode {
				case "clear-restore":
					// whole-struct clear
					findClear := func(fn *ssa.Function, targets map[ssa.Value]bool) *ssa.Store {
						var clear *ssa.Store
						for _, b := range fn.Blocks {
							for _, ins := range b.Instrs {
								if s, ok := ins.(*ssa.Store); ok && targets[s.Addr] {
									if k, ok := s.Val.(*ssa.Const); ok && k.Value == nil {
										clear = s
									}
								}
							}
						}
						return clear
					}
					clear := findClear(fn, targets)
					if clear == nil {
						// the clear-and-restore block extracted into a helper that is
						// handed the reused object: analyse the helper in its place
					search:
						for _, b := range fn.Blocks {
							for _, ins := range b.Instrs {
								ci, ok := ins.(ssa.CallInstruction)
								if !ok {
									continue
								}
								sc := ci.Common().StaticCallee()
								if sc == nil || !c.inRoot(sc) || sc.Blocks == nil {
									continue
								}
								for ai, a := range ci.Common().Args {
									if !targets[a] || ai >= len(sc.Params) {
										continue
									}
									t2 := targetsOf(sc, ai)
									if cl := findClear(sc, t2); cl != nil {
										fn, targets, clear = sc, t2, cl
										ev = fieldEvents(fn, targets)
										break search
									}
								}
							}
						}
					}
					if clear == nil {
						// `kept := T{restored fields...}; *rv = kept`: the whole object is overwritten
						// by a local literal - the literal is the cleared object, its fields the restores
						overwrite := func(f *ssa.Function, tg map[ssa.Value]bool) (*ssa.Store, *ssa.Alloc) {
							for _, b := range f.Blocks {
								for _, ins := range b.Instrs {
									if s, ok := ins.(*ssa.Store); ok && tg[s.Addr] {
										if ld, ok := s.Val.(*ssa.UnOp); ok && ld.Op == token.MUL {
											if al, ok := ld.X.(*ssa.Alloc); ok && !al.Heap {
												return s, al
											}
										}
									}
								}
							}
							return nil, nil
						}
						if st0, al := overwrite(fn, targets); st0 != nil {
							clear, targets = st0, map[ssa.Value]bool{al: true}
							ev = fieldEvents(fn, targets)
						} else {
						outer:
							for _, b := range fn.Blocks {
								for _, ins := range b.Instrs {
									ci, ok := ins.(ssa.CallInstruction)
									if !ok {
										continue
									}
									sc := ci.Common().StaticCallee()
									if sc == nil || !c.inRoot(sc) || sc.Blocks == nil {
										continue
									}
									for ai, a := range ci.Common().Args {
										if !targets[a] || ai >= len(sc.Params) {
											continue
										}
										if st0, al := overwrite(sc, targetsOf(sc, ai)); st0 != nil {
											fn, clear, targets = sc, st0, map[ssa.Value]bool{al: true}
											ev = fieldEvents(fn, targets)
											break outer
										}
									}
								}
							}
						}
					}
					key := sp.fn + "/clear"
					if clear == nil {
						// no whole-struct clear: the reuse may have become a field-by-field reset in a
						// helper that is handed the object - then every field has to be re-established there
						var helper *ssa.Function
						hidx, best := 0, 0
						for _, b := range fn.Blocks {
							for _, ins := range b.Instrs {
								ci, ok := ins.(ssa.CallInstruction)
								if !ok {
									continue
								}
								sc := ci.Common().StaticCallee()
								if sc == nil || !c.inRoot(sc) || sc.Blocks == nil {
									continue
								}
								for ai, a := range ci.Common().Args {
									if !targets[a] || ai >= len(sc.Params) {
										continue
									}
									if n := len(fieldEvents(sc, targetsOf(sc, ai))); n > best {
										helper, hidx, best = sc, ai, n
									}
								}
							}
						}
						if helper != nil && 2*best >= st.NumFields() {
							specs = append(specs, resetSpec{typ: sp.typ, fn: fnName(helper), target: hidx, mode: "fieldwise", exempt: sp.exempt})
							r.ok(key, sp.fn, c.pos(fn.Pos()), "the reused "+sp.typ+" is reset field by field in "+fnName(helper)+" (checked there)")
							continue
						}
						r.bad(key, sp.fn, c.pos(fn.Pos()), "reused "+sp.typ+" is not cleared as a whole (*rv = "+sp.typ+"{}): every field not explicitly restored would carry over")
						continue
					}
					r.ok(key, sp.fn, c.pos(clear.Pos()), "whole-struct clear of the reused "+sp.typ)
					// fields sanitised by helper methods called on the target before the clear
					helperSan := map[string]string{}
					for _, b := range fn.Blocks {
						for _, ins := range b.Instrs {
							ci, ok := ins.(ssa.CallInstruction)
							if !ok || !before(ins, clear) {
								continue
							}
							sc := ci.Common().StaticCallee()
							if sc == nil || !c.inRoot(sc) || sc.Blocks == nil || len(ci.Common().Args) == 0 || !targets[ci.Common().Args[0]] {
								continue
							}
							for f, evs := range fieldEvents(sc, targetsOf(sc, 0)) {
								for _, e := range evs {
									if e.kind == "reset-call" {
										helperSan[f] = fnName(sc)
									}
								}
							}
						}
					}
					for i := 0; i < st.NumFields(); i++ {
						f := st.Field(i).Name()
						key := sp.fn + "/" + f
						var restores []fieldEvent
						for _, e := range ev[f] {
							if e.kind == "store" && before(clear, e.ins) && isRestoreOfOld(e.val, targets, f, clear) {
								restores = append(restores, e)
							}
						}
						if len(restores) == 0 {
							r.ok(key, sp.fn, c.pos(clear.Pos()), "zeroed by the whole-struct clear (not restored from the old value)")
							continue
						}
						if why, ok := sp.exempt[f]; ok {
							r.ok(key, sp.fn, c.pos(restores[0].ins.Pos()), "restored unsanitised, listed: "+why)
							continue
						}
						if how, ok := sanitised(fn, restores[0].val, clear); ok {
							r.ok(key, sp.fn, c.pos(restores[0].ins.Pos()), "restored after sanitising: "+how)
						} else if h, ok := helperSan[f]; ok {
							r.ok(key, sp.fn, c.pos(restores[0].ins.Pos()), "restored after sanitising in helper "+h)
						} else {
							r.bad(key, sp.fn, c.pos(restores[0].ins.Pos()), "field "+f+" of the reused "+sp.typ+" is restored from its previous value without being sanitised (no reset()/Clear() on it, not re-sliced to [:0]): state of the previous use carries over")
						}
					}
				case "fieldwise":
					for i := 0; i < st.NumFields(); i++ {
						f := st.Field(i).Name()
						key := sp.fn + "/" + f
						if why, ok := sp.exempt[f]; ok {
							r.ok(key, sp.fn, c.pos(fn.Pos()), "not reset, listed: "+why)
							continue
						}
						if entryFn, ok := sp.entry[f]; ok {
							if assignedOnEntry(c, entryFn, sp.typ, f) {
								r.ok(key, sp.fn, c.pos(fn.Pos()), "not reset here; unconditionally assigned on entry of "+entryFn+" before any read")
							} else {
								r.bad(key, sp.fn, c.pos(fn.Pos()), "field "+f+" is neither reset nor unconditionally assigned on entry of "+entryFn)
							}
							continue
						}
						if len(ev[f]) == 0 && writeBeforeReadScratch(c, st.Field(i)) {
							r.ok(key, sp.fn, c.pos(fn.Pos()), "not reset: a fixed-size scratch array that every user fills (encoding/binary Put*, copy) before reading the filled part")
							continue
						}
						if len(ev[f]) == 0 {
							if how := establishedBeforeUse(c, st.Field(i)); how != "" {
								r.ok(key, sp.fn, c.pos(fn.Pos()), "not reset here; "+how)
								continue
							}
							r.bad(key, sp.fn, c.pos(fn.Pos()), "field "+f+" of "+sp.typ+" is not re-established by "+sp.fn+" (no store, no Reset): its value carries over to the next use")
							continue
						}
						// the re-establishing events must cover every path to every return
						dom := true
						inZero := false
						for _, z := range sp.zeroAll {
							if z == f {
								inZero = true
							}
						}
						evBlocks := map[*ssa.BasicBlock]bool{}
						for _, e := range ev[f] {
							if e.kind == "elem-store" && !inZero {
								continue
							}
							evBlocks[e.ins.Block()] = true
							// Reset under a nil guard of the same pointer field: the nil branch needs no reset
							if e.kind == "reset-call" {
								if g := nilGuardBlock(e.ins); g != nil {
									evBlocks[g] = true
								}
							}
						}
						if inZero {
							// an empty slice has nothing to zero: the loop header counts
							for _, e := range ev[f] {
								for b := e.ins.Block(); b != nil; b = b.Idom() {
									if isLoopHeader(b) {
										evBlocks[b] = true
										break
									}
								}
							}
						}
						for _, b := range fn.Blocks {
							if _, isRet := b.Instrs[len(b.Instrs)-1].(*ssa.Return); isRet && !sp.classifyOnly && !coveredOnAllPaths(fn, evBlocks, b) {
								dom = false
							}
						}
						if dom {
							r.ok(key, sp.fn, c.pos(ev[f][0].ins.Pos()), "re-established on every path ("+ev[f][0].kind+")")
						} else {
							r.bad(key, sp.fn, c.pos(ev[f][0].ins.Pos()), "field "+f+" is re-established only on some paths of "+sp.fn)
						}
					}
				}
				for _, f := range sp.zeroAll {
					key := sp.fn + "/zero-all-" + f
					if ok, how := fullRangeZeroLoopDeep(c, fn, targets, f, 0); ok {
						r.ok(key, sp.fn, c.pos(fn.Pos()), "retained elements of "+f+" are sanitised: "+how)
					} else if n, all := reExtensionSites(c, sp.typ, f); n > 0 && all {
						r.ok(key, sp.fn, c.pos(fn.Pos()), fmt.Sprintf("retained elements of %s are not cleared here but at each of the %d place(s) that re-extend the slice, over the whole new range", f, n))
					} else {
						r.bad(key, sp.fn, c.pos(fn.Pos()), "the retained elements of "+sp.typ+"."+f+" are not sanitised over the slice's whole range by "+sp.fn+" (they become visible again when the slice is re-extended)")
					}
				}
			}
			// docVisitState: re-cloned when the segment changes
			fn := c.MustFn("(*Segment).visitDocumentFieldTerms")
			key := "(*Segment).visitDocumentFieldTerms/segment-guard"
			okGuard := false
			// the guard sits in the function itself or in a helper method of the
			// same segment that it hands the visit state to
			guardFns := []*ssa.Function{fn}
			for _, callee := range staticCallees(fn) {
				if c.inRoot(callee) && callee.Blocks != nil && callee.Signature.Recv() != nil && len(callee.Params) > 0 && types.Identical(callee.Params[0].Type(), fn.Params[0].Type()) {
					guardFns = append(guardFns, callee)
				}
			}
			for _, gf := range guardFns {
				for _, b := range gf.Blocks {
					ifi, ok := b.Instrs[len(b.Instrs)-1].(*ssa.If)
					if !ok {
						continue
					}
					bin, ok := ifi.Cond.(*ssa.BinOp)
					if !ok || bin.Op != token.NEQ {
						continue
					}
					ld, ok := bin.X.(*ssa.UnOp)
					if !ok || !strings.HasSuffix(accessPath(ld.X), ".segment") || bin.Y != ssa.Value(gf.Params[0]) {
						continue
					}
					tb := b.Succs[0]
					setsSeg, clearsMap := false, false
					for _, ins := range tb.Instrs {
						if st, ok := ins.(*ssa.Store); ok {
							ap := accessPath(st.Addr)
							if strings.HasSuffix(ap, ".segment") && st.Val == ssa.Value(gf.Params[0]) {
								setsSeg = true
							}
							if strings.HasSuffix(ap, ".dvrs") && isNilConst(st.Val) {
								clearsMap = true
							}
						}
					}
					if setsSeg && clearsMap {
						okGuard = true
					}
				}
			}
			if !okGuard {
				// the comparison and the reset may sit in helper methods of the visit state
				// (matches(s) / rebind(s)): boolean execution with the atom "state.segment ==
				// a segment"; when it is false every path to a return that may report success
				// passes a block that records the segment and drops the cloned readers
				rebinds := func(f *ssa.Function) bool { // f stores .segment and nil into .dvrs on its only path
					if f == nil || f.Blocks == nil || len(f.Blocks) != 1 {
						return false
					}
					seg, mp := false, false
					for _, ins := range f.Blocks[0].Instrs {
						if st, ok := ins.(*ssa.Store); ok {
							ap := accessPath(st.Addr)
							if strings.HasSuffix(ap, ".segment") {
								seg = true
							}
							if strings.HasSuffix(ap, ".dvrs") && isNilConst(st.Val) {
								mp = true
							}
						}
					}
					return seg && mp
				}
				resetBlocks := map[*ssa.BasicBlock]bool{}
				for _, b := range fn.Blocks {
					seg, mp := false, false
					for _, ins := range b.Instrs {
						switch x := ins.(type) {
						case *ssa.Store:
							ap := accessPath(x.Addr)
							if strings.HasSuffix(ap, ".segment") {
								seg = true
							}
							if strings.HasSuffix(ap, ".dvrs") && isNilConst(x.Val) {
								mp = true
							}
						case *ssa.Call:
							if rebinds(x.Call.StaticCallee()) {
								seg, mp = true, true
							}
						}
					}
					if seg && mp {
						resetBlocks[b] = true
					}
				}
				atoms := func(v ssa.Value) (int, bool, bool) {
					bo, ok := v.(*ssa.BinOp)
					if !ok || (bo.Op != token.EQL && bo.Op != token.NEQ) {
						return 0, false, false
					}
					for _, side := range []ssa.Value{bo.X, bo.Y} {
						if ld, ok := side.(*ssa.UnOp); ok && ld.Op == token.MUL && strings.HasSuffix(accessPath(ld.X), ".segment") {
							return 0, bo.Op == token.NEQ, true
						}
					}
					return 0, false, false
				}
				if len(resetBlocks) > 0 {
					be := &boolExec{fn: fn, atoms: atoms, n: 1, inline: true}
					okGuard = true
					sawDiffer := false
					for _, b := range fn.Blocks {
						ret, isRet := b.Instrs[len(b.Instrs)-1].(*ssa.Return)
						if !isRet {
							continue
						}
						if n := len(ret.Results); n > 0 && isErrorType(ret.Results[n-1].Type()) && !isNilConst(resolveLoad(ret.Results[n-1])) {
							continue
						}
						// the state handed in was not nil: start after the nil test is not modelled; a fresh
						// state passes no reset block, which is right (nothing to forget)
						if be.pathAvoiding(fn.Blocks[0], b, resetBlocks, 0) {
							// reachable without a reset while the segments differ - unless that is the
							// "fresh state" path, on which the state is created in the function
							fresh := false
							for _, fb := range fn.Blocks {
								for _, ins := range fb.Instrs {
									if al, ok := ins.(*ssa.Alloc); ok && al.Heap && strings.Contains(al.Type().String(), "docVisitState") {
										fresh = true
										avoid := map[*ssa.BasicBlock]bool{fb: true}
										for k := range resetBlocks {
											avoid[k] = true
										}
										if be.pathAvoiding(fn.Blocks[0], b, avoid, 0) {
											okGuard = false
										}
									}
								}
							}
							if !fresh {
								okGuard = false
							}
						}
						if be.reachableUnder(b)[0] {
							sawDiffer = true
						}
					}
					if !sawDiffer {
						okGuard = false
					}
				}
			}
			if okGuard {
				r.ok(key, fnName(fn), c.pos(fn.Pos()), "dvs.segment != s resets the cloned readers and records the new segment")
			} else {
				r.bad(key, fnName(fn), c.pos(fn.Pos()), "the doc-value visit state is not reset (dvrs=nil, segment=s) when it is reused with a different segment")
			}
			// visitDocumentCtx.reader is Reset before it is read
			fn = c.MustFn("(*Segment).visitDocument")
			key = "(*Segment).visitDocument/reader-reset"
			var resetCall ssa.Instruction
			var reads []ssa.Instruction
			scanReader := func(f *ssa.Function) (rst ssa.Instruction, rds []ssa.Instruction) {
				for _, b := range f.Blocks {
					for _, ins := range b.Instrs {
						ci, ok := ins.(ssa.CallInstruction)
						if !ok {
							continue
						}
						for _, a := range ci.Common().Args {
							if strings.HasSuffix(accessPath(a), ".reader") || strings.HasSuffix(accessPath(stripMakeIface(a)), ".reader") {
								if sc := ci.Common().StaticCallee(); sc != nil && sc.Name() == "Reset" {
									rst = ins
								} else {
									rds = append(rds, ins)
								}
							}
						}
					}
				}
				return
			}
			resetCall, reads = scanReader(fn)
			if len(reads) == 0 {
				// the record walk extracted into a helper that is handed the context: the Reset is
				// there before the reads, or here before the call
				for _, b := range fn.Blocks {
					for _, ins := range b.Instrs {
						call, ok := ins.(*ssa.Call)
						if !ok || call.Call.StaticCallee() == nil || !c.inRoot(call.Call.StaticCallee()) || call.Call.StaticCallee().Blocks == nil {
							continue
						}
						hr, hrd := scanReader(call.Call.StaticCallee())
						if len(hrd) == 0 {
							continue
						}
						if hr != nil {
							resetCall, reads = hr, hrd
						} else if resetCall != nil && before(resetCall, call) {
							reads = []ssa.Instruction{call}
						} else {
							reads = hrd
						}
					}
				}
			}
			// a context without a reader field (the record is walked as a byte slice) has nothing to reset
			hasReader := false
			if stv, ok := c.NamedType("visitDocumentCtx").Underlying().(*types.Struct); ok {
				for i := 0; i < stv.NumFields(); i++ {
					if stv.Field(i).Name() == "reader" {
						hasReader = true
					}
				}
			}
			if !hasReader {
				r.ok(key, fnName(fn), c.pos(fn.Pos()), "the pooled context holds no reader: the record is decoded from the slices returned for this document")
				return
			}
			okR := resetCall != nil && len(reads) > 0
			for _, rd := range reads {
				if resetCall == nil || !before(resetCall, rd) {
					okR = false
				}
			}
			if okR {
				r.ok(key, fnName(fn), c.pos(resetCall.Pos()), fmt.Sprintf("reader.Reset dominates its %d reads", len(reads)))
			} else {
				r.bad(key, fnName(fn), c.pos(fn.Pos()), "the pooled context's reader is read without a dominating Reset onto the current document")
			}
		},
	})

	register(&Rule{
		Name:  "CACHE-COHERENT",
		Floor: 6,
		Doc:   "whenever a chunk loader returns success it has re-established every field that caches data of the current chunk (docValueReader: curChunkNum, curChunkHeader, curChunkData, uncompressed; chunkedIntDecoder: curChunkBytes, r, uncompressed; PostingsIterator.loadChunk: currChunk): a reader kept across lookups can never combine the key of one chunk with data of another",
		Run: func(c *Ctx, scope string, r *Report) {
			specs := []struct {
				fn     string
				fields []string
			}{
				{"(*docValueReader).loadDvChunk", []string{"curChunkNum", "curChunkHeader", "curChunkData", "uncompressed"}},
				{"(*chunkedIntDecoder).loadChunk", []string{"curChunkBytes", "r"}},
				{"(*PostingsIterator).loadChunk", []string{"currChunk"}},
			}
			for _, sp := range specs {
				fn := c.MustFn(sp.fn)
				targets := targetsOf(fn, 0)
				ev := fieldEvents(fn, targets)
				for _, b := range fn.Blocks {
					ret, ok := b.Instrs[len(b.Instrs)-1].(*ssa.Return)
					if !ok || !isNilConst(resolveLoad(ret.Results[len(ret.Results)-1])) {
						continue
					}
					// a cache hit: the return is reached only over the edge on which the key field equals the
					// requested chunk, and nothing of the cached state was written on the way - the loader
					// has nothing to re-establish
					hit := cacheHitReturn(fn, targets, b)
					if hit {
						for _, f := range sp.fields {
							for _, e := range ev[f] {
								if e.ins.Block() == b || blockReaches(e.ins.Block(), b) {
									hit = false
								}
							}
						}
					}
					for _, f := range sp.fields {
						key := sp.fn + "/" + f + "@" + blockDesc(b)
						if hit {
							r.ok(key, sp.fn, c.pos(retPos(ret, b)), "cache hit (key == requested chunk, nothing of the cached chunk written on the way): ."+f+" stays as established")
							continue
						}
						// exception: loaders with an early "nothing encoded" exit that installs an empty reader
						evBlocks := map[*ssa.BasicBlock]bool{}
						for _, e := range ev[f] {
							if e.kind == "elem-store" {
								continue
							}
							evBlocks[e.ins.Block()] = true
						}
						set := len(evBlocks) > 0 && coveredOnAllPaths(fn, evBlocks, b)
						if set {
							r.ok(key, sp.fn, c.pos(retPos(ret, b)), "."+f+" re-established before this successful return")
						} else if sp.fn == "(*chunkedIntDecoder).loadChunk" && f == "curChunkBytes" && earlyEmptyReader(b) {
							r.ok(key, sp.fn, c.pos(retPos(ret, b)), "not-encoded stream: an empty reader is installed (isNil() stays true, loadChunk is retried)")
						} else {
							r.bad(key, sp.fn, c.pos(retPos(ret, b)), "successful return without re-establishing ."+f+": the reader keeps that part of the previous chunk")
						}
					}
				}
			}
		},
	})

	register(&Rule{
		Name:  "RE-EXTENSION",
		Floor: 5,
		Doc:   "every place that re-slices a pooled slice field of the builder state upwards into retained capacity (s.F = s.F[:n] under cap(s.F) >= n) exposes only elements that are sanitised by a whole-range loop in reset(), sanitised at the site, or listed as overwritten-before-read with the reason; a new re-extension site is undecided until classified",
		Run: func(c *Ctx, scope string, r *Report) {
			reset := c.MustFn("(*interim).reset")
			rtargets := targetsOf(reset, 0)
			overwritten := map[string]string{
				"FreqNorms":        "prepareDicts assigns s.FreqNorms[pid] = backing[0:0] for every pid below the new length before any read",
				"Locs":             "prepareDicts assigns s.Locs[pid] = backing[0:0] for every pid below the new length before any read",
				"freqNormsBacking": "only appended to through the zero-length windows handed out to FreqNorms; reads are bounded by what was appended in this build",
				"locsBacking":      "only appended to through the zero-length windows handed out to Locs; reads are bounded by what was appended in this build",
			}
			it := c.NamedType("interim").Obj()
			for _, fn := range c.srcFns {
				for _, b := range fn.Blocks {
					for _, ins := range b.Instrs {
						st, ok := ins.(*ssa.Store)
						if !ok {
							continue
						}
						fa, ok := st.Addr.(*ssa.FieldAddr)
						if !ok {
							continue
						}
						owner, f := fieldAddrInfo(fa)
						if owner == nil || owner.Obj() != it {
							continue
						}
						if call, isCall := st.Val.(*ssa.Call); isCall {
							// s.F = helper(s.F, n) with a helper that re-slices its parameter upwards
							if sc := call.Call.StaticCallee(); sc != nil && c.inRoot(sc) && sc.Blocks != nil {
								for ai, a := range call.Call.Args {
									ld, ok := a.(*ssa.UnOp)
									if !ok || ld.Op != token.MUL || ai >= len(sc.Params) {
										continue
									}
									if fa2, ok := ld.X.(*ssa.FieldAddr); !ok || fa2.Field != fa.Field || accessPath(fa2.X) != accessPath(fa.X) {
										continue
									}
									ext := helperReExtends(sc, sc.Params[ai])
									if ext == nil {
										continue
									}
									key := fnName(fn) + "/" + f.Name()
									if ok, how := fullRangeZeroLoopDeep(c, reset, rtargets, f.Name(), 0); ok {
										r.ok(key, fnName(fn), c.pos(st.Pos()), "re-extension of "+f.Name()+" (in "+fnName(sc)+"): retained elements are sanitised in reset() ("+how+")")
									} else if helperClearsWhole(sc, ext) {
										r.ok(key, fnName(fn), c.pos(st.Pos()), "re-extension of "+f.Name()+": "+fnName(sc)+" clears every element of the re-extended slice before returning it")
									} else {
										r.undecided(key, fnName(fn), c.pos(st.Pos()), "pooled slice "+f.Name()+" is re-extended into retained capacity by "+fnName(sc)+" and nothing sanitises the exposed elements (no whole-range loop in reset(), the helper does not clear the re-extended range)")
									}
								}
							}
							continue
						}
						sl, ok := st.Val.(*ssa.Slice)
						if !ok || sl.High == nil {
							continue
						}
						// slice of a load of the same field
						ld, ok := sl.X.(*ssa.UnOp)
						if !ok || ld.Op != token.MUL {
							continue
						}
						fa2, ok := ld.X.(*ssa.FieldAddr)
						if !ok || fa2.Field != fa.Field {
							continue
						}
						if k, isK := constInt(sl.High); isK && k == 0 {
							continue // truncation
						}
						key := fnName(fn) + "/" + f.Name()
						name := f.Name()
						if ok, how := fullRangeZeroLoopDeep(c, reset, rtargets, name, 0); ok {
							r.ok(key, fnName(fn), c.pos(st.Pos()), "re-extension of "+name+": retained elements are sanitised in reset() ("+how+")")
							continue
						}
						if siteSanitised(b, st, fa) {
							r.ok(key, fnName(fn), c.pos(st.Pos()), "re-extension of "+name+": the exposed element is sanitised at the site")
							continue
						}
						if why, ok := overwritten[name]; ok {
							r.ok(key, fnName(fn), c.pos(st.Pos()), "re-extension of "+name+", listed as overwritten before read: "+why)
							continue
						}
						r.undecided(key, fnName(fn), c.pos(st.Pos()), "pooled slice "+name+" is re-extended into retained capacity and nothing sanitises the exposed elements (no whole-range loop in reset(), not sanitised here, not listed)")
					}
				}
			}
		},
	})

	register(&Rule{
		Name:  "ESCAPE-FRESH",
		Floor: 3,
		Doc:   "every field of the pooled builder state whose value escapes into the returned Segment (arguments of initSegmentBase) is re-established by nil or a fresh allocation — never by truncating or clearing in place — and the segment's bytes come from a function-local buffer: a later build cannot alias an earlier segment",
		Run: func(c *Ctx, scope string, r *Report) {
			isb := c.MustFn("initSegmentBase")
			it := c.NamedType("interim").Obj()
			nw := c.MustFn("newWithChunkMode")
			for _, site := range c.callsTo(isb) {
				fn := site.Parent()
				for i, a := range site.Common().Args {
					// a result of the builder (convert) that is itself a field of the pooled state -
					// also of a struct it holds by value: it stays reachable from the pool, so it must
					// only ever be given fresh tables
					if ex, isEx := a.(*ssa.Extract); isEx {
						if call, isCall := ex.Tuple.(*ssa.Call); isCall && call.Call.StaticCallee() != nil && c.inRoot(call.Call.StaticCallee()) && call.Call.StaticCallee().Blocks != nil {
							g := call.Call.StaticCallee()
							for _, gb := range g.Blocks {
								ret, isRet := gb.Instrs[len(gb.Instrs)-1].(*ssa.Return)
								if !isRet || ex.Index >= len(ret.Results) {
									continue
								}
								rl, isLd := resolveLoad(ret.Results[ex.Index]).(*ssa.UnOp)
								if !isLd || rl.Op != token.MUL {
									continue
								}
								rfa, isFA := rl.X.(*ssa.FieldAddr)
								if !isFA || len(g.Params) == 0 {
									continue
								}
								root := rfa.X
								for {
									inner, ok := root.(*ssa.FieldAddr)
									if !ok {
										break
									}
									root = inner.X
								}
								// (a receiver captured by a closure is spilled into a cell and loaded from it)
								if ld, isLd := root.(*ssa.UnOp); isLd && ld.Op == token.MUL {
									if cell, isCell := ld.X.(*ssa.Alloc); isCell && cell.Referrers() != nil {
										for _, ref := range *cell.Referrers() {
											if st, isSt := ref.(*ssa.Store); isSt && st.Addr == ssa.Value(cell) && st.Val == ssa.Value(g.Params[0]) {
												root = g.Params[0]
											}
										}
									}
								}
								if root != ssa.Value(g.Params[0]) || namedOf(g.Params[0].Type()) == nil || namedOf(g.Params[0].Type()).Obj() != it {
									continue
								}
								_, leaf := fieldAddrInfo(rfa)
								if leaf == nil {
									continue
								}
								key := fnName(fn) + "/escapes-result-" + leaf.Name()
								badStore := ""
								for _, hf := range c.srcFns {
									for _, hb := range hf.Blocks {
										for _, hi := range hb.Instrs {
											st, isSt := hi.(*ssa.Store)
											if !isSt {
												continue
											}
											sfa, isFA := st.Addr.(*ssa.FieldAddr)
											if !isFA {
												continue
											}
											if _, fv := fieldAddrInfo(sfa); fv != leaf {
												continue
											}
											switch v := st.Val.(type) {
											case *ssa.MakeSlice, *ssa.MakeMap:
											case *ssa.Const:
												if !v.IsNil() {
													badStore = c.pos(st.Pos())
												}
											default:
												badStore = c.pos(st.Pos())
											}
										}
									}
								}
								if badStore != "" {
									r.bad(key, fnName(fn), c.pos(site.Pos()), "the table ."+leaf.Name()+" of the pooled builder state is handed to the returned segment, and at "+badStore+" it is given something other than a fresh allocation: a later build can overwrite what the earlier segment still reads")
								} else {
									r.ok(key, fnName(fn), c.pos(site.Pos()), "the escaping table ."+leaf.Name()+" is only ever given a fresh allocation")
								}
							}
						}
						continue
					}
					ld, ok := a.(*ssa.UnOp)
					if !ok || ld.Op != token.MUL {
						// bytes argument
						if i == 0 {
							key := fnName(fn) + "/segment-bytes"
							if call, ok := a.(*ssa.Call); ok {
								if sc := call.Call.StaticCallee(); sc != nil && funcFullName(sc) == "bytes.(*Buffer).Bytes" {
									if _, isAlloc := call.Call.Args[0].(*ssa.Alloc); isAlloc {
										r.ok(key, fnName(fn), c.pos(site.Pos()), "the segment's bytes are Bytes() of a function-local buffer")
										continue
									}
								}
							}
							r.bad(key, fnName(fn), c.pos(site.Pos()), "the bytes handed to the segment do not come from a function-local buffer: "+a.String())
						}
						continue
					}
					fa, ok := ld.X.(*ssa.FieldAddr)
					if !ok {
						continue
					}
					owner, f := fieldAddrInfo(fa)
					if owner == nil || owner.Obj() != it {
						continue
					}
					key := fnName(fn) + "/escapes-" + f.Name()
					bad := ""
					fresh := false
					for _, st := range c.census().fieldStores[fieldKey{it, f.Name()}] {
						switch v := st.val.(type) {
						case *ssa.Const:
							if v.IsNil() {
								fresh = true
							}
						case *ssa.MakeMap, *ssa.MakeSlice:
							fresh = true
						case *ssa.Slice:
							bad = "re-established by re-slicing its previous value at " + c.pos(st.ins.Pos()) + " (keeps the backing array the earlier segment still uses)"
						case *ssa.Call:
							if bi, ok := v.Call.Value.(*ssa.Builtin); ok && bi.Name() == "append" {
								continue
							}
							bad = "assigned the result of " + calleeFullName(&v.Call) + " at " + c.pos(st.ins.Pos())
						default:
							bad = "assigned " + v.String() + " at " + c.pos(st.ins.Pos())
						}
					}
					// in-place clearing of escaping maps
					for _, st := range c.census().elemStores[fieldKey{it, f.Name()}] {
						if fnName(st.fn) == "(*interim).reset" {
							bad = "cleared in place in reset() at " + c.pos(st.ins.Pos())
						}
					}
					// delete(m, k) on the escaping map: the earlier segment's map is emptied
					for _, g := range c.srcFns {
						for _, gb := range g.Blocks {
							for _, gi := range gb.Instrs {
								call, ok := gi.(*ssa.Call)
								if !ok {
									continue
								}
								if bi, ok := call.Call.Value.(*ssa.Builtin); !ok || bi.Name() != "delete" {
									continue
								}
								if ld, ok := call.Call.Args[0].(*ssa.UnOp); ok && ld.Op == token.MUL {
									if fa2, ok := ld.X.(*ssa.FieldAddr); ok {
										if o2, f2 := fieldAddrInfo(fa2); o2 != nil && o2.Obj() == it && f2.Name() == f.Name() {
											bad = "emptied in place with delete() at " + c.pos(call.Pos()) + " (the map an earlier segment still holds)"
										}
									}
								}
							}
						}
					}
					// the fresh value must be established on EVERY path of one of the
					// re-establishing functions (reset / convert / newWithChunkMode),
					// not only when the field happens to be nil
					everyPath := false
					byFn := map[*ssa.Function]map[*ssa.BasicBlock]bool{}
					for _, st := range c.census().fieldStores[fieldKey{it, f.Name()}] {
						isFresh := false
						switch v := st.val.(type) {
						case *ssa.Const:
							isFresh = v.IsNil()
						case *ssa.MakeMap, *ssa.MakeSlice:
							isFresh = true
						}
						if isFresh {
							if byFn[st.fn] == nil {
								byFn[st.fn] = map[*ssa.BasicBlock]bool{}
							}
							byFn[st.fn][st.ins.Block()] = true
						}
					}
					for g, via := range byFn {
						all := true
						nret := 0
						for _, gb := range g.Blocks {
							if _, isRet := gb.Instrs[len(gb.Instrs)-1].(*ssa.Return); isRet {
								nret++
								if !coveredOnAllPaths(g, via, gb) {
									all = false
								}
							}
						}
						if all && nret > 0 {
							everyPath = true
						}
					}
					if bad == "" && fresh && !everyPath {
						bad = "given a fresh value only on some paths of the functions that re-establish it: a pooled builder can keep the map/slice an earlier segment still holds"
					}
					switch {
					case bad != "":
						r.bad(key, fnName(fn), c.pos(site.Pos()), "interim."+f.Name()+" escapes into the returned Segment but is "+bad)
					case !fresh:
						r.bad(key, fnName(fn), c.pos(site.Pos()), "interim."+f.Name()+" escapes into the returned Segment and is never reset to nil / a fresh allocation")
					default:
						r.ok(key, fnName(fn), c.pos(site.Pos()), "interim."+f.Name()+" escapes; every re-establishing store is nil or a fresh allocation")
					}
				}
			}
			_ = nw
		},
	})

	register(&Rule{
		Name:  "POOL-DISCIPLINE",
		Floor: 1,
		Doc:   "the builder state is returned to interimPool only on the edge where the build succeeded and reset() returned nil; never on an error path, never by a deferred Put",
		Run: func(c *Ctx, scope string, r *Report) {
			pool := c.Global("interimPool")
			reset := c.MustFn("(*interim).reset")
			n := 0
			for _, fn := range c.srcFns {
				for _, b := range fn.Blocks {
					for _, ins := range b.Instrs {
						ci, ok := ins.(ssa.CallInstruction)
						if !ok {
							continue
						}
						sc := ci.Common().StaticCallee()
						if sc == nil || funcFullName(sc) != "sync.(*Pool).Put" || ci.Common().Args[0] != ssa.Value(pool) {
							continue
						}
						n++
						key := fnName(fn) + "/interimPool.Put"
						if _, isDefer := ins.(*ssa.Defer); isDefer {
							r.bad(key, fnName(fn), c.pos(ins.Pos()), "deferred Put returns the builder state to the pool on failing builds too (not reset)")
							continue
						}
						// a thin helper that only hands its receiver/argument back (s.release()): what
						// counts is where the helper is called
						if len(fn.Blocks) == 1 && len(c.callsTo(fn)) > 0 {
							if _, isParam := stripMakeIface(ci.Common().Args[1]).(*ssa.Parameter); isParam {
								for _, hs := range c.callsTo(fn) {
									hkey := fnName(hs.Parent()) + "/interimPool.Put"
									if _, isDefer := hs.(*ssa.Defer); isDefer {
										r.bad(hkey, fnName(hs.Parent()), c.pos(hs.Pos()), "deferred "+fnName(fn)+" returns the builder state to the pool on failing builds (and on a panic of the norm function) too: not reset")
										continue
									}
									okR := false
									for _, site := range c.callsTo(reset) {
										if call, isCall := site.(*ssa.Call); isCall && call.Parent() == hs.Parent() && knownNilAt(call, hs.Block()) {
											okR = true
										}
									}
									if okR {
										r.ok(hkey, fnName(hs.Parent()), c.pos(hs.Pos()), fnName(fn)+" (Put) is dominated by reset() == nil")
									} else {
										r.bad(hkey, fnName(hs.Parent()), c.pos(hs.Pos()), "the builder state is returned to the pool (through "+fnName(fn)+") without a dominating successful reset()")
									}
								}
								continue
							}
						}
						// dominated by nil edge of reset() result and nil edge of the build error
						okReset := false
						for _, site := range c.callsTo(reset) {
							call, isCall := site.(*ssa.Call)
							if !isCall || call.Parent() != fn {
								continue
							}
							if knownNilAt(call, b) {
								okReset = true
							}
						}
						if okReset {
							r.ok(key, fnName(fn), c.pos(ins.Pos()), "Put is dominated by reset() == nil")
						} else {
							r.bad(key, fnName(fn), c.pos(ins.Pos()), "the builder state is returned to the pool without a dominating successful reset()")
						}
					}
				}
			}
			if n == 0 {
				r.ok("interimPool/never-put", "", "-", "the builder state is never pooled (nothing can carry over)")
			}
		},
	})

	register(&Rule{
		Name:  "CARRIED-ESTIMATE",
		Floor: 2,
		Doc:   "the only builder state that deliberately survives reset (lastNumDocs, lastOutSize, and the three tuning variables) flows only into the size hint of bytes.Buffer.Grow and the branch guarding it — never into written bytes",
		Run: func(c *Ctx, scope string, r *Report) {
			it := c.NamedType("interim").Obj()
			check := func(key, fname string, start ssa.Value) {
				seen := map[ssa.Value]bool{}
				var bad string
				var walk func(v ssa.Value)
				walk = func(v ssa.Value) {
					if seen[v] || v.Referrers() == nil {
						return
					}
					seen[v] = true
					for _, ref := range *v.Referrers() {
						switch x := ref.(type) {
						case *ssa.BinOp:
							walk(x)
						case *ssa.Convert:
							walk(x)
						case *ssa.UnOp:
							walk(x)
						case *ssa.If, *ssa.DebugRef:
						case *ssa.Phi:
							walk(x)
						case *ssa.Return:
							// the estimate is computed by a helper: continue at its call sites
							for _, site := range c.callsTo(x.Parent()) {
								if call, ok := site.(*ssa.Call); ok {
									walk(call)
								}
							}
						case *ssa.Call:
							if sc := x.Call.StaticCallee(); sc != nil && funcFullName(sc) == "bytes.(*Buffer).Grow" {
								continue
							}
							bad = "flows into " + calleeFullName(&x.Call) + " at " + c.pos(x.Pos())
						default:
							bad = "flows into " + ref.String() + " at " + c.pos(ref.Pos())
						}
					}
				}
				walk(start)
				if bad != "" {
					r.bad(key, fname, c.pos(start.Pos()), "history-dependent value "+bad)
				} else {
					r.ok(key, fname, c.pos(start.Pos()), "only reaches the Grow size hint")
				}
			}
			for _, fn := range c.srcFns {
				for _, b := range fn.Blocks {
					for _, ins := range b.Instrs {
						ld, ok := ins.(*ssa.UnOp)
						if !ok || ld.Op != token.MUL {
							continue
						}
						switch a := ld.X.(type) {
						case *ssa.FieldAddr:
							owner, f := fieldAddrInfo(a)
							if owner != nil && owner.Obj() == it && (f.Name() == "lastNumDocs" || f.Name() == "lastOutSize") {
								check(fnName(fn)+"/"+f.Name(), fnName(fn), ld)
							}
						case *ssa.Global:
							if strings.HasPrefix(a.Name(), "newSegmentBuffer") {
								check(fnName(fn)+"/"+a.Name(), fnName(fn), ld)
							}
						}
					}
				}
			}
		},
	})

	register(&Rule{
		Name:  "NO-GLOBAL-STATE",
		Floor: 50,
		Doc:   "no function reachable from New writes a package-level variable or memory reachable from one (outside sync.Once.Do): concurrent builds share no mutable state except the pool, and a build cannot leave state behind outside the pooled object",
		Run: func(c *Ctx, scope string, r *Report) {
			es := c.entries()
			p := c.ownershipProv()
			var fns []*ssa.Function
			for fn := range es.BUILD {
				fns = append(fns, fn)
			}
			sort.Slice(fns, func(i, j int) bool { return fns[i].Pos() < fns[j].Pos() })
			for _, fn := range fns {
				once := c.inOnceDo(fn)
				for _, w := range c.writeSitesIn(fn) {
					key := fnName(fn) + "/" + w.desc
					var labels labelSet
					switch {
					case w.glob != nil:
						labels = lbl("Global:"+w.glob.Name(), "direct store")
					case w.base != nil:
						labels = p.ClassifyAt(w.base, w.ins.Block())
					default:
						labels = p.ClassifyAt(w.cont, w.ins.Block())
					}
					if n, ok := hasPrefixLabel(labels, "Global:"); ok && !once && w.glob != nil && lazySingletonStore(c, fn, w.ins, w.glob) {
						r.ok(key, fnName(fn), c.pos(w.ins.Pos()), "package-level "+n+" is created once (stored only while it is nil, under a package-level lock): the same for every build thereafter")
					} else if n, ok := hasPrefixLabel(labels, "Global:"); ok && !once {
						r.bad(key, fnName(fn), c.pos(w.ins.Pos()), "the build path writes package-level state ("+n+"): builds are no longer independent of history/concurrency", labels[n])
					} else if labels.has("Unknown") {
						r.undecided(key, fnName(fn), c.pos(w.ins.Pos()), "cannot determine the target of this write: "+labels["Unknown"])
					} else {
						r.ok(key, fnName(fn), c.pos(w.ins.Pos()), "build-local or pooled-object state "+labels.String())
					}
				}
			}
		},
	})
}

func stripMakeIface(v ssa.Value) ssa.Value {
	if mi, ok := v.(*ssa.MakeInterface); ok {
		return mi.X
	}
	return v
}

// isRestoreOfOld: v derives from the old value of field f of the target (a
// load of target.f taken before the clear, possibly re-sliced).
func isRestoreOfOld(v ssa.Value, targets map[ssa.Value]bool, f string, clear *ssa.Store) bool {
	for depth := 0; depth < 6; depth++ {
		switch x := v.(type) {
		case *ssa.Slice:
			v = x.X
			continue
		case *ssa.UnOp:
			if x.Op != token.MUL {
				return false
			}
			fa, ok := x.X.(*ssa.FieldAddr)
			if !ok || !targets[fa.X] {
				return false
			}
			_, fv := fieldAddrInfo(fa)
			return fv != nil && fv.Name() == f && before(x, clear)
		}
		return false
	}
	return false
}

// sanitised: the restored value was re-sliced to [:0], or a sanitiser method
// was called on it before the clear (possibly under a nil guard).
func sanitised(fn *ssa.Function, v ssa.Value, clear *ssa.Store) (string, bool) {
	if sl, ok := v.(*ssa.Slice); ok {
		if k, isK := constInt(sl.High); isK && k == 0 && sl.Low == nil {
			return "re-sliced to [:0]", true
		}
	}
	// the value itself, or another load of the same field that nothing assigns before the clear
	vals := []ssa.Value{v}
	if ld, ok := v.(*ssa.UnOp); ok && ld.Op == token.MUL {
		if _, isField := ld.X.(*ssa.FieldAddr); isField {
			want := accessPath(ld.X)
			assigned := false
			var others []ssa.Value
			for _, b := range fn.Blocks {
				for _, ins := range b.Instrs {
					switch x := ins.(type) {
					case *ssa.Store:
						if _, isF := x.Addr.(*ssa.FieldAddr); isF && x != clear && accessPath(x.Addr) == want && canExecuteAfter(x, clear) {
							assigned = true
						}
					case *ssa.UnOp:
						if _, isF := x.X.(*ssa.FieldAddr); isF && x.Op == token.MUL && x != ld && accessPath(x.X) == want && canExecuteAfter(x, clear) {
							others = append(others, x)
						}
					}
				}
			}
			if !assigned {
				vals = append(vals, others...)
			}
		}
	}
	for _, v := range vals {
		if v.Referrers() == nil {
			continue
		}
		for _, ref := range *v.Referrers() {
			if ci, ok := ref.(ssa.CallInstruction); ok {
				if sc := ci.Common().StaticCallee(); sc != nil && sanitiserNames[sc.Name()] && len(ci.Common().Args) > 0 && ci.Common().Args[0] == v {
					// the call must come before the clear on every path where v != nil
					if ci.Block().Dominates(clear.Block()) || nilGuardedCall(ci) && ci.Block().Idom() != nil && ci.Block().Idom().Dominates(clear.Block()) {
						return sc.Name() + "() called on it", true
					}
					// (the nil test and the call may read the field separately)
					if gb := nilGuardBlock(ci); gb != nil && gb.Dominates(clear.Block()) {
						return sc.Name() + "() called on it", true
					}
				}
			}
		}
	}
	return "", false
}

// coveredOnAllPaths: every path from the entry of fn to block `to` passes
// through one of the blocks in `via`.
func coveredOnAllPaths(fn *ssa.Function, via map[*ssa.BasicBlock]bool, to *ssa.BasicBlock) bool {
	if len(via) == 0 {
		return false
	}
	seen := map[*ssa.BasicBlock]bool{}
	var dfs func(b *ssa.BasicBlock) bool // true if `to` reachable avoiding via
	dfs = func(b *ssa.BasicBlock) bool {
		if via[b] || seen[b] {
			return false
		}
		seen[b] = true
		if b == to {
			return true
		}
		for _, s := range b.Succs {
			if dfs(s) {
				return true
			}
		}
		return false
	}
	return !dfs(fn.Blocks[0])
}

// nilGuardBlock: for a call x.M() executed only when field load x != nil,
// returns the block holding that nil test (the nil branch needs no reset).
func nilGuardBlock(ins ssa.Instruction) *ssa.BasicBlock {
	ci, ok := ins.(ssa.CallInstruction)
	if !ok || len(ci.Common().Args) == 0 {
		return nil
	}
	recv, ok := ci.Common().Args[0].(*ssa.UnOp)
	if !ok || recv.Op != token.MUL {
		return nil
	}
	want := accessPath(recv.X)
	for b := ins.Block().Idom(); b != nil; b = b.Idom() {
		ifi, ok := b.Instrs[len(b.Instrs)-1].(*ssa.If)
		if !ok {
			continue
		}
		bin, ok := ifi.Cond.(*ssa.BinOp)
		if !ok || (bin.Op != token.NEQ && bin.Op != token.EQL) || !isNilConst(bin.Y) {
			continue
		}
		ld, ok := bin.X.(*ssa.UnOp)
		if !ok || ld.Op != token.MUL || accessPath(ld.X) != want {
			continue
		}
		nn := b.Succs[0]
		if bin.Op == token.EQL {
			nn = b.Succs[1]
		}
		if nn == ins.Block() || nn.Dominates(ins.Block()) {
			return b
		}
	}
	return nil
}

// nilGuardedCall: the call's block is the non-nil successor of `if recv != nil`.
func nilGuardedCall(ins ssa.Instruction) bool {
	ci, ok := ins.(ssa.CallInstruction)
	if !ok || len(ci.Common().Args) == 0 {
		return false
	}
	recv := ci.Common().Args[0]
	nn, _ := nilTestEdges(recv)
	for _, b := range nn {
		if b == ins.Block() || b.Dominates(ins.Block()) {
			return true
		}
	}
	return false
}

// assignedOnEntry: function fnName stores to field f of typ in a block that
// dominates every other instruction reading it (approximated: the entry block,
// or for newWithChunkMode a block dominating the convert() call).
func assignedOnEntry(c *Ctx, fname, typ, f string) bool {
	fn := c.MustFn(fname)
	tn := c.NamedType(typ).Obj()
	for _, st := range c.census().fieldStores[fieldKey{tn, f}] {
		if st.fn != fn {
			// in a single-block helper (acquireX(…) that binds the pooled object to this call)
			// called from the entry block of fn
			if len(st.fn.Blocks) == 1 {
				for _, site := range c.callsTo(st.fn) {
					if site.Parent() == fn && site.Block() == fn.Blocks[0] {
						return true
					}
				}
			}
			// in the entry block of a helper that fn starts with (collectFields(); ...): the store
			// is in the helper's entry block and the helper is called from fn's entry block
			if st.ins.Block() == st.fn.Blocks[0] {
				for _, site := range c.callsTo(st.fn) {
					if site.Parent() == fn && site.Block() == fn.Blocks[0] {
						return true
					}
				}
			}
			continue
		}
		if st.ins.Block() == fn.Blocks[0] {
			return true
		}
		// dominates the call to convert
		if cv, ok := c.byName["(*interim).convert"]; ok {
			for _, site := range c.callsTo(cv) {
				if site.Parent() == fn && before(st.ins, site) {
					return true
				}
			}
		}
	}
	return false
}

// siteSanitised: right after s.F = s.F[:n+1] the new last element is reset: s.F[n] = s.F[n][:0].
func siteSanitised(b *ssa.BasicBlock, st *ssa.Store, fa *ssa.FieldAddr) bool {
	for _, ins := range b.Instrs[instrIndex(st)+1:] {
		s2, ok := ins.(*ssa.Store)
		if !ok {
			continue
		}
		ia, ok := s2.Addr.(*ssa.IndexAddr)
		if !ok {
			continue
		}
		ld, ok := ia.X.(*ssa.UnOp)
		if !ok {
			continue
		}
		fa2, ok := ld.X.(*ssa.FieldAddr)
		if !ok || fa2.Field != fa.Field {
			continue
		}
		if sl, ok := s2.Val.(*ssa.Slice); ok {
			if k, isK := constInt(sl.High); isK && k == 0 {
				return true
			}
		}
	}
	return false
}

// earlyEmptyReader: the returning block installs d.r = newMemUvarintReader(nil).
func earlyEmptyReader(b *ssa.BasicBlock) bool {
	for _, ins := range b.Instrs {
		if call, ok := ins.(*ssa.Call); ok {
			if sc := call.Call.StaticCallee(); sc != nil && sc.Name() == "newMemUvarintReader" {
				return true
			}
			// a helper that points the reader at the bytes it is given, called with none
			if sc := call.Call.StaticCallee(); sc != nil && sc.Blocks != nil && sc.Pkg == b.Parent().Pkg {
				none := false
				for _, a := range call.Call.Args {
					if isNilConst(a) {
						none = true
					}
				}
				if len(sc.Blocks) == 1 {
					for _, hi := range sc.Blocks[0].Instrs {
						if hc, ok := hi.(*ssa.Call); ok {
							if h := hc.Call.StaticCallee(); h != nil && h.Name() == "newMemUvarintReader" {
								return true
							}
						}
					}
				}
				if none {
					for _, hb := range sc.Blocks {
						for _, hi := range hb.Instrs {
							if hc, ok := hi.(*ssa.Call); ok {
								if h := hc.Call.StaticCallee(); h != nil && (h.Name() == "newMemUvarintReader" || h.Name() == "Reset") {
									return true
								}
							}
						}
					}
				}
			}
		}
	}
	return false
}

var _ = types.Universe

// writeBeforeReadScratch: field fv is a fixed-size array of a basic type that
// is only ever sliced, and in every function that touches it a filler call
// (encoding/binary Put*, copy into it) on such a slice precedes every other
// use: nothing of a previous use can be observed, so it needs no reset.
func writeBeforeReadScratch(c *Ctx, fv *types.Var) bool {
	arr, ok := fv.Type().Underlying().(*types.Array)
	if !ok {
		return false
	}
	if _, ok := arr.Elem().Underlying().(*types.Basic); !ok {
		return false
	}
	isFiller := func(user ssa.Instruction, sl ssa.Value) bool {
		ci, ok := user.(ssa.CallInstruction)
		if !ok {
			return false
		}
		if bi, ok := ci.Common().Value.(*ssa.Builtin); ok {
			return bi.Name() == "copy" && ci.Common().Args[0] == sl
		}
		sc := ci.Common().StaticCallee()
		if sc == nil {
			return false
		}
		full := funcFullName(sc)
		return strings.HasPrefix(full, "encoding/binary.Put") || strings.HasPrefix(full, "encoding/binary.(bigEndian).Put") || strings.HasPrefix(full, "encoding/binary.(littleEndian).Put")
	}
	used := false
	for _, fn := range c.srcFns {
		var fills, others []ssa.Instruction
		for _, b := range fn.Blocks {
			for _, ins := range b.Instrs {
				fa, ok := ins.(*ssa.FieldAddr)
				if !ok {
					continue
				}
				if _, f := fieldAddrInfo(fa); f != fv {
					continue
				}
				used = true
				for _, ref := range *fa.Referrers() {
					sl, ok := ref.(*ssa.Slice)
					if !ok {
						return false
					}
					for _, u := range *sl.Referrers() {
						if isFiller(u, sl) {
							fills = append(fills, u)
						} else {
							others = append(others, u)
						}
					}
				}
			}
		}
		for _, o := range others {
			covered := false
			for _, fl := range fills {
				if before(fl, o) {
					covered = true
				}
			}
			if !covered {
				return false
			}
		}
	}
	return used
}

// helperReExtends: fn returns its slice parameter p re-sliced with a
// non-constant upper bound (p[:n]): that Slice.
func helperReExtends(fn *ssa.Function, p *ssa.Parameter) *ssa.Slice {
	for _, b := range fn.Blocks {
		for _, ins := range b.Instrs {
			sl, ok := ins.(*ssa.Slice)
			if !ok || sl.X != ssa.Value(p) || sl.High == nil {
				continue
			}
			if k, isK := constInt(sl.High); isK && k == 0 {
				continue
			}
			for _, rb := range fn.Blocks {
				if ret, ok := rb.Instrs[len(rb.Instrs)-1].(*ssa.Return); ok {
					for _, res := range ret.Results {
						if res == ssa.Value(sl) {
							return sl
						}
					}
				}
			}
		}
	}
	return nil
}

// helperClearsWhole: between the re-slice and the return that hands it out
// every element of the RE-SLICED value is stored a zero value in a loop over
// its whole length (a loop over the slice as it was before re-slicing does
// not count: it stops at the old length).
func helperClearsWhole(fn *ssa.Function, ext *ssa.Slice) bool {
	for _, h := range fn.Blocks {
		if !isLoopHeader(h) {
			continue
		}
		ifi, ok := h.Instrs[len(h.Instrs)-1].(*ssa.If)
		if !ok {
			continue
		}
		bin, ok := ifi.Cond.(*ssa.BinOp)
		if !ok || bin.Op != token.LSS {
			continue
		}
		x, name, ok := lenOrCapOf(bin.Y)
		if !ok || name != "len" || x != ssa.Value(ext) {
			continue
		}
		if !(ext.Block() == h || ext.Block().Dominates(h)) {
			continue
		}
		for b := range loopBody(h) {
			for _, ins := range b.Instrs {
				st, ok := ins.(*ssa.Store)
				if !ok {
					continue
				}
				ia, ok := st.Addr.(*ssa.IndexAddr)
				if !ok || ia.X != ssa.Value(ext) || ia.Index != bin.X {
					continue
				}
				if k, ok := st.Val.(*ssa.Const); ok && (k.Value == nil || k.Value.String() == "false" || k.Value.String() == "0") {
					// the loop precedes every return of the re-sliced value
					okAll := true
					for _, rb := range fn.Blocks {
						if ret, ok := rb.Instrs[len(rb.Instrs)-1].(*ssa.Return); ok {
							for _, res := range ret.Results {
								if res == ssa.Value(ext) && !h.Dominates(rb) {
									okAll = false
								}
							}
						}
					}
					if okAll {
						return true
					}
				}
			}
		}
	}
	return false
}

// reExtensionSites: how many places re-extend pooled slice field f of typ, and
// whether each of them clears the whole re-extended range itself.
func reExtensionSites(c *Ctx, typ, f string) (int, bool) {
	tn := c.NamedType(typ).Obj()
	n, all := 0, true
	for _, st := range c.census().fieldStores[fieldKey{tn, f}] {
		store, ok := st.ins.(*ssa.Store)
		if !ok {
			continue
		}
		fa, ok := store.Addr.(*ssa.FieldAddr)
		if !ok {
			continue
		}
		switch v := st.val.(type) {
		case *ssa.Slice:
			if v.High == nil {
				continue
			}
			if k, isK := constInt(v.High); isK && k == 0 {
				continue
			}
			if ld, ok := v.X.(*ssa.UnOp); !ok || ld.Op != token.MUL {
				continue
			} else if fa2, ok := ld.X.(*ssa.FieldAddr); !ok || fa2.Field != fa.Field {
				continue
			}
			n++
			if !siteSanitised(store.Block(), store, fa) {
				all = false
			}
		case *ssa.Call:
			sc := v.Call.StaticCallee()
			if sc == nil || !c.inRoot(sc) || sc.Blocks == nil {
				continue
			}
			for ai, a := range v.Call.Args {
				ld, ok := a.(*ssa.UnOp)
				if !ok || ld.Op != token.MUL || ai >= len(sc.Params) {
					continue
				}
				if fa2, ok := ld.X.(*ssa.FieldAddr); !ok || fa2.Field != fa.Field {
					continue
				}
				if ext := helperReExtends(sc, sc.Params[ai]); ext != nil {
					n++
					if !helperClearsWhole(sc, ext) {
						all = false
					}
				}
			}
		}
	}
	return n, all
}

// lazySingletonStore: the store to global g happens while a package-level
// mutex is held and only when g is still nil - the lock-based spelling of
// sync.Once for a shared object that is created on first use.
func lazySingletonStore(c *Ctx, fn *ssa.Function, ins ssa.Instruction, g *ssa.Global) bool {
	held := false
	for id := range lockAnalyse(fn).must[ins] {
		if c.SSA.Members[id] != nil {
			held = true
		}
	}
	if !held {
		return false
	}
	for _, b := range fn.Blocks {
		ifi, ok := b.Instrs[len(b.Instrs)-1].(*ssa.If)
		if !ok {
			continue
		}
		bin, ok := ifi.Cond.(*ssa.BinOp)
		if !ok || (bin.Op != token.EQL && bin.Op != token.NEQ) {
			continue
		}
		x, y := bin.X, bin.Y
		if isNilConst(x) {
			x, y = y, x
		}
		ld, ok := x.(*ssa.UnOp)
		if !ok || !isNilConst(y) || ld.X != ssa.Value(g) {
			continue
		}
		nilEdge := b.Succs[0]
		if bin.Op == token.NEQ {
			nilEdge = b.Succs[1]
		}
		if len(nilEdge.Preds) == 1 && (nilEdge == ins.Block() || nilEdge.Dominates(ins.Block())) {
			return true
		}
	}
	return false
}

func init() {
	register(&Rule{
		Name:  "REUSE-THROUGH-INIT",
		Floor: 1,
		Doc:   "a caller-supplied object that is recycled (a preallocated PostingsList / PostingsIterator) is handed back only after it went through the type's re-initialiser (postingsListInit, PostingsList.iterator): no function other than the re-initialiser itself returns its own parameter of that type as it came in - what the previous lookup left in it (postings of another term, 1-hit state) would be taken for the result of this one",
		Run: func(c *Ctx, scope string, r *Report) {
			for _, sp := range resetSpecs {
				if sp.mode != "clear-restore" {
					continue
				}
				initFn := c.byName[sp.fn]
				tn := c.NamedType(sp.typ)
				for _, g := range c.srcFns {
					if g == initFn || g.Parent() != nil {
						continue
					}
					for _, p := range g.Params {
						if pn := namedOf(p.Type()); pn == nil || pn.Obj() != tn.Obj() || p == g.Params[0] && g.Signature.Recv() != nil {
							continue
						}
						if _, isPtr := p.Type().Underlying().(*types.Pointer); !isPtr {
							continue
						}
						returnsT := false
						res := g.Signature.Results()
						for i := 0; i < res.Len(); i++ {
							if rn := namedOf(res.At(i).Type()); rn != nil && rn.Obj() == tn.Obj() {
								returnsT = true
							}
						}
						if !returnsT {
							continue
						}
						key := fnName(g) + "/returns-" + p.Name()
						bad := ""
						for _, b := range g.Blocks {
							ret, ok := b.Instrs[len(b.Instrs)-1].(*ssa.Return)
							if !ok {
								continue
							}
							for _, rv := range ret.Results {
								if rawParam(resolveLoad(rv), p, map[ssa.Value]bool{}) {
									bad = c.pos(retPos(ret, b))
								}
							}
						}
						if bad != "" {
							r.bad(key, fnName(g), c.pos(g.Pos()), "the caller's reusable "+sp.typ+" "+p.Name()+" is returned at "+bad+" as it came in, without going through "+sp.fn+": it still holds what the previous use left in it")
						} else {
							r.ok(key, fnName(g), c.pos(g.Pos()), "the reusable "+sp.typ+" is only handed back by way of "+sp.fn+" (or replaced)")
						}
					}
				}
			}
		},
	})
}

// rawParam: v is parameter p itself (possibly through phis), not the result of a call it was handed to.
func rawParam(v ssa.Value, p *ssa.Parameter, seen map[ssa.Value]bool) bool {
	if seen[v] {
		return false
	}
	seen[v] = true
	switch x := v.(type) {
	case *ssa.Parameter:
		return x == p
	case *ssa.Phi:
		for _, e := range x.Edges {
			if rawParam(e, p, seen) {
				return true
			}
		}
	case *ssa.ChangeType:
		return rawParam(x.X, p, seen)
	}
	return false
}

// establishedBeforeUse: fv is a struct the pooled object holds by value, and every
// function that touches it either begins (entry block, before any other access)
// with a call of one of its methods that re-establishes all of its fields, or is
// only called after such a call in its caller: nothing of an earlier use can be
// seen. Returns a description, "" if that cannot be shown.
func establishedBeforeUse(c *Ctx, fv *types.Var) string {
	sub, ok := fv.Type().Underlying().(*types.Struct)
	if !ok || sub.NumFields() == 0 {
		return ""
	}
	touches := func(fn *ssa.Function) []ssa.Instruction {
		var out []ssa.Instruction
		for _, b := range fn.Blocks {
			for _, ins := range b.Instrs {
				if fa, ok := ins.(*ssa.FieldAddr); ok {
					if _, f := fieldAddrInfo(fa); f == fv {
						out = append(out, fa)
					}
				}
			}
		}
		return out
	}
	// the establishing call in fn: receiver = the field's address, all sub-fields covered
	establishing := func(fn *ssa.Function) *ssa.Call {
		for _, b := range fn.Blocks {
			for _, ins := range b.Instrs {
				call, ok := ins.(*ssa.Call)
				if !ok || call.Call.StaticCallee() == nil || !c.inRoot(call.Call.StaticCallee()) || len(call.Call.Args) == 0 {
					continue
				}
				fa, ok := call.Call.Args[0].(*ssa.FieldAddr)
				if !ok {
					continue
				}
				if _, f := fieldAddrInfo(fa); f != fv {
					continue
				}
				have := map[string]bool{}
				for _, n := range mustEstablish(call.Call.StaticCallee(), 0) {
					have[n] = true
				}
				all := true
				for i := 0; i < sub.NumFields(); i++ {
					if !have[sub.Field(i).Name()] {
						all = false
					}
				}
				if all {
					return call
				}
			}
		}
		return nil
	}
	var est *ssa.Call
	var users []*ssa.Function
	for _, fn := range c.srcFns {
		if len(touches(fn)) == 0 {
			continue
		}
		// methods of the sub-struct itself do not count as users
		if fn.Signature.Recv() != nil {
			if n := namedOf(fn.Signature.Recv().Type()); n != nil && types.Identical(n.Underlying(), sub) {
				continue
			}
		}
		users = append(users, fn)
	}
	if len(users) == 0 {
		return ""
	}
	var covered func(fn *ssa.Function, upTo ssa.Instruction, depth int) bool
	covered = func(fn *ssa.Function, upTo ssa.Instruction, depth int) bool {
		// is the field established whenever `upTo` (an instruction of fn; nil: fn's own touches) runs?
		if depth > 3 {
			return false
		}
		if e := establishing(fn); e != nil {
			okHere := true
			if upTo != nil {
				okHere = before(e, upTo)
			} else {
				for _, t := range touches(fn) {
					if ssa.Value(t.(*ssa.FieldAddr)) != e.Call.Args[0] && !before(e, t) {
						okHere = false
					}
				}
			}
			if okHere {
				est = e
				return true
			}
		}
		sites := c.callsTo(fn)
		if len(sites) == 0 {
			return false
		}
		for _, site := range sites {
			if !covered(site.Parent(), site, depth+1) {
				return false
			}
		}
		return true
	}
	for _, fn := range users {
		if !covered(fn, nil, 0) {
			return ""
		}
	}
	if est == nil {
		return ""
	}
	return "every use of ." + fv.Name() + " comes after " + fnName(est.Call.StaticCallee()) + " has re-established all of its fields (at " + c.pos(est.Pos()) + ")"
}

// cacheHitReturn: block b is reached only over the edge of a test on which a
// key field of the receiver (curChunkNum / currChunk) equals a parameter.
func cacheHitReturn(fn *ssa.Function, targets map[ssa.Value]bool, b *ssa.BasicBlock) bool {
	keyFields := map[string]bool{"curChunkNum": true, "currChunk": true}
	isKeyLoad := func(v ssa.Value) bool {
		ld, ok := stripConv(v).(*ssa.UnOp)
		if !ok || ld.Op != token.MUL {
			return false
		}
		fa, ok := ld.X.(*ssa.FieldAddr)
		if !ok || !targets[fa.X] {
			return false
		}
		_, f := fieldAddrInfo(fa)
		return f != nil && keyFields[f.Name()]
	}
	isParam := func(v ssa.Value) bool {
		_, ok := stripConv(v).(*ssa.Parameter)
		return ok
	}
	for _, tb := range fn.Blocks {
		ifi, ok := tb.Instrs[len(tb.Instrs)-1].(*ssa.If)
		if !ok {
			continue
		}
		bin, ok := ifi.Cond.(*ssa.BinOp)
		if !ok || (bin.Op != token.EQL && bin.Op != token.NEQ) {
			continue
		}
		if !(isKeyLoad(bin.X) && isParam(bin.Y) || isKeyLoad(bin.Y) && isParam(bin.X)) {
			continue
		}
		e := tb.Succs[0]
		if bin.Op == token.NEQ {
			e = tb.Succs[1]
		}
		if len(e.Preds) == 1 && (e == b || e.Dominates(b)) {
			return true
		}
	}
	return false
}

// blockReaches: to is reachable from a successor of from.
func blockReaches(from, to *ssa.BasicBlock) bool {
	seen := map[*ssa.BasicBlock]bool{}
	work := append([]*ssa.BasicBlock{}, from.Succs...)
	for len(work) > 0 {
		x := work[len(work)-1]
		work = work[:len(work)-1]
		if seen[x] {
			continue
		}
		seen[x] = true
		if x == to {
			return true
		}
		work = append(work, x.Succs...)
	}
	return false
}
