package main

import (
	"encoding/json"
	"os"
	"path/filepath"
	"sort"
)

type Evidence struct {
	PropertyID  string                 `json:"property_id"`
	Tier        string                 `json:"tier"`
	Seed        int                    `json:"seed"`
	Level       string                 `json:"level"`
	Coverage    map[string]interface{} `json:"coverage"`
	Assumptions []string               `json:"assumptions"`
	WallS       float64                `json:"wall_s"`
	Violations  int                    `json:"violations"`
}

var trustedBase = []string{
	"Go type checker (go/types) and SSA construction (golang.org/x/tools v0.29.0 go/ssa, go/cfg, CHA/VTA call graph)",
	"dependency semantics are summarised by tables, not analysed: roaring.Bitmap method purity table, zstd EncodeAll/DecodeAll statelessness, vellum.FST reader safety, bufio.Writer sticky errors surfaced by Flush, bluge_segment_api.Data.Read/Len/Slice/WriteTo do not write the data",
	"the Go standard library behaves as documented (sync.Mutex, sync.Once, sync.Pool, encoding/binary, hash/crc32)",
}

func newEvidence(p *Property, tier string, seed int) *Evidence {
	return &Evidence{
		PropertyID:  p.ID,
		Tier:        tier,
		Seed:        seed,
		Level:       "other",
		Coverage:    map[string]interface{}{},
		Assumptions: append(append([]string{}, trustedBase...), p.Assumptions...),
	}
}

func (e *Evidence) addConfig(c *Ctx, res *propResult) {
	nd := 0
	for _, o := range res.all {
		if o.st == Discharged {
			nd++
		}
	}
	p := properties[e.PropertyID]
	e.Coverage["explanation"] = p.Explanation
	e.Coverage["not_covered"] = p.NotCovered
	e.Coverage["obligations"] = len(res.all)
	e.Coverage["discharged"] = nd
	e.Coverage["checker_cmd"] = "bin/icecheck -property " + p.ID + " -tier " + e.Tier
	e.Coverage["trusted_base"] = trustedBase
	if len(c.NameNotes) > 0 {
		e.Coverage["name_normalisation"] = map[string]interface{}{
			"what":    "unexported names that differ from the reference names (golden/names.json) were alpha-renamed in a scratch copy before analysis; positions still refer to the original files",
			"renames": c.NameNotes,
		}
	} else {
		e.Coverage["name_normalisation"] = "no renaming needed: every reference name the rules anchor on exists in the tree"
	}
	e.Coverage["rules"] = res.perRule
	e.Coverage["rule"] = "one obligation per rule instance (call site, store, function, struct field, path); key = rule + enclosing function + construct, never a line number; undecided counts as failure; a rule matching fewer instances than its floor fails as vacuous"
	e.Coverage["evaluations"] = len(res.all)
	distinct := map[string]bool{}
	for _, o := range res.all {
		distinct[o.Key] = true
	}
	e.Coverage["distinct_nontrivial"] = len(distinct)
	// samples: every non-discharged obligation, plus up to 3 per rule of the discharged ones
	var samples []*Obligation
	perRule := map[string]int{}
	for _, o := range res.all {
		if o.st != Discharged {
			samples = append(samples, o)
		} else if perRule[o.Rule] < 3 {
			perRule[o.Rule]++
			samples = append(samples, o)
		}
	}
	if len(samples) == 0 {
		samples = []*Obligation{}
	}
	e.Coverage["samples"] = samples
	es := c.entries()
	e.Coverage["analysed"] = map[string]interface{}{
		"repo":                   c.Dir,
		"config":                 c.Config,
		"packages":               pkgPaths(c),
		"source_functions":       len(c.srcFns),
		"callgraph_nodes":        len(c.CG.Nodes),
		"api_roots":              len(es.API),
		"read_reachable":         len(es.READ),
		"ctor_only":              len(es.CTORONLY),
		"build_reachable":        len(es.BUILD),
		"merge_reachable":        len(es.MERGE),
		"persist_reachable":      len(es.PERSIST),
		"tree_sha256":            treeHash(c.Dir),
		"vta_callgraph_computed": c.VTA != nil,
	}
	e.Coverage["exhaustive"] = true
}

func pkgPaths(c *Ctx) []string {
	var out []string
	for _, p := range c.Pkgs {
		out = append(out, p.PkgPath)
	}
	sort.Strings(out)
	return out
}

func (e *Evidence) write(path string) error {
	if err := os.MkdirAll(filepath.Dir(path), 0o755); err != nil {
		return err
	}
	b, err := json.MarshalIndent(e, "", " ")
	if err != nil {
		return err
	}
	tmp := path + ".tmp"
	if err := os.WriteFile(tmp, b, 0o644); err != nil {
		return err
	}
	return os.Rename(tmp, path)
}
