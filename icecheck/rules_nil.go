package main

// E7 — dominance / typestate rules about nil results and checked reads.

import (
	"fmt"
	"go/token"
	"go/types"
	"strings"

	"golang.org/x/tools/go/ssa"
)

// tupleParts returns the Extract values of a tuple-returning call by index.
func tupleParts(call *ssa.Call) map[int]*ssa.Extract {
	out := map[int]*ssa.Extract{}
	if refs := call.Referrers(); refs != nil {
		for _, ref := range *refs {
			if ex, ok := ref.(*ssa.Extract); ok {
				out[ex.Index] = ex
			}
		}
	}
	return out
}

// errNilGuards: blocks where err (an SSA error value) is known to be nil.
func errNilBlocks(err ssa.Value) []*ssa.BasicBlock {
	_, n := nilTestEdges(err)
	return n
}

// usesOutsideGuard lists the instructions using v that are not dominated by
// any of the guard blocks.
func usesOutsideGuard(v ssa.Value, guards []*ssa.BasicBlock) []ssa.Instruction {
	var out []ssa.Instruction
	refs := v.Referrers()
	if refs == nil {
		return nil
	}
	for _, ref := range *refs {
		if _, ok := ref.(*ssa.DebugRef); ok {
			continue
		}
		b := ref.Block()
		if phi, ok := ref.(*ssa.Phi); ok {
			// a phi uses v on the edge from the predecessor
			okAll := true
			for i, e := range phi.Edges {
				if e == v {
					pb := phi.Block().Preds[i]
					dom := false
					for _, g := range guards {
						if g.Dominates(pb) {
							dom = true
						}
					}
					if !dom {
						okAll = false
					}
				}
			}
			if !okAll {
				out = append(out, ref)
			}
			continue
		}
		dom := false
		for _, g := range guards {
			if g.Dominates(b) {
				dom = true
			}
		}
		if !dom {
			out = append(out, ref)
		}
	}
	return out
}

func isDataRead(cc *ssa.CallCommon) bool {
	sc := cc.StaticCallee()
	if sc == nil || sc.Name() != "Read" || sc.Signature.Recv() == nil {
		return false
	}
	return isNamed(sc.Signature.Recv().Type(), "github.com/blugelabs/bluge_segment_api", "Data")
}

// nilPtrNilErrFuncs derives the set N of root-package functions that can
// return (nil pointer, nil error) on some path: result index -> true.
func (c *Ctx) nilNilFuncs() map[*ssa.Function]int {
	out := map[*ssa.Function]int{}
	for _, fn := range c.srcFns {
		res := fn.Signature.Results()
		if res.Len() != 2 || !isErrorType(res.At(1).Type()) {
			continue
		}
		if _, ok := res.At(0).Type().Underlying().(*types.Pointer); !ok {
			continue
		}
		for _, b := range fn.Blocks {
			ret, ok := b.Instrs[len(b.Instrs)-1].(*ssa.Return)
			if !ok || len(ret.Results) != 2 {
				continue
			}
			if pairMayBeNilNil(resolveLoad(ret.Results[0]), resolveLoad(ret.Results[1]), b) {
				out[fn] = 0
			}
		}
	}
	return out
}

// pairMayBeNilNil: can (p, e) both be nil at the end of block b?  Phis are
// examined edge-wise *jointly* (same predecessor for both).
func pairMayBeNilNil(p, e ssa.Value, b *ssa.BasicBlock) bool {
	return pairMayBeNilNilRec(p, e, b, map[[2]ssa.Value]bool{})
}

func pairMayBeNilNilRec(p, e ssa.Value, b *ssa.BasicBlock, seen map[[2]ssa.Value]bool) bool {
	// loop-carried phis refer to themselves: a pair already under
	// examination contributes nothing new
	k := [2]ssa.Value{p, e}
	if seen[k] {
		return false
	}
	seen[k] = true
	pp, pok := p.(*ssa.Phi)
	ep, eok := e.(*ssa.Phi)
	if pok && eok && pp.Block() == ep.Block() {
		for i := range pp.Edges {
			if pairMayBeNilNilRec(pp.Edges[i], ep.Edges[i], pp.Block().Preds[i], seen) {
				return true
			}
		}
		return false
	}
	if pok {
		for i := range pp.Edges {
			if pairMayBeNilNilRec(pp.Edges[i], e, pp.Block().Preds[i], seen) {
				return true
			}
		}
		return false
	}
	if eok {
		for i := range ep.Edges {
			if pairMayBeNilNilRec(p, ep.Edges[i], ep.Block().Preds[i], seen) {
				return true
			}
		}
		return false
	}
	pNil := isNilConst(p)
	eNil := isNilConst(e) || (!nonNilErrorValue(e) && !knownNonNilAt(e, b) && mayErrBeNil(e))
	return pNil && eNil
}

// mayErrBeNil: an arbitrary error value may be nil unless it is a known
// non-nil constructor.
func mayErrBeNil(e ssa.Value) bool { return !nonNilErrorValue(e) }

// pathSafe checks that every path from the definition of value p to the use
// instruction `use` crosses an edge that establishes p != nil (or, when
// errOK != nil, errOK != nil).  Backward search over predecessors.
func guardedOnAllPaths(p ssa.Value, defBlock *ssa.BasicBlock, use ssa.Instruction, errOK ssa.Value) (bool, []*ssa.BasicBlock) {
	// edges (pred -> succ) that establish the fact
	type edge struct{ from, to *ssa.BasicBlock }
	safe := map[edge]bool{}
	addEdges := func(v ssa.Value) {
		if v == nil {
			return
		}
		refs := v.Referrers()
		if refs == nil {
			return
		}
		for _, ref := range *refs {
			bin, ok := ref.(*ssa.BinOp)
			if !ok || (bin.Op != token.NEQ && bin.Op != token.EQL) {
				continue
			}
			other := bin.Y
			if bin.X != v {
				other = bin.X
			}
			if !isNilConst(other) {
				continue
			}
			for _, r2 := range *bin.Referrers() {
				if ifi, ok := r2.(*ssa.If); ok {
					t := ifi.Block().Succs[0]
					if bin.Op == token.EQL {
						t = ifi.Block().Succs[1]
					}
					safe[edge{ifi.Block(), t}] = true
				}
			}
		}
	}
	addEdges(p)
	addEdges(errOK)
	// backward DFS from use block
	start := use.Block()
	seen := map[*ssa.BasicBlock]bool{}
	var bad []*ssa.BasicBlock
	var dfs func(b *ssa.BasicBlock, trail []*ssa.BasicBlock) bool
	dfs = func(b *ssa.BasicBlock, trail []*ssa.BasicBlock) bool {
		if b == defBlock {
			// reached the definition without crossing a safe edge
			bad = append(append([]*ssa.BasicBlock{}, trail...), b)
			return false
		}
		if seen[b] {
			return true
		}
		seen[b] = true
		for _, pr := range b.Preds {
			if safe[edge{pr, b}] {
				continue
			}
			if !dfs(pr, append(trail, b)) {
				return false
			}
		}
		return true
	}
	if start == defBlock {
		return false, []*ssa.BasicBlock{start}
	}
	ok := dfs(start, nil)
	return ok, bad
}

func init() {
	register(&Rule{
		Name:  "READ-CHECKED",
		Floor: 18,
		Doc:   "for every segment.Data.Read call the returned slice is used only where the call's error is known to be nil (dominated by the nil edge of its error test): a failed storage read can never be indexed or decoded",
		Run: func(c *Ctx, scope string, r *Report) {
			// read wrappers: in-package functions that hand a Data.Read (slice, error) pair straight back to
			// their caller; their call sites carry the same obligation as a direct read
			wrappers := map[*ssa.Function]bool{}
			for changed := true; changed; {
				changed = false
				for _, fn := range c.srcFns {
					if wrappers[fn] {
						continue
					}
					for _, b := range fn.Blocks {
						ret, ok := b.Instrs[len(b.Instrs)-1].(*ssa.Return)
						if !ok || len(ret.Results) != 2 {
							continue
						}
						e0, ok0 := ret.Results[0].(*ssa.Extract)
						e1, ok1 := ret.Results[1].(*ssa.Extract)
						if !ok0 || !ok1 || e0.Tuple != e1.Tuple || e0.Index != 0 || e1.Index != 1 {
							continue
						}
						if call, ok := e0.Tuple.(*ssa.Call); ok && (isDataRead(&call.Call) || call.Call.StaticCallee() != nil && wrappers[call.Call.StaticCallee()]) {
							wrappers[fn] = true
							changed = true
						}
					}
				}
			}
			isRead := func(call *ssa.Call) bool {
				if isDataRead(&call.Call) {
					return true
				}
				sc := call.Call.StaticCallee()
				return sc != nil && wrappers[sc]
			}
			for _, fn := range c.srcFns {
				for _, b := range fn.Blocks {
					for _, ins := range b.Instrs {
						call, ok := ins.(*ssa.Call)
						if !ok || !isRead(call) {
							continue
						}
						key := fnName(fn) + "/Data.Read"
						// the (slice, err) pair is returned as is: the obligation moves to the callers (wrapper)
						if wrappers[fn] {
							if p := tupleParts(call); p[0] != nil && p[1] != nil {
								onlyRet := true
								for _, ex := range []*ssa.Extract{p[0], p[1]} {
									for _, ref := range *ex.Referrers() {
										if _, isRet := ref.(*ssa.Return); !isRet {
											if _, isDbg := ref.(*ssa.DebugRef); !isDbg {
												onlyRet = false
											}
										}
									}
								}
								if onlyRet {
									r.ok(key, fnName(fn), c.pos(call.Pos()), "slice and error are returned together to the caller, which carries the obligation")
									continue
								}
							}
						}
						parts := tupleParts(call)
						data, errv := parts[0], parts[1]
						if data == nil {
							r.ok(key, fnName(fn), c.pos(call.Pos()), "slice result unused")
							continue
						}
						if errv == nil {
							r.bad(key, fnName(fn), c.pos(call.Pos()), "the error result of Data.Read is dropped but the slice is used")
							continue
						}
						var ev ssa.Value = errv
						guards := errNilBlocks(ev)
						// error spilled into a local cell (functions with defer / named results): follow store->load
						if len(guards) == 0 {
							for _, ref := range *errv.Referrers() {
								if st, ok := ref.(*ssa.Store); ok {
									if a, ok := st.Addr.(*ssa.Alloc); ok {
										for _, r2 := range *a.Referrers() {
											if ld, ok := r2.(*ssa.UnOp); ok && ld.Op == token.MUL && resolveLoad(ld) == ev {
												guards = append(guards, errNilBlocks(ld)...)
											}
										}
									}
								}
							}
						}
						if len(guards) == 0 {
							r.bad(key, fnName(fn), c.pos(call.Pos()), "the error of Data.Read is never tested against nil before the slice is used")
							continue
						}
						if outs := usesOutsideGuard(data, guards); len(outs) > 0 {
							var d []string
							for _, o := range outs {
								d = append(d, "unguarded use at "+c.pos(o.Pos())+": "+o.String())
							}
							r.bad(key, fnName(fn), c.pos(call.Pos()), "slice returned by Data.Read is used where the read may have failed", d...)
							continue
						}
						r.ok(key, fnName(fn), c.pos(call.Pos()), "every use of the slice is dominated by err == nil")
					}
				}
			}
		},
	})

	register(&Rule{
		Name:  "NIL-RESULT",
		Floor: 3,
		Doc:   "functions that can return (nil pointer, nil error) are derived from their return statements; at every call site the pointer is dereferenced (method receiver, field access) or converted to an escaping interface only on paths that crossed a nil test of it (or, for an interface returned together with the error, of the error)",
		Run: func(c *Ctx, scope string, r *Report) {
			N := c.nilNilFuncs()
			var names []string
			for f := range N {
				names = append(names, fnName(f))
			}
			r.note("functions that may return (nil, nil): %s", strings.Join(sortStrings(names), ", "))
			for _, fn := range c.srcFns {
				for _, b := range fn.Blocks {
					for _, ins := range b.Instrs {
						call, ok := ins.(*ssa.Call)
						if !ok {
							continue
						}
						sc := call.Call.StaticCallee()
						if sc == nil {
							continue
						}
						if _, ok := N[sc]; !ok {
							continue
						}
						parts := tupleParts(call)
						p, e := parts[0], parts[1]
						key := fnName(fn) + "/" + fnName(sc)
						if p == nil {
							r.ok(key, fnName(fn), c.pos(call.Pos()), "pointer result unused")
							continue
						}
						var errv ssa.Value
						if e != nil {
							errv = e
						}
						bad := checkMaybeNilUses(c, p, p.Block(), errv, map[ssa.Value]bool{})
						if len(bad) > 0 {
							r.bad(key, fnName(fn), c.pos(call.Pos()), "possibly-nil result of "+fnName(sc)+" is used without a nil test on some path", bad...)
						} else {
							r.ok(key, fnName(fn), c.pos(call.Pos()), "every dereference/escape of the result is behind a nil test")
						}
					}
				}
			}
		},
	})

	register(&Rule{
		Name:  "NIL-FIELD",
		Floor: 3,
		Doc:   "Dictionary.fst and Dictionary.fstReader are legitimately nil (field without terms, empty segment); every method call on a value loaded from them is dominated by a nil test of that field in the same function (the establishing function (*Segment).dictionary is exempt)",
		Run: func(c *Ctx, scope string, r *Report) {
			dict := c.NamedType("Dictionary")
			// the establishing function: a method call on rv.fst is allowed only where a store to rv.fst dominates it
			// (the value was just produced by a cache hit or a successful vellum.Load under dictStart > 0)
			if est, ok := c.byName["(*Segment).dictionary"]; ok && est.Blocks != nil {
				for _, b := range est.Blocks {
					for _, ins := range b.Instrs {
						ci, ok := ins.(ssa.CallInstruction)
						if !ok || ci.Common().StaticCallee() == nil || ci.Common().StaticCallee().Signature.Recv() == nil || len(ci.Common().Args) == 0 {
							continue
						}
						ld, ok := ci.Common().Args[0].(*ssa.UnOp)
						if !ok || ld.Op != token.MUL {
							continue
						}
						fa, ok := ld.X.(*ssa.FieldAddr)
						if !ok {
							continue
						}
						owner, f := fieldAddrInfo(fa)
						if owner == nil || owner.Obj() != dict.Obj() || (f.Name() != "fst" && f.Name() != "fstReader") {
							continue
						}
						key := fnName(est) + "/" + f.Name() + "." + ci.Common().StaticCallee().Name()
						dom := false
						mayBeNil := ""
						nn := c.nilNilFuncs()
						for _, b2 := range est.Blocks {
							for _, i2 := range b2.Instrs {
								if st, ok := i2.(*ssa.Store); ok {
									if fa2, ok := st.Addr.(*ssa.FieldAddr); ok && fa2.Field == fa.Field && fa2.X == fa.X {
										if b2 == b && instrIndex(st) < instrIndex(ins) || b2 != b && b2.Dominates(b) {
											dom = true
											// established with the result of an in-package function that can return
											// (nil, nil) — e.g. "this field has no dictionary" — and not nil-tested since
											if ex, ok := st.Val.(*ssa.Extract); ok {
												if call, ok := ex.Tuple.(*ssa.Call); ok && call.Call.StaticCallee() != nil {
													if _, may := nn[call.Call.StaticCallee()]; may && !knownNonNilAt(ex, b) && !knownNonNilAt(ld, b) {
														mayBeNil = fnName(call.Call.StaticCallee())
													}
												}
											}
										}
									}
								}
							}
						}
						if dom && mayBeNil != "" {
							r.bad(key, fnName(est), c.pos(ins.Pos()), "."+f.Name()+" was just assigned the result of "+mayBeNil+", which returns (nil, nil) on some path (a field without a dictionary), and "+ci.Common().StaticCallee().Name()+"() is called on it without a nil test")
							continue
						}
						if dom {
							r.ok(key, fnName(est), c.pos(ins.Pos()), "executed only where ."+f.Name()+" was just established")
						} else {
							r.bad(key, fnName(est), c.pos(ins.Pos()), "method call on Dictionary."+f.Name()+" on a path where it was not established (field without dictionary: nil)")
						}
					}
				}
			}
			for _, fn := range c.srcFns {
				if fnName(fn) == "(*Segment).dictionary" {
					continue
				}
				for _, b := range fn.Blocks {
					for _, ins := range b.Instrs {
						ld, ok := ins.(*ssa.UnOp)
						if !ok || ld.Op != token.MUL {
							continue
						}
						fa, ok := ld.X.(*ssa.FieldAddr)
						if !ok {
							continue
						}
						owner, f := fieldAddrInfo(fa)
						if owner == nil || owner.Obj() != dict.Obj() || (f.Name() != "fst" && f.Name() != "fstReader") {
							continue
						}
						// uses of this load as a receiver
						for _, ref := range *ld.Referrers() {
							ci, ok := ref.(ssa.CallInstruction)
							if !ok {
								continue
							}
							cc := ci.Common()
							if len(cc.Args) == 0 || cc.Args[0] != ssa.Value(ld) || cc.StaticCallee() == nil || cc.StaticCallee().Signature.Recv() == nil {
								continue
							}
							key := fnName(fn) + "/" + f.Name() + "." + cc.StaticCallee().Name()
							// some load of the same field (same base access path) must be nil-tested and dominate
							if fieldNilTested(fn, fa, ref.Block()) || fieldNilTestedByCallers(c, fn, fa, 0) {
								r.ok(key, fnName(fn), c.pos(ref.Pos()), "dominated by a nil test of ."+f.Name())
							} else {
								r.bad(key, fnName(fn), c.pos(ref.Pos()), "method call on Dictionary."+f.Name()+" which may be nil, without a dominating nil test")
							}
						}
					}
				}
			}
		},
	})
}

// fieldNilTested: block b is dominated by the non-nil edge of a nil test of a
// load of the same field (same owner value access path).
func fieldNilTested(fn *ssa.Function, fa *ssa.FieldAddr, b *ssa.BasicBlock) bool {
	want := accessPath(fa)
	for _, blk := range fn.Blocks {
		for _, ins := range blk.Instrs {
			ld, ok := ins.(*ssa.UnOp)
			if !ok || ld.Op != token.MUL {
				continue
			}
			fa2, ok := ld.X.(*ssa.FieldAddr)
			if !ok || accessPath(fa2) != want {
				continue
			}
			if knownNonNilAt(ld, b) {
				return true
			}
		}
	}
	return false
}

// fieldNilTestedByCallers: fa is a field of a parameter of an unexported helper,
// and every call of the helper is dominated by a non-nil test of that field of
// the argument (the caller decides, the helper uses).
func fieldNilTestedByCallers(c *Ctx, fn *ssa.Function, fa *ssa.FieldAddr, depth int) bool {
	if depth > 2 || token.IsExported(fn.Name()) || fn.Parent() != nil {
		return false
	}
	pi := -1
	for i, p := range fn.Params {
		if fa.X == ssa.Value(p) {
			pi = i
		}
	}
	if pi < 0 {
		return false
	}
	_, fv := fieldAddrInfo(fa)
	if fv == nil {
		return false
	}
	sites := 0
	for _, caller := range c.srcFns {
		for _, b := range caller.Blocks {
			for _, ins := range b.Instrs {
				call, ok := ins.(*ssa.Call)
				if !ok || call.Call.StaticCallee() != fn || pi >= len(call.Call.Args) {
					continue
				}
				sites++
				arg := stripConv(call.Call.Args[pi])
				path := "*" + accessPath(arg) + "." + fv.Name()
				if pathKnown(caller, path, true, b) {
					continue
				}
				// the caller is itself such a helper
				okUp := false
				for _, cb := range caller.Blocks {
					for _, ci := range cb.Instrs {
						if cfa, ok := ci.(*ssa.FieldAddr); ok && cfa.X == arg && cfa.Field == fa.Field {
							if fieldNilTestedByCallers(c, caller, cfa, depth+1) {
								okUp = true
							}
						}
					}
				}
				if !okUp {
					return false
				}
			}
		}
	}
	return sites > 0
}

// checkMaybeNilUses walks the uses of a possibly-nil pointer value (and of phis
// it flows into) and returns descriptions of unguarded dereferences/escapes.
func checkMaybeNilUses(c *Ctx, p ssa.Value, defBlock *ssa.BasicBlock, errv ssa.Value, seen map[ssa.Value]bool) []string {
	if seen[p] {
		return nil
	}
	seen[p] = true
	var bad []string
	refs := p.Referrers()
	if refs == nil {
		return nil
	}
	for _, ref := range *refs {
		switch x := ref.(type) {
		case *ssa.DebugRef:
			continue
		case *ssa.Phi:
			bad = append(bad, checkMaybeNilUses(c, x, x.Block(), nil, seen)...)
			continue
		case *ssa.BinOp:
			continue // comparisons
		case *ssa.Store:
			if x.Val == p {
				// stored somewhere (local cell or field): follow loads of local cells only
				if a, ok := x.Addr.(*ssa.Alloc); ok {
					for _, r2 := range *a.Referrers() {
						if ld, ok := r2.(*ssa.UnOp); ok && ld.Op == token.MUL {
							bad = append(bad, checkMaybeNilUses(c, ld, ld.Block(), nil, seen)...)
						}
					}
				}
			}
			continue
		case *ssa.Return:
			continue // returning the pointer itself: the caller's obligation (it is in N then)
		}
		deref := false
		what := ""
		var errOK ssa.Value
		switch x := ref.(type) {
		case *ssa.FieldAddr:
			deref = x.X == p
			what = "field access"
		case *ssa.UnOp:
			deref = x.Op == token.MUL && x.X == p
			what = "dereference"
		case *ssa.MakeInterface:
			// a nil pointer inside a non-nil interface escaping the function
			deref = true
			what = "conversion to interface " + x.Type().String()
			// allowed when returned together with errv on a path where errv != nil
			if errv != nil {
				retWithErr := true
				for _, r2 := range *x.Referrers() {
					ret, ok := r2.(*ssa.Return)
					if !ok {
						retWithErr = false
						continue
					}
					has := false
					for _, rv := range ret.Results {
						if rv == errv {
							has = true
						}
					}
					if !has {
						retWithErr = false
					}
				}
				if retWithErr {
					errOK = errv
				}
			}
		default:
			if ci, ok := ref.(ssa.CallInstruction); ok {
				cc := ci.Common()
				if sc := cc.StaticCallee(); sc != nil && sc.Signature.Recv() != nil && len(cc.Args) > 0 && cc.Args[0] == p {
					deref = true
					what = "method call " + fnName(sc)
				}
			}
		}
		if !deref {
			continue
		}
		ok, trail := guardedOnAllPaths(p, defBlock, ref, errOK)
		if !ok {
			var t []string
			for i := len(trail) - 1; i >= 0; i-- {
				t = append(t, fmt.Sprint(trail[i].Index))
			}
			bad = append(bad, fmt.Sprintf("%s at %s reachable without nil test (blocks %s)", what, c.pos(ref.Pos()), strings.Join(t, "→")))
		}
	}
	return bad
}

func init() {
	register(&Rule{
		Name:  "LIST-READ-GUARD",
		Floor: 1,
		Doc:   "a PostingsList that was (re)initialised but not read - the result of a lookup in the dictionary of an unknown field, or of an absent term, into a caller's reusable list - has no segment behind it (sb is whatever the dictionary had: nil for the empty dictionary) and keeps the emptied bitmap of its previous use for reuse. A method of PostingsList therefore dereferences p.sb only where the list is known to have been read: under a test of p.sb itself, of the bitmap's CONTENT (IsEmpty / cardinality) or of the 1-hit marker - a nil test of the bitmap alone says nothing about a recycled list",
		Run: func(c *Ctx, scope string, r *Report) {
			pl := c.NamedType("PostingsList").Obj()
			isFieldLoadOf := func(v ssa.Value, base ssa.Value, name string) bool {
				ld, ok := v.(*ssa.UnOp)
				if !ok || ld.Op != token.MUL {
					return false
				}
				fa, ok := ld.X.(*ssa.FieldAddr)
				if !ok || fa.X != base {
					return false
				}
				_, f := fieldAddrInfo(fa)
				return f != nil && f.Name() == name
			}
			// knownRead: block b of fn is entered only when list (a *PostingsList parameter of fn)
			// is known to have been read - by a test in fn, or because every caller hands fn its
			// own list only where that is known
			var knownRead func(fn *ssa.Function, list *ssa.Parameter, b *ssa.BasicBlock, depth int) bool
			knownRead = func(fn *ssa.Function, list *ssa.Parameter, b *ssa.BasicBlock, depth int) bool {
				for _, hb := range fn.Blocks {
					ifi, ok := hb.Instrs[len(hb.Instrs)-1].(*ssa.If)
					if !ok {
						continue
					}
					var edge *ssa.BasicBlock
					switch x := ifi.Cond.(type) {
					case *ssa.BinOp:
						other, field := x.Y, x.X
						if isNilConst(field) || isZeroConst(field) {
							other, field = field, other
						}
						switch {
						case isFieldLoadOf(field, list, "sb") && isNilConst(other), isFieldLoadOf(field, list, "normBits1Hit") && isZeroConst(other):
							if x.Op == token.NEQ {
								edge = hb.Succs[0]
							} else if x.Op == token.EQL {
								edge = hb.Succs[1]
							}
						default:
							if call, ok := stripConv(field).(*ssa.Call); ok && isZeroConst(other) && call.Call.StaticCallee() != nil && call.Call.StaticCallee().Name() == "GetCardinality" && isFieldLoadOf(call.Call.Args[0], list, "postings") {
								switch x.Op {
								case token.NEQ, token.GTR:
									edge = hb.Succs[0]
								case token.EQL:
									edge = hb.Succs[1]
								}
							}
						}
					case *ssa.Call:
						sc := x.Call.StaticCallee()
						if sc != nil && sc.Name() == "IsEmpty" && len(x.Call.Args) > 0 && isFieldLoadOf(x.Call.Args[0], list, "postings") {
							edge = hb.Succs[1]
						}
						// a predicate method of the list that is true for every list that was not read:
						// it returns true whenever the bitmap is nil or empty
						if sc != nil && c.inRoot(sc) && len(x.Call.Args) > 0 && x.Call.Args[0] == ssa.Value(list) && emptyListPredicate(sc, isFieldLoadOf) {
							edge = hb.Succs[1]
						}
					}
					if edge != nil && len(edge.Preds) == 1 && (edge == b || edge.Dominates(b)) {
						return true
					}
				}
				if depth >= 2 {
					return false
				}
				sites := c.callsTo(fn)
				if len(sites) == 0 {
					return false
				}
				for _, site := range sites {
					ap, ok := argFor(site.Common(), list).(*ssa.Parameter)
					if !ok || !knownRead(site.Parent(), ap, site.Block(), depth+1) {
						return false
					}
				}
				return true
			}
			for _, fn := range c.srcFns {
				if fnName(fn) == "(*PostingsList).read" {
					continue // fills the list from a dictionary that has an FST, hence a segment
				}
				for _, list := range fn.Params {
					if n := namedOf(list.Type()); n == nil || n.Obj() != pl {
						continue
					}
					if _, isPtr := list.Type().Underlying().(*types.Pointer); !isPtr {
						continue
					}
					for _, b := range fn.Blocks {
						for _, ins := range b.Instrs {
							fa, ok := ins.(*ssa.FieldAddr)
							if !ok || !isFieldLoadOf(fa.X, list, "sb") {
								continue
							}
							key := fnName(fn) + "/deref-sb"
							if knownRead(fn, list, b, 0) {
								r.ok(key, fnName(fn), c.pos(fa.Pos()), "the list's sb is dereferenced only where the list is known to have been read")
							} else {
								r.bad(key, fnName(fn), c.pos(fa.Pos()), "p.sb is dereferenced where the list may be a recycled one that was not read (unknown field / absent term with a caller-supplied list: sb is nil, the bitmap is the emptied one of the previous use, so a nil test of the bitmap does not stop it): nil pointer dereference")
							}
						}
					}
				}
			}
		},
	})
}

// emptyListPredicate: m is a method of PostingsList without further
// parameters that returns true on every path on which the bitmap is nil or
// empty (so its false edge establishes a non-empty, i.e. read, list):
// its body tests postings for nil and IsEmpty/GetCardinality, nothing else.
func emptyListPredicate(m *ssa.Function, isFieldLoadOf func(ssa.Value, ssa.Value, string) bool) bool {
	if m.Blocks == nil || len(m.Params) != 1 || m.Signature.Results().Len() != 1 || m.Signature.Results().At(0).Type().String() != "bool" {
		return false
	}
	hasContent := false
	for _, b := range m.Blocks {
		for _, ins := range b.Instrs {
			if call, ok := ins.(*ssa.Call); ok {
				sc := call.Call.StaticCallee()
				if sc != nil && (sc.Name() == "IsEmpty" || sc.Name() == "GetCardinality") && len(call.Call.Args) > 0 && isFieldLoadOf(call.Call.Args[0], m.Params[0], "postings") {
					hasContent = true
				}
			}
		}
	}
	return hasContent
}
