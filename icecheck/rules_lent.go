package main

import (
	"go/token"
	"go/types"
	"sort"

	"golang.org/x/tools/go/ssa"
)

// lentField: a byte-slice field whose array a method of the owner hands out
// (new.go: grabBuf returns s.tmp0[:size]).
type lentField struct {
	field  *types.Var
	lender *ssa.Function
}

func (c *Ctx) lentFields() []lentField {
	var out []lentField
	for _, fn := range c.srcFns {
		if fn.Signature.Recv() == nil || fn.Signature.Results().Len() != 1 || !isByteSlice(fn.Signature.Results().At(0).Type()) {
			continue
		}
		for _, b := range fn.Blocks {
			ret, ok := b.Instrs[len(b.Instrs)-1].(*ssa.Return)
			if !ok {
				continue
			}
			if f := fieldBehind(ret.Results[0], fn.Params[0], map[ssa.Value]bool{}); f != nil {
				dup := false
				for _, l := range out {
					if l.field == f && l.lender == fn {
						dup = true
					}
				}
				if !dup {
					out = append(out, lentField{f, fn})
				}
			}
		}
	}
	return out
}

// fieldBehind: v is (a re-slicing of) the value of a field of recv: the field.
func fieldBehind(v ssa.Value, recv ssa.Value, seen map[ssa.Value]bool) *types.Var {
	if seen[v] {
		return nil
	}
	seen[v] = true
	switch x := v.(type) {
	case *ssa.Slice:
		return fieldBehind(x.X, recv, seen)
	case *ssa.Phi:
		for _, e := range x.Edges {
			if f := fieldBehind(e, recv, seen); f != nil {
				return f
			}
		}
	case *ssa.UnOp:
		if fa, ok := x.X.(*ssa.FieldAddr); ok && x.Op == token.MUL && fa.X == recv {
			_, f := fieldAddrInfo(fa)
			return f
		}
	}
	return nil
}

func init() {
	register(&Rule{
		Name:  "SCRATCH-LENT",
		Floor: 2,
		Doc:   "a scratch array of the builder that a method lends out (grabBuf returns s.tmp0[:n]) has one user at a time: a function that works on the field itself (writeStoredFields keeps the document's value bytes in s.tmp0 and stores the grown slice back on exit) does not, while it holds it, call anything that reaches the lending method - directly, through a helper, a closure or a method value - and a function that holds a lent slice does not call anything that works on the field or borrows it again: two users of one array overwrite each other's bytes (only on a recycled builder, whose array is already large enough not to be reallocated)",
		Run: func(c *Ctx, scope string, r *Report) {
			lent := c.lentFields()
			if len(lent) == 0 {
				r.undecided("lenders", "", "-", "no method lends out a scratch array of its receiver: the rule's model is out of date")
				return
			}
			for _, l := range lent {
				// holders: functions that load the field and use the loaded slice beyond storing it straight back
				holders := map[*ssa.Function]ssa.Instruction{}
				for _, fn := range c.srcFns {
					if fn == l.lender {
						continue
					}
					for _, b := range fn.Blocks {
						for _, ins := range b.Instrs {
							ld, ok := ins.(*ssa.UnOp)
							if !ok || ld.Op != token.MUL {
								continue
							}
							fa, ok := ld.X.(*ssa.FieldAddr)
							if !ok {
								continue
							}
							if _, f := fieldAddrInfo(fa); f != l.field {
								continue
							}
							if onlyStoredBack(ld, l.field) {
								continue
							}
							if holders[fn] == nil {
								holders[fn] = ld
							}
						}
					}
				}
				reachesLender := func(from *ssa.Function, site ssa.CallInstruction) *ssa.Function {
					var roots []*ssa.Function
					roots = append(roots, c.calleesIn(from, site)...)
					// function values handed to the callee may be called by it
					for _, a := range site.Common().Args {
						switch x := a.(type) {
						case *ssa.MakeClosure:
							roots = append(roots, x.Fn.(*ssa.Function))
						case *ssa.Function:
							roots = append(roots, x)
						}
					}
					var in []*ssa.Function
					for _, f := range roots {
						if f == l.lender {
							return f
						}
						in = append(in, unwrapBound(f)...)
					}
					reach := c.reach(in)
					if reach[l.lender] {
						return l.lender
					}
					for h := range holders {
						if reach[h] && h != from {
							return h
						}
					}
					return nil
				}
				var hs []*ssa.Function
				for h := range holders {
					hs = append(hs, h)
				}
				sort.Slice(hs, func(i, j int) bool { return fnName(hs[i]) < fnName(hs[j]) })
				for _, h := range hs {
					key := fnName(h) + "/holds-" + l.field.Name()
					bad := ""
					start := holders[h]
					for _, b := range h.Blocks {
						for _, ins := range b.Instrs {
							ci, ok := ins.(ssa.CallInstruction)
							if !ok || !(before(start, ins) || reachableWithout(start.Block(), b, nil)) {
								continue
							}
							if _, isDefer := ins.(*ssa.Defer); isDefer {
								continue
							}
							if hit := reachesLender(h, ci); hit != nil {
								bad = "while it works on s." + l.field.Name() + " (loaded at " + c.pos(start.Pos()) + ") it calls, at " + c.pos(ins.Pos()) + ", code that reaches " + fnName(hit) + ", which uses the same array: the bytes of the two users overwrite each other on a recycled builder"
							}
						}
					}
					if bad != "" {
						r.bad(key, fnName(h), c.pos(start.Pos()), bad)
					} else {
						r.ok(key, fnName(h), c.pos(start.Pos()), "nothing called while s."+l.field.Name()+" is held reaches "+fnName(l.lender)+" or another user of the array")
					}
				}
				// borrowers
				for _, site := range c.callsTo(l.lender) {
					fn := site.Parent()
					key := fnName(fn) + "/borrows-" + l.field.Name()
					bad := ""
					for _, b := range fn.Blocks {
						for _, ins := range b.Instrs {
							ci, ok := ins.(ssa.CallInstruction)
							if !ok || ins == ssa.Instruction(site) || !(before(site, ins) || reachableWithout(site.Block(), b, nil)) {
								continue
							}
							if hit := reachesLender(fn, ci); hit != nil {
								bad = "while it holds the slice lent at " + c.pos(site.Pos()) + " it calls, at " + c.pos(ins.Pos()) + ", code that reaches " + fnName(hit) + ", which uses the same array"
							}
						}
					}
					if bad != "" {
						r.bad(key, fnName(fn), c.pos(site.Pos()), bad)
					} else {
						r.ok(key, fnName(fn), c.pos(site.Pos()), "nothing called after borrowing s."+l.field.Name()+" reaches another user of the array")
					}
				}
			}
		},
	})
}

// onlyStoredBack: the loaded field value is only re-sliced and stored back
// into the same field (s.tmp0 = s.tmp0[:0]) or measured.
func onlyStoredBack(ld *ssa.UnOp, f *types.Var) bool {
	var ok func(v ssa.Value, d int) bool
	ok = func(v ssa.Value, d int) bool {
		if d > 4 || v.Referrers() == nil {
			return false
		}
		for _, ref := range *v.Referrers() {
			switch x := ref.(type) {
			case *ssa.Slice:
				if !ok(x, d+1) {
					return false
				}
			case *ssa.Store:
				fa, isFA := x.Addr.(*ssa.FieldAddr)
				if !isFA {
					return false
				}
				if _, g := fieldAddrInfo(fa); g != f {
					return false
				}
			case *ssa.Call:
				if bi, isB := x.Call.Value.(*ssa.Builtin); !isB || (bi.Name() != "len" && bi.Name() != "cap") {
					return false
				}
			case *ssa.DebugRef:
			default:
				return false
			}
		}
		return true
	}
	return ok(ld, 0)
}

// unwrapBound: a bound-method or thunk wrapper stands for the method it calls.
func unwrapBound(f *ssa.Function) []*ssa.Function {
	if f == nil {
		return nil
	}
	if f.Synthetic == "" || f.Blocks == nil {
		return []*ssa.Function{f}
	}
	out := []*ssa.Function{f}
	for _, b := range f.Blocks {
		for _, ins := range b.Instrs {
			if ci, ok := ins.(ssa.CallInstruction); ok {
				if sc := ci.Common().StaticCallee(); sc != nil {
					out = append(out, sc)
				}
			}
		}
	}
	return out
}
