package main

import (
	"fmt"
	"go/constant"
	"go/token"
	"go/types"
	"sort"
	"strings"

	"golang.org/x/tools/go/ssa"
)

// callsTo lists every call instruction (Call/Defer/Go) in the root package
// whose static callee is fn.
func (c *Ctx) callsTo(fn *ssa.Function) []ssa.CallInstruction {
	var out []ssa.CallInstruction
	for _, f := range c.srcFns {
		for _, b := range f.Blocks {
			for _, ins := range b.Instrs {
				if ci, ok := ins.(ssa.CallInstruction); ok && ci.Common().StaticCallee() == fn {
					out = append(out, ci)
				}
			}
		}
	}
	return out
}

// callsNamed lists call instructions whose static callee has the given full name
// (pkgpath.Name or pkgpath.(*T).Name as rendered by funcFullName).
func (c *Ctx) callsNamed(full string) []ssa.CallInstruction {
	var out []ssa.CallInstruction
	for _, f := range c.srcFns {
		for _, b := range f.Blocks {
			for _, ins := range b.Instrs {
				if ci, ok := ins.(ssa.CallInstruction); ok {
					if sc := ci.Common().StaticCallee(); sc != nil && funcFullName(sc) == full {
						out = append(out, ci)
					}
				}
			}
		}
	}
	return out
}

func constUint(v ssa.Value) (uint64, bool) {
	v = stripConv(v)
	k, ok := v.(*ssa.Const)
	if !ok || k.Value == nil {
		return 0, false
	}
	if k.Value.Kind() != constant.Int {
		return 0, false
	}
	u, ok := constant.Uint64Val(k.Value)
	return u, ok
}

func constInt(v ssa.Value) (int64, bool) {
	v = stripConv(v)
	k, ok := v.(*ssa.Const)
	if !ok || k.Value == nil || k.Value.Kind() != constant.Int {
		return 0, false
	}
	i, ok := constant.Int64Val(k.Value)
	return i, ok
}

// lenOrCapOf: v is len(x) or cap(x) builtin call; returns x.
func lenOrCapOf(v ssa.Value) (ssa.Value, string, bool) {
	call, ok := stripConv(v).(*ssa.Call)
	if !ok {
		return nil, "", false
	}
	b, ok := call.Call.Value.(*ssa.Builtin)
	if !ok || (b.Name() != "len" && b.Name() != "cap") || len(call.Call.Args) != 1 {
		return nil, "", false
	}
	return call.Call.Args[0], b.Name(), true
}

// addConst: v is (conv)* (x + c) with c a positive constant.
func addConst(v ssa.Value) (ssa.Value, int64, bool) {
	bin, ok := stripConv(v).(*ssa.BinOp)
	if !ok || bin.Op != token.ADD {
		return nil, 0, false
	}
	if k, ok := constInt(bin.Y); ok && k > 0 {
		if _, isK := constInt(bin.X); !isK {
			return bin.X, k, true
		}
	}
	if k, ok := constInt(bin.X); ok && k > 0 {
		if _, isK := constInt(bin.Y); !isK {
			return bin.Y, k, true
		}
	}
	return nil, 0, false
}

func isByteSlice(t types.Type) bool {
	s, ok := t.Underlying().(*types.Slice)
	if !ok {
		return false
	}
	b, ok := s.Elem().Underlying().(*types.Basic)
	return ok && b.Kind() == types.Uint8
}

// clampedHigh: high is a phi merging an unclamped look-ahead bound with
// len/cap of the sliced value, selected by a comparison of the two.
func clampedHigh(high ssa.Value, sliced ssa.Value) (bool, string) {
	phi, ok := high.(*ssa.Phi)
	if !ok {
		return false, "bound is not selected between the look-ahead and the length"
	}
	var lim ssa.Value
	var other ssa.Value
	for _, e := range phi.Edges {
		if x, _, ok := lenOrCapOf(e); ok && sameSliceValue(x, sliced) {
			lim = e
		} else {
			other = e
		}
	}
	if lim == nil || other == nil || len(phi.Edges) != 2 {
		return false, "no edge of the bound's phi is len/cap of the sliced buffer"
	}
	// the deciding If: compares `other` with len/cap of the same buffer
	idom := phi.Block().Idom()
	if idom == nil {
		return false, "no deciding branch"
	}
	ifi, ok := idom.Instrs[len(idom.Instrs)-1].(*ssa.If)
	if !ok {
		return false, "no deciding branch"
	}
	bin, ok := ifi.Cond.(*ssa.BinOp)
	if !ok {
		return false, "deciding condition is not a comparison"
	}
	var cmpLim, cmpOther ssa.Value
	if x, _, ok := lenOrCapOf(bin.Y); ok && sameSliceValue(x, sliced) {
		cmpLim, cmpOther = bin.Y, bin.X
	} else if x, _, ok := lenOrCapOf(bin.X); ok && sameSliceValue(x, sliced) {
		cmpLim, cmpOther = bin.X, bin.Y
	}
	if cmpLim == nil || stripConv(cmpOther) != stripConv(other) {
		return false, "deciding comparison is not between the look-ahead bound and len/cap of the buffer"
	}
	// direction: on the edge where other > lim the phi must take lim
	gt := false
	switch bin.Op {
	case token.GTR, token.GEQ:
		gt = cmpOther == bin.X
	case token.LSS, token.LEQ:
		gt = cmpOther == bin.Y
	default:
		return false, "deciding comparison is not an ordering"
	}
	// successor index taken when other > lim
	succ := 0
	if !gt {
		succ = 1
	}
	target := idom.Succs[succ]
	// the phi edge coming (transitively) from `target` must be lim
	for i, pred := range phi.Block().Preds {
		if pred == target || (target == phi.Block() && pred == idom) {
			if phi.Edges[i] == lim {
				return true, ""
			}
			return false, "the bound keeps the look-ahead value on the branch where it exceeds the buffer"
		}
	}
	// target may be the phi block itself reached directly from idom
	for i, pred := range phi.Block().Preds {
		if pred == idom && idom.Succs[succ] == phi.Block() {
			if phi.Edges[i] == lim {
				return true, ""
			}
		}
	}
	return false, "cannot relate the clamp branch to the phi edges"
}

func sameSliceValue(a, b ssa.Value) bool {
	if a == b {
		return true
	}
	// both loads of the same local cell / field path
	la, oka := a.(*ssa.UnOp)
	lb, okb := b.(*ssa.UnOp)
	if oka && okb && la.Op == token.MUL && lb.Op == token.MUL {
		return accessPath(la.X) == accessPath(lb.X) && la.X == lb.X
	}
	// a slice of a slice: s[:cap(s)] vs s
	if sa, ok := a.(*ssa.Slice); ok && sa.Low == nil {
		return sameSliceValue(sa.X, b)
	}
	if sb, ok := b.(*ssa.Slice); ok && sb.Low == nil {
		return sameSliceValue(a, sb.X)
	}
	return false
}

func init() {
	register(&Rule{
		Name:  "INIT-BEFORE-READ",
		Floor: 1,
		Doc:   "the receiver of every (*PostingsList).read call is the result of a dominating postingsListInit call with no other read in between (read assumes a cleared list: Count/OrInto/Iterator dispatch on normBits1Hit first)",
		Run: func(c *Ctx, scope string, r *Report) {
			read := c.MustFn("(*PostingsList).read")
			init := c.MustFn("(*Dictionary).postingsListInit")
			for _, ci := range c.callsTo(read) {
				fn := ci.Parent()
				key := fnName(fn) + "/read"
				recv := ci.Common().Args[0]
				ic, ok := recv.(*ssa.Call)
				if !ok || ic.Call.StaticCallee() != init {
					r.bad(key, fnName(fn), c.pos(ci.Pos()), "read() is called on "+recv.String()+" which is not the result of postingsListInit: state of a previous term (1-hit flag, offsets) carries over")
					continue
				}
				// exactly one read on this init result, dominated by it, and not re-executed without re-init
				n := 0
				for _, ref := range *ic.Referrers() {
					if c2, ok := ref.(ssa.CallInstruction); ok && c2.Common().StaticCallee() == read && c2.Common().Args[0] == ssa.Value(ic) {
						n++
					}
				}
				if n != 1 {
					r.bad(key, fnName(fn), c.pos(ci.Pos()), fmt.Sprintf("%d read() calls share one postingsListInit result", n))
					continue
				}
				if !ic.Block().Dominates(ci.Block()) {
					r.bad(key, fnName(fn), c.pos(ci.Pos()), "postingsListInit does not dominate read()")
					continue
				}
				if ic.Block() != ci.Block() && reachableWithout(ci.Block(), ci.Block(), ic.Block()) {
					r.bad(key, fnName(fn), c.pos(ci.Pos()), "read() can execute again (loop) without a new postingsListInit")
					continue
				}
				r.ok(key, fnName(fn), c.pos(ci.Pos()), "receiver is the fresh result of postingsListInit")
			}
		},
	})

	register(&Rule{
		Name:  "LOOKAHEAD-CLAMP",
		Floor: 2,
		Doc:   "every slice expression on an in-memory []byte whose upper bound is (offset + positive constant) — a fixed look-ahead window — has that bound clamped to len/cap of the buffer (the bound is selected by a comparison of the two); otherwise a short record at the end of the buffer panics",
		Run: func(c *Ctx, scope string, r *Report) {
			for _, fn := range c.srcFns {
				for _, b := range fn.Blocks {
					for _, ins := range b.Instrs {
						sl, ok := ins.(*ssa.Slice)
						if !ok || sl.High == nil || !isByteSlice(sl.X.Type()) {
							continue
						}
						key := fnName(fn) + "/slice"
						high := sl.High
						if _, k, ok := addConst(high); ok {
							r.bad(key, fnName(fn), c.pos(sl.Pos()), fmt.Sprintf("look-ahead of %d bytes is not clamped to the buffer: %s", k, sl.String()))
							continue
						}
						if phi, ok := high.(*ssa.Phi); ok {
							la := false
							for _, e := range phi.Edges {
								if _, _, ok := addConst(e); ok {
									la = true
								}
							}
							if !la {
								continue
							}
							if ok, why := clampedHigh(high, sl.X); ok {
								r.ok(key, fnName(fn), c.pos(sl.Pos()), "look-ahead bound is clamped to len/cap of the buffer")
							} else {
								r.bad(key, fnName(fn), c.pos(sl.Pos()), "look-ahead bound is not recognisably clamped: "+why)
							}
						}
					}
				}
			}
		},
	})

	register(&Rule{
		Name:  "INSERT-GUARD",
		Floor: 2,
		Doc:   "every vellum Builder.Insert is dominated by the true edge of (inserted value > 0), and writePostings returns offset 0 before writing anything when the bitmap cardinality is 0: a term without surviving postings never enters a dictionary",
		Run: func(c *Ctx, scope string, r *Report) {
			for _, ci := range c.callsNamed("github.com/blevesearch/vellum.(*Builder).Insert") {
				fn := ci.Parent()
				key := fnName(fn) + "/Insert"
				val := ci.Common().Args[2]
				guarded := false
				for _, ref := range *val.Referrers() {
					bin, ok := ref.(*ssa.BinOp)
					if !ok {
						continue
					}
					zero := func(v ssa.Value) bool { k, ok := constUint(v); return ok && k == 0 }
					var pos bool // condition true means val > 0
					switch {
					case bin.Op == token.GTR && bin.X == val && zero(bin.Y), bin.Op == token.NEQ && bin.X == val && zero(bin.Y), bin.Op == token.LSS && bin.Y == val && zero(bin.X):
						pos = true
					default:
						continue
					}
					for _, r2 := range *bin.Referrers() {
						if ifi, ok := r2.(*ssa.If); ok && pos {
							t := ifi.Block().Succs[0]
							if len(t.Preds) == 1 && t.Dominates(ci.Block()) {
								guarded = true
							}
						}
					}
				}
				if guarded {
					r.ok(key, fnName(fn), c.pos(ci.Pos()), "insert is guarded by postingsOffset > 0")
				} else {
					r.bad(key, fnName(fn), c.pos(ci.Pos()), "term inserted into the dictionary without the postingsOffset > 0 guard (terms whose documents were all deleted would stay visible)")
				}
			}
			// writePostings: cardinality 0 => return 0 before any write
			wp := c.MustFn("writePostings")
			key := "writePostings/empty-returns-0"
			found := false
			for _, b := range wp.Blocks {
				ifi, ok := b.Instrs[len(b.Instrs)-1].(*ssa.If)
				if !ok {
					continue
				}
				bin, ok := ifi.Cond.(*ssa.BinOp)
				if !ok {
					continue
				}
				call, ok := bin.X.(*ssa.Call)
				if !ok || call.Call.StaticCallee() == nil || call.Call.StaticCallee().Name() != "GetCardinality" || paramOfType(wp, roaringBitmapPtr) == nil || call.Call.Args[0] != ssa.Value(paramOfType(wp, roaringBitmapPtr)) {
					continue
				}
				if k, ok := constUint(bin.Y); !ok || k != 0 || (bin.Op != token.LEQ && bin.Op != token.EQL) {
					continue
				}
				// must be in the entry block (before any write)
				if b != wp.Blocks[0] {
					continue
				}
				tb := b.Succs[0]
				ret, ok := tb.Instrs[len(tb.Instrs)-1].(*ssa.Return)
				if !ok {
					continue
				}
				if k, ok := constUint(ret.Results[0]); ok && k == 0 && isNilConst(ret.Results[1]) && len(tb.Instrs) == 1 {
					found = true
				}
			}
			if found {
				r.ok(key, "writePostings", c.pos(wp.Pos()), "entry test cardinality<=0 returns (0, nil) before any write")
			} else {
				r.bad(key, "writePostings", c.pos(wp.Pos()), "writePostings no longer starts with `if cardinality(postings) <= 0 { return 0, nil }`")
			}
		},
	})

	register(&Rule{
		Name:  "ONEHIT-AWARE",
		Floor: 3,
		Doc:   "every function that reads PostingsList.postings for content also consults normBits1Hit of the same list, and tests it on every path before the bitmap is used (both encodings reach Count, OrInto and the iterators)",
		Run: func(c *Ctx, scope string, r *Report) {
			pl := c.NamedType("PostingsList")
			exempt := map[string]string{
				"(*PostingsList).read":                    "establishes the list (decodes the FST value itself)",
				"(*Dictionary).postingsListInit":          "re-initialiser",
				"(*PostingsIterator).nextDocNumAtOrAfter": "compares the pointer only (clean-path test); dispatches on the iterator's own normBits1Hit first",
			}
			for _, fn := range c.srcFns {
				var postingsLoads []*ssa.UnOp
				oneHit := false
				for _, b := range fn.Blocks {
					for _, ins := range b.Instrs {
						ld, ok := ins.(*ssa.UnOp)
						if !ok || ld.Op != token.MUL {
							continue
						}
						fa, ok := ld.X.(*ssa.FieldAddr)
						if !ok {
							continue
						}
						owner, f := fieldAddrInfo(fa)
						if owner == nil || owner.Obj() != pl.Obj() {
							continue
						}
						if f.Name() == "postings" {
							// content use: used as receiver or argument of a call
							// … or handed on (returned, stored, boxed): anything but a pointer comparison
							for _, ref := range *ld.Referrers() {
								switch ref.(type) {
								case ssa.CallInstruction, *ssa.Return, *ssa.Store, *ssa.MapUpdate, *ssa.MakeInterface, *ssa.Phi:
									postingsLoads = append(postingsLoads, ld)
								}
								if len(postingsLoads) > 0 && postingsLoads[len(postingsLoads)-1] == ld {
									break
								}
							}
						}
						if f.Name() == "normBits1Hit" {
							oneHit = true
						}
					}
				}
				// the dispatch spelled through an accessor: p.is1Hit() { return p.normBits1Hit != 0 }
				for _, b := range fn.Blocks {
					for _, ins := range b.Instrs {
						if call, ok := ins.(*ssa.Call); ok {
							if _, isAcc := oneHitAccessor(c, call); isAcc {
								oneHit = true
							}
						}
					}
				}
				if len(postingsLoads) == 0 {
					continue
				}
				key := fnName(fn) + "/postings"
				if why, ok := exempt[fnName(fn)]; ok {
					r.ok(key, fnName(fn), c.pos(fn.Pos()), "exempt: "+why)
					continue
				}
				if oneHit {
					// the 1-hit dispatch must come first: every content use is dominated by the normBits1Hit == 0 edge
					var zeroEdges []*ssa.BasicBlock
					for _, b := range fn.Blocks {
						ifi, ok := b.Instrs[len(b.Instrs)-1].(*ssa.If)
						if !ok {
							continue
						}
						// accessor form: if p.is1Hit() / if !p.is1Hit()
						{
							cv, neg := ifi.Cond, false
							for {
								u, ok := cv.(*ssa.UnOp)
								if !ok || u.Op != token.NOT {
									break
								}
								neg = !neg
								cv = u.X
							}
							if call, ok := cv.(*ssa.Call); ok {
								if meansOneHit, isAcc := oneHitAccessor(c, call); isAcc {
									// accessor true <=> 1-hit when meansOneHit; the general-encoding edge is the other one
									oneHitEdgeIsTrue := meansOneHit != neg
									if oneHitEdgeIsTrue {
										zeroEdges = append(zeroEdges, b.Succs[1])
									} else {
										zeroEdges = append(zeroEdges, b.Succs[0])
									}
									continue
								}
							}
						}
						bin, ok := ifi.Cond.(*ssa.BinOp)
						if !ok || (bin.Op != token.NEQ && bin.Op != token.EQL) {
							continue
						}
						if k, isK := constUint(bin.Y); !isK || k != 0 || exprSig(bin.X, 0) != ".normBits1Hit" {
							continue
						}
						z := b.Succs[1]
						if bin.Op == token.EQL {
							z = b.Succs[0]
						}
						zeroEdges = append(zeroEdges, z)
					}
					late := ""
					for _, ld := range postingsLoads {
						for _, ref := range *ld.Referrers() {
							if _, isCall := ref.(ssa.CallInstruction); !isCall {
								continue
							}
							dom := false
							for _, z := range zeroEdges {
								if len(z.Preds) == 1 && (z == ref.Block() || z.Dominates(ref.Block())) {
									dom = true
								}
							}
							if !dom {
								late = c.pos(ref.Pos())
							}
						}
					}
					if late != "" {
						r.bad(key, fnName(fn), late, "the postings bitmap is used before the 1-hit dispatch (normBits1Hit) decided that the list is general-encoded: a reused list's stale bitmap would win over its 1-hit value")
						continue
					}
					r.ok(key, fnName(fn), c.pos(fn.Pos()), "dispatches on normBits1Hit before any use of the postings bitmap")
				} else if ok, why := callersDispatchOneHit(c, fn, postingsLoads); ok {
					r.ok(key, fnName(fn), c.pos(fn.Pos()), "helper for the general encoding: "+why)
				} else {
					r.bad(key, fnName(fn), c.pos(postingsLoads[0].Pos()), "uses PostingsList.postings without consulting normBits1Hit: 1-hit encoded lists would be treated as empty")
				}
			}
		},
	})

	register(&Rule{
		Name:  "VISIT-GUARD",
		Floor: 2,
		Doc:   "in visitDocument every storage access is dominated by num < footer.numDocs, and the visiting loop continues only while the visitor returned true (the loop variable is defined by the visitor's result and the initial true only)",
		Run: func(c *Ctx, scope string, r *Report) {
			fn := c.MustFn("(*Segment).visitDocument")
			entryFn := fn
			// the guard (and the storage accesses behind it) may sit in a helper that fetches the record
			hasGuardTest := func(f *ssa.Function) bool {
				for _, b := range f.Blocks {
					if ifi, ok := b.Instrs[len(b.Instrs)-1].(*ssa.If); ok {
						if bin, ok := ifi.Cond.(*ssa.BinOp); ok && (bin.Op == token.LSS || bin.Op == token.GEQ) {
							if ld, ok := bin.Y.(*ssa.UnOp); ok && strings.HasSuffix(accessPath(ld.X), ".footer.numDocs") {
								return true
							}
						}
					}
				}
				return false
			}
			if !hasGuardTest(fn) {
				for _, sc := range staticCallees(fn) {
					if c.inRoot(sc) && sc.Blocks != nil && hasGuardTest(sc) {
						fn = sc
						break
					}
				}
			}
			// (a) numDocs guard
			var guard *ssa.BasicBlock
			for _, b := range fn.Blocks {
				ifi, ok := b.Instrs[len(b.Instrs)-1].(*ssa.If)
				if !ok {
					continue
				}
				bin, ok := ifi.Cond.(*ssa.BinOp)
				if !ok || (bin.Op != token.LSS && bin.Op != token.GEQ) {
					continue
				}
				if p, ok := bin.X.(*ssa.Parameter); !ok || p.Type().String() != "uint64" {
					continue
				}
				if ld, ok := bin.Y.(*ssa.UnOp); ok && strings.HasSuffix(accessPath(ld.X), ".footer.numDocs") {
					// the successor on which num < numDocs holds
					if bin.Op == token.LSS {
						guard = b.Succs[0]
					} else {
						guard = b.Succs[1]
					}
					if len(guard.Preds) != 1 {
						guard = nil
					}
				}
			}
			if guard == nil {
				r.bad("visitDocument/numDocs-guard", fnName(fn), c.pos(fn.Pos()), "no `num < s.footer.numDocs` test found")
			} else {
				bad := ""
				for _, b := range fn.Blocks {
					for _, ins := range b.Instrs {
						if ci, ok := ins.(ssa.CallInstruction); ok {
							if sc := ci.Common().StaticCallee(); sc != nil && c.inRoot(sc) && !guard.Dominates(b) && reachesDataRead(c, sc, 0) {
								bad = "call of " + fnName(sc) + " at " + c.pos(ins.Pos()) + " is not behind the numDocs guard"
							}
							if cb, _ := isCallbackCall(ci.Common()); cb && !guard.Dominates(b) {
								bad = "visitor invoked outside the numDocs guard at " + c.pos(ins.Pos())
							}
						}
					}
				}
				if bad != "" {
					r.bad("visitDocument/numDocs-guard", fnName(fn), c.pos(fn.Pos()), bad)
				} else {
					r.ok("visitDocument/numDocs-guard", fnName(fn), c.pos(fn.Pos()), "every read and visitor call is dominated by num < footer.numDocs")
				}
			}
			if fn != entryFn && guard != nil {
				for _, b := range entryFn.Blocks {
					for _, ins := range b.Instrs {
						if ci, ok := ins.(ssa.CallInstruction); ok {
							if sc := ci.Common().StaticCallee(); sc != nil && c.inRoot(sc) && sc != fn && reachesDataRead(c, sc, 0) {
								r.bad("visitDocument/numDocs-guard", fnName(entryFn), c.pos(ins.Pos()), "call of "+fnName(sc)+" reaches the segment data without passing the numDocs guard of "+fnName(fn))
							}
						}
					}
				}
				fn = entryFn
				guard = nil // (c) is about the function that holds the guard and the loop together
			}
			// (c) inside the guarded region the only exits before the visitor is first called are error returns
			if guard != nil {
				var vblk *ssa.BasicBlock
				for _, b := range fn.Blocks {
					for _, ins := range b.Instrs {
						if call, ok := ins.(*ssa.Call); ok && isFuncParamOf(call.Call.Value, fn) {
							vblk = b
						}
					}
				}
				early := ""
				if vblk != nil {
					for _, b := range fn.Blocks {
						ret, ok := b.Instrs[len(b.Instrs)-1].(*ssa.Return)
						if !ok || !guard.Dominates(b) {
							continue
						}
						if !isNilConst(resolveLoad(ret.Results[0])) {
							continue // error return
						}
						// a nil return that can be reached without passing the loop header of the visiting loop
						hdr := vblk
						for x := vblk; x != nil; x = x.Idom() {
							if isLoopHeader(x) {
								hdr = x
								break
							}
						}
						if !coveredFrom(guard, map[*ssa.BasicBlock]bool{hdr: true}, b) {
							early = "a successful return at " + c.pos(retPos(ret, b)) + " can be reached before any stored value is visited: some records would deliver nothing"
						}
					}
				}
				if early != "" {
					r.bad("visitDocument/no-early-success", fnName(fn), c.pos(fn.Pos()), early)
				} else {
					r.ok("visitDocument/no-early-success", fnName(fn), c.pos(fn.Pos()), "within the numDocs guard every successful return comes after the visiting loop")
				}
			}
			// (b) keepGoing
			var vcall *ssa.Call
			// the visiting loop is in visitDocument or in a helper it hands the visitor to
			visitFns := []*ssa.Function{fn}
			for _, sc := range staticCallees(fn) {
				if c.inRoot(sc) && sc.Blocks != nil {
					visitFns = append(visitFns, sc)
					for _, sc2 := range staticCallees(sc) {
						if c.inRoot(sc2) && sc2.Blocks != nil {
							visitFns = append(visitFns, sc2)
						}
					}
				}
			}
			for _, vf := range visitFns {
				for _, b := range vf.Blocks {
					for _, ins := range b.Instrs {
						call, ok := ins.(*ssa.Call)
						if !ok {
							continue
						}
						p, isParam := call.Call.Value.(*ssa.Parameter)
						if !isParam || p.Parent() != vf {
							continue
						}
						if sig, ok := p.Type().Underlying().(*types.Signature); ok && sig.Results().Len() == 1 && isBoolType(sig.Results().At(0).Type()) {
							vcall = call
						}
					}
				}
			}
			if vcall == nil {
				r.bad("visitDocument/keepGoing", fnName(fn), c.pos(fn.Pos()), "the visitor parameter is never called")
				return
			}
			// the call result must flow (only) into a phi that is the loop condition
			okLoop := false
			for _, ref := range *vcall.Referrers() {
				phi, ok := ref.(*ssa.Phi)
				if !ok {
					continue
				}
				allOK := true
				for _, e := range phi.Edges {
					if e == ssa.Value(vcall) {
						continue
					}
					if k, ok := e.(*ssa.Const); ok && k.Value != nil && k.Value.Kind() == constant.Bool && constant.BoolVal(k.Value) {
						continue
					}
					allOK = false
				}
				for _, r2 := range *phi.Referrers() {
					if ifi, ok := r2.(*ssa.If); ok && allOK {
						// true edge continues the loop: the block calling the visitor must be reachable only via it
						if ifi.Block().Succs[0].Dominates(vcall.Block()) {
							okLoop = true
						}
					}
				}
			}
			if !okLoop {
				// `if !visitor(…) { break }`: the result is tested directly and its false edge leaves the loop
				var hdr *ssa.BasicBlock
				for x := vcall.Block(); x != nil; x = x.Idom() {
					if isLoopHeader(x) && loopBody(x)[vcall.Block()] {
						hdr = x
						break
					}
				}
				if hdr != nil {
					body := loopBody(hdr)
					for _, ref := range *vcall.Referrers() {
						var ifi *ssa.If
						falseIdx := 1
						switch x := ref.(type) {
						case *ssa.If:
							ifi = x
						case *ssa.UnOp:
							if x.Op == token.NOT && x.Referrers() != nil {
								for _, r2 := range *x.Referrers() {
									if i2, ok := r2.(*ssa.If); ok {
										ifi, falseIdx = i2, 0
									}
								}
							}
						}
						if ifi != nil && !body[ifi.Block().Succs[falseIdx]] && body[ifi.Block().Succs[1-falseIdx]] {
							okLoop = true
						}
					}
				}
			}
			if okLoop {
				r.ok("visitDocument/keepGoing", fnName(fn), c.pos(vcall.Pos()), "loop continues only while the visitor's result is true")
			} else {
				r.bad("visitDocument/keepGoing", fnName(fn), c.pos(vcall.Pos()), "the visitor's boolean result does not (alone) control the visiting loop")
			}
		},
	})

	register(&Rule{
		Name:  "STATE-AFTER-FALLIBLE",
		Floor: 3,
		Doc:   "the chunk loaders (PostingsIterator.loadChunk, chunkedIntDecoder.loadChunk, docValueReader.loadDvChunk) are transactions on the reader's cache: on every path to a return of a possibly non-nil error, either nothing of the cached chunk has been touched - no store to the field that identifies the current chunk, none to a field that caches its data, no element written through such a field (the doc-value header is filled entry by entry between storage reads), no sub-reader switched to the new chunk (the freq/norm reader is loaded before the location reader) - or the cache has been declared empty on that path (the key set to the constant its constructors use for \"no chunk\", the freq/norm reader's chunk dropped so that isNil() holds) and not re-validated since. A failed load never leaves half a chunk that a later call takes for loaded",
		Run: func(c *Ctx, scope string, r *Report) {
			type spec struct {
				fn      string
				fields  []string // fields of the receiver whose stores change the cached chunk
				carrier string   // the field whose state says \"a chunk is loaded\": the key, or the sub-reader tested by isNil()
				subs    []string // sub-readers (pointer fields) switched by their own loader
			}
			specs := []spec{
				{"(*PostingsIterator).loadChunk", []string{"currChunk"}, "freqNormReader", []string{"freqNormReader", "locReader"}},
				{"(*docValueReader).loadDvChunk", []string{"curChunkNum", "curChunkData", "uncompressed", "curChunkHeader"}, "curChunkNum", nil},
				{"(*chunkedIntDecoder).loadChunk", []string{"curChunkBytes"}, "", nil},
			}
			loaders := map[*ssa.Function]bool{}
			for _, sp := range specs {
				loaders[c.MustFn(sp.fn)] = true
			}
			for _, sp := range specs {
				fn := c.MustFn(sp.fn)
				txCheck(c, r, fn, sp.fn, sp.fields, sp.carrier, sp.subs, loaders)
			}
		},
	})
}

// sentinelConsts: the constants stored into field f of type owner outside fn
// (constructors, clone): the values that stand for \"nothing loaded\".
func sentinelConsts(c *Ctx, owner *types.Named, fname string, except *ssa.Function) map[string]bool {
	out := map[string]bool{}
	for _, fn := range c.srcFns {
		if fn == except {
			continue
		}
		for _, b := range fn.Blocks {
			for _, ins := range b.Instrs {
				st, ok := ins.(*ssa.Store)
				if !ok {
					continue
				}
				fa, ok := st.Addr.(*ssa.FieldAddr)
				if !ok {
					continue
				}
				// (by name: the field may have moved into a sub-struct of the reader)
				_, f := fieldAddrInfo(fa)
				if f == nil || f.Name() != fname {
					continue
				}
				if k, ok := stripConv(st.Val).(*ssa.Const); ok && k.Value != nil && k.Value.String() != "0" {
					out[k.Value.ExactString()] = true
				}
			}
		}
	}
	return out
}

type txEvent struct {
	kind  string // "mutate", "invalidate"
	field string
	pos   token.Pos
}

type txState struct {
	mask    string // sorted mutated fields, comma separated
	invalid bool
	flags   string
}

type txOut struct {
	st      txState
	mayFail bool
	ret     *ssa.Return
	errIs   string // "0": the returned error is nil, "1": it is not, "": unknown
}

// txChecker: see the doc of STATE-AFTER-FALLIBLE.
type txChecker struct {
	c         *Ctx
	loader    *ssa.Function
	want      map[string]bool
	isSub     map[string]bool
	carrier   string
	gates     map[string]bool // bool fields of the reader that the callers test before they (re)load
	sentinels map[string]bool
	loaders   map[*ssa.Function]bool
	seenField map[string]token.Pos
	steps     int
	tooMany   bool
}

func txSetAdd(set, f string) string {
	parts := map[string]bool{}
	for _, p := range strings.Split(set, ",") {
		if p != "" {
			parts[p] = true
		}
	}
	parts[f] = true
	var l []string
	for p := range parts {
		l = append(l, p)
	}
	sort.Strings(l)
	return strings.Join(l, ",")
}

var txPhiDepth int

// txRecvAlias: values that denote the reader although they are not the parameter
// itself: loads of the cell a captured parameter is spilled into, loads of the
// free variable a closure sees it through.
var txRecvAlias = map[ssa.Value]ssa.Value{}

func txNoteAliases(fn *ssa.Function, recv ssa.Value) {
	for _, b := range fn.Blocks {
		for _, ins := range b.Instrs {
			ld, ok := ins.(*ssa.UnOp)
			if !ok || ld.Op != token.MUL {
				continue
			}
			switch cell := ld.X.(type) {
			case *ssa.FreeVar:
				if ssa.Value(cell) == recv {
					txRecvAlias[ld] = recv
				}
			case *ssa.Alloc:
				if refs := cell.Referrers(); refs != nil {
					n, isRecv := 0, false
					for _, ref := range *refs {
						if st, ok := ref.(*ssa.Store); ok && st.Addr == ssa.Value(cell) {
							n++
							if st.Val == recv {
								isRecv = true
							}
						}
					}
					if n == 1 && isRecv {
						txRecvAlias[ld] = recv
					}
				}
			}
		}
	}
}

// txChain: the field names from the receiver to an address (x.f -> [f], x.f[i].g
// -> [f g], (*x.f).g -> [f g], x.cur.f -> [cur f]) and, per element, whether a
// pointer was followed (a load) or an element taken before it.
func txChain(recv ssa.Value, a ssa.Value) (names []string, via []bool, ok bool) {
	switch x := a.(type) {
	case *ssa.FieldAddr:
		name := ""
		if _, f := fieldAddrInfo(x); f != nil {
			name = f.Name()
		}
		if x.X == recv || txRecvAlias[x.X] == recv {
			return []string{name}, []bool{false}, true
		}
		n, v, ok := txChain(recv, x.X)
		if !ok {
			return nil, nil, false
		}
		_, loaded := x.X.(*ssa.UnOp)
		_, indexed := x.X.(*ssa.IndexAddr)
		return append(n, name), append(v, loaded || indexed), true
	case *ssa.IndexAddr:
		n, v, ok := txChain(recv, x.X)
		return n, v, ok
	case *ssa.Slice:
		// a re-slice shares the backing array: header := r.hdr[:n]; header[i] = ...
		n, v, ok := txChain(recv, x.X)
		return n, v, ok
	case *ssa.Phi:
		// fresh or reused backing array: the reused one counts
		if txPhiDepth < 4 {
			txPhiDepth++
			defer func() { txPhiDepth-- }()
			for _, e := range x.Edges {
				if n, v, ok := txChain(recv, e); ok {
					return n, v, ok
				}
			}
		}
	case *ssa.UnOp:
		if x.Op == token.MUL {
			n, v, ok := txChain(recv, x.X)
			return n, v, ok
		}
	}
	return nil, nil, false
}

// txRecvField: the first field on the way from the receiver to the address that
// the model knows (state grouped into a sub-struct held by value keeps its field
// names), whether the address is that field itself, and the field after it.
func (t *txChecker) recvField(recv ssa.Value, a ssa.Value) (field string, direct bool, inner string) {
	names, via, ok := txChain(recv, a)
	if !ok {
		return "", false, ""
	}
	_, isIdx := a.(*ssa.IndexAddr)
	for k, n := range names {
		if t.want[n] || t.gates[n] {
			// reached without following a pointer: the field of the reader (or of a by-value sub-struct)
			plain := true
			for _, v := range via[:k+1] {
				if v {
					plain = false
				}
			}
			if !plain {
				continue
			}
			in := ""
			if k+1 < len(names) {
				in = names[len(names)-1] // the leaf (an embedded struct in between does not matter)
			}
			return n, k == len(names)-1 && !isIdx, in
		}
	}
	return "", false, ""
}

// txRecvField: kept for the callers that only need the root field.
func txRecvField(recv ssa.Value, a ssa.Value) (field string, direct bool, inner string) {
	names, _, ok := txChain(recv, a)
	if !ok || len(names) == 0 {
		return "", false, ""
	}
	_, isIdx := a.(*ssa.IndexAddr)
	in := ""
	if len(names) > 1 {
		in = names[1]
	}
	return names[0], len(names) == 1 && !isIdx, in
}

func txEmptyVal(v ssa.Value) bool {
	v = stripConv(v)
	if isNilConst(v) {
		return true
	}
	if k, ok := v.(*ssa.Const); ok && k.Value != nil && (k.Value.String() == "false" || k.Value.String() == "0") {
		return true
	}
	if sl, ok := v.(*ssa.Slice); ok && sl.High != nil {
		if k, ok := sl.High.(*ssa.Const); ok && k.Value != nil && k.Value.String() == "0" {
			return true
		}
	}
	return false
}

func (t *txChecker) note(e txEvent) {
	if e.kind != "mutate" {
		return
	}
	if p, ok := t.seenField[e.field]; !ok || e.pos < p {
		t.seenField[e.field] = e.pos
	}
}

// events of one function in which recv is the reader.
func (t *txChecker) eventsOf(fn *ssa.Function, recv ssa.Value) (map[ssa.Instruction][]txEvent, map[ssa.Instruction]string, map[ssa.Instruction]*ssa.Function, map[ssa.Instruction]ssa.Value) {
	events := map[ssa.Instruction][]txEvent{}
	forks := map[ssa.Instruction]string{}
	inline := map[ssa.Instruction]*ssa.Function{}
	inlineRecv := map[ssa.Instruction]ssa.Value{}
	add := func(ins ssa.Instruction, e txEvent) {
		events[ins] = append(events[ins], e)
		t.note(e)
	}
	for _, b := range fn.Blocks {
		for _, ins := range b.Instrs {
			switch x := ins.(type) {
			case *ssa.Store:
				f, direct, inner := t.recvField(recv, x.Addr)
				if f == "" || !(t.want[f] || t.gates[f]) {
					continue
				}
				switch {
				case direct && t.gates[f]:
					if txEmptyVal(x.Val) {
						add(ins, txEvent{"invalidate", f, ins.Pos()})
					} else {
						add(ins, txEvent{"revalidate", f, ins.Pos()})
					}
				case direct && f == t.carrier && !t.isSub[f]:
					if k, ok := stripConv(x.Val).(*ssa.Const); ok && k.Value != nil && t.sentinels[k.Value.ExactString()] {
						add(ins, txEvent{"invalidate", f, ins.Pos()})
					} else {
						add(ins, txEvent{"mutate", f, ins.Pos()})
					}
				case t.isSub[f] && !direct:
					// a field of the sub-reader: dropping its chunk declares it empty
					if f == t.carrier && inner == "curChunkBytes" && txEmptyVal(x.Val) {
						add(ins, txEvent{"invalidate", f, ins.Pos()})
					} else {
						add(ins, txEvent{"mutate", f, ins.Pos()})
					}
				default:
					add(ins, txEvent{"mutate", f, ins.Pos()})
				}
			case *ssa.Call:
				sc := x.Call.StaticCallee()
				if sc == nil || !t.c.inRoot(sc) || sc.Blocks == nil || sc == fn {
					continue
				}
				if len(x.Call.Args) > 0 && x.Call.Signature().Recv() != nil {
					f, _, _ := t.recvField(recv, x.Call.Args[0])
					if f != "" && t.isSub[f] {
						if (sc.Name() == "reset" || t.emptiesChunk(sc)) && f == t.carrier {
							add(ins, txEvent{"invalidate", f, ins.Pos()})
							continue
						}
						if t.loaders[sc] {
							// forked where it is called: it succeeded (the sub-reader is switched, the
							// error is nil) or it failed (nothing switched, the error is not nil)
							t.note(txEvent{"mutate", f, ins.Pos()})
							forks[ins] = f
							continue
						}
					}
				}
				// a helper of the same reader (or of a sub-struct it holds by value): followed into
				for ai, a := range x.Call.Args {
					if ai >= len(sc.Params) || t.loaders[sc] {
						continue
					}
					if a == recv || txRecvAlias[a] == recv {
						inline[ins] = sc
						inlineRecv[ins] = sc.Params[ai]
					} else if ai == 0 && x.Call.Signature().Recv() != nil {
						if names, via, ok := txChain(recv, a); ok && len(names) > 0 {
							plain := true
							for _, v := range via {
								if v {
									plain = false
								}
							}
							if _, isAddr := a.(*ssa.FieldAddr); isAddr && plain && !t.want[names[0]] {
								inline[ins] = sc
								inlineRecv[ins] = sc.Params[0]
							}
						}
					}
				}
			}
		}
	}
	return events, forks, inline, inlineRecv
}

func (t *txChecker) apply(st *txState, evs []txEvent) {
	for _, e := range evs {
		switch e.kind {
		case "mutate":
			st.mask = txSetAdd(st.mask, e.field)
			if e.field == t.carrier {
				st.invalid = false
			}
		case "revalidate":
			st.invalid = false
		case "invalidate":
			st.invalid = true
		}
	}
}

// emptiesChunk: a small method of the sub-reader whose only effect is to store an
// empty value into curChunkBytes (dropChunk, invalidate ...).
func (t *txChecker) emptiesChunk(fn *ssa.Function) bool {
	if fn == nil || fn.Blocks == nil || len(fn.Blocks) != 1 || len(fn.Params) == 0 {
		return false
	}
	n := 0
	for _, ins := range fn.Blocks[0].Instrs {
		if st, ok := ins.(*ssa.Store); ok {
			f, direct, _ := txRecvField(fn.Params[0], st.Addr)
			if !direct || f != "curChunkBytes" || !txEmptyVal(st.Val) {
				return false
			}
			n++
		}
		if _, ok := ins.(*ssa.Call); ok {
			return false
		}
	}
	return n == 1
}

func txFlagSet(flags, key, val string) string {
	var l []string
	for _, p := range strings.Split(flags, ",") {
		if p != "" && !strings.HasPrefix(p, key+"=") {
			l = append(l, p)
		}
	}
	l = append(l, key+"="+val)
	sort.Strings(l)
	return strings.Join(l, ",")
}

func txFlagGet(flags, key string) string {
	for _, p := range strings.Split(flags, ",") {
		if strings.HasPrefix(p, key+"=") {
			return p[len(key)+1:]
		}
	}
	return ""
}

// txCellOf: the free variables of a closure stand for the cells they are bound to.
var txCellOf = map[*ssa.FreeVar]ssa.Value{}

func txErrKey(v ssa.Value) string {
	// the current content of an error cell (a named result that a deferred closure reads)
	if ld, ok := v.(*ssa.UnOp); ok && ld.Op == token.MUL {
		switch cell := ld.X.(type) {
		case *ssa.Alloc:
			if cell.Parent() != nil {
				return "c:" + cell.Parent().Name() + ":" + cell.Name()
			}
		case *ssa.FreeVar:
			if bound, ok := txCellOf[cell]; ok {
				if al, ok := bound.(*ssa.Alloc); ok && al.Parent() != nil {
					return "c:" + al.Parent().Name() + ":" + al.Name()
				}
			}
		}
	}
	if in, ok := v.(ssa.Instruction); ok && in.Parent() != nil {
		return "e:" + in.Parent().Name() + ":" + v.Name()
	}
	return ""
}

// run explores fn from its entry in state in and returns the states at its returns.
func (t *txChecker) run(fn *ssa.Function, recv ssa.Value, in txState, depth int) []txOut {
	txNoteAliases(fn, recv)
	events, forks, inline, inlineRecv := t.eventsOf(fn, recv)
	// bool fields of the reader that fn only reads: two tests of the same flag agree
	flagOf := func(v ssa.Value) (string, bool, bool) {
		neg := false
		for {
			u, ok := v.(*ssa.UnOp)
			if !ok {
				break
			}
			if u.Op == token.NOT {
				neg = !neg
				v = u.X
				continue
			}
			if u.Op == token.MUL {
				if names, via, ok := txChain(recv, u.X); ok {
					plain := true
					for _, v := range via {
						if v {
							plain = false
						}
					}
					leaf := names[len(names)-1]
					if _, isFA := u.X.(*ssa.FieldAddr); isFA && plain && !t.gates[leaf] && !t.want[leaf] {
						if b, ok := u.Type().Underlying().(*types.Basic); ok && b.Kind() == types.Bool {
							return "f:" + strings.Join(names, "."), neg, true
						}
					}
				}
			}
			return "", false, false
		}
		// a bool parameter tested twice
		if prm, ok := v.(*ssa.Parameter); ok {
			if b, ok := prm.Type().Underlying().(*types.Basic); ok && b.Kind() == types.Bool {
				return "f:param:" + fn.Name() + ":" + prm.Name(), neg, true
			}
		}
		// err != nil / err == nil for an error whose outcome is known on this path
		if bo, ok := v.(*ssa.BinOp); ok && (bo.Op == token.NEQ || bo.Op == token.EQL) {
			e := bo.X
			if isNilConst(e) {
				e = bo.Y
			} else if !isNilConst(bo.Y) {
				return "", false, false
			}
			if k := txErrKey(resolveLoad(e)); k != "" && isErrorType(e.Type()) {
				// "1" = the error is non-nil
				if bo.Op == token.EQL {
					neg = !neg
				}
				return k, neg, true
			}
		}
		return "", false, false
	}
	type node struct {
		b  *ssa.BasicBlock
		i  int // next instruction
		st txState
	}
	var outs []txOut
	seen := map[node]bool{}
	start := node{b: fn.Blocks[0], st: in}
	work := []node{start}
	seen[start] = true
	push := func(n node) {
		if !seen[n] {
			seen[n] = true
			work = append(work, n)
		}
	}
	errResultOf := func(call *ssa.Call) ssa.Value {
		res := call.Call.Signature().Results()
		if res.Len() == 1 && isErrorType(res.At(0).Type()) {
			return call
		}
		if refs := call.Referrers(); refs != nil && res.Len() > 1 && isErrorType(res.At(res.Len()-1).Type()) {
			for _, ref := range *refs {
				if ex, ok := ref.(*ssa.Extract); ok && ex.Index == res.Len()-1 {
					return ex
				}
			}
		}
		return nil
	}
	for len(work) > 0 {
		n := work[len(work)-1]
		work = work[:len(work)-1]
		t.steps++
		if t.steps > 400000 {
			t.tooMany = true
			return outs
		}
		cur := n.st
		b := n.b
		split := false
		for idx := n.i; idx < len(b.Instrs); idx++ {
			ins := b.Instrs[idx]
			t.apply(&cur, events[ins])
			if st, isSt := ins.(*ssa.Store); isSt {
				if cell, isCell := st.Addr.(*ssa.Alloc); isCell && isErrorType(st.Val.Type()) && cell.Parent() != nil {
					key := "c:" + cell.Parent().Name() + ":" + cell.Name()
					switch {
					case isNilConst(st.Val):
						cur.flags = txFlagSet(cur.flags, key, "0")
					case txFlagGet(cur.flags, txErrKey(st.Val)) != "":
						cur.flags = txFlagSet(cur.flags, key, txFlagGet(cur.flags, txErrKey(st.Val)))
					default:
						cur.flags = txFlagSet(cur.flags, key, "?")
					}
				}
			}
			if _, isRD := ins.(*ssa.RunDefers); isRD && depth < 3 {
				// deferred closures of this function that were registered on the way here
				states := []txState{cur}
				for _, db := range fn.Blocks {
					if !(db == b || db.Dominates(b)) {
						continue
					}
					for _, di := range db.Instrs {
						d, ok := di.(*ssa.Defer)
						if !ok {
							continue
						}
						mc, ok := d.Call.Value.(*ssa.MakeClosure)
						if !ok {
							continue
						}
						cl, ok := mc.Fn.(*ssa.Function)
						if !ok || cl.Blocks == nil {
							continue
						}
						var clRecv ssa.Value
						for k, bnd := range mc.Bindings {
							if k >= len(cl.FreeVars) {
								break
							}
							txCellOf[cl.FreeVars[k]] = bnd
							// the cell the receiver was spilled into
							if al, ok := bnd.(*ssa.Alloc); ok && al.Referrers() != nil {
								for _, ref := range *al.Referrers() {
									if st, ok := ref.(*ssa.Store); ok && st.Addr == ssa.Value(al) && (st.Val == recv || txRecvAlias[st.Val] == recv) {
										clRecv = cl.FreeVars[k]
									}
								}
							}
						}
						if clRecv == nil {
							continue
						}
						var next []txState
						for _, st0 := range states {
							for _, o := range t.run(cl, clRecv, st0, depth+1) {
								next = append(next, o.st)
							}
						}
						if len(next) > 0 {
							states = next
						}
					}
				}
				for _, st0 := range states {
					push(node{b: b, i: idx + 1, st: st0})
				}
				split = true
				break
			}
			if f, isFork := forks[ins]; isFork {
				call := ins.(*ssa.Call)
				okSt, failSt := cur, cur
				t.apply(&okSt, []txEvent{{"mutate", f, ins.Pos()}})
				if ev := errResultOf(call); ev != nil {
					okSt.flags = txFlagSet(okSt.flags, txErrKey(ev), "0")
					failSt.flags = txFlagSet(failSt.flags, txErrKey(ev), "1")
					push(node{b: b, i: idx + 1, st: okSt})
					push(node{b: b, i: idx + 1, st: failSt})
				} else {
					push(node{b: b, i: idx + 1, st: okSt})
				}
				split = true
				break
			}
			if callee := inline[ins]; callee != nil && depth < 3 {
				call := ins.(*ssa.Call)
				ev := errResultOf(call)
				for _, o := range t.run(callee, inlineRecv[ins], cur, depth+1) {
					st := o.st
					if ev != nil && o.errIs != "" {
						st.flags = txFlagSet(st.flags, txErrKey(ev), o.errIs)
					}
					push(node{b: b, i: idx + 1, st: st})
				}
				split = true
				break
			} else if callee != nil {
				// too deep: what the helper may store counts as changed
				for ai, a := range ins.(*ssa.Call).Call.Args {
					if a == recv && ai < len(callee.Params) {
						var names []string
						for nm := range fieldEvents(callee, targetsOf(callee, ai)) {
							names = append(names, nm)
						}
						sort.Strings(names)
						for _, nm := range names {
							if t.want[nm] {
								e := txEvent{"mutate", nm, ins.Pos()}
								t.note(e)
								t.apply(&cur, []txEvent{e})
							}
						}
					}
				}
			}
			if ret, ok := ins.(*ssa.Return); ok {
				mayFail := false
				errIs := ""
				for _, res := range ret.Results {
					if !isErrorType(res.Type()) {
						continue
					}
					rv := resolveLoad(res)
					switch {
					case isNilConst(rv):
						errIs = "0"
					default:
						errIs = txFlagGet(cur.flags, txErrKey(rv))
						if errIs != "0" {
							mayFail = true
						}
					}
				}
				outs = append(outs, txOut{st: cur, mayFail: mayFail, ret: ret, errIs: errIs})
			}
		}
		if split {
			continue
		}
		succs := b.Succs
		var only *ssa.BasicBlock
		var flag string
		var neg, isFlag bool
		if ifi, ok := b.Instrs[len(b.Instrs)-1].(*ssa.If); ok {
			flag, neg, isFlag = flagOf(ifi.Cond)
			if isFlag {
				switch txFlagGet(cur.flags, flag) {
				case "1":
					only = succs[0]
					if neg {
						only = succs[1]
					}
				case "0":
					only = succs[1]
					if neg {
						only = succs[0]
					}
				}
			}
		}
		for si, s := range succs {
			if only != nil && s != only {
				continue
			}
			nx := cur
			if isFlag && only == nil && strings.HasPrefix(flag, "f:") {
				val := "1"
				if (si == 1) != neg {
					val = "0"
				}
				nx.flags = txFlagSet(cur.flags, flag, val)
			}
			push(node{b: s, st: nx})
		}
	}
	return outs
}

// gatingFlags: the bool fields of the reader that a caller of the loader tests
// in the condition that decides whether the loader runs (`if !r.loaded || ...`).
func gatingFlags(c *Ctx, loader *ssa.Function) map[string]bool {
	out := map[string]bool{}
	for _, fn := range c.srcFns {
		for _, b := range fn.Blocks {
			for _, ins := range b.Instrs {
				call, ok := ins.(*ssa.Call)
				if !ok || call.Call.StaticCallee() != loader || len(call.Call.Args) == 0 {
					continue
				}
				recv := call.Call.Args[0]
				// the condition region in front of the call: predecessors that only test
				seen := map[*ssa.BasicBlock]bool{}
				var walk func(blk *ssa.BasicBlock, depth int)
				walk = func(blk *ssa.BasicBlock, depth int) {
					if depth > 6 || seen[blk] {
						return
					}
					seen[blk] = true
					for _, p := range blk.Preds {
						ifi, ok := p.Instrs[len(p.Instrs)-1].(*ssa.If)
						if !ok {
							if _, isJump := p.Instrs[len(p.Instrs)-1].(*ssa.Jump); isJump && len(p.Instrs) <= 6 {
								walk(p, depth+1)
							}
							continue
						}
						for _, truth := range []bool{true, false} {
							for _, f := range condFacts(ifi.Cond, truth, 0) {
								v := f.cond
								for {
									u, ok := v.(*ssa.UnOp)
									if ok && u.Op == token.NOT {
										v = u.X
										continue
									}
									break
								}
								if u, ok := v.(*ssa.UnOp); ok && u.Op == token.MUL {
									if fa, ok := u.X.(*ssa.FieldAddr); ok && fa.X == recv {
										if bt, ok := u.Type().Underlying().(*types.Basic); ok && bt.Kind() == types.Bool {
											if _, fv := fieldAddrInfo(fa); fv != nil {
												out[fv.Name()] = true
											}
										}
									}
								}
							}
						}
						pure := true
						for _, pi := range p.Instrs {
							switch pi.(type) {
							case *ssa.Store, *ssa.MapUpdate, *ssa.Send:
								pure = false
							}
						}
						if pure {
							walk(p, depth+1)
						}
					}
				}
				walk(b, 0)
			}
		}
	}
	return out
}

func txCheck(c *Ctx, r *Report, fn *ssa.Function, name string, fields []string, carrier string, subs []string, loaders map[*ssa.Function]bool) {
	recv := ssa.Value(fn.Params[0])
	owner := namedOf(recv.Type())
	t := &txChecker{c: c, loader: fn, want: map[string]bool{}, isSub: map[string]bool{}, carrier: carrier, loaders: loaders, seenField: map[string]token.Pos{}, sentinels: map[string]bool{}}
	for _, f := range fields {
		t.want[f] = true
	}
	for _, f := range subs {
		t.isSub[f] = true
		t.want[f] = true
	}
	if carrier != "" && !t.isSub[carrier] && owner != nil {
		t.sentinels = sentinelConsts(c, owner, carrier, fn)
	}
	t.gates = map[string]bool{}
	for g := range gatingFlags(c, fn) {
		// only flags that the loader itself maintains
		stored := false
		for _, b := range fn.Blocks {
			for _, ins := range b.Instrs {
				if st, ok := ins.(*ssa.Store); ok {
					if f, direct, _ := txRecvField(recv, st.Addr); direct && f == g {
						stored = true
					}
				}
			}
		}
		if stored && !t.want[g] {
			t.gates[g] = true
		}
	}
	badAt := map[string]*ssa.Return{}
	for _, o := range t.run(fn, recv, txState{}, 0) {
		if o.mayFail && o.st.mask != "" && !o.st.invalid {
			for _, f := range strings.Split(o.st.mask, ",") {
				if badAt[f] == nil {
					badAt[f] = o.ret
				}
			}
		}
	}
	if t.tooMany {
		r.undecided(name+"/transaction", name, c.pos(fn.Pos()), "too many states")
		return
	}
	var all []string
	for f := range t.want {
		all = append(all, f)
	}
	sort.Strings(all)
	for _, f := range all {
		key := name + "/" + f
		pos, ok := t.seenField[f]
		if !ok {
			r.undecided(key, name, c.pos(fn.Pos()), "field ."+f+" is no longer changed by this loader: the rule's model of the reader state is out of date")
			continue
		}
		if ret := badAt[f]; ret != nil {
			r.bad(key, name, c.pos(pos), "reader state ."+f+" is changed before a fallible step and the error return at "+c.pos(retPos(ret, ret.Block()))+" is reachable without the cache having been declared empty: a failed load leaves half a chunk that a later call takes for loaded")
		} else {
			r.ok(key, name, c.pos(pos), "no error return is reachable after this change without the cache having been declared empty")
		}
	}
}

// errReturnReachableAfter: is a Return whose error operand may be non-nil
// reachable from instruction index i of block b (exclusive)?
func errReturnReachableAfter(b *ssa.BasicBlock, i int) *ssa.Return {
	seen := map[*ssa.BasicBlock]bool{}
	var check func(blk *ssa.BasicBlock, from int) *ssa.Return
	check = func(blk *ssa.BasicBlock, from int) *ssa.Return {
		for j := from; j < len(blk.Instrs); j++ {
			if ret, ok := blk.Instrs[j].(*ssa.Return); ok {
				for _, res := range ret.Results {
					if isErrorType(res.Type()) && !isNilConst(resolveLoad(res)) {
						return ret
					}
				}
			}
		}
		for _, s := range blk.Succs {
			if seen[s] {
				continue
			}
			seen[s] = true
			if r := check(s, 0); r != nil {
				return r
			}
		}
		return nil
	}
	return check(b, i+1)
}

// reachesDataRead: fn, or an in-package function it calls (three levels), reads the segment data.
func reachesDataRead(c *Ctx, fn *ssa.Function, depth int) bool {
	if fn.Blocks == nil || depth > 3 {
		return false
	}
	for _, b := range fn.Blocks {
		for _, ins := range b.Instrs {
			ci, ok := ins.(ssa.CallInstruction)
			if !ok {
				continue
			}
			if isDataRead(ci.Common()) {
				return true
			}
			if sc := ci.Common().StaticCallee(); sc != nil && c.inRoot(sc) && sc != fn && reachesDataRead(c, sc, depth+1) {
				return true
			}
		}
	}
	return false
}

// isFuncParamOf: v is a parameter of fn that has a function type (a visitor callback).
func isFuncParamOf(v ssa.Value, fn *ssa.Function) bool {
	p, ok := v.(*ssa.Parameter)
	if !ok || p.Parent() != fn {
		return false
	}
	_, isSig := p.Type().Underlying().(*types.Signature)
	return isSig
}

// oneHitAccessor: call is p.acc() where acc is an in-package method of
// PostingsList / PostingsIterator whose single result is normBits1Hit != 0
// (meansOneHit = true) or normBits1Hit == 0 (false) of its receiver.
func oneHitAccessor(c *Ctx, call *ssa.Call) (meansOneHit bool, ok bool) {
	sc := call.Call.StaticCallee()
	if sc == nil || !c.inRoot(sc) || sc.Blocks == nil || len(sc.Blocks) != 1 || sc.Signature.Recv() == nil || len(sc.Params) != 1 {
		return false, false
	}
	ret, isRet := sc.Blocks[0].Instrs[len(sc.Blocks[0].Instrs)-1].(*ssa.Return)
	if !isRet || len(ret.Results) != 1 {
		return false, false
	}
	bin, isBin := ret.Results[0].(*ssa.BinOp)
	if !isBin || (bin.Op != token.NEQ && bin.Op != token.EQL) {
		return false, false
	}
	if k, isK := constUint(bin.Y); !isK || k != 0 || exprSig(bin.X, 0) != ".normBits1Hit" {
		return false, false
	}
	return bin.Op == token.NEQ, true
}

// callersDispatchOneHit: fn reads the postings bitmap of a list it is handed
// (receiver or parameter) without testing normBits1Hit itself; that is fine
// when every call of fn sits on the normBits1Hit == 0 edge of a test of the
// same list in the caller, or in a function that establishes the list.
func callersDispatchOneHit(c *Ctx, fn *ssa.Function, loads []*ssa.UnOp) (bool, string) {
	// which parameter is the list
	var listParam *ssa.Parameter
	for _, ld := range loads {
		fa, ok := ld.X.(*ssa.FieldAddr)
		if !ok {
			return false, ""
		}
		p, ok := fa.X.(*ssa.Parameter)
		if !ok || (listParam != nil && listParam != p) {
			return false, ""
		}
		listParam = p
	}
	sites := c.callsTo(fn)
	if listParam == nil || len(sites) == 0 {
		return false, ""
	}
	establishers := map[string]bool{"(*PostingsList).read": true, "(*Dictionary).postingsListInit": true}
	for _, site := range sites {
		caller := site.Parent()
		if establishers[fnName(caller)] {
			continue
		}
		arg := argFor(site.Common(), listParam)
		dom := false
		for _, b := range caller.Blocks {
			ifi, ok := b.Instrs[len(b.Instrs)-1].(*ssa.If)
			if !ok {
				continue
			}
			bin, ok := ifi.Cond.(*ssa.BinOp)
			if !ok || (bin.Op != token.NEQ && bin.Op != token.EQL) {
				continue
			}
			ld, isLd := bin.X.(*ssa.UnOp)
			if k, isK := constUint(bin.Y); !isK || k != 0 || !isLd {
				continue
			}
			fa, isFa := ld.X.(*ssa.FieldAddr)
			if !isFa {
				continue
			}
			if _, f := fieldAddrInfo(fa); f == nil || f.Name() != "normBits1Hit" || (fa.X != arg && !sameObject(fa.X, arg)) {
				continue
			}
			z := b.Succs[1]
			if bin.Op == token.EQL {
				z = b.Succs[0]
			}
			if len(z.Preds) == 1 && (z == site.Block() || z.Dominates(site.Block())) {
				dom = true
			}
		}
		if !dom {
			return false, ""
		}
	}
	return true, fmt.Sprintf("each of its %d call site(s) is on the normBits1Hit == 0 edge of a test of the same list", len(sites))
}

// fallibleOrigin: v is (a copy through a local object's field of) result #i of a
// call that also returns an error; returns that call and its error result.
func fallibleOrigin(fn *ssa.Function, v ssa.Value, depth int) (*ssa.Call, ssa.Value) {
	if depth > 4 {
		return nil, nil
	}
	switch x := v.(type) {
	case *ssa.Extract:
		call, ok := x.Tuple.(*ssa.Call)
		if !ok {
			return nil, nil
		}
		res := call.Call.Signature().Results()
		for j := 0; j < res.Len(); j++ {
			if isErrorType(res.At(j).Type()) && j != x.Index {
				for _, ref := range *call.Referrers() {
					if ex, ok := ref.(*ssa.Extract); ok && ex.Index == j {
						return call, ex
					}
				}
				return call, nil
			}
		}
	case *ssa.UnOp:
		if x.Op != token.MUL {
			return nil, nil
		}
		// a load of obj.f: the value last stored to obj.f in this function
		fa, ok := x.X.(*ssa.FieldAddr)
		if !ok {
			return nil, nil
		}
		_, f := fieldAddrInfo(fa)
		if f == nil {
			return nil, nil
		}
		var best *ssa.Store
		for _, st := range storesToFieldOf(fn, fa.X, f.Name()) {
			if before(st, x) && (best == nil || before(best, st)) {
				best = st
			}
		}
		if best != nil {
			return fallibleOrigin(fn, best.Val, depth+1)
		}
	case *ssa.Phi:
		for _, e := range x.Edges {
			if call, ev := fallibleOrigin(fn, e, depth+1); call != nil {
				return call, ev
			}
		}
	}
	return nil, nil
}

func init() {
	register(&Rule{
		Name:  "CACHE-AFTER-CHECK",
		Floor: 1,
		Doc:   "a value obtained from a fallible call is published into a container held by the Segment (the lazily filled caches, e.g. fieldFSTs) only on the path where that call's error was tested nil: a failed load never leaves a nil or half-built entry that later calls would take for a loaded one",
		Run: func(c *Ctx, scope string, r *Report) {
			n := 0
			for _, fn := range c.srcFns {
				for _, b := range fn.Blocks {
					for _, ins := range b.Instrs {
						mu, ok := ins.(*ssa.MapUpdate)
						if !ok {
							continue
						}
						ld, ok := mu.Map.(*ssa.UnOp)
						if !ok || ld.Op != token.MUL {
							continue
						}
						fa, ok := ld.X.(*ssa.FieldAddr)
						if !ok {
							continue
						}
						owner, f := fieldAddrInfo(fa)
						if owner == nil || owner.Obj().Name() != "Segment" || f == nil {
							continue
						}
						// only objects that exist before the call: a receiver / parameter, not a segment under construction
						if _, isParam := rootParam(fa.X).(*ssa.Parameter); !isParam || c.entries().CTORONLY[topFn(fn)] {
							continue
						}
						call, errV := fallibleOrigin(fn, mu.Value, 0)
						if call == nil {
							continue
						}
						n++
						key := fnName(fn) + "/publish-" + f.Name()
						switch {
						case errV == nil:
							r.bad(key, fnName(fn), c.pos(mu.Pos()), "the value stored into Segment."+f.Name()+" comes from "+calleeFullName(&call.Call)+" whose error result is ignored")
						case knownNilAt(errV, b):
							r.ok(key, fnName(fn), c.pos(mu.Pos()), "published only after the error of "+calleeFullName(&call.Call)+" was tested nil")
						default:
							r.bad(key, fnName(fn), c.pos(mu.Pos()), "Segment."+f.Name()+" is filled with the result of "+calleeFullName(&call.Call)+" before its error is checked: after a failed load the cache holds an unusable entry, and the next call returns it without an error")
						}
					}
				}
			}
			if n == 0 {
				r.undecided("segment-caches", "", "-", "no lazily filled Segment cache found: the rule's model is out of date")
			}
		},
	})
}

func init() {
	register(&Rule{
		Name:  "DATA-COPY-COMPLETE",
		Floor: 1,
		Doc:   "copying a segment's data out (segment.Data.WriteTo - an io.Copy over the file for file-backed data) ends silently when a read hits the end of the file early: io.EOF is the copy loop's normal end, so a shortened file yields (partial, nil). A function that reports success after such a copy has compared the number of bytes copied with the data's length (Data.Len()): without the edge on which the two are equal no return of a nil error is reachable from the copy. Success is never reported for a truncated image",
		Run: func(c *Ctx, scope string, r *Report) {
			for _, fn := range c.srcFns {
				for _, b := range fn.Blocks {
					for _, ins := range b.Instrs {
						call, ok := ins.(*ssa.Call)
						if !ok || call.Call.StaticCallee() == nil || funcFullName(call.Call.StaticCallee()) != "github.com/blugelabs/bluge_segment_api.(*Data).WriteTo" {
							continue
						}
						key := fnName(fn) + "/data-copy"
						n := tupleParts(call)[0]
						dataPath := accessPath(stripConv(call.Call.Args[0]))
						// the comparison of the count with Len() of the same data
						var eqFrom, eqTo *ssa.BasicBlock
						isCount := func(v ssa.Value) bool { return n != nil && stripConv(v) == ssa.Value(n) }
						isLen := func(v ssa.Value) bool {
							lc, ok := stripConv(v).(*ssa.Call)
							if !ok || lc.Call.StaticCallee() == nil || funcFullName(lc.Call.StaticCallee()) != "github.com/blugelabs/bluge_segment_api.(*Data).Len" {
								return false
							}
							return accessPath(stripConv(lc.Call.Args[0])) == dataPath
						}
						for _, blk := range fn.Blocks {
							ifi, ok := blk.Instrs[len(blk.Instrs)-1].(*ssa.If)
							if !ok {
								continue
							}
							bo, ok := ifi.Cond.(*ssa.BinOp)
							if !ok || (bo.Op != token.EQL && bo.Op != token.NEQ) {
								continue
							}
							if (isCount(bo.X) && isLen(bo.Y)) || (isCount(bo.Y) && isLen(bo.X)) {
								eqFrom, eqTo = blk, blk.Succs[0]
								if bo.Op == token.NEQ {
									eqTo = blk.Succs[1]
								}
							}
						}
						// a return of a nil error reachable from the copy without the equal edge?
						success := ""
						seen := map[*ssa.BasicBlock]bool{b: true}
						work := []*ssa.BasicBlock{b}
						for len(work) > 0 {
							blk := work[len(work)-1]
							work = work[:len(work)-1]
							if ret, ok := blk.Instrs[len(blk.Instrs)-1].(*ssa.Return); ok {
								if k := len(ret.Results); k > 0 && isErrorType(ret.Results[k-1].Type()) && isNilConst(resolveLoad(ret.Results[k-1])) {
									success = c.pos(retPos(ret, blk))
								}
							}
							for _, s := range blk.Succs {
								if blk == eqFrom && s == eqTo {
									continue
								}
								if !seen[s] {
									seen[s] = true
									work = append(work, s)
								}
							}
						}
						switch {
						case eqFrom == nil:
							r.bad(key, fnName(fn), c.pos(call.Pos()), "the number of bytes copied out of the segment data is never compared with the data's length: a file that ends early (io.EOF inside the copy) is reported as a successful, truncated persist")
						case success != "":
							r.bad(key, fnName(fn), c.pos(call.Pos()), "success is returned at "+success+" on a path that does not pass the comparison of the copied byte count with the data's length")
						default:
							r.ok(key, fnName(fn), c.pos(call.Pos()), "success only where the copied byte count equals Data.Len()")
						}
					}
				}
			}
		},
	})
}
