package main

import (
	"fmt"
	"go/constant"
	"go/token"
	"go/types"
	"sort"
	"strings"

	"golang.org/x/tools/go/ssa"
)

// callsTo lists every call instruction (Call/Defer/Go) in the root package
// whose static callee is fn.
func (c *Ctx) callsTo(fn *ssa.Function) []ssa.CallInstruction {
	var out []ssa.CallInstruction
	for _, f := range c.srcFns {
		for _, b := range f.Blocks {
			for _, ins := range b.Instrs {
				if ci, ok := ins.(ssa.CallInstruction); ok && ci.Common().StaticCallee() == fn {
					out = append(out, ci)
				}
			}
		}
	}
	return out
}

// callsNamed lists call instructions whose static callee has the given full name
// (pkgpath.Name or pkgpath.(*T).Name as rendered by funcFullName).
func (c *Ctx) callsNamed(full string) []ssa.CallInstruction {
	var out []ssa.CallInstruction
	for _, f := range c.srcFns {
		for _, b := range f.Blocks {
			for _, ins := range b.Instrs {
				if ci, ok := ins.(ssa.CallInstruction); ok {
					if sc := ci.Common().StaticCallee(); sc != nil && funcFullName(sc) == full {
						out = append(out, ci)
					}
				}
			}
		}
	}
	return out
}

func constUint(v ssa.Value) (uint64, bool) {
	v = stripConv(v)
	k, ok := v.(*ssa.Const)
	if !ok || k.Value == nil {
		return 0, false
	}
	if k.Value.Kind() != constant.Int {
		return 0, false
	}
	u, ok := constant.Uint64Val(k.Value)
	return u, ok
}

func constInt(v ssa.Value) (int64, bool) {
	v = stripConv(v)
	k, ok := v.(*ssa.Const)
	if !ok || k.Value == nil || k.Value.Kind() != constant.Int {
		return 0, false
	}
	i, ok := constant.Int64Val(k.Value)
	return i, ok
}

// lenOrCapOf: v is len(x) or cap(x) builtin call; returns x.
func lenOrCapOf(v ssa.Value) (ssa.Value, string, bool) {
	call, ok := stripConv(v).(*ssa.Call)
	if !ok {
		return nil, "", false
	}
	b, ok := call.Call.Value.(*ssa.Builtin)
	if !ok || (b.Name() != "len" && b.Name() != "cap") || len(call.Call.Args) != 1 {
		return nil, "", false
	}
	return call.Call.Args[0], b.Name(), true
}

// addConst: v is (conv)* (x + c) with c a positive constant.
func addConst(v ssa.Value) (ssa.Value, int64, bool) {
	bin, ok := stripConv(v).(*ssa.BinOp)
	if !ok || bin.Op != token.ADD {
		return nil, 0, false
	}
	if k, ok := constInt(bin.Y); ok && k > 0 {
		if _, isK := constInt(bin.X); !isK {
			return bin.X, k, true
		}
	}
	if k, ok := constInt(bin.X); ok && k > 0 {
		if _, isK := constInt(bin.Y); !isK {
			return bin.Y, k, true
		}
	}
	return nil, 0, false
}

func isByteSlice(t types.Type) bool {
	s, ok := t.Underlying().(*types.Slice)
	if !ok {
		return false
	}
	b, ok := s.Elem().Underlying().(*types.Basic)
	return ok && b.Kind() == types.Uint8
}

// clampedHigh: high is a phi merging an unclamped look-ahead bound with
// len/cap of the sliced value, selected by a comparison of the two.
func clampedHigh(high ssa.Value, sliced ssa.Value) (bool, string) {
	phi, ok := high.(*ssa.Phi)
	if !ok {
		return false, "bound is not selected between the look-ahead and the length"
	}
	var lim ssa.Value
	var other ssa.Value
	for _, e := range phi.Edges {
		if x, _, ok := lenOrCapOf(e); ok && sameSliceValue(x, sliced) {
			lim = e
		} else {
			other = e
		}
	}
	if lim == nil || other == nil || len(phi.Edges) != 2 {
		return false, "no edge of the bound's phi is len/cap of the sliced buffer"
	}
	// the deciding If: compares `other` with len/cap of the same buffer
	idom := phi.Block().Idom()
	if idom == nil {
		return false, "no deciding branch"
	}
	ifi, ok := idom.Instrs[len(idom.Instrs)-1].(*ssa.If)
	if !ok {
		return false, "no deciding branch"
	}
	bin, ok := ifi.Cond.(*ssa.BinOp)
	if !ok {
		return false, "deciding condition is not a comparison"
	}
	var cmpLim, cmpOther ssa.Value
	if x, _, ok := lenOrCapOf(bin.Y); ok && sameSliceValue(x, sliced) {
		cmpLim, cmpOther = bin.Y, bin.X
	} else if x, _, ok := lenOrCapOf(bin.X); ok && sameSliceValue(x, sliced) {
		cmpLim, cmpOther = bin.X, bin.Y
	}
	if cmpLim == nil || stripConv(cmpOther) != stripConv(other) {
		return false, "deciding comparison is not between the look-ahead bound and len/cap of the buffer"
	}
	// direction: on the edge where other > lim the phi must take lim
	gt := false
	switch bin.Op {
	case token.GTR, token.GEQ:
		gt = cmpOther == bin.X
	case token.LSS, token.LEQ:
		gt = cmpOther == bin.Y
	default:
		return false, "deciding comparison is not an ordering"
	}
	// successor index taken when other > lim
	succ := 0
	if !gt {
		succ = 1
	}
	target := idom.Succs[succ]
	// the phi edge coming (transitively) from `target` must be lim
	for i, pred := range phi.Block().Preds {
		if pred == target || (target == phi.Block() && pred == idom) {
			if phi.Edges[i] == lim {
				return true, ""
			}
			return false, "the bound keeps the look-ahead value on the branch where it exceeds the buffer"
		}
	}
	// target may be the phi block itself reached directly from idom
	for i, pred := range phi.Block().Preds {
		if pred == idom && idom.Succs[succ] == phi.Block() {
			if phi.Edges[i] == lim {
				return true, ""
			}
		}
	}
	return false, "cannot relate the clamp branch to the phi edges"
}

func sameSliceValue(a, b ssa.Value) bool {
	if a == b {
		return true
	}
	// both loads of the same local cell / field path
	la, oka := a.(*ssa.UnOp)
	lb, okb := b.(*ssa.UnOp)
	if oka && okb && la.Op == token.MUL && lb.Op == token.MUL {
		return accessPath(la.X) == accessPath(lb.X) && la.X == lb.X
	}
	// a slice of a slice: s[:cap(s)] vs s
	if sa, ok := a.(*ssa.Slice); ok && sa.Low == nil {
		return sameSliceValue(sa.X, b)
	}
	if sb, ok := b.(*ssa.Slice); ok && sb.Low == nil {
		return sameSliceValue(a, sb.X)
	}
	return false
}

func init() {
	register(&Rule{
		Name:  "INIT-BEFORE-READ",
		Floor: 1,
		Doc:   "the receiver of every (*PostingsList).read call is the result of a dominating postingsListInit call with no other read in between (read assumes a cleared list: Count/OrInto/Iterator dispatch on normBits1Hit first)",
		Run: func(c *Ctx, scope string, r *Report) {
			read := c.MustFn("(*PostingsList).read")
			init := c.MustFn("(*Dictionary).postingsListInit")
			for _, ci := range c.callsTo(read) {
				fn := ci.Parent()
				key := fnName(fn) + "/read"
				recv := ci.Common().Args[0]
				ic, ok := recv.(*ssa.Call)
				if !ok || ic.Call.StaticCallee() != init {
					r.bad(key, fnName(fn), c.pos(ci.Pos()), "read() is called on "+recv.String()+" which is not the result of postingsListInit: state of a previous term (1-hit flag, offsets) carries over")
					continue
				}
				// exactly one read on this init result, dominated by it, and not re-executed without re-init
				n := 0
				for _, ref := range *ic.Referrers() {
					if c2, ok := ref.(ssa.CallInstruction); ok && c2.Common().StaticCallee() == read && c2.Common().Args[0] == ssa.Value(ic) {
						n++
					}
				}
				if n != 1 {
					r.bad(key, fnName(fn), c.pos(ci.Pos()), fmt.Sprintf("%d read() calls share one postingsListInit result", n))
					continue
				}
				if !ic.Block().Dominates(ci.Block()) {
					r.bad(key, fnName(fn), c.pos(ci.Pos()), "postingsListInit does not dominate read()")
					continue
				}
				if ic.Block() != ci.Block() && reachableWithout(ci.Block(), ci.Block(), ic.Block()) {
					r.bad(key, fnName(fn), c.pos(ci.Pos()), "read() can execute again (loop) without a new postingsListInit")
					continue
				}
				r.ok(key, fnName(fn), c.pos(ci.Pos()), "receiver is the fresh result of postingsListInit")
			}
		},
	})

	register(&Rule{
		Name:  "LOOKAHEAD-CLAMP",
		Floor: 2,
		Doc:   "every slice expression on an in-memory []byte whose upper bound is (offset + positive constant) — a fixed look-ahead window — has that bound clamped to len/cap of the buffer (the bound is selected by a comparison of the two); otherwise a short record at the end of the buffer panics",
		Run: func(c *Ctx, scope string, r *Report) {
			for _, fn := range c.srcFns {
				for _, b := range fn.Blocks {
					for _, ins := range b.Instrs {
						sl, ok := ins.(*ssa.Slice)
						if !ok || sl.High == nil || !isByteSlice(sl.X.Type()) {
							continue
						}
						key := fnName(fn) + "/slice"
						high := sl.High
						if _, k, ok := addConst(high); ok {
							r.bad(key, fnName(fn), c.pos(sl.Pos()), fmt.Sprintf("look-ahead of %d bytes is not clamped to the buffer: %s", k, sl.String()))
							continue
						}
						if phi, ok := high.(*ssa.Phi); ok {
							la := false
							for _, e := range phi.Edges {
								if _, _, ok := addConst(e); ok {
									la = true
								}
							}
							if !la {
								continue
							}
							if ok, why := clampedHigh(high, sl.X); ok {
								r.ok(key, fnName(fn), c.pos(sl.Pos()), "look-ahead bound is clamped to len/cap of the buffer")
							} else {
								r.bad(key, fnName(fn), c.pos(sl.Pos()), "look-ahead bound is not recognisably clamped: "+why)
							}
						}
					}
				}
			}
		},
	})

	register(&Rule{
		Name:  "INSERT-GUARD",
		Floor: 2,
		Doc:   "every vellum Builder.Insert is dominated by the true edge of (inserted value > 0), and writePostings returns offset 0 before writing anything when the bitmap cardinality is 0: a term without surviving postings never enters a dictionary",
		Run: func(c *Ctx, scope string, r *Report) {
			for _, ci := range c.callsNamed("github.com/blevesearch/vellum.(*Builder).Insert") {
				fn := ci.Parent()
				key := fnName(fn) + "/Insert"
				val := ci.Common().Args[2]
				guarded := false
				for _, ref := range *val.Referrers() {
					bin, ok := ref.(*ssa.BinOp)
					if !ok {
						continue
					}
					zero := func(v ssa.Value) bool { k, ok := constUint(v); return ok && k == 0 }
					var pos bool // condition true means val > 0
					switch {
					case bin.Op == token.GTR && bin.X == val && zero(bin.Y), bin.Op == token.NEQ && bin.X == val && zero(bin.Y), bin.Op == token.LSS && bin.Y == val && zero(bin.X):
						pos = true
					default:
						continue
					}
					for _, r2 := range *bin.Referrers() {
						if ifi, ok := r2.(*ssa.If); ok && pos {
							t := ifi.Block().Succs[0]
							if len(t.Preds) == 1 && t.Dominates(ci.Block()) {
								guarded = true
							}
						}
					}
				}
				if guarded {
					r.ok(key, fnName(fn), c.pos(ci.Pos()), "insert is guarded by postingsOffset > 0")
				} else {
					r.bad(key, fnName(fn), c.pos(ci.Pos()), "term inserted into the dictionary without the postingsOffset > 0 guard (terms whose documents were all deleted would stay visible)")
				}
			}
			// writePostings: cardinality 0 => return 0 before any write
			wp := c.MustFn("writePostings")
			key := "writePostings/empty-returns-0"
			found := false
			for _, b := range wp.Blocks {
				ifi, ok := b.Instrs[len(b.Instrs)-1].(*ssa.If)
				if !ok {
					continue
				}
				bin, ok := ifi.Cond.(*ssa.BinOp)
				if !ok {
					continue
				}
				call, ok := bin.X.(*ssa.Call)
				if !ok || call.Call.StaticCallee() == nil || call.Call.StaticCallee().Name() != "GetCardinality" || paramOfType(wp, roaringBitmapPtr) == nil || call.Call.Args[0] != ssa.Value(paramOfType(wp, roaringBitmapPtr)) {
					continue
				}
				if k, ok := constUint(bin.Y); !ok || k != 0 || (bin.Op != token.LEQ && bin.Op != token.EQL) {
					continue
				}
				// must be in the entry block (before any write)
				if b != wp.Blocks[0] {
					continue
				}
				tb := b.Succs[0]
				ret, ok := tb.Instrs[len(tb.Instrs)-1].(*ssa.Return)
				if !ok {
					continue
				}
				if k, ok := constUint(ret.Results[0]); ok && k == 0 && isNilConst(ret.Results[1]) && len(tb.Instrs) == 1 {
					found = true
				}
			}
			if found {
				r.ok(key, "writePostings", c.pos(wp.Pos()), "entry test cardinality<=0 returns (0, nil) before any write")
			} else {
				r.bad(key, "writePostings", c.pos(wp.Pos()), "writePostings no longer starts with `if cardinality(postings) <= 0 { return 0, nil }`")
			}
		},
	})

	register(&Rule{
		Name:  "ONEHIT-AWARE",
		Floor: 3,
		Doc:   "every function that reads PostingsList.postings for content also consults normBits1Hit of the same list, and tests it on every path before the bitmap is used (both encodings reach Count, OrInto and the iterators)",
		Run: func(c *Ctx, scope string, r *Report) {
			pl := c.NamedType("PostingsList")
			exempt := map[string]string{
				"(*PostingsList).read":                    "establishes the list (decodes the FST value itself)",
				"(*Dictionary).postingsListInit":          "re-initialiser",
				"(*PostingsIterator).nextDocNumAtOrAfter": "compares the pointer only (clean-path test); dispatches on the iterator's own normBits1Hit first",
			}
			for _, fn := range c.srcFns {
				var postingsLoads []*ssa.UnOp
				oneHit := false
				for _, b := range fn.Blocks {
					for _, ins := range b.Instrs {
						ld, ok := ins.(*ssa.UnOp)
						if !ok || ld.Op != token.MUL {
							continue
						}
						fa, ok := ld.X.(*ssa.FieldAddr)
						if !ok {
							continue
						}
						owner, f := fieldAddrInfo(fa)
						if owner == nil || owner.Obj() != pl.Obj() {
							continue
						}
						if f.Name() == "postings" {
							// content use: used as receiver or argument of a call
							// … or handed on (returned, stored, boxed): anything but a pointer comparison
							for _, ref := range *ld.Referrers() {
								switch ref.(type) {
								case ssa.CallInstruction, *ssa.Return, *ssa.Store, *ssa.MapUpdate, *ssa.MakeInterface, *ssa.Phi:
									postingsLoads = append(postingsLoads, ld)
								}
								if len(postingsLoads) > 0 && postingsLoads[len(postingsLoads)-1] == ld {
									break
								}
							}
						}
						if f.Name() == "normBits1Hit" {
							oneHit = true
						}
					}
				}
				// the dispatch spelled through an accessor: p.is1Hit() { return p.normBits1Hit != 0 }
				for _, b := range fn.Blocks {
					for _, ins := range b.Instrs {
						if call, ok := ins.(*ssa.Call); ok {
							if _, isAcc := oneHitAccessor(c, call); isAcc {
								oneHit = true
							}
						}
					}
				}
				if len(postingsLoads) == 0 {
					continue
				}
				key := fnName(fn) + "/postings"
				if why, ok := exempt[fnName(fn)]; ok {
					r.ok(key, fnName(fn), c.pos(fn.Pos()), "exempt: "+why)
					continue
				}
				if oneHit {
					// the 1-hit dispatch must come first: every content use is dominated by the normBits1Hit == 0 edge
					var zeroEdges []*ssa.BasicBlock
					for _, b := range fn.Blocks {
						ifi, ok := b.Instrs[len(b.Instrs)-1].(*ssa.If)
						if !ok {
							continue
						}
						// accessor form: if p.is1Hit() / if !p.is1Hit()
						{
							cv, neg := ifi.Cond, false
							for {
								u, ok := cv.(*ssa.UnOp)
								if !ok || u.Op != token.NOT {
									break
								}
								neg = !neg
								cv = u.X
							}
							if call, ok := cv.(*ssa.Call); ok {
								if meansOneHit, isAcc := oneHitAccessor(c, call); isAcc {
									// accessor true <=> 1-hit when meansOneHit; the general-encoding edge is the other one
									oneHitEdgeIsTrue := meansOneHit != neg
									if oneHitEdgeIsTrue {
										zeroEdges = append(zeroEdges, b.Succs[1])
									} else {
										zeroEdges = append(zeroEdges, b.Succs[0])
									}
									continue
								}
							}
						}
						bin, ok := ifi.Cond.(*ssa.BinOp)
						if !ok || (bin.Op != token.NEQ && bin.Op != token.EQL) {
							continue
						}
						if k, isK := constUint(bin.Y); !isK || k != 0 || exprSig(bin.X, 0) != ".normBits1Hit" {
							continue
						}
						z := b.Succs[1]
						if bin.Op == token.EQL {
							z = b.Succs[0]
						}
						zeroEdges = append(zeroEdges, z)
					}
					late := ""
					for _, ld := range postingsLoads {
						for _, ref := range *ld.Referrers() {
							if _, isCall := ref.(ssa.CallInstruction); !isCall {
								continue
							}
							dom := false
							for _, z := range zeroEdges {
								if len(z.Preds) == 1 && (z == ref.Block() || z.Dominates(ref.Block())) {
									dom = true
								}
							}
							if !dom {
								late = c.pos(ref.Pos())
							}
						}
					}
					if late != "" {
						r.bad(key, fnName(fn), late, "the postings bitmap is used before the 1-hit dispatch (normBits1Hit) decided that the list is general-encoded: a reused list's stale bitmap would win over its 1-hit value")
						continue
					}
					r.ok(key, fnName(fn), c.pos(fn.Pos()), "dispatches on normBits1Hit before any use of the postings bitmap")
				} else if ok, why := callersDispatchOneHit(c, fn, postingsLoads); ok {
					r.ok(key, fnName(fn), c.pos(fn.Pos()), "helper for the general encoding: "+why)
				} else {
					r.bad(key, fnName(fn), c.pos(postingsLoads[0].Pos()), "uses PostingsList.postings without consulting normBits1Hit: 1-hit encoded lists would be treated as empty")
				}
			}
		},
	})

	register(&Rule{
		Name:  "VISIT-GUARD",
		Floor: 2,
		Doc:   "in visitDocument every storage access is dominated by num < footer.numDocs, and the visiting loop continues only while the visitor returned true (the loop variable is defined by the visitor's result and the initial true only)",
		Run: func(c *Ctx, scope string, r *Report) {
			fn := c.MustFn("(*Segment).visitDocument")
			entryFn := fn
			// the guard (and the storage accesses behind it) may sit in a helper that fetches the record
			hasGuardTest := func(f *ssa.Function) bool {
				for _, b := range f.Blocks {
					if ifi, ok := b.Instrs[len(b.Instrs)-1].(*ssa.If); ok {
						if bin, ok := ifi.Cond.(*ssa.BinOp); ok && (bin.Op == token.LSS || bin.Op == token.GEQ) {
							if ld, ok := bin.Y.(*ssa.UnOp); ok && strings.HasSuffix(accessPath(ld.X), ".footer.numDocs") {
								return true
							}
						}
					}
				}
				return false
			}
			if !hasGuardTest(fn) {
				for _, sc := range staticCallees(fn) {
					if c.inRoot(sc) && sc.Blocks != nil && hasGuardTest(sc) {
						fn = sc
						break
					}
				}
			}
			// (a) numDocs guard
			var guard *ssa.BasicBlock
			for _, b := range fn.Blocks {
				ifi, ok := b.Instrs[len(b.Instrs)-1].(*ssa.If)
				if !ok {
					continue
				}
				bin, ok := ifi.Cond.(*ssa.BinOp)
				if !ok || (bin.Op != token.LSS && bin.Op != token.GEQ) {
					continue
				}
				if p, ok := bin.X.(*ssa.Parameter); !ok || p.Type().String() != "uint64" {
					continue
				}
				if ld, ok := bin.Y.(*ssa.UnOp); ok && strings.HasSuffix(accessPath(ld.X), ".footer.numDocs") {
					// the successor on which num < numDocs holds
					if bin.Op == token.LSS {
						guard = b.Succs[0]
					} else {
						guard = b.Succs[1]
					}
					if len(guard.Preds) != 1 {
						guard = nil
					}
				}
			}
			if guard == nil {
				r.bad("visitDocument/numDocs-guard", fnName(fn), c.pos(fn.Pos()), "no `num < s.footer.numDocs` test found")
			} else {
				bad := ""
				for _, b := range fn.Blocks {
					for _, ins := range b.Instrs {
						if ci, ok := ins.(ssa.CallInstruction); ok {
							if sc := ci.Common().StaticCallee(); sc != nil && c.inRoot(sc) && !guard.Dominates(b) && reachesDataRead(c, sc, 0) {
								bad = "call of " + fnName(sc) + " at " + c.pos(ins.Pos()) + " is not behind the numDocs guard"
							}
							if cb, _ := isCallbackCall(ci.Common()); cb && !guard.Dominates(b) {
								bad = "visitor invoked outside the numDocs guard at " + c.pos(ins.Pos())
							}
						}
					}
				}
				if bad != "" {
					r.bad("visitDocument/numDocs-guard", fnName(fn), c.pos(fn.Pos()), bad)
				} else {
					r.ok("visitDocument/numDocs-guard", fnName(fn), c.pos(fn.Pos()), "every read and visitor call is dominated by num < footer.numDocs")
				}
			}
			if fn != entryFn && guard != nil {
				for _, b := range entryFn.Blocks {
					for _, ins := range b.Instrs {
						if ci, ok := ins.(ssa.CallInstruction); ok {
							if sc := ci.Common().StaticCallee(); sc != nil && c.inRoot(sc) && sc != fn && reachesDataRead(c, sc, 0) {
								r.bad("visitDocument/numDocs-guard", fnName(entryFn), c.pos(ins.Pos()), "call of "+fnName(sc)+" reaches the segment data without passing the numDocs guard of "+fnName(fn))
							}
						}
					}
				}
				fn = entryFn
				guard = nil // (c) is about the function that holds the guard and the loop together
			}
			// (c) inside the guarded region the only exits before the visitor is first called are error returns
			if guard != nil {
				var vblk *ssa.BasicBlock
				for _, b := range fn.Blocks {
					for _, ins := range b.Instrs {
						if call, ok := ins.(*ssa.Call); ok && isFuncParamOf(call.Call.Value, fn) {
							vblk = b
						}
					}
				}
				early := ""
				if vblk != nil {
					for _, b := range fn.Blocks {
						ret, ok := b.Instrs[len(b.Instrs)-1].(*ssa.Return)
						if !ok || !guard.Dominates(b) {
							continue
						}
						if !isNilConst(resolveLoad(ret.Results[0])) {
							continue // error return
						}
						// a nil return that can be reached without passing the loop header of the visiting loop
						hdr := vblk
						for x := vblk; x != nil; x = x.Idom() {
							if isLoopHeader(x) {
								hdr = x
								break
							}
						}
						if !coveredFrom(guard, map[*ssa.BasicBlock]bool{hdr: true}, b) {
							early = "a successful return at " + c.pos(retPos(ret, b)) + " can be reached before any stored value is visited: some records would deliver nothing"
						}
					}
				}
				if early != "" {
					r.bad("visitDocument/no-early-success", fnName(fn), c.pos(fn.Pos()), early)
				} else {
					r.ok("visitDocument/no-early-success", fnName(fn), c.pos(fn.Pos()), "within the numDocs guard every successful return comes after the visiting loop")
				}
			}
			// (b) keepGoing
			var vcall *ssa.Call
			// the visiting loop is in visitDocument or in a helper it hands the visitor to
			visitFns := []*ssa.Function{fn}
			for _, sc := range staticCallees(fn) {
				if c.inRoot(sc) && sc.Blocks != nil {
					visitFns = append(visitFns, sc)
					for _, sc2 := range staticCallees(sc) {
						if c.inRoot(sc2) && sc2.Blocks != nil {
							visitFns = append(visitFns, sc2)
						}
					}
				}
			}
			for _, vf := range visitFns {
				for _, b := range vf.Blocks {
					for _, ins := range b.Instrs {
						call, ok := ins.(*ssa.Call)
						if !ok {
							continue
						}
						p, isParam := call.Call.Value.(*ssa.Parameter)
						if !isParam || p.Parent() != vf {
							continue
						}
						if sig, ok := p.Type().Underlying().(*types.Signature); ok && sig.Results().Len() == 1 && isBoolType(sig.Results().At(0).Type()) {
							vcall = call
						}
					}
				}
			}
			if vcall == nil {
				r.bad("visitDocument/keepGoing", fnName(fn), c.pos(fn.Pos()), "the visitor parameter is never called")
				return
			}
			// the call result must flow (only) into a phi that is the loop condition
			okLoop := false
			for _, ref := range *vcall.Referrers() {
				phi, ok := ref.(*ssa.Phi)
				if !ok {
					continue
				}
				allOK := true
				for _, e := range phi.Edges {
					if e == ssa.Value(vcall) {
						continue
					}
					if k, ok := e.(*ssa.Const); ok && k.Value != nil && k.Value.Kind() == constant.Bool && constant.BoolVal(k.Value) {
						continue
					}
					allOK = false
				}
				for _, r2 := range *phi.Referrers() {
					if ifi, ok := r2.(*ssa.If); ok && allOK {
						// true edge continues the loop: the block calling the visitor must be reachable only via it
						if ifi.Block().Succs[0].Dominates(vcall.Block()) {
							okLoop = true
						}
					}
				}
			}
			if !okLoop {
				// `if !visitor(…) { break }`: the result is tested directly and its false edge leaves the loop
				var hdr *ssa.BasicBlock
				for x := vcall.Block(); x != nil; x = x.Idom() {
					if isLoopHeader(x) && loopBody(x)[vcall.Block()] {
						hdr = x
						break
					}
				}
				if hdr != nil {
					body := loopBody(hdr)
					for _, ref := range *vcall.Referrers() {
						var ifi *ssa.If
						falseIdx := 1
						switch x := ref.(type) {
						case *ssa.If:
							ifi = x
						case *ssa.UnOp:
							if x.Op == token.NOT && x.Referrers() != nil {
								for _, r2 := range *x.Referrers() {
									if i2, ok := r2.(*ssa.If); ok {
										ifi, falseIdx = i2, 0
									}
								}
							}
						}
						if ifi != nil && !body[ifi.Block().Succs[falseIdx]] && body[ifi.Block().Succs[1-falseIdx]] {
							okLoop = true
						}
					}
				}
			}
			if okLoop {
				r.ok("visitDocument/keepGoing", fnName(fn), c.pos(vcall.Pos()), "loop continues only while the visitor's result is true")
			} else {
				r.bad("visitDocument/keepGoing", fnName(fn), c.pos(vcall.Pos()), "the visitor's boolean result does not (alone) control the visiting loop")
			}
		},
	})

	register(&Rule{
		Name:  "STATE-AFTER-FALLIBLE",
		Floor: 3,
		Doc:   "in the chunk loaders (PostingsIterator.loadChunk, chunkedIntDecoder.loadChunk, docValueReader.loadDvChunk) no store to reader state that identifies the current chunk or caches its data can be followed, on any path, by a return of a possibly non-nil error: a failed load never leaves a half-loaded chunk marked current",
		Run: func(c *Ctx, scope string, r *Report) {
			type spec struct {
				fn     string
				fields []string
			}
			specs := []spec{
				{"(*PostingsIterator).loadChunk", []string{"currChunk"}},
				{"(*docValueReader).loadDvChunk", []string{"curChunkNum", "curChunkData", "uncompressed"}},
				{"(*chunkedIntDecoder).loadChunk", []string{"curChunkBytes"}},
			}
			for _, sp := range specs {
				fn := c.MustFn(sp.fn)
				want := map[string]bool{}
				for _, f := range sp.fields {
					want[f] = true
				}
				seenField := map[string]bool{}
				for _, b := range fn.Blocks {
					for i, ins := range b.Instrs {
						var names []string
						switch x := ins.(type) {
						case *ssa.Store:
							fa, ok := x.Addr.(*ssa.FieldAddr)
							if !ok || fa.X != ssa.Value(fn.Params[0]) {
								continue
							}
							if _, f := fieldAddrInfo(fa); f != nil {
								names = []string{f.Name()}
							}
						case ssa.CallInstruction:
							// a helper method of the same reader that updates the state
							sc := x.Common().StaticCallee()
							if sc == nil || !c.inRoot(sc) || sc.Blocks == nil || sc == fn {
								continue
							}
							for ai, a := range x.Common().Args {
								if a == ssa.Value(fn.Params[0]) && ai < len(sc.Params) {
									for name := range fieldEvents(sc, targetsOf(sc, ai)) {
										names = append(names, name)
									}
								}
							}
							sort.Strings(names)
						default:
							continue
						}
						for _, name := range names {
							if !want[name] {
								continue
							}
							seenField[name] = true
							key := sp.fn + "/" + name
							if ret := errReturnReachableAfter(b, i); ret != nil {
								r.bad(key, sp.fn, c.pos(ins.Pos()), "reader state ."+name+" is updated before a fallible step: the error return at "+c.pos(retPos(ret, ret.Block()))+" leaves it claiming a chunk that was not loaded")
							} else {
								r.ok(key, sp.fn, c.pos(ins.Pos()), "no error return is reachable after this store")
							}
						}
					}
				}
				for _, f := range sp.fields {
					if !seenField[f] {
						r.undecided(sp.fn+"/"+f, sp.fn, c.pos(fn.Pos()), "field ."+f+" is no longer stored by this loader: the rule's model of the reader state is out of date")
					}
				}
			}
		},
	})
}

// errReturnReachableAfter: is a Return whose error operand may be non-nil
// reachable from instruction index i of block b (exclusive)?
func errReturnReachableAfter(b *ssa.BasicBlock, i int) *ssa.Return {
	seen := map[*ssa.BasicBlock]bool{}
	var check func(blk *ssa.BasicBlock, from int) *ssa.Return
	check = func(blk *ssa.BasicBlock, from int) *ssa.Return {
		for j := from; j < len(blk.Instrs); j++ {
			if ret, ok := blk.Instrs[j].(*ssa.Return); ok {
				for _, res := range ret.Results {
					if isErrorType(res.Type()) && !isNilConst(resolveLoad(res)) {
						return ret
					}
				}
			}
		}
		for _, s := range blk.Succs {
			if seen[s] {
				continue
			}
			seen[s] = true
			if r := check(s, 0); r != nil {
				return r
			}
		}
		return nil
	}
	return check(b, i+1)
}

// reachesDataRead: fn, or an in-package function it calls (three levels), reads the segment data.
func reachesDataRead(c *Ctx, fn *ssa.Function, depth int) bool {
	if fn.Blocks == nil || depth > 3 {
		return false
	}
	for _, b := range fn.Blocks {
		for _, ins := range b.Instrs {
			ci, ok := ins.(ssa.CallInstruction)
			if !ok {
				continue
			}
			if isDataRead(ci.Common()) {
				return true
			}
			if sc := ci.Common().StaticCallee(); sc != nil && c.inRoot(sc) && sc != fn && reachesDataRead(c, sc, depth+1) {
				return true
			}
		}
	}
	return false
}

// isFuncParamOf: v is a parameter of fn that has a function type (a visitor callback).
func isFuncParamOf(v ssa.Value, fn *ssa.Function) bool {
	p, ok := v.(*ssa.Parameter)
	if !ok || p.Parent() != fn {
		return false
	}
	_, isSig := p.Type().Underlying().(*types.Signature)
	return isSig
}

// oneHitAccessor: call is p.acc() where acc is an in-package method of
// PostingsList / PostingsIterator whose single result is normBits1Hit != 0
// (meansOneHit = true) or normBits1Hit == 0 (false) of its receiver.
func oneHitAccessor(c *Ctx, call *ssa.Call) (meansOneHit bool, ok bool) {
	sc := call.Call.StaticCallee()
	if sc == nil || !c.inRoot(sc) || sc.Blocks == nil || len(sc.Blocks) != 1 || sc.Signature.Recv() == nil || len(sc.Params) != 1 {
		return false, false
	}
	ret, isRet := sc.Blocks[0].Instrs[len(sc.Blocks[0].Instrs)-1].(*ssa.Return)
	if !isRet || len(ret.Results) != 1 {
		return false, false
	}
	bin, isBin := ret.Results[0].(*ssa.BinOp)
	if !isBin || (bin.Op != token.NEQ && bin.Op != token.EQL) {
		return false, false
	}
	if k, isK := constUint(bin.Y); !isK || k != 0 || exprSig(bin.X, 0) != ".normBits1Hit" {
		return false, false
	}
	return bin.Op == token.NEQ, true
}

// callersDispatchOneHit: fn reads the postings bitmap of a list it is handed
// (receiver or parameter) without testing normBits1Hit itself; that is fine
// when every call of fn sits on the normBits1Hit == 0 edge of a test of the
// same list in the caller, or in a function that establishes the list.
func callersDispatchOneHit(c *Ctx, fn *ssa.Function, loads []*ssa.UnOp) (bool, string) {
	// which parameter is the list
	var listParam *ssa.Parameter
	for _, ld := range loads {
		fa, ok := ld.X.(*ssa.FieldAddr)
		if !ok {
			return false, ""
		}
		p, ok := fa.X.(*ssa.Parameter)
		if !ok || (listParam != nil && listParam != p) {
			return false, ""
		}
		listParam = p
	}
	sites := c.callsTo(fn)
	if listParam == nil || len(sites) == 0 {
		return false, ""
	}
	establishers := map[string]bool{"(*PostingsList).read": true, "(*Dictionary).postingsListInit": true}
	for _, site := range sites {
		caller := site.Parent()
		if establishers[fnName(caller)] {
			continue
		}
		arg := argFor(site.Common(), listParam)
		dom := false
		for _, b := range caller.Blocks {
			ifi, ok := b.Instrs[len(b.Instrs)-1].(*ssa.If)
			if !ok {
				continue
			}
			bin, ok := ifi.Cond.(*ssa.BinOp)
			if !ok || (bin.Op != token.NEQ && bin.Op != token.EQL) {
				continue
			}
			ld, isLd := bin.X.(*ssa.UnOp)
			if k, isK := constUint(bin.Y); !isK || k != 0 || !isLd {
				continue
			}
			fa, isFa := ld.X.(*ssa.FieldAddr)
			if !isFa {
				continue
			}
			if _, f := fieldAddrInfo(fa); f == nil || f.Name() != "normBits1Hit" || (fa.X != arg && !sameObject(fa.X, arg)) {
				continue
			}
			z := b.Succs[1]
			if bin.Op == token.EQL {
				z = b.Succs[0]
			}
			if len(z.Preds) == 1 && (z == site.Block() || z.Dominates(site.Block())) {
				dom = true
			}
		}
		if !dom {
			return false, ""
		}
	}
	return true, fmt.Sprintf("each of its %d call site(s) is on the normBits1Hit == 0 edge of a test of the same list", len(sites))
}

// fallibleOrigin: v is (a copy through a local object's field of) result #i of a
// call that also returns an error; returns that call and its error result.
func fallibleOrigin(fn *ssa.Function, v ssa.Value, depth int) (*ssa.Call, ssa.Value) {
	if depth > 4 {
		return nil, nil
	}
	switch x := v.(type) {
	case *ssa.Extract:
		call, ok := x.Tuple.(*ssa.Call)
		if !ok {
			return nil, nil
		}
		res := call.Call.Signature().Results()
		for j := 0; j < res.Len(); j++ {
			if isErrorType(res.At(j).Type()) && j != x.Index {
				for _, ref := range *call.Referrers() {
					if ex, ok := ref.(*ssa.Extract); ok && ex.Index == j {
						return call, ex
					}
				}
				return call, nil
			}
		}
	case *ssa.UnOp:
		if x.Op != token.MUL {
			return nil, nil
		}
		// a load of obj.f: the value last stored to obj.f in this function
		fa, ok := x.X.(*ssa.FieldAddr)
		if !ok {
			return nil, nil
		}
		_, f := fieldAddrInfo(fa)
		if f == nil {
			return nil, nil
		}
		var best *ssa.Store
		for _, st := range storesToFieldOf(fn, fa.X, f.Name()) {
			if before(st, x) && (best == nil || before(best, st)) {
				best = st
			}
		}
		if best != nil {
			return fallibleOrigin(fn, best.Val, depth+1)
		}
	case *ssa.Phi:
		for _, e := range x.Edges {
			if call, ev := fallibleOrigin(fn, e, depth+1); call != nil {
				return call, ev
			}
		}
	}
	return nil, nil
}

func init() {
	register(&Rule{
		Name:  "CACHE-AFTER-CHECK",
		Floor: 1,
		Doc:   "a value obtained from a fallible call is published into a container held by the Segment (the lazily filled caches, e.g. fieldFSTs) only on the path where that call's error was tested nil: a failed load never leaves a nil or half-built entry that later calls would take for a loaded one",
		Run: func(c *Ctx, scope string, r *Report) {
			n := 0
			for _, fn := range c.srcFns {
				for _, b := range fn.Blocks {
					for _, ins := range b.Instrs {
						mu, ok := ins.(*ssa.MapUpdate)
						if !ok {
							continue
						}
						ld, ok := mu.Map.(*ssa.UnOp)
						if !ok || ld.Op != token.MUL {
							continue
						}
						fa, ok := ld.X.(*ssa.FieldAddr)
						if !ok {
							continue
						}
						owner, f := fieldAddrInfo(fa)
						if owner == nil || owner.Obj().Name() != "Segment" || f == nil {
							continue
						}
						// only objects that exist before the call: a receiver / parameter, not a segment under construction
						if _, isParam := rootParam(fa.X).(*ssa.Parameter); !isParam || c.entries().CTORONLY[topFn(fn)] {
							continue
						}
						call, errV := fallibleOrigin(fn, mu.Value, 0)
						if call == nil {
							continue
						}
						n++
						key := fnName(fn) + "/publish-" + f.Name()
						switch {
						case errV == nil:
							r.bad(key, fnName(fn), c.pos(mu.Pos()), "the value stored into Segment."+f.Name()+" comes from "+calleeFullName(&call.Call)+" whose error result is ignored")
						case knownNilAt(errV, b):
							r.ok(key, fnName(fn), c.pos(mu.Pos()), "published only after the error of "+calleeFullName(&call.Call)+" was tested nil")
						default:
							r.bad(key, fnName(fn), c.pos(mu.Pos()), "Segment."+f.Name()+" is filled with the result of "+calleeFullName(&call.Call)+" before its error is checked: after a failed load the cache holds an unusable entry, and the next call returns it without an error")
						}
					}
				}
			}
			if n == 0 {
				r.undecided("segment-caches", "", "-", "no lazily filled Segment cache found: the rule's model is out of date")
			}
		},
	})
}
