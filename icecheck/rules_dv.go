package main

// C07 — doc values: chunk factor agreement, separator/payload identity,
// section completeness, per-segment field-id lane; C04: bounded tail reads;
// C18: field cache.

import (
	"fmt"
	"go/constant"
	"go/token"
	"go/types"
	"sort"
	"strings"

	"golang.org/x/tools/go/ssa"
)

// ownFieldID: k is seg.fieldsMap[name]-1 of the segment object seg — directly,
// through a phi / comma-ok lookup, or as the result of an in-package helper that
// computes exactly that from the segment it is handed.
func ownFieldID(c *Ctx, k ssa.Value, seg ssa.Value, depth int) bool {
	if depth > 3 {
		return false
	}
	k = stripConv(k)
	viaHelper := func(call *ssa.Call, idx int) bool {
		sc := call.Call.StaticCallee()
		if sc == nil || !c.inRoot(sc) || sc.Blocks == nil {
			return false
		}
		var segParam *ssa.Parameter
		for i, a := range call.Call.Args {
			if i < len(sc.Params) && (a == seg || sameObject(a, seg)) {
				segParam = sc.Params[i]
			}
		}
		if segParam == nil {
			return false
		}
		n := 0
		for _, b := range sc.Blocks {
			ret, ok := b.Instrs[len(b.Instrs)-1].(*ssa.Return)
			if !ok || idx >= len(ret.Results) {
				continue
			}
			rv := resolveLoad(ret.Results[idx])
			if _, isConst := rv.(*ssa.Const); isConst {
				continue // the "unknown field" return
			}
			n++
			if !ownFieldID(c, rv, segParam, depth+1) {
				return false
			}
		}
		return n > 0
	}
	switch x := k.(type) {
	case *ssa.Extract:
		if call, ok := x.Tuple.(*ssa.Call); ok {
			return viaHelper(call, x.Index)
		}
	case *ssa.Call:
		return viaHelper(x, 0)
	case *ssa.Phi:
		n := 0
		for _, e := range x.Edges {
			if e == ssa.Value(x) {
				continue
			}
			n++
			if !ownFieldID(c, e, seg, depth+1) {
				return false
			}
		}
		return n > 0
	}
	bin, ok := k.(*ssa.BinOp)
	if !ok || bin.Op != token.SUB {
		return false
	}
	src := stripConv(bin.X) // int(s.fieldsMap[name]) - 1
	// commaok lookup: extract #0
	if ex, isEx := src.(*ssa.Extract); isEx {
		src = ex.Tuple
	}
	// value may flow through a phi/local: accept phi whose edges are such lookups
	var cands []ssa.Value
	if phi, isPhi := src.(*ssa.Phi); isPhi {
		for _, e := range phi.Edges {
			if ex, isEx := e.(*ssa.Extract); isEx {
				cands = append(cands, ex.Tuple)
			} else {
				cands = append(cands, e)
			}
		}
	} else {
		cands = []ssa.Value{src}
	}
	good := len(cands) > 0
	for _, cd := range cands {
		l2, isLk := cd.(*ssa.Lookup)
		if !isLk {
			return false
		}
		ld2, isLd := l2.X.(*ssa.UnOp)
		if !isLd {
			return false
		}
		fa2, isFa := ld2.X.(*ssa.FieldAddr)
		if !isFa {
			return false
		}
		_, f2 := fieldAddrInfo(fa2)
		if f2 == nil || f2.Name() != "fieldsMap" || !sameObject(fa2.X, seg) && fa2.X != seg {
			good = false
		}
	}
	return good
}

type dvChunkSite struct {
	fn  *ssa.Function
	pos token.Pos
	v   int64
	ok  bool
	why string
}

func keysOf(m map[string]bool) []string {
	var out []string
	for k := range m {
		out = append(out, k)
	}
	sort.Strings(out)
	return out
}

// foldChunkSize: the constant a chunk-size value folds to.
func (c *Ctx) foldChunkSize(v ssa.Value, depth int) (int64, bool, string) {
	if depth > 5 {
		return 0, false, exprSig(v, 0)
	}
	legacy, _ := constantInt64(c.ConstVal("legacyChunkMode"))
	switch x := stripConv(v).(type) {
	case *ssa.Const:
		if k, ok := constInt(x); ok {
			return k, true, ""
		}
	case *ssa.Extract:
		if call, ok := x.Tuple.(*ssa.Call); ok && call.Call.StaticCallee() != nil && fnName(call.Call.StaticCallee()) == "getChunkSize" && x.Index == 0 {
			mode, _, _ := chunkSizeArgs(&call.Call)
			m, ok := constInt(mode)
			if !ok {
				return 0, false, "getChunkSize with the non-constant mode " + exprSig(mode, 0)
			}
			if m > legacy {
				return 0, false, fmt.Sprintf("getChunkSize with mode %d above the legacy bound %d (the size then depends on the other arguments)", m, legacy)
			}
			return m, true, ""
		}
	case *ssa.Call:
		// a helper returning the chunk size
		if sc := x.Call.StaticCallee(); sc != nil && c.inRoot(sc) && sc.Blocks != nil {
			var val int64
			n := 0
			for _, b := range sc.Blocks {
				if ret, ok := b.Instrs[len(b.Instrs)-1].(*ssa.Return); ok && len(ret.Results) >= 1 {
					k, ok, why := c.foldChunkSize(ret.Results[0], depth+1)
					if !ok {
						return 0, false, why
					}
					if n > 0 && k != val {
						return 0, false, "a helper returning different sizes"
					}
					val, n = k, n+1
				}
			}
			if n > 0 {
				return val, true, ""
			}
		}
	case *ssa.Parameter:
		sites := c.callsTo(x.Parent())
		var val int64
		for i, site := range sites {
			k, ok, why := c.foldChunkSize(argFor(site.Common(), x), depth+1)
			if !ok {
				return 0, false, why
			}
			if i > 0 && k != val {
				return 0, false, "different sizes at different call sites"
			}
			val = k
		}
		if len(sites) > 0 {
			return val, true, ""
		}
	}
	return 0, false, exprSig(v, 0)
}

// dvChunkSizes: the doc-value chunk-size sites of writers (every call that
// constructs a chunkedContentCoder with a chunk size that is not simply its
// own parameter) and of the reader (the division that selects the chunk in
// the function that loads doc-value chunks on demand, or a helper of it).
func (c *Ctx) dvChunkSizes() (writers, readers []dvChunkSite) {
	for _, fn := range c.srcFns {
		for _, call := range callsOf(fn, "newChunkedContentCoder") {
			a := argNamed(&call.Call, "chunkSize")
			if a == nil {
				a = call.Call.Args[0]
			}
			if p, isParam := stripConv(a).(*ssa.Parameter); isParam && p.Parent() == fn {
				// a constructor helper that forwards its own parameter: its call sites are the sites
				for _, site := range c.callsTo(fn) {
					k, ok, why := c.foldChunkSize(argFor(site.Common(), p), 0)
					writers = append(writers, dvChunkSite{site.Parent(), site.Pos(), k, ok, why})
				}
				continue
			}
			k, ok, why := c.foldChunkSize(a, 0)
			site := dvChunkSite{fn, call.Pos(), k, ok, why}
			// a constructor helper with a fixed size counts once per caller
			if sites := c.callsTo(fn); len(sites) > 0 && fn.Signature.Results().Len() == 1 && strings.HasSuffix(fn.Signature.Results().At(0).Type().String(), ".chunkedContentCoder") {
				for _, s2 := range sites {
					writers = append(writers, dvChunkSite{s2.Parent(), s2.Pos(), k, ok, why})
				}
				continue
			}
			writers = append(writers, site)
		}
	}
	// reader: functions calling loadDvChunk on demand, and their helpers
	seen := map[*ssa.Function]bool{}
	var scan []*ssa.Function
	for _, fn := range c.fnsCalling("(*docValueReader).loadDvChunk") {
		if fnName(fn) == "(*docValueReader).iterateAllDocValues" {
			continue // iterates all chunks, selects none
		}
		scan = append(scan, fn)
		for _, sc := range staticCallees(fn) {
			if c.inRoot(sc) && sc.Blocks != nil && len(sc.Blocks) <= 3 {
				scan = append(scan, sc)
			}
		}
		// a small "load unless already loaded" wrapper: the chunk number is computed by its callers
		if len(fn.Blocks) <= 4 {
			for _, up := range c.fnsCalling(fnName(fn)) {
				if fnName(up) != "(*docValueReader).iterateAllDocValues" {
					scan = append(scan, up)
				}
			}
		}
	}
	for _, fn := range scan {
		if seen[fn] {
			continue
		}
		seen[fn] = true
		for _, b := range fn.Blocks {
			for _, ins := range b.Instrs {
				bin, ok := ins.(*ssa.BinOp)
				if !ok || bin.Op != token.QUO {
					continue
				}
				if _, isParam := stripConv(bin.X).(*ssa.Parameter); !isParam {
					continue
				}
				k, ok, why := c.foldChunkSize(bin.Y, 0)
				readers = append(readers, dvChunkSite{fn, bin.Pos(), k, ok, why})
			}
		}
	}
	return
}

// storesNonConstInto: fn stores a non-constant value into an element of param.
func storesNonConstInto(fn *ssa.Function, param *ssa.Parameter) bool {
	for _, b := range fn.Blocks {
		for _, ins := range b.Instrs {
			if st, ok := ins.(*ssa.Store); ok {
				if ia, ok := st.Addr.(*ssa.IndexAddr); ok && ia.X == ssa.Value(param) {
					if _, isConst := st.Val.(*ssa.Const); !isConst {
						return true
					}
				}
			}
		}
	}
	return false
}

// chunkSizeRole classifies a getChunkSize call by what its result is used
// for: sizing a doc-value content coder ("dv-writer"), dividing a document
// number in a function that does not store it as a postings chunk size
// ("dv-reader"), or the postings machinery ("postings").
func chunkSizeRole(fn *ssa.Function, call *ssa.Call) string {
	res := tupleParts(call)[0]
	if res == nil {
		return ""
	}
	role := ""
	for _, ref := range *res.Referrers() {
		switch x := ref.(type) {
		case *ssa.Call:
			if sc := x.Call.StaticCallee(); sc != nil {
				switch fnName(sc) {
				case "newChunkedContentCoder":
					return "dv-writer"
				case "(*chunkedIntCoder).SetChunkSize", "newChunkedIntCoder":
					return "postings"
				}
			}
		case *ssa.Store:
			if strings.HasSuffix(exprSig(x.Addr, 0), ".chunkSize") {
				return "postings"
			}
		case *ssa.BinOp:
			if x.Op == token.QUO && x.Y == ssa.Value(res) {
				role = "dv-reader"
			}
		}
	}
	return role
}

func init() {
	register(&Rule{
		Name:  "DV-FACTOR-AGREE",
		Floor: 3,
		Doc:   "every doc-value content coder (builder, merger) is sized with a chunk size that folds to one constant — a literal/named constant, or getChunkSize with a constant mode not above the legacy bound (whose result is that mode whatever the other arguments are) — and the reader's chunk index divides the document number by the same constant",
		Run: func(c *Ctx, scope string, r *Report) {
			ws, rs := c.dvChunkSizes()
			vals := map[string]bool{}
			for _, w := range ws {
				key := fnName(w.fn) + "/dv-chunk"
				if !w.ok {
					r.bad(key, fnName(w.fn), c.pos(w.pos), "the doc-value content coder is sized with "+w.why+": doc values are chunked by a fixed number of documents in format v2")
					continue
				}
				vals[fmt.Sprint(w.v)] = true
				r.ok(key, fnName(w.fn), c.pos(w.pos), fmt.Sprintf("writer: content coder chunk size folds to %d", w.v))
			}
			for _, rd := range rs {
				key := fnName(rd.fn) + "/dv-chunk"
				if !rd.ok {
					r.bad(key, fnName(rd.fn), c.pos(rd.pos), "the reader's chunk index divides by "+rd.why+", not by a constant chunk size")
					continue
				}
				vals[fmt.Sprint(rd.v)] = true
				r.ok(key, fnName(rd.fn), c.pos(rd.pos), fmt.Sprintf("reader: chunk index = docNum / %d", rd.v))
			}
			if len(ws) < 2 || len(rs) < 1 {
				r.undecided("dv-chunk/sites", "", "-", fmt.Sprintf("%d doc-value writer and %d reader chunk-size site(s) found; the builder, the merger and the reader each need one", len(ws), len(rs)))
			}
			if len(vals) == 1 {
				for v := range vals {
					r.ok("dv-chunk/same-constant", "", "-", "all doc-value sites fold to "+v)
				}
			} else if len(vals) > 1 {
				r.bad("dv-chunk/same-constant", "", "-", fmt.Sprintf("the doc-value sites do not use one constant: %v", keysOf(vals)))
			}
		},
	})

	register(&Rule{
		Name:  "DV-SEPARATOR",
		Floor: 3,
		Doc:   "the builder appends each term's bytes unmodified followed by the package variable termSeparator; the reader splits on a slice initialised from that same variable and hands the visitor the sub-slice between separators unmodified; nothing assigns termSeparator outside its initialiser",
		Run: func(c *Ctx, scope string, r *Report) {
			sep := c.Global("termSeparator")
			split := c.Global("termSeparatorSplitSlice")
			// writer
			fn := c.MustFn("(*interim).writeDictsTermField")
			key := fnName(fn) + "/dv-append"
			okW, why := false, "no store into docTermMap[docNum] found"
			for _, b := range fn.Blocks {
				for _, ins := range b.Instrs {
					st, ok := ins.(*ssa.Store)
					if !ok {
						continue
					}
					ia, ok := st.Addr.(*ssa.IndexAddr)
					if !ok {
						continue
					}
					// the per-document table of term bytes: a [][]byte parameter, or a [][]byte field of
					// a state struct the function is handed
					isTable := len(fn.Params) > 1 && ia.X == ssa.Value(fn.Params[1])
					if !isTable && ia.X.Type().String() == "[][]byte" {
						switch tx := ia.X.(type) {
						case *ssa.Parameter:
							isTable = true
						case *ssa.UnOp:
							_, isField := tx.X.(*ssa.FieldAddr)
							isTable = tx.Op == token.MUL && isField
						}
					}
					if !isTable {
						continue
					}
					outer, ok := st.Val.(*ssa.Call)
					if !ok {
						why = "docTermMap entry is not built with append"
						continue
					}
					vals := varargValues(outer.Call.Args[1])
					if len(vals) != 1 || exprSig(vals[0], 0) != "global:termSeparator" {
						why = "the byte appended after the term is not termSeparator"
						continue
					}
					inner, ok := outer.Call.Args[0].(*ssa.Call)
					if !ok {
						why = "the term is not appended to the document's bytes with append"
						continue
					}
					if bi, isB := inner.Call.Value.(*ssa.Builtin); !isB || bi.Name() != "append" {
						why = "the term bytes go through " + calleeFullName(&inner.Call) + " before being stored (terms must be stored unmodified)"
						continue
					}
					var term *ssa.Parameter
					for _, p := range fn.Params {
						if p.Name() == "term" {
							term = p
						}
					}
					if stripConv(inner.Call.Args[1]) != ssa.Value(term) {
						why = "what is appended is not the term itself: " + exprSig(inner.Call.Args[1], 0)
						continue
					}
					okW = true
				}
			}
			if okW {
				r.ok(key, fnName(fn), c.pos(fn.Pos()), "docTermMap[docNum] = append(append(old, term...), termSeparator)")
			} else {
				r.bad(key, fnName(fn), c.pos(fn.Pos()), why)
			}
			// reader
			rd := c.MustFn("(*docValueReader).visitDocValues")
			key = fnName(rd) + "/dv-split"
			okR, whyR := false, "no bytes.Index split found"
			// (the split loop may sit in a helper that is handed the visitor)
			if len(callsOfFull(rd, "bytes.Index")) == 0 {
				for _, h := range staticCallees(rd) {
					if c.inRoot(h) && h.Blocks != nil && len(callsOfFull(h, "bytes.Index")) > 0 {
						rd = h
					}
				}
			}
			isVisitor := func(v ssa.Value) bool {
				p, ok := v.(*ssa.Parameter)
				if !ok || p.Parent() != rd {
					return false
				}
				_, isFn := p.Type().Underlying().(*types.Signature)
				return isFn
			}
			for _, b := range rd.Blocks {
				for _, ins := range b.Instrs {
					call, ok := ins.(*ssa.Call)
					if !ok {
						continue
					}
					if sc := call.Call.StaticCallee(); sc != nil && funcFullName(sc) == "bytes.Index" {
						if exprSig(call.Call.Args[1], 0) != "global:termSeparatorSplitSlice" {
							whyR = "the reader does not split on termSeparatorSplitSlice"
							continue
						}
						// the visitor gets buffer[0:i]
						for _, b2 := range rd.Blocks {
							for _, i2 := range b2.Instrs {
								vc, ok := i2.(*ssa.Call)
								if !ok || !isVisitor(vc.Call.Value) {
									continue
								}
								sl, ok := vc.Call.Args[1].(*ssa.Slice)
								if !ok {
									whyR = "the visitor is handed " + exprSig(vc.Call.Args[1], 0) + ", not the sub-slice between separators"
									continue
								}
								if sl.High == ssa.Value(call) && sl.X == call.Call.Args[0] {
									okR = true
								} else if hp, isPhi := sl.High.(*ssa.Phi); isPhi && splitIndexPhi(hp, sl.X) {
									// `for i := bytes.Index(buf, sep); i >= 0; i = bytes.Index(buf, sep)`: the index and
									// the buffer are loop variables, edge by edge the index of the separator in that buffer
									okR = true
								} else {
									whyR = "the visitor's slice is not buffer[0:index of separator]"
								}
							}
						}
					}
				}
			}
			if okR {
				r.ok(key, fnName(rd), c.pos(rd.Pos()), "visitor(field, buf[0:bytes.Index(buf, termSeparatorSplitSlice)])")
			} else {
				r.bad(key, fnName(rd), c.pos(rd.Pos()), whyR)
			}
			// stores to the two variables
			n := 0
			for g, sts := range c.census().globalStores {
				if g != sep && g != split {
					continue
				}
				for _, st := range sts {
					n++
					key := "global/" + g.Name() + "/store-in-" + fnName(st.fn)
					if st.fn.Name() == "init" {
						r.ok(key, fnName(st.fn), c.pos(st.ins.Pos()), "package initialiser")
					} else {
						r.bad(key, fnName(st.fn), c.pos(st.ins.Pos()), g.Name()+" is assigned at run time")
					}
				}
			}
			// split slice is built from termSeparator
			init := c.SSA.Func("init")
			okInit := false
			if init != nil {
				for _, b := range init.Blocks {
					for _, ins := range b.Instrs {
						if st, ok := ins.(*ssa.Store); ok && st.Addr == ssa.Value(split) {
							if sl, ok := st.Val.(*ssa.Slice); ok {
								if a, ok := sl.X.(*ssa.Alloc); ok {
									for _, ref := range *a.Referrers() {
										if ia, ok := ref.(*ssa.IndexAddr); ok {
											for _, r2 := range *ia.Referrers() {
												if s2, ok := r2.(*ssa.Store); ok && exprSig(s2.Val, 0) == "global:termSeparator" {
													okInit = true
												}
											}
										}
									}
								}
							}
						}
					}
				}
			}
			if okInit {
				r.ok("global/termSeparatorSplitSlice/init", "init", "-", "termSeparatorSplitSlice = []byte{termSeparator}")
			} else {
				r.bad("global/termSeparatorSplitSlice/init", "init", "-", "termSeparatorSplitSlice is not initialised from termSeparator")
			}
		},
	})

	register(&Rule{
		Name:  "DV-SECTION-COMPLETE",
		Floor: 1,
		Doc:   "whenever a writer records a real (non-sentinel) end offset for a field's doc-value section it has closed the content coder and written its trailer on that path: the loader parses the trailer of every field whose start offset is not the not-uninverted sentinel",
		Run: func(c *Ctx, scope string, r *Report) {
			// the writers: every function that is handed the doc-value end-offset
			// slice and closes a content coder (the site may be a helper of
			// writeDictsField / buildMergedDocVals)
			for _, fn := range c.srcFns {
				name := fnName(fn)
				var endParam *ssa.Parameter
				for _, p := range fn.Params {
					if strings.HasSuffix(p.Name(), "End") && p.Type().String() == "[]uint64" {
						endParam = p
					}
				}
				key := name + "/end-offset"
				if endParam == nil {
					continue
				}
				// (Close and Write may sit in a helper that always runs them when it succeeds)
				writes := c.sitesRunning(fn, "(*chunkedContentCoder).Write", 2)
				closes := c.sitesRunning(fn, "(*chunkedContentCoder).Close", 2)
				if len(writes) == 0 && !storesNonConstInto(fn, endParam) {
					continue // only forwards the slice
				}
				n := 0
				for _, b := range fn.Blocks {
					for _, ins := range b.Instrs {
						st, ok := ins.(*ssa.Store)
						if !ok {
							continue
						}
						ia, ok := st.Addr.(*ssa.IndexAddr)
						if !ok || ia.X != ssa.Value(endParam) {
							continue
						}
						if _, isConst := st.Val.(*ssa.Const); isConst {
							continue // the sentinel
						}
						n++
						okW, okC := false, false
						for _, w := range writes {
							if before(w, st) {
								okW = true
							}
						}
						for _, cl := range closes {
							if before(cl, st) {
								okC = true
							}
						}
						if okW && okC {
							r.ok(key, name, c.pos(st.Pos()), "the end offset is recorded only after Close() and Write() of the field's content coder")
						} else {
							r.bad(key, name, c.pos(st.Pos()), "a real end offset is recorded on a path where the content coder's chunk/trailer was not written: the loader would parse a trailer that is not there")
						}
					}
				}
				if n == 0 {
					r.undecided(key, name, c.pos(fn.Pos()), "no non-sentinel end offset store found")
				}
				// the start offset is captured before the first byte of the section
				// can reach the writer: before Write(), and — when the coder writes
				// finished chunks progressively — before every Add()/Close() as well
				var startParam *ssa.Parameter
				for _, p := range fn.Params {
					if strings.HasSuffix(p.Name(), "Start") && p.Type().String() == "[]uint64" {
						startParam = p
					}
				}
				if startParam == nil {
					continue
				}
				emittersOf := func(frame *ssa.Function) []*ssa.Call {
					progressive := true
					// the coder's constructor, or a helper constructor that forwards the flag
					for _, b := range frame.Blocks {
						for _, ins := range b.Instrs {
							mk, ok := ins.(*ssa.Call)
							if !ok || mk.Call.StaticCallee() == nil || !c.inRoot(mk.Call.StaticCallee()) {
								continue
							}
							if rt := mk.Call.Signature().Results(); rt.Len() != 1 || !strings.HasSuffix(rt.At(0).Type().String(), ".chunkedContentCoder") {
								continue
							}
							if a := argNamed(&mk.Call, "progressiveWrite"); a != nil {
								if k, ok := a.(*ssa.Const); ok && k.Value != nil && k.Value.Kind() == constant.Bool && !constant.BoolVal(k.Value) {
									progressive = false
								}
							} else if v, known := coderFlagAfter(c, mk.Call.StaticCallee(), mk.Call.Args, 0); known && !v {
								// a constructor without the flag parameter that leaves the coder's bool flag false
								progressive = false
							}
						}
					}
					var emitters []*ssa.Call
					emitters = append(emitters, c.sitesRunning(frame, "(*chunkedContentCoder).Write", 2)...)
					if progressive {
						emitters = append(emitters, c.sitesRunning(frame, "(*chunkedContentCoder).Close", 2)...)
						emitters = append(emitters, callsOf(frame, "(*chunkedContentCoder).Add")...)
						// Add may be called from a visitor literal of this function
						for _, lit := range frame.AnonFuncs {
							if len(callsOf(lit, "(*chunkedContentCoder).Add")) > 0 {
								for _, b := range frame.Blocks {
									for _, ins := range b.Instrs {
										if call, ok := ins.(*ssa.Call); ok {
											for _, a := range call.Call.Args {
												for {
													if ct, ok := a.(*ssa.ChangeType); ok {
														a = ct.X
														continue
													}
													break
												}
												if mc, ok := a.(*ssa.MakeClosure); ok && mc.Fn == ssa.Value(lit) {
													emitters = append(emitters, call)
												}
											}
										}
									}
								}
							}
						}
					}
					return emitters
				}
				emitters := emittersOf(fn)
				skey := name + "/start-offset"
				ns := 0
				for _, b := range fn.Blocks {
					for _, ins := range b.Instrs {
						st, ok := ins.(*ssa.Store)
						if !ok {
							continue
						}
						ia, ok := st.Addr.(*ssa.IndexAddr)
						if !ok || ia.X != ssa.Value(startParam) {
							continue
						}
						if _, isConst := st.Val.(*ssa.Const); isConst {
							continue
						}
						ns++
						late := ""
						// where the offset is captured: here, or - when a helper returns the section's
						// span in a struct - where the helper takes it
						var capture ssa.Instruction = st
						// (the offset may be taken into a local first and recorded later: the capture is
						// where the writer's count is read)
						if cv, ok := stripConv(st.Val).(*ssa.Call); ok && cv.Parent() == fn && cv.Call.StaticCallee() != nil && cv.Call.StaticCallee().Name() == "Count" {
							capture = cv
						}
						em := emitters
						if hv, ok := stripConv(c.throughStruct(st.Val)).(ssa.Instruction); ok && hv.Parent() != fn && c.inRoot(hv.Parent()) {
							capture = hv
							em = emittersOf(hv.Parent())
						}
						for _, e := range em {
							if canExecuteAfter(e, capture) && !canExecuteAfter(capture, e) || (e.Block() == capture.Block() && instrIndex(e) < instrIndex(capture)) {
								late = c.pos(e.Pos())
							}
						}
						if late == "" {
							r.ok(skey, name, c.pos(st.Pos()), "the section's start offset is captured before any of its bytes can be written")
						} else {
							r.bad(skey, name, c.pos(st.Pos()), "the doc-value section's start offset is captured after the call at "+late+", which can already have written bytes of the section: the recorded start points into the middle of the section")
						}
					}
				}
				if ns == 0 && len(writes) > 0 {
					r.undecided(skey, name, c.pos(fn.Pos()), "no start offset store found next to the section writer")
				}
			}
		},
	})

	register(&Rule{
		Name:  "FIELDID-LANE",
		Floor: 1,
		Doc:   "per-segment tables (Segment.fieldDvReaders) are indexed with that same segment's own field id: the key is seg.fieldsMap[name]-1 of the segment whose table is read (field ids differ between segments and the merged output)",
		Run: func(c *Ctx, scope string, r *Report) {
			for _, fn := range c.srcFns {
				for _, b := range fn.Blocks {
					for _, ins := range b.Instrs {
						lk, ok := ins.(*ssa.Lookup)
						if !ok {
							continue
						}
						ld, ok := lk.X.(*ssa.UnOp)
						if !ok {
							continue
						}
						fa, ok := ld.X.(*ssa.FieldAddr)
						if !ok {
							continue
						}
						owner, f := fieldAddrInfo(fa)
						if owner == nil || owner.Obj().Name() != "Segment" || f.Name() != "fieldDvReaders" {
							continue
						}
						key := fnName(fn) + "/fieldDvReaders-key"
						good := ownFieldID(c, lk.Index, fa.X, 0)
						if good {
							r.ok(key, fnName(fn), c.pos(lk.Pos()), "indexed by the same segment's fieldsMap[name]-1")
						} else {
							r.bad(key, fnName(fn), c.pos(lk.Pos()), "Segment.fieldDvReaders is indexed by "+exprSig(lk.Index, 0)+", which is not this segment's own field id (fieldsMap[name]-1)")
						}
					}
				}
			}
		},
	})

	register(&Rule{
		Name:  "TAIL-READ-BOUNDED",
		Floor: 3,
		Doc:   "loadFields reads the last section of the data (ADJACENCY: the fields index immediately precedes the footer): none of its reads uses a fixed look-ahead window (x, x+const) that could extend past the end of file-backed data; every read ends at the section end or at a decoded length",
		Run: func(c *Ctx, scope string, r *Report) {
			fn := c.MustFn("(*Segment).loadFields")
			check := func(at *ssa.Call, start, end ssa.Value) {
				key := fnName(fn) + "/read-end"
				start, end = stripConv(start), stripConv(end)
				if x, k, ok := addConst(end); ok && k != 8 && (stripConv(x) == start || exprSig(x, 0) == exprSig(start, 0)) {
					r.bad(key, fnName(fn), c.pos(at.Pos()), fmt.Sprintf("fixed %d-byte look-ahead in the last section of the file: for file-backed data the window can extend past the end (short final records) and the read fails with EOF", k))
					return
				}
				r.ok(key, fnName(fn), c.pos(at.Pos()), "read ends at "+exprSig(end, 0))
			}
			// every read of loadFields and of the helpers it is split into (two levels);
			// a helper that reads [its parameter, its parameter) is judged by the window
			// each call site passes
			var visit func(f *ssa.Function, depth int)
			seenFn := map[*ssa.Function]bool{}
			visit = func(f *ssa.Function, depth int) {
				if seenFn[f] || depth > 2 {
					return
				}
				seenFn[f] = true
				for _, b := range f.Blocks {
					for _, ins := range b.Instrs {
						call, ok := ins.(*ssa.Call)
						if !ok {
							continue
						}
						if isDataRead(&call.Call) {
							ps, okS := stripConv(call.Call.Args[1]).(*ssa.Parameter)
							pe, okE := stripConv(call.Call.Args[2]).(*ssa.Parameter)
							if okS && okE && f != fn {
								for _, site := range c.callsTo(f) {
									if sc, ok := site.(*ssa.Call); ok {
										check(sc, argFor(site.Common(), ps), argFor(site.Common(), pe))
									}
								}
							} else {
								check(call, call.Call.Args[1], call.Call.Args[2])
							}
							continue
						}
						sc := call.Call.StaticCallee()
						if sc != nil && c.inRoot(sc) && sc.Blocks != nil {
							visit(sc, depth+1)
						}
					}
				}
			}
			visit(fn, 0)
		},
	})

	register(&Rule{
		Name:  "BLOCK-SELECT",
		Floor: 2,
		Doc:   "the reader selects the stored-field block with docNum / N where N is the same folded constant both writers pass to newChunkedDocumentCoder",
		Run: func(c *Ctx, scope string, r *Report) {
			vals := map[string]string{}
			for k, v := range c.useSiteConstants() {
				if strings.Contains(k, "newChunkedDocumentCoder(arg 0)") {
					for i, one := range strings.Fields(v) {
						vals[fmt.Sprintf("%s site %d", k, i+1)] = one
					}
				}
				if strings.HasPrefix(k, "(*Segment).getDocStoredOffsets: arithmetic") {
					vals[k] = strings.TrimPrefix(v, "/")
					if i := strings.Index(vals[k], "@"); i >= 0 {
						vals[k] = vals[k][:i]
					}
				}
			}
			first := ""
			same := true
			for _, v := range vals {
				if first == "" {
					first = v
				} else if v != first {
					same = false
				}
			}
			for k, v := range vals {
				if same {
					r.ok("block/"+k, "", "-", "block size "+v)
				} else {
					r.bad("block/"+k, "", "-", fmt.Sprintf("stored-field block size disagrees between writers and reader: %v", vals))
				}
			}
		},
	})

	register(&Rule{
		Name:  "FIELD-CACHE",
		Floor: 1,
		Doc:   "in DocsMatchingTerms the cached dictionary is reloaded exactly when the term's field differs from the field it was loaded for, and the remembered field and the cached dictionary are updated together on that path only",
		Run: func(c *Ctx, scope string, r *Report) {
			fn := c.MustFn("(*Segment).DocsMatchingTerms")
			key := fnName(fn) + "/reload"
			calls := callsOf(fn, "(*Segment).dictionary")
			if len(calls) == 0 {
				// the cache may have become an object with a lookup method
				for _, h := range staticCallees(fn) {
					if c.inRoot(h) && h.Blocks != nil && len(callsOf(h, "(*Segment).dictionary")) == 1 && h.Signature.Recv() != nil {
						fieldCacheObject(c, r, key, fn, h)
						return
					}
				}
			}
			if len(calls) != 1 {
				r.undecided(key, fnName(fn), c.pos(fn.Pos()), fmt.Sprintf("%d dictionary() calls", len(calls)))
				return
			}
			call := calls[0]
			b := call.Block()
			// the rule is about a dictionary that is CARRIED from one term to the next; when
			// none is (no loop-carried *Dictionary: each dictionary is loaded for the group of
			// terms it is then used for) there is no cache that could go stale.  Which terms
			// fall into a group is decided by values and is not checked.
			if dictRes0 := tupleParts(call)[0]; dictRes0 != nil {
				carried := false
				for _, blk := range fn.Blocks {
					if !isLoopHeader(blk) {
						continue
					}
					for _, ins := range blk.Instrs {
						if ph, ok := ins.(*ssa.Phi); ok && types.Identical(ph.Type(), dictRes0.Type()) {
							// carried across the iterations of the loop in which it is loaded
							if loopBody(blk)[call.Block()] {
								carried = true
							}
						}
					}
				}
				if !carried {
					r.ok(key, fnName(fn), c.pos(call.Pos()), "no dictionary is carried from one term to the next: each is loaded for the terms it is used for")
					return
				}
			}
			// the reload may run more often than the key changes (`i == 0 || this != last`:
			// further disjuncts in front of the comparison), never less: the block is entered
			// from the comparison and from tests whose other way out leads on to the comparison
			var p *ssa.BasicBlock
			for _, cand := range b.Preds {
				if ifi, ok := cand.Instrs[len(cand.Instrs)-1].(*ssa.If); ok && cand.Succs[0] == b {
					if bin, ok := ifi.Cond.(*ssa.BinOp); ok && bin.Op == token.NEQ {
						if _, isPhi := bin.X.(*ssa.Phi); isPhi {
							p = cand
						} else if _, isPhi := bin.Y.(*ssa.Phi); isPhi {
							p = cand
						}
					}
				}
			}
			if p == nil && len(b.Preds) == 1 {
				p = b.Preds[0]
			}
			if p == nil {
				r.bad(key, fnName(fn), c.pos(call.Pos()), "the dictionary reload is not under a comparison of the term's field with the remembered one")
				return
			}
			for _, q := range b.Preds {
				if q == p {
					continue
				}
				// a disjunct in front: true -> reload, false -> (further disjuncts ->) the comparison
				okChain := false
				if _, isIf := q.Instrs[len(q.Instrs)-1].(*ssa.If); isIf && q.Succs[0] == b {
					nx := q.Succs[1]
					for steps := 0; steps < 8; steps++ {
						if nx == p {
							okChain = true
							break
						}
						if _, isIf := nx.Instrs[len(nx.Instrs)-1].(*ssa.If); !isIf || nx.Succs[0] != b || len(nx.Instrs) > 4 {
							break
						}
						nx = nx.Succs[1]
					}
				}
				if !okChain {
					r.bad(key, fnName(fn), c.pos(call.Pos()), "the dictionary reload is not under a single condition")
					return
				}
			}
			ifi, ok := p.Instrs[len(p.Instrs)-1].(*ssa.If)
			var bin *ssa.BinOp
			ok2 := false
			if ok {
				bin, ok2 = ifi.Cond.(*ssa.BinOp)
			}
			if !ok || !ok2 || bin.Op != token.NEQ || p.Succs[0] != b {
				r.bad(key, fnName(fn), c.pos(call.Pos()), "the dictionary reload is not control-dependent on thisField != lastField")
				return
			}
			// one side: Field() of the current term; other: loop-carried phi
			var cur ssa.Value
			var last *ssa.Phi
			for _, side := range []ssa.Value{bin.X, bin.Y} {
				if ph, ok := side.(*ssa.Phi); ok {
					last = ph
				} else if cl, ok := side.(*ssa.Call); ok && cl.Call.IsInvoke() && cl.Call.Method.Name() == "Field" {
					cur = side
				}
			}
			if cur == nil || last == nil {
				r.bad(key, fnName(fn), c.pos(call.Pos()), "the reload condition does not compare the term's Field() with the remembered field")
				return
			}
			// the argument of dictionary() is Field() of the same term
			arg, okArg := call.Call.Args[1].(*ssa.Call)
			if !okArg || !arg.Call.IsInvoke() || arg.Call.Method.Name() != "Field" || arg.Call.Value != cur.(*ssa.Call).Call.Value {
				r.bad(key, fnName(fn), c.pos(call.Pos()), "the dictionary is loaded for a different field than the one compared")
				return
			}
			// remembered field and dict are updated together: find the merge phis after the reload
			dictRes := tupleParts(call)[0]
			var lastUpd, dictUpd *ssa.Phi
			for _, blk := range fn.Blocks {
				for _, ins := range blk.Instrs {
					ph, ok := ins.(*ssa.Phi)
					if !ok {
						continue
					}
					for i, e := range ph.Edges {
						if e == cur && reachesWithout(b, blk.Preds[i], nil) {
							lastUpd = ph
						}
						if dictRes != nil && e == ssa.Value(dictRes) {
							dictUpd = ph
						}
					}
				}
			}
			if lastUpd == nil || dictUpd == nil || lastUpd.Block() != dictUpd.Block() {
				r.bad(key, fnName(fn), c.pos(call.Pos()), "the remembered field and the cached dictionary are not updated together after a reload")
				return
			}
			// on the no-reload edge both keep their previous values
			okKeep := true
			for i := range lastUpd.Edges {
				if lastUpd.Edges[i] == cur {
					if dictUpd.Edges[i] != ssa.Value(dictRes) {
						okKeep = false
					}
				} else {
					if _, isPhi := lastUpd.Edges[i].(*ssa.Phi); !isPhi {
						okKeep = false
					}
					if _, isPhi := dictUpd.Edges[i].(*ssa.Phi); !isPhi {
						okKeep = false
					}
				}
			}
			if !okKeep {
				r.bad(key, fnName(fn), c.pos(call.Pos()), "on some path only one of (remembered field, cached dictionary) is updated: a stale dictionary can be used for another field")
				return
			}
			r.ok(key, fnName(fn), c.pos(call.Pos()), "reload iff term.Field() != lastField; lastField and dict updated together")
			// path form of the same invariant: on every path through one iteration
			// of the term loop the remembered field changes iff the cached
			// dictionary does, and then to (this term's field, the dictionary
			// loaded for it) — an early `continue` must not leave one of them behind
			key = fnName(fn) + "/coherent-on-every-path"
			hdr := last.Block()
			var dictHdr *ssa.Phi
			for _, ins := range hdr.Instrs {
				if ph, ok := ins.(*ssa.Phi); ok && ph != last && dictRes != nil && types.Identical(ph.Type(), dictRes.Type()) {
					dictHdr = ph
				}
			}
			if !isLoopHeader(hdr) || dictHdr == nil {
				r.undecided(key, fnName(fn), c.pos(call.Pos()), "the remembered field / cached dictionary are not loop-carried values of one loop")
				return
			}
			body := loopBody(hdr)
			paths, complete := iterPaths(hdr, hdr.Succs[0], body, 4000)
			if !complete {
				r.undecided(key, fnName(fn), c.pos(call.Pos()), "too many paths through the term loop")
				return
			}
			np := 0
			for _, pth := range paths {
				if pth.exit || len(pth.blocks) == 0 {
					continue
				}
				np++
				tail := pth.blocks[len(pth.blocks)-1]
				var lastOut, dictOut ssa.Value
				for i, pr := range hdr.Preds {
					if pr == tail {
						lastOut = resolveOnPath(last.Edges[i], hdr, pth.blocks)
						dictOut = resolveOnPath(dictHdr.Edges[i], hdr, pth.blocks)
					}
				}
				lastSame, dictSame := lastOut == ssa.Value(last), dictOut == ssa.Value(dictHdr)
				switch {
				case lastSame && dictSame:
				case !lastSame && !dictSame && lastOut == cur && dictOut == ssa.Value(dictRes):
				default:
					r.bad(key, fnName(fn), c.pos(call.Pos()), "on the path "+blockList(pth.blocks)+" through one iteration the remembered field becomes "+exprSig(lastOut, 0)+" while the cached dictionary becomes "+exprSig(dictOut, 0)+": the next term of that field would be looked up in a dictionary loaded for another field")
					return
				}
			}
			if np == 0 {
				r.undecided(key, fnName(fn), c.pos(call.Pos()), "no path through the term loop")
				return
			}
			r.ok(key, fnName(fn), c.pos(call.Pos()), fmt.Sprintf("%d paths through one iteration: (lastField, dict) change together or not at all", np))
		},
	})
}

func reachesWithout(from, to, avoid *ssa.BasicBlock) bool {
	if from == to {
		return true
	}
	seen := map[*ssa.BasicBlock]bool{}
	work := []*ssa.BasicBlock{from}
	for len(work) > 0 {
		b := work[len(work)-1]
		work = work[:len(work)-1]
		if seen[b] || b == avoid {
			continue
		}
		seen[b] = true
		if b == to {
			return true
		}
		work = append(work, b.Succs...)
	}
	return false
}

// fieldCacheObject: FIELD-CACHE when the remembered field and the cached
// dictionary are two fields of an object and the lookup is its method h:
// the reload happens exactly when the asked field differs from the
// remembered one, loads the asked field, and on every path from the reload
// to a return that may report success both fields are stored (the
// dictionary with the loaded one, the remembered field with the asked one);
// nothing else stores them.
func fieldCacheObject(c *Ctx, r *Report, key string, user, h *ssa.Function) {
	call := callsOf(h, "(*Segment).dictionary")[0]
	b := call.Block()
	recv := h.Params[0]
	var asked *ssa.Parameter
	for _, p := range h.Params[1:] {
		if p.Type().String() == "string" {
			asked = p
		}
	}
	// the asked field: a string parameter, or Field() of a term parameter (every call of
	// Field() on that term denotes it)
	isAsked := func(v ssa.Value) bool { return asked != nil && v == ssa.Value(asked) }
	if asked == nil || call.Call.Args[1] != ssa.Value(asked) {
		if fc, ok := call.Call.Args[1].(*ssa.Call); ok && fc.Call.IsInvoke() && fc.Call.Method.Name() == "Field" {
			if prm, isPrm := fc.Call.Value.(*ssa.Parameter); isPrm {
				asked = prm
				isAsked = func(v ssa.Value) bool {
					c2, ok := v.(*ssa.Call)
					return ok && c2.Call.IsInvoke() && c2.Call.Method.Name() == "Field" && c2.Call.Value == ssa.Value(prm)
				}
			}
		}
		if !isAsked(call.Call.Args[1]) {
			r.bad(key, fnName(h), c.pos(call.Pos()), "the dictionary is loaded for a different field than the one asked for")
			return
		}
	}
	// stores to the object's fields
	var keyField, dictField string
	stores := map[string][]*ssa.Store{}
	for _, blk := range h.Blocks {
		for _, ins := range blk.Instrs {
			st, ok := ins.(*ssa.Store)
			if !ok {
				continue
			}
			fa, ok := st.Addr.(*ssa.FieldAddr)
			if !ok || fa.X != ssa.Value(recv) {
				continue
			}
			_, f := fieldAddrInfo(fa)
			if f == nil {
				continue
			}
			stores[f.Name()] = append(stores[f.Name()], st)
			if isAsked(st.Val) {
				keyField = f.Name()
			}
			if ex, ok := st.Val.(*ssa.Extract); ok && ex.Tuple == ssa.Value(call) && ex.Index == 0 {
				dictField = f.Name()
			}
		}
	}
	if keyField == "" || dictField == "" {
		r.bad(key, fnName(h), c.pos(call.Pos()), "the lookup does not store both the asked field and the loaded dictionary in the cache object")
		return
	}
	// reload exactly under asked != remembered
	want := "!(param:" + asked.Name() + "==." + keyField + ")"
	g := guardCanon(call, nil, nil)
	alt := "(param:" + asked.Name() + "!=." + keyField + ")"
	alt2 := "!(." + keyField + "==param:" + asked.Name() + ")"
	alt3 := "(." + keyField + "!=param:" + asked.Name() + ")"
	if g != want && g != alt && g != alt2 && g != alt3 {
		// more conditions may force a reload (`loaded && asked == remembered` answers from the cache):
		// without the edge on which the asked field equals the remembered one, no return is
		// reachable that does not pass the reload
		var eqFrom, eqTo *ssa.BasicBlock
		for _, blk := range h.Blocks {
			ifi, ok := blk.Instrs[len(blk.Instrs)-1].(*ssa.If)
			if !ok {
				continue
			}
			bo, ok := ifi.Cond.(*ssa.BinOp)
			if !ok || (bo.Op != token.EQL && bo.Op != token.NEQ) {
				continue
			}
			isKey := func(v ssa.Value) bool {
				ld, ok := v.(*ssa.UnOp)
				if !ok || ld.Op != token.MUL {
					return false
				}
				fa, ok := ld.X.(*ssa.FieldAddr)
				if !ok || fa.X != ssa.Value(recv) {
					return false
				}
				_, f := fieldAddrInfo(fa)
				return f != nil && f.Name() == keyField
			}
			if (isAsked(bo.X) && isKey(bo.Y)) || (isAsked(bo.Y) && isKey(bo.X)) {
				eqFrom = blk
				eqTo = blk.Succs[0]
				if bo.Op == token.NEQ {
					eqTo = blk.Succs[1]
				}
			}
		}
		bypass := eqFrom == nil
		if eqFrom != nil {
			seen := map[*ssa.BasicBlock]bool{h.Blocks[0]: true}
			work := []*ssa.BasicBlock{h.Blocks[0]}
			for len(work) > 0 {
				blk := work[len(work)-1]
				work = work[:len(work)-1]
				if blk == b {
					continue
				}
				if _, isRet := blk.Instrs[len(blk.Instrs)-1].(*ssa.Return); isRet {
					bypass = true
				}
				for _, sc := range blk.Succs {
					if blk == eqFrom && sc == eqTo {
						continue
					}
					if !seen[sc] {
						seen[sc] = true
						work = append(work, sc)
					}
				}
			}
		}
		if bypass {
			// the comparison may sit in a predicate method (matches(field)): boolean execution
			// with the atom "the remembered field equals a string" - a return that does not pass
			// the reload must be unreachable when the atom is false
			atoms := func(v ssa.Value) (int, bool, bool) {
				bo, ok := v.(*ssa.BinOp)
				if !ok || (bo.Op != token.EQL && bo.Op != token.NEQ) {
					return 0, false, false
				}
				isKeyLoad := func(x ssa.Value) bool {
					ld, ok := x.(*ssa.UnOp)
					if !ok || ld.Op != token.MUL {
						return false
					}
					fa, ok := ld.X.(*ssa.FieldAddr)
					if !ok {
						return false
					}
					_, f := fieldAddrInfo(fa)
					return f != nil && f.Name() == keyField
				}
				if (isKeyLoad(bo.X) || isKeyLoad(bo.Y)) && bo.X.Type().String() == "string" {
					return 0, bo.Op == token.NEQ, true
				}
				return 0, false, false
			}
			be := &boolExec{fn: h, atoms: atoms, n: 1, inline: true}
			bypass = false
			sawAtom := false
			for _, blk := range h.Blocks {
				if _, isRet := blk.Instrs[len(blk.Instrs)-1].(*ssa.Return); !isRet || blk == b || b.Dominates(blk) {
					continue
				}
				reach := be.reachableUnder(blk)
				if reach[0] {
					bypass = true
				}
				if reach[1] && !reach[0] {
					sawAtom = true
				}
			}
			if !sawAtom {
				bypass = true
			}
		}
		if bypass {
			r.bad(key, fnName(h), c.pos(call.Pos()), "the dictionary reload is governed by "+g+", not by the asked field differing from the remembered one")
			return
		}
	}
	// both stored on every path from the reload to a return that may report success
	for _, f := range []string{keyField, dictField} {
		via := map[*ssa.BasicBlock]bool{}
		for _, st := range stores[f] {
			if st.Block() != b && !b.Dominates(st.Block()) {
				r.bad(key, fnName(h), c.pos(st.Pos()), "the cache field ."+f+" is also stored outside the reload path")
				return
			}
			via[st.Block()] = true
		}
		for _, rb := range h.Blocks {
			ret, ok := rb.Instrs[len(rb.Instrs)-1].(*ssa.Return)
			if !ok || rb == h.Recover || !(rb == b || reachableWithout(b, rb, nil)) {
				continue
			}
			ev := resolveLoad(ret.Results[len(ret.Results)-1])
			if !isNilConst(ev) && knownNonNilAt(ev, rb) {
				continue // reports the failure
			}
			if !via[b] && !coveredFrom(b, via, rb) {
				r.bad(key, fnName(h), c.pos(ret.Pos()), "after a reload the return at "+c.pos(ret.Pos())+" can report success without ."+f+" having been stored: the remembered field and the cached dictionary no longer belong together, and later terms are answered from the wrong (or no) dictionary")
				return
			}
		}
	}
	r.ok(key, fnName(h), c.pos(call.Pos()), "cache object: reloaded exactly when the asked field differs from ."+keyField+"; ."+keyField+" and ."+dictField+" are stored together on every path that may report success")
}

// coderFlagAfter: the value a constructor leaves in the bool field(s) of the
// chunkedContentCoder it returns: true if some path stores true (or a parameter
// that is bound to true), false if every store is false / there is none.
func coderFlagAfter(c *Ctx, fn *ssa.Function, args []ssa.Value, depth int) (value bool, known bool) {
	if fn == nil || fn.Blocks == nil || depth > 2 {
		return false, false
	}
	known = true
	for _, b := range fn.Blocks {
		for _, ins := range b.Instrs {
			switch x := ins.(type) {
			case *ssa.Store:
				fa, ok := x.Addr.(*ssa.FieldAddr)
				if !ok {
					continue
				}
				owner, f := fieldAddrInfo(fa)
				if owner == nil || owner.Obj().Name() != "chunkedContentCoder" || f == nil || !isBoolType(f.Type()) {
					continue
				}
				switch v := x.Val.(type) {
				case *ssa.Const:
					if v.Value != nil && v.Value.Kind() == constant.Bool && constant.BoolVal(v.Value) {
						value = true
					}
				case *ssa.Parameter:
					bound := false
					for pi, prm := range fn.Params {
						if prm == v && pi < len(args) {
							if k, ok := args[pi].(*ssa.Const); ok && k.Value != nil && k.Value.Kind() == constant.Bool {
								bound = true
								if constant.BoolVal(k.Value) {
									value = true
								}
							}
						}
					}
					if !bound {
						known = false
					}
				default:
					known = false
				}
			case *ssa.Call:
				sc := x.Call.StaticCallee()
				if sc == nil || !c.inRoot(sc) || sc == fn {
					continue
				}
				if rt := x.Call.Signature().Results(); rt.Len() == 1 && strings.HasSuffix(rt.At(0).Type().String(), ".chunkedContentCoder") {
					// a constructor built on another one
					cargs := make([]ssa.Value, len(x.Call.Args))
					for i, a := range x.Call.Args {
						cargs[i] = a
						for pi, prm := range fn.Params {
							if a == ssa.Value(prm) && pi < len(args) {
								cargs[i] = args[pi]
							}
						}
					}
					v, k := coderFlagAfter(c, sc, cargs, depth+1)
					if !k {
						known = false
					}
					if v {
						value = true
					}
				}
			}
		}
	}
	return value, known
}

// splitIndexPhi: idx is a phi whose every edge is bytes.Index(b, termSeparatorSplitSlice)
// with b the value the buffer has on that same edge (buf is the phi of the same
// block, or one value on all edges).
func splitIndexPhi(idx *ssa.Phi, buf ssa.Value) bool {
	bp, _ := buf.(*ssa.Phi)
	if bp != nil && bp.Block() != idx.Block() {
		return false
	}
	for j, e := range idx.Edges {
		call, ok := e.(*ssa.Call)
		if !ok || call.Call.StaticCallee() == nil || funcFullName(call.Call.StaticCallee()) != "bytes.Index" {
			return false
		}
		if exprSig(call.Call.Args[1], 0) != "global:termSeparatorSplitSlice" {
			return false
		}
		want := buf
		if bp != nil {
			want = bp.Edges[j]
		}
		if call.Call.Args[0] != want {
			return false
		}
	}
	return len(idx.Edges) > 0
}
